package main

// C17 — application lifecycle. A real node with one instrumented application (callbacks counted, reasons
// recorded) whose members are actors that terminate on command. Random histories: start in the three modes (also
// with a member whose init fails), member terminations with normal / shutdown / crash / kill, graceful and forced
// stop, restart after stop. After every step (and quiescence) state, live group and callback log are compared with
// Model/App.lean (driver "app"); oracles: callbacks once per run, stop success only with an empty group, the mode
// rule, the reason handed to Terminate, dependencies started first.

import (
	"errors"
	"fmt"
	"strings"
	"sync"
	"time"

	"ergo.services/ergo/act"
	"ergo.services/ergo/gen"
)

func init() { props["C17"] = runC17 }

type c17member struct {
	act.Actor
	w   *c17world
	idx int
}

type c17die struct{ reason error }
type c17busy struct{ d time.Duration }

func (m *c17member) Init(args ...any) error {
	m.w.mu.Lock()
	m.w.spawned = append(m.w.spawned, m.PID())
	fail := m.w.failAt == m.idx
	m.w.initOrder = append(m.w.initOrder, m.idx)
	m.w.mu.Unlock()
	if m.w.busy > 0 && !fail {
		m.Send(m.PID(), c17busy{m.w.busy})
	}
	if fail {
		// a failing init that takes a moment: the members started before it are asleep by then
		if d := m.w.failDelay; d > 0 {
			time.Sleep(d)
		}
		return errors.New("init failed")
	}
	return nil
}

func (m *c17member) HandleMessage(from gen.PID, msg any) error {
	if d, ok := msg.(c17die); ok {
		return d.reason
	}
	if b, ok := msg.(c17busy); ok {
		time.Sleep(b.d)
	}
	if g, ok := msg.(c17gate); ok {
		close(g.entered)
		select {
		case <-g.gate:
		case <-time.After(10 * time.Second):
		}
	}
	return nil
}

// c17gate keeps a member inside a callback until the gate opens
type c17gate struct{ entered, gate chan struct{} }

type c17world struct {
	mu        sync.Mutex
	name      gen.Atom
	n         int
	failAt    int
	failDelay time.Duration
	busy      time.Duration // members are busy in a callback for this long right after their init
	unnamed   bool          // members are not registered under a name
	spawned   []gen.PID     // every member process that reached its Init
	initOrder []int
	starts    []gen.ApplicationMode
	terms     []error
	depStarts *[]string
}

type c17app struct{ w *c17world }

func (a *c17app) Load(node gen.Node, args ...any) (gen.ApplicationSpec, error) {
	w := a.w
	spec := gen.ApplicationSpec{Name: w.name, Mode: gen.ApplicationModeTemporary}
	for i := 0; i < w.n; i++ {
		i := i
		nm := gen.Atom(fmt.Sprintf("%s_m%d", w.name, i))
		if w.unnamed {
			nm = ""
		}
		spec.Group = append(spec.Group, gen.ApplicationMemberSpec{
			Name:    nm,
			Factory: func() gen.ProcessBehavior { return &c17member{w: w, idx: i} },
		})
	}
	return spec, nil
}
func (a *c17app) Start(mode gen.ApplicationMode) {
	a.w.mu.Lock()
	a.w.starts = append(a.w.starts, mode)
	a.w.mu.Unlock()
}
func (a *c17app) Terminate(reason error) {
	a.w.mu.Lock()
	a.w.terms = append(a.w.terms, reason)
	a.w.mu.Unlock()
}

func c17reasonName(e error) string {
	switch {
	case e == nil:
		return "nil"
	case e == gen.TerminateReasonNormal:
		return "normal"
	case e == gen.TerminateReasonShutdown:
		return "shutdown"
	case e == gen.TerminateReasonKill:
		return "kill"
	}
	var n int
	if _, err := fmt.Sscanf(e.Error(), "crash%d", &n); err == nil {
		return fmt.Sprintf("crash%d", n)
	}
	return "other:" + e.Error()
}

func runC17(c *Ctx) {
	r := c.R
	r.Rule = "histories of 8-30 steps on one application with 1-4 members: start (temporary/transient/permanent, optionally with a failing member init), member exit (normal/shutdown/crash/kill), stop, stop-force, restart; " +
		"state, group and callback log vs Model/App after every step; non-trivial = at least two runs and one stop triggered by the mode rule; distinct by op string"
	k, err := NewK4("c17n")
	if err != nil {
		r.Disagree("c17.node", err.Error(), nil)
		return
	}
	defer k.Stop()
	c17witnessD6(c, k)
	c17depends(c, k)
	c17failedThenStart(c, k)
	c17secondDeath(c, k)
	c17unloadWhileStopping(c, k)
	n := c.N(80, 3000)
	for it := 0; it < n; it++ {
		w := &c17world{name: k.NextName("c17app"), n: 1 + c.Rng.Intn(4), failAt: -1}
		app := &c17app{w: w}
		if _, err := k.Node.ApplicationLoad(app); err != nil {
			r.Disagree("c17.load", err.Error(), nil)
			return
		}
		lines := []string{"reset"}
		wants := []string{"ok"}
		observe := func() string {
			waitUntil(2*time.Second, func() bool {
				info, err := k.Node.ApplicationInfo(w.name)
				if err != nil {
					return true
				}
				for _, p := range info.Group {
					pi, err := k.Node.ProcessInfo(p)
					if err == nil && (pi.State != gen.ProcessStateSleep || pi.MailboxQueues.Main+pi.MailboxQueues.Urgent+pi.MailboxQueues.System > 0) {
						return false
					}
				}
				if info.State == gen.ApplicationStateStopping && len(info.Group) == 0 {
					// the last member has left the group and its goroutine is inside application.terminate, about to
					// flip the state and call Terminate: not a state to judge (if it stayed like this the wait runs out
					// and the observation is compared as it is)
					return false
				}
				return true
			})
			time.Sleep(300 * time.Microsecond)
			info, _ := k.Node.ApplicationInfo(w.name)
			var idx []int
			for _, p := range info.Group {
				pi, err := k.Node.ProcessInfo(p)
				if err != nil {
					continue
				}
				nm := string(pi.Name)
				i := 0
				if j := strings.LastIndex(nm, "_m"); j >= 0 {
					fmt.Sscanf(nm[j+2:], "%d", &i)
				}
				idx = append(idx, i)
			}
			w.mu.Lock()
			var ts []string
			for i, e := range w.terms {
				ts = append(ts, fmt.Sprintf("%d:%s", i+1, c17reasonName(e)))
			}
			ns := len(w.starts)
			w.mu.Unlock()
			t := "-"
			if len(ts) > 0 {
				t = strings.Join(ts, ",")
			}
			return fmt.Sprintf("state=%s group=%s starts=%d terms=%s", info.State, natList(idx), ns, t)
		}
		memberPid := func(i int) (gen.PID, bool) {
			info, err := k.Node.ApplicationInfo(w.name)
			if err != nil {
				return gen.PID{}, false
			}
			want := gen.Atom(fmt.Sprintf("%s_m%d", w.name, i))
			for _, p := range info.Group {
				if pi, err := k.Node.ProcessInfo(p); err == nil && pi.Name == want {
					return p, true
				}
			}
			return gen.PID{}, false
		}
		runs, ruleStops := 0, 0
		curMode := ""
		nops := 8 + c.Rng.Intn(23)
		crashN := 0
		for o := 0; o < nops; o++ {
			info, _ := k.Node.ApplicationInfo(w.name)
			x := c.Rng.Intn(100)
			switch {
			case info.State == gen.ApplicationStateLoaded && x < 75, x < 8:
				mode := []string{"temporary", "transient", "permanent"}[c.Rng.Intn(3)]
				fail := "-"
				w.mu.Lock()
				w.failAt = -1
				if c.Rng.Chance(1, 7) {
					w.failAt = c.Rng.Intn(w.n)
					fail = fmt.Sprint(w.failAt)
					w.failDelay = []time.Duration{0, 2 * time.Millisecond}[c.Rng.Intn(2)]
				}
				w.initOrder = nil
				w.mu.Unlock()
				var e error
				var hung bool
				e, hung = c17call(func() error {
					switch mode {
					case "temporary":
						return k.Node.ApplicationStartTemporary(w.name, gen.ApplicationOptions{})
					case "transient":
						return k.Node.ApplicationStartTransient(w.name, gen.ApplicationOptions{})
					}
					return k.Node.ApplicationStartPermanent(w.name, gen.ApplicationOptions{})
				})
				if hung {
					r.Violation("C17/start-hangs", "ApplicationStart did not return within 8 s (a member's init failed after others were started)", map[string]interface{}{"ops": append(append([]string(nil), lines...), fmt.Sprintf("start %s %d %s", mode, w.n, fail))})
					return
				}
				res := "ok"
				switch {
				case e == nil:
					runs++
					curMode = mode
					// members are started in spec order
					w.mu.Lock()
					for i, v := range w.initOrder {
						if v != i {
							r.Violation("C17/start-order", fmt.Sprintf("members were initialised in order %v", w.initOrder), map[string]interface{}{"ops": lines})
							break
						}
					}
					w.mu.Unlock()
				case e == gen.ErrApplicationRunning:
					res = "running"
				case e == gen.ErrApplicationState:
					res = "state"
				default:
					res = "spawn"
				}
				if res == "spawn" {
					// the members the failed start had spawned are killed; one that was busy terminates a moment later and keeps
					// its registered name until then (a start issued meanwhile fails with 'taken', which the model does not
					// follow): wait until all of them are gone
					w.mu.Lock()
					sp := append([]gen.PID(nil), w.spawned...)
					w.mu.Unlock()
					waitUntil(3*time.Second, func() bool {
						for _, pid := range sp {
							if _, err := k.Node.ProcessInfo(pid); err == nil {
								return false
							}
						}
						return true
					})
				}
				lines = append(lines, fmt.Sprintf("start %s %d %s", mode, w.n, fail))
				wants = append(wants, res+" "+observe())
				if res == "spawn" {
					// oracle: a failed start leaves no member running
					for i := 0; i < w.n; i++ {
						if _, ok := memberPid(i); ok {
							r.Violation("C17/failed-start-leaves-members", fmt.Sprintf("start failed but member %d is alive", i), map[string]interface{}{"ops": lines})
						}
					}
				}
			case x < 70:
				// a live member terminates
				var live []int
				for i := 0; i < w.n; i++ {
					if _, ok := memberPid(i); ok {
						live = append(live, i)
					}
				}
				if len(live) == 0 {
					continue
				}
				i := live[c.Rng.Intn(len(live))]
				pid, _ := memberPid(i)
				rs := []string{"normal", "shutdown", "crash", "kill"}[c.Rng.Intn(4)]
				before := info.State
				switch rs {
				case "normal":
					k.Node.Send(pid, c17die{gen.TerminateReasonNormal})
				case "shutdown":
					k.Node.Send(pid, c17die{gen.TerminateReasonShutdown})
				case "crash":
					crashN++
					rs = fmt.Sprintf("crash%d", crashN)
					k.Node.Send(pid, c17die{errors.New(rs)})
				case "kill":
					k.Node.Kill(pid)
				}
				waitUntilGone(k, pid)
				// the process table forgets the pid before the application is told: wait for the application's view
				waitUntil(2*time.Second, func() bool {
					ai, err := k.Node.ApplicationInfo(w.name)
					if err != nil {
						return true
					}
					for _, g := range ai.Group {
						if g == pid {
							return false
						}
					}
					return true
				})
				// the members that were sent a shutdown by the mode rule terminate too: record them as model steps
				obs := observe()
				lines = append(lines, fmt.Sprintf("exit %d %s", i, rs))
				after, _ := k.Node.ApplicationInfo(w.name)
				if before == gen.ApplicationStateRunning && len(live) > 1 {
					abnormal := !(rs == "normal" || rs == "shutdown")
					rule := curMode == "permanent" || (curMode == "transient" && abnormal)
					stopped := after.State != gen.ApplicationStateRunning
					if rule != stopped {
						r.Violation("C17/mode-rule", fmt.Sprintf("%s application, member exited with %s while %d members were alive: application stopped=%v, the mode's rule says %v", curMode, rs, len(live), stopped, rule),
							map[string]interface{}{"ops": append([]string(nil), lines...)})
					}
				}
				if before == gen.ApplicationStateRunning && after.State != gen.ApplicationStateRunning && len(live) > 1 {
					ruleStops++
					// model: the other members exit with shutdown, one step each, in index order
					wants = append(wants, "*")
					for _, j := range live {
						if j != i {
							lines = append(lines, fmt.Sprintf("exit %d shutdown", j))
							wants = append(wants, "*")
						}
					}
					wants[len(wants)-1] = "ok " + obs
				} else {
					wants = append(wants, "ok "+obs)
				}
			default:
				force := c.Rng.Chance(1, 3)
				var live []int
				for i := 0; i < w.n; i++ {
					if _, ok := memberPid(i); ok {
						live = append(live, i)
					}
				}
				var e error
				hung := false
				if force {
					e, hung = c17call(func() error { return k.Node.ApplicationStopForce(w.name) })
					if hung {
						r.Violation("C17/stop-force-hangs", "ApplicationStopForce did not return within 8 s (members idle)", map[string]interface{}{"ops": append(append([]string(nil), lines...), "stop 1")})
						return
					}
					// stop(force, timeout 0) returns ErrApplicationStopping at once; wait for the members to go
					waitUntil(2*time.Second, func() bool { i2, _ := k.Node.ApplicationInfo(w.name); return i2.State == gen.ApplicationStateLoaded })
				} else {
					e, hung = c17call(func() error { return k.Node.ApplicationStop(w.name) })
					if hung {
						r.Violation("C17/stop-hangs", "ApplicationStop did not return within 8 s", map[string]interface{}{"ops": append(append([]string(nil), lines...), "stop 0")})
						return
					}
				}
				obs := observe()
				info2, _ := k.Node.ApplicationInfo(w.name)
				if e == nil && (info2.State != gen.ApplicationStateLoaded || len(info2.Group) != 0) {
					r.Violation("C17/stop-success-early", fmt.Sprintf("stop returned nil with state %s and %d members", info2.State, len(info2.Group)), map[string]interface{}{"ops": lines})
				}
				lines = append(lines, fmt.Sprintf("stop %d", b2i(force)))
				if info.State == gen.ApplicationStateLoaded || len(live) == 0 {
					wants = append(wants, "ok "+obs)
				} else {
					wants = append(wants, "*")
					rs := "shutdown"
					if force {
						rs = "kill"
					}
					for _, j := range live {
						lines = append(lines, fmt.Sprintf("exit %d %s", j, rs))
						wants = append(wants, "*")
					}
					wants[len(wants)-1] = "ok " + obs
				}
			}
		}
		outs, err := Model("app", lines)
		if err != nil {
			r.Disagree("app.driver", err.Error(), nil)
			return
		}
		for i := range lines {
			if wants[i] == "*" {
				continue
			}
			if outs[i] != wants[i] {
				r.Disagree("K4 Model.App ~ node/application.go", fmt.Sprintf("op %d %q: model %q, implementation %q", i, lines[i], outs[i], wants[i]),
					map[string]interface{}{"ops": lines[:i+1], "impl": wants[:i+1]})
				break
			}
		}
		// oracle: callbacks once per run
		w.mu.Lock()
		if len(w.starts) != runs {
			r.Violation("C17/start-callback-count", fmt.Sprintf("%d successful starts, Start callback ran %d times", runs, len(w.starts)), map[string]interface{}{"ops": lines})
		}
		if len(w.terms) > runs {
			r.Violation("C17/terminate-callback-count", fmt.Sprintf("%d runs, Terminate callback ran %d times", runs, len(w.terms)), map[string]interface{}{"ops": lines})
		}
		w.mu.Unlock()
		r.Case(strings.Join(lines, "|"), runs >= 2 && ruleStops >= 1)
		if it < 2 {
			r.Sample(map[string]interface{}{"ops": lines, "impl": wants})
		}
		if _, hung := c17call(func() error { return k.Node.ApplicationStopForce(w.name) }); hung {
			r.Violation("C17/stop-force-hangs", "ApplicationStopForce did not return within 8 s (members idle)", map[string]interface{}{"ops": append(append([]string(nil), lines...), "stop 1")})
			return
		}
		waitUntil(time.Second, func() bool { i2, _ := k.Node.ApplicationInfo(w.name); return i2.State == gen.ApplicationStateLoaded })
		k.Node.ApplicationUnload(w.name)
	}
}

// c17call runs an application API call with a watchdog: a call that never returns is reported, not waited for.
func c17call(f func() error) (error, bool) {
	ch := make(chan error, 1)
	go func() { ch <- f() }()
	select {
	case e := <-ch:
		return e, false
	case <-time.After(8 * time.Second):
		return nil, true
	}
}

// c17witnessD6: run 1 (transient) ends with a crash, run 2 (temporary) ends normally: Terminate must get `normal`.
func c17witnessD6(c *Ctx, k *K4) {
	r := c.R
	w := &c17world{name: k.NextName("c17d6"), n: 1, failAt: -1}
	if _, err := k.Node.ApplicationLoad(&c17app{w: w}); err != nil {
		return
	}
	member := func() gen.PID {
		info, _ := k.Node.ApplicationInfo(w.name)
		if len(info.Group) == 0 {
			return gen.PID{}
		}
		return info.Group[0]
	}
	k.Node.ApplicationStartTransient(w.name, gen.ApplicationOptions{})
	p := member()
	k.Node.Send(p, c17die{errors.New("crash1")})
	waitUntilGone(k, p)
	waitUntil(time.Second, func() bool { i, _ := k.Node.ApplicationInfo(w.name); return i.State == gen.ApplicationStateLoaded })
	k.Node.ApplicationStartTemporary(w.name, gen.ApplicationOptions{})
	p = member()
	k.Node.Send(p, c17die{gen.TerminateReasonNormal})
	waitUntilGone(k, p)
	waitUntil(time.Second, func() bool { i, _ := k.Node.ApplicationInfo(w.name); return i.State == gen.ApplicationStateLoaded })
	time.Sleep(time.Millisecond)
	w.mu.Lock()
	defer w.mu.Unlock()
	if len(w.terms) == 2 && c17reasonName(w.terms[1]) != "normal" {
		r.Violation("C17/D6-stale-reason", fmt.Sprintf("second run ended normally but Terminate received %q (the first run's reason)", c17reasonName(w.terms[1])),
			map[string]interface{}{"witness": "start transient; member crashes; start temporary; member exits normally"})
	}
	k.Node.ApplicationUnload(w.name)
}

// c17depends: dependencies are started first. Random acyclic dependency graphs over 2-5 applications (some not
// loaded, some whose own start fails), histories of ApplicationStart / StopForce calls; after every call the result,
// the set of running applications and the Start callbacks of that call are compared with Model/AppDeps (driver
// "appdeps"); oracle: after a successful start every direct dependency is running.
func c17depends(c *Ctx, k *K4) {
	r := c.R
	rounds := c.N(40, 1500)
	var lines, wants []string
	var meta []map[string]interface{}
	for it := 0; it < rounds; it++ {
		n := 2 + c.Rng.Intn(4)
		var order []int
		var mu sync.Mutex
		names := make([]gen.Atom, n)
		loaded := make([]bool, n)
		fails := make([]bool, n)
		deps := make([][]int, n)
		for i := 0; i < n; i++ {
			names[i] = k.NextName("c17dep")
			loaded[i] = !c.Rng.Chance(1, 10)
			fails[i] = c.Rng.Chance(1, 8)
			if it < 3 { // the first graphs are fully loaded and healthy (diamonds and chains)
				loaded[i], fails[i] = true, false
			}
			if i > 0 {
				nd := c.Rng.Intn(4)
				perm := c.Rng.Perm(i)
				for j := 0; j < nd && j < len(perm); j++ {
					deps[i] = append(deps[i], perm[j])
				}
			}
		}
		bitsOf := func(b []bool) string {
			s := ""
			for _, x := range b {
				if x {
					s += "1"
				} else {
					s += "0"
				}
			}
			return s
		}
		var ds []string
		for i := range deps {
			ds = append(ds, natListOrdered(deps[i]))
		}
		specLine := fmt.Sprintf("spec %s %s %s", bitsOf(loaded), strings.Join(ds, ";"), bitsOf(fails))
		lines, wants = append(lines, specLine), append(wants, "ok")
		meta = append(meta, nil)
		for i := 0; i < n; i++ {
			if !loaded[i] {
				continue
			}
			var dn []gen.Atom
			for _, d := range deps[i] {
				dn = append(dn, names[d])
			}
			i := i
			app := &c17depApp{name: names[i], deps: dn, fail: fails[i], started: func() { mu.Lock(); order = append(order, i); mu.Unlock() }}
			if _, err := k.Node.ApplicationLoad(app); err != nil {
				r.Disagree("c17dep.load", err.Error(), nil)
				return
			}
		}
		running := func() []int {
			var rs []int
			for i := 0; i < n; i++ {
				if info, err := k.Node.ApplicationInfo(names[i]); err == nil && info.State == gen.ApplicationStateRunning {
					rs = append(rs, i)
				}
			}
			return rs
		}
		nops := 2 + c.Rng.Intn(5)
		var hist []string
		for o := 0; o < nops; o++ {
			if rs := running(); len(rs) > 0 && c.Rng.Chance(1, 3) {
				a := rs[c.Rng.Intn(len(rs))]
				k.Node.ApplicationStopForce(names[a])
				waitUntil(2*time.Second, func() bool {
					info, err := k.Node.ApplicationInfo(names[a])
					return err != nil || info.State == gen.ApplicationStateLoaded
				})
				lines, wants = append(lines, fmt.Sprintf("stop %d", a)), append(wants, "ok")
				meta = append(meta, nil)
				hist = append(hist, fmt.Sprintf("stop %d", a))
				continue
			}
			a := c.Rng.Intn(n)
			if c.Rng.Chance(1, 2) {
				a = n - 1 - c.Rng.Intn((n+1)/2) // the applications with the most dependencies
			}
			mu.Lock()
			order = nil
			mu.Unlock()
			err, hung := c17call(func() error { return k.Node.ApplicationStart(names[a], gen.ApplicationOptions{}) })
			if hung {
				r.Violation("C17/depends-start-hangs", "ApplicationStart did not return within 8 s", map[string]interface{}{"spec": specLine, "history": hist})
				return
			}
			res := "failed"
			switch err {
			case nil:
				res = "ok"
			case gen.ErrApplicationRunning:
				res = "running"
			case gen.ErrApplicationUnknown:
				res = "unknown"
			case gen.ErrApplicationDepends:
				res = "depends"
			}
			rs := running()
			mu.Lock()
			ord := append([]int(nil), order...)
			mu.Unlock()
			hist = append(hist, fmt.Sprintf("start %d", a))
			rp := map[string]interface{}{"spec": specLine, "history": append([]string(nil), hist...)}
			if res == "ok" || res == "running" {
				isRun := map[int]bool{}
				for _, x := range rs {
					isRun[x] = true
				}
				for _, d := range deps[a] {
					if !isRun[d] {
						r.Violation("C17/depends-not-started", fmt.Sprintf("ApplicationStart of application %d returned %s but its dependency %d is not running (dependencies %v, running %v)", a, res, d, deps[a], rs), rp)
					}
				}
				if res == "ok" && (len(ord) == 0 || ord[len(ord)-1] != a) {
					r.Violation("C17/depends-order", fmt.Sprintf("the Start callback of application %d was not the last one of its start (callbacks %v)", a, ord), rp)
				}
			}
			lines = append(lines, fmt.Sprintf("start %d", a))
			wants = append(wants, fmt.Sprintf("%s running=%s order=%s", res, natList(rs), natListOrdered(ord)))
			meta = append(meta, rp)
		}
		r.Case("depends/"+specLine+"/"+strings.Join(hist, ","), n >= 3 && len(hist) >= 2)
		r.Count("depends")
		for i := 0; i < n; i++ {
			if loaded[i] {
				k.Node.ApplicationStopForce(names[i])
			}
		}
		for i := 0; i < n; i++ {
			if loaded[i] {
				i := i
				waitUntil(2*time.Second, func() bool {
					info, err := k.Node.ApplicationInfo(names[i])
					return err != nil || info.State == gen.ApplicationStateLoaded
				})
				k.Node.ApplicationUnload(names[i])
			}
		}
	}
	outs, err := Model("appdeps", lines)
	if err != nil {
		r.Disagree("appdeps.driver", err.Error(), nil)
		return
	}
	for i := range lines {
		if outs[i] != wants[i] {
			r.Disagree("K2 Model.AppDeps ~ node.ApplicationStart (dependencies)", fmt.Sprintf("%q: model %q, implementation %q", lines[i], outs[i], wants[i]), meta[i])
			break
		}
	}
}

type c17depApp struct {
	name    gen.Atom
	deps    []gen.Atom
	fail    bool
	started func()
}

func (a *c17depApp) Load(node gen.Node, args ...any) (gen.ApplicationSpec, error) {
	return gen.ApplicationSpec{Name: a.name, Mode: gen.ApplicationModeTemporary, Depends: gen.ApplicationDepends{Applications: a.deps},
		Group: []gen.ApplicationMemberSpec{{Name: gen.Atom(string(a.name) + "_m"), Factory: func() gen.ProcessBehavior {
			w := &c17world{failAt: -1}
			if a.fail {
				w.failAt = 0
			}
			return &c17member{w: w}
		}}}}, nil
}
func (a *c17depApp) Start(mode gen.ApplicationMode) { a.started() }
func (a *c17depApp) Terminate(reason error) {}


// c17failedThenStart: a start that fails in a later member (the earlier ones are killed, some of them while busy, so
// they terminate a moment later) followed at once by a start that succeeds. The members of the failed start are not
// members of the new run: it must be running afterwards, with its members alive and no Terminate callback.
func c17failedThenStart(c *Ctx, k *K4) {
	r := c.R
	rounds := c.N(40, 800)
	for it := 0; it < rounds; it++ {
		w := &c17world{name: k.NextName("c17fs"), n: 2 + c.Rng.Intn(3), failAt: -1, unnamed: !c.Rng.Chance(1, 4)}
		w.busy = []time.Duration{0, 100 * time.Microsecond, 500 * time.Microsecond}[c.Rng.Intn(3)]
		app := &c17app{w: w}
		if _, err := k.Node.ApplicationLoad(app); err != nil {
			r.Disagree("c17.load", err.Error(), nil)
			return
		}
		w.mu.Lock()
		w.failAt = 1 + c.Rng.Intn(w.n-1)
		w.mu.Unlock()
		mode := []gen.ApplicationMode{gen.ApplicationModeTemporary, gen.ApplicationModeTransient, gen.ApplicationModePermanent}[c.Rng.Intn(3)]
		start := func() (error, bool) {
			return c17call(func() error {
				switch mode {
				case gen.ApplicationModeTransient:
					return k.Node.ApplicationStartTransient(w.name, gen.ApplicationOptions{})
				case gen.ApplicationModePermanent:
					return k.Node.ApplicationStartPermanent(w.name, gen.ApplicationOptions{})
				}
				return k.Node.ApplicationStartTemporary(w.name, gen.ApplicationOptions{})
			})
		}
		e1, hung := start()
		if hung {
			r.Violation("C17/start-hangs", "a failing ApplicationStart did not return within 8 s", nil)
			return
		}
		w.mu.Lock()
		failedAt := w.failAt
		w.failAt = -1
		w.mu.Unlock()
		e2, hung := start()
		if hung {
			r.Violation("C17/start-hangs", "ApplicationStart after a failed start did not return within 8 s", nil)
			return
		}
		time.Sleep(time.Duration(200+c.Rng.Intn(800)) * time.Microsecond)
		waitUntil(time.Second, func() bool {
			ai, err := k.Node.ApplicationInfo(w.name)
			if err != nil {
				return true
			}
			for _, g := range ai.Group {
				if pi, err := k.Node.ProcessInfo(g); err == nil && pi.State != gen.ProcessStateSleep {
					return false
				}
			}
			return true
		})
		ai, _ := k.Node.ApplicationInfo(w.name)
		alive := 0
		for _, g := range ai.Group {
			if _, err := k.Node.ProcessInfo(g); err == nil {
				alive++
			}
		}
		w.mu.Lock()
		ns, nt := len(w.starts), len(w.terms)
		w.mu.Unlock()
		rp := map[string]interface{}{"members": w.n, "failing_member": failedAt, "mode": fmt.Sprint(mode), "busy_after_init_us": w.busy.Microseconds(),
			"history": "ApplicationStart (member init fails) ; ApplicationStart"}
		switch {
		case e1 == nil:
			r.Violation("C17/failed-start-succeeds", "ApplicationStart returned nil although a member's init failed", rp)
		case e2 == gen.ErrTaken:
			// a killed member of the failed start still holds its registered name: the new member cannot be spawned yet
			r.Count("failed-then-start.name-still-taken")
		case e2 != nil:
			r.Violation("C17/start-after-failed-start", fmt.Sprintf("the start after a failed start returned %v", e2), rp)
		case ai.State != gen.ApplicationStateRunning || alive != w.n || ns != 1 || nt != 0:
			r.Violation("C17/stale-member-of-failed-start", fmt.Sprintf("after a failed start and a successful one the application is %s with %d of %d members alive, Start ran %d time(s), Terminate %d time(s): a member killed by the failed start was counted as the last member of the new run", ai.State, alive, w.n, ns, nt), rp)
		}
		r.Case(fmt.Sprintf("failed-then-start/%d/%d/%s/%v", w.n, failedAt, mode, w.busy), true)
		r.Count("failed-then-start")
		k.Node.ApplicationStopForce(w.name)
		waitUntil(2*time.Second, func() bool {
			ai, err := k.Node.ApplicationInfo(w.name)
			return err != nil || ai.State == gen.ApplicationStateLoaded
		})
		k.Node.ApplicationUnload(w.name)
	}
}

func c17memberPids(k *K4, w *c17world) []gen.PID {
	ai, err := k.Node.ApplicationInfo(w.name)
	if err != nil {
		return nil
	}
	return append([]gen.PID(nil), ai.Group...)
}

// c17secondDeath: "terminate callback invoked exactly once with the causing reason". A Transient or Permanent
// application stops because one member terminates; while it is stopping, another member — busy in a callback, so it has
// not seen the shutdown request yet — is killed (an abnormal termination of its own). The reason handed to Terminate is
// the one that made the application stop, not the later one.
func c17secondDeath(c *Ctx, k *K4) {
	r := c.R
	rounds := c.N(6, 120)
	for it := 0; it < rounds; it++ {
		w := &c17world{name: k.NextName("c17sd"), n: 3 + c.Rng.Intn(2), failAt: -1, unnamed: true}
		if _, err := k.Node.ApplicationLoad(&c17app{w: w}); err != nil {
			r.Disagree("c17.load", err.Error(), nil)
			return
		}
		permanent := c.Rng.Bool()
		var e error
		if permanent {
			e = k.Node.ApplicationStartPermanent(w.name, gen.ApplicationOptions{})
		} else {
			e = k.Node.ApplicationStartTransient(w.name, gen.ApplicationOptions{})
		}
		if e != nil {
			r.Disagree("c17.start", e.Error(), nil)
			return
		}
		pids := c17memberPids(k, w)
		if len(pids) != w.n {
			r.Count("c17.second-death-inconclusive")
			k.Node.ApplicationStopForce(w.name)
			continue
		}
		first, second := pids[0], pids[1+c.Rng.Intn(len(pids)-1)]
		g := c17gate{make(chan struct{}), make(chan struct{})}
		k.Node.Send(second, g)
		select {
		case <-g.entered:
		case <-time.After(5 * time.Second):
			close(g.gate)
			r.Count("c17.second-death-inconclusive")
			k.Node.ApplicationStopForce(w.name)
			continue
		}
		cause := errors.New("crash7001")
		k.Node.Send(first, c17die{cause})
		stopping := waitUntil(5*time.Second, func() bool {
			ai, err := k.Node.ApplicationInfo(w.name)
			return err == nil && ai.State == gen.ApplicationStateStopping
		})
		// the busy member dies on its own account (killed) before it has handled the shutdown request
		k.Node.Kill(second)
		close(g.gate)
		waitUntil(8*time.Second, func() bool {
			ai, err := k.Node.ApplicationInfo(w.name)
			return err == nil && ai.State == gen.ApplicationStateLoaded
		})
		w.mu.Lock()
		terms := append([]error(nil), w.terms...)
		w.mu.Unlock()
		mode := map[bool]string{true: "permanent", false: "transient"}[permanent]
		r.Case(fmt.Sprintf("second-death/%s/%d/%v", mode, w.n, second.ID-first.ID), stopping)
		r.Count("c17.second-death")
		hist := fmt.Sprintf("%s application with %d members: member 0 terminates with %q; while the application is stopping a busy member is killed", mode, w.n, cause.Error())
		rp := map[string]interface{}{"history": hist}
		switch {
		case !stopping:
			r.Count("c17.second-death-inconclusive")
		case len(terms) != 1:
			r.Violation("C17/terminate-callback-count", fmt.Sprintf("%s: Terminate ran %d times", hist, len(terms)), rp)
		case terms[0] == nil || terms[0].Error() != cause.Error():
			r.Violation("C17/terminate-reason-not-the-cause", fmt.Sprintf("%s: Terminate received %q, the application stopped because of %q", hist, c17reasonName(terms[0]), cause.Error()), rp)
		}
		k.Node.ApplicationStopForce(w.name)
		waitUntil(2*time.Second, func() bool { ai, _ := k.Node.ApplicationInfo(w.name); return ai.State == gen.ApplicationStateLoaded })
		k.Node.ApplicationUnload(w.name)
	}
}

// c17unloadWhileStopping: an application that is still stopping (a member is busy, the stop request timed out) is not
// unloaded: ApplicationUnload refuses, the last member's termination still ends the run (Terminate once, state loaded),
// and only then can it be unloaded or started again.
func c17unloadWhileStopping(c *Ctx, k *K4) {
	r := c.R
	rounds := c.N(5, 100)
	for it := 0; it < rounds; it++ {
		w := &c17world{name: k.NextName("c17us"), n: 2 + c.Rng.Intn(3), failAt: -1, unnamed: true}
		if _, err := k.Node.ApplicationLoad(&c17app{w: w}); err != nil {
			r.Disagree("c17.load", err.Error(), nil)
			return
		}
		modes := []func(gen.Atom, gen.ApplicationOptions) error{k.Node.ApplicationStartTemporary, k.Node.ApplicationStartTransient, k.Node.ApplicationStartPermanent}
		mi := c.Rng.Intn(3)
		if e := modes[mi](w.name, gen.ApplicationOptions{}); e != nil {
			r.Disagree("c17.start", e.Error(), nil)
			return
		}
		pids := c17memberPids(k, w)
		if len(pids) != w.n {
			r.Count("c17.unload-inconclusive")
			k.Node.ApplicationStopForce(w.name)
			continue
		}
		busy := pids[c.Rng.Intn(len(pids))]
		g := c17gate{make(chan struct{}), make(chan struct{})}
		k.Node.Send(busy, g)
		select {
		case <-g.entered:
		case <-time.After(5 * time.Second):
			close(g.gate)
			r.Count("c17.unload-inconclusive")
			k.Node.ApplicationStopForce(w.name)
			continue
		}
		eStop := k.Node.ApplicationStopWithTimeout(w.name, 30*time.Millisecond)
		ai, _ := k.Node.ApplicationInfo(w.name)
		eUnload := k.Node.ApplicationUnload(w.name)
		close(g.gate)
		hist := fmt.Sprintf("application with %d members (mode %d), one member busy: ApplicationStopWithTimeout(30ms) -> %v, state %s; ApplicationUnload -> %v; then the busy member finishes",
			w.n, mi, eStop, ai.State, eUnload)
		rp := map[string]interface{}{"history": hist}
		r.Case(fmt.Sprintf("unload-while-stopping/%d/%d", w.n, mi), ai.State == gen.ApplicationStateStopping)
		r.Count("c17.unload-while-stopping")
		if ai.State != gen.ApplicationStateStopping {
			r.Count("c17.unload-inconclusive")
		} else if eUnload == nil {
			r.Violation("C17/unload-while-stopping", hist+": the unload succeeded while members were still running", rp)
		}
		// the run ends when the last member is gone
		ended := waitUntil(8*time.Second, func() bool {
			a2, err := k.Node.ApplicationInfo(w.name)
			return err == nil && a2.State == gen.ApplicationStateLoaded
		})
		w.mu.Lock()
		nt := len(w.terms)
		w.mu.Unlock()
		if ai.State == gen.ApplicationStateStopping && (!ended || nt != 1) {
			a2, e2 := k.Node.ApplicationInfo(w.name)
			r.Violation("C17/stop-never-completes", fmt.Sprintf("%s: 8 s later the application is %s (%v), Terminate ran %d time(s)", hist, a2.State, e2, nt), rp)
		}
		for _, p := range pids {
			k.Node.Kill(p)
		}
		k.Node.ApplicationStopForce(w.name)
		waitUntil(2*time.Second, func() bool { a2, err := k.Node.ApplicationInfo(w.name); return err != nil || a2.State == gen.ApplicationStateLoaded })
		k.Node.ApplicationUnload(w.name)
	}
}

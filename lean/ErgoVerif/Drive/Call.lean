import ErgoVerif.Drive.Util
import ErgoVerif.Model.Call
namespace ErgoVerif.Drive.Call
open ErgoVerif.Drive ErgoVerif.Call

/-- waitResponse consumes promptly: apply `recv` while the caller waits and the channel is non-empty -/
def drain : Nat → St → St
  | 0, s => s
  | n + 1, s => match s.waiting, s.chan with
    | some _, _ :: _ => drain n (step s .recv)
    | _, _ => s

def showLast (before after : St) : String :=
  if after.returned.length > before.returned.length then
    match after.returned.head? with
    | some (r, .value v) => s!"ret {r} value {v}"
    | some (r, .timeout) => s!"ret {r} timeout"
    | none => "-"
  else "-"

/-- `reset` | `call <ref>` | `deliver <ref> <val>` (answer: ok / ignored, then the call result if one completed) | `timeout` -/
def line (s : St) (ln : String) : St × String :=
  match words ln with
  | ["reset"] => (St.init, "ok")
  | ["call", r] => match r.toNat? with
    | some r =>
      let s1 := drain 64 (step s (.call r))
      (s1, showLast s s1)
    | none => (s, "bad-op")
  | ["deliver", r, v] => match r.toNat?, v.toNat? with
    | some r, some v =>
      let s1 := step s (.deliver ⟨r, v⟩)
      let acc := if s1.delivered.length > s.delivered.length then "ok" else "ignored"
      let s2 := drain 64 s1
      (s2, acc ++ " " ++ showLast s s2)
    | _, _ => (s, "bad-op")
  | ["timeout"] =>
    let s1 := step s .timeout
    (s1, showLast s s1)
  | _ => (s, "bad-op")

def main (h : IO.FS.Stream) : IO Unit := loopState h line St.init
end ErgoVerif.Drive.Call

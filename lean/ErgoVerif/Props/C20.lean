import ErgoVerif.Model.Cron
namespace ErgoVerif.Props.C20
open ErgoVerif.Cron

theorem placeholder : (parseSpec "@daily".toList).map Spec.print = some "10 3 * * *".toList := by decide

end ErgoVerif.Props.C20

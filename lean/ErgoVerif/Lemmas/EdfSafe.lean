import ErgoVerif.Lemmas.EdfTop
namespace ErgoVerif.Edf
open ErgoVerif.Generated.Edt

mutual
/-- key types whose decoded values are always hashable: no interface anywhere inside -/
def Ty.strict : Ty → Bool
  | .bool | .num _ | .str | .atom | .idr _ | .idn _ | .time => true
  | .array _ t => t.strict
  | .named _ t => t.strict
  | .struct _ fs => fs.strict
  | _ => false
def Tys.strict : Tys → Bool
  | .nil => true
  | .cons t ts => t.strict && ts.strict
end

mutual
/-- statically panic-free types: no interface-typed position (no type descriptor is ever read while decoding
    them) and every map key type is strict -/
def Ty.pf : Ty → Bool
  | .any => false
  | .slice t => t.pf
  | .array _ t => t.pf
  | .map k v => k.strict && k.pf && v.pf
  | .named _ t => t.pf
  | .struct _ fs => fs.pf
  | _ => true
def Tys.pf : Tys → Bool
  | .nil => true
  | .cons t ts => t.pf && ts.pf
end

theorem readAtom_ne_panic (o : Opts) (bs : Bytes) : readAtom o bs ≠ .panic := by
  unfold readAtom
  split
  · simp
  · split
    · split <;> simp
    · split <;> simp

theorem decLeaf_ne_panic (o : Opts) (t : Ty) (bs : Bytes) : decLeaf o t bs ≠ .panic := by
  have ha := readAtom_ne_panic o
  cases t <;> simp only [decLeaf]
  case bool => cases bs <;> simp [decLeaf]
  case num p => split <;> simp
  case str => split <;> (try split) <;> simp
  case bin => split <;> (try split) <;> simp
  case atom => split <;> simp_all
  case idr k => split <;> (try split) <;> simp_all
  case idn k =>
    split
    · split <;> simp_all
    · simp
    · simp_all
  case time => cases bs <;> simp [decLeaf]; split <;> (try split) <;> simp
  case error => split <;> (try split) <;> (try split) <;> (try split) <;> simp
  all_goals simp

theorem iterV_ne_panic (f : Bytes → Res (Val × Bytes)) (h : ∀ bs, f bs ≠ .panic) : ∀ n bs, iterV f n bs ≠ .panic
  | 0, bs => by simp [iterV]
  | n+1, bs => by
    simp only [iterV]
    split
    · have := iterV_ne_panic f h n
      split <;> simp_all
    · simp
    · simp_all

theorem iterV_hashable (f : Bytes → Res (Val × Bytes)) (h : ∀ bs v r, f bs = .ok (v, r) → v.hashable = true) :
    ∀ n bs vs r, iterV f n bs = .ok (vs, r) → vs.hashable = true
  | 0, bs, vs, r, he => by simp [iterV] at he; rw [← he.1]; rfl
  | n+1, bs, vs, r, he => by
    simp only [iterV] at he
    split at he
    · rename_i v r1 hv
      split at he
      · rename_i vs' r2 hvs
        simp at he
        rw [← he.1]
        simp [Vals.hashable, h _ _ _ hv, iterV_hashable f h n _ _ _ hvs]
      · simp at he
      · simp at he
    · simp at he
    · simp at he

theorem iterF_ne_panic (f : Ty → Bytes → Res (Val × Bytes)) (h : ∀ t, t.pf = true → ∀ bs, f t bs ≠ .panic) :
    ∀ (fs : Tys) bs, fs.pf = true → iterF f fs bs ≠ .panic
  | .nil, bs, _ => by simp [iterF]
  | .cons t ts, bs, hp => by
    simp [Tys.pf] at hp
    simp only [iterF]
    split
    · have := iterF_ne_panic f h ts
      split <;> simp_all
    · simp
    · have := h t hp.1 bs; simp_all

theorem iterF_hashable (f : Ty → Bytes → Res (Val × Bytes))
    (h : ∀ t, t.strict = true → ∀ bs v r, f t bs = .ok (v, r) → v.hashable = true) :
    ∀ (fs : Tys) bs vs r, fs.strict = true → iterF f fs bs = .ok (vs, r) → vs.hashable = true
  | .nil, bs, vs, r, _, he => by simp [iterF] at he; rw [← he.1]; rfl
  | .cons t ts, bs, vs, r, hs, he => by
    simp [Tys.strict] at hs
    simp only [iterF] at he
    split at he
    · rename_i v r1 hv
      split at he
      · rename_i vs' r2 hvs
        simp at he
        rw [← he.1]
        simp [Vals.hashable, h t hs.1 _ _ _ hv, iterF_hashable f h ts _ _ _ hs.2 hvs]
      · simp at he
      · simp at he
    · simp at he
    · simp at he

theorem iterP_ne_panic (fk fv : Bytes → Res (Val × Bytes)) (hk : ∀ bs, fk bs ≠ .panic) (hv : ∀ bs, fv bs ≠ .panic)
    (hh : ∀ bs k r, fk bs = .ok (k, r) → k.hashable = true) : ∀ n acc bs, iterP fk fv n acc bs ≠ .panic
  | 0, acc, bs => by simp [iterP]
  | n+1, acc, bs => by
    simp only [iterP]
    split
    · rename_i k r hkk
      split
      · simp [hh _ _ _ hkk]; exact iterP_ne_panic fk fv hk hv hh n _ _
      · simp
      · simp_all
    · simp
    · simp_all

theorem decLeaf_hashable (o : Opts) (t : Ty) (bs : Bytes) (v : Val) (r : Bytes) (hs : t.strict = true)
    (he : decLeaf o t bs = .ok (v, r)) : v.hashable = true := by
  cases t <;> simp [Ty.strict] at hs <;> simp only [decLeaf, lenLt_eq, decide_eq_true_eq] at he
  case bool => cases bs <;> simp [decLeaf] at he; rw [← he.1]; rfl
  case num p => split at he <;> simp at he; rw [← he.1]; rfl
  case str => split at he <;> (try split at he) <;> simp at he; rw [← he.1]; rfl
  case atom => split at he <;> simp at he; rw [← he.1]; rfl
  case idr k => split at he <;> (try split at he) <;> simp at he; rw [← he.1]; rfl
  case idn k => split at he <;> (try split at he) <;> simp at he; rw [← he.1]; rfl
  case time => cases bs <;> simp [decLeaf] at he; split at he <;> (try split at he) <;> simp at he; rw [← he.1]; rfl
  all_goals (simp at he)


/-- the raw decoder cannot panic on a statically panic-free type, and what it decodes at a strict key type is hashable -/
theorem dec_pf (o : Opts) : ∀ (fuel : Nat) (dt : Bool) (t : Ty) (bs : Bytes),
    (t.pf = true → dec o fuel dt t bs ≠ .panic) ∧
    (t.strict = true → ∀ v r, dec o fuel dt t bs = .ok (v, r) → v.hashable = true)
  | 0, dt, t, bs => by simp [dec]
  | f+1, dt, t, bs => by
    have ihp : ∀ t', t'.pf = true → ∀ bs, dec o f false t' bs ≠ .panic := fun t' h bs => (dec_pf o f false t' bs).1 h
    have ihs : ∀ t', t'.strict = true → ∀ bs v r, dec o f false t' bs = .ok (v, r) → v.hashable = true :=
      fun t' h bs => (dec_pf o f false t' bs).2 h
    have arr : ∀ n t' bs, t'.pf = true →
        (match iterV (dec o f false t') n bs with
          | .ok (vs, r) => (Res.ok (Val.list vs, r) : Res (Val × Bytes)) | .err => .err | .panic => .panic) ≠ .panic := by
      intro n t' bs hp
      have := iterV_ne_panic _ (ihp t' hp) n bs
      split <;> simp_all
    have arrh : ∀ n t' bs v r, t'.strict = true →
        (match iterV (dec o f false t') n bs with
          | .ok (vs, r) => (Res.ok (Val.list vs, r) : Res (Val × Bytes)) | .err => .err | .panic => .panic) = .ok (v, r) →
        v.hashable = true := by
      intro n t' bs v r hs he
      split at he <;> simp at he
      rename_i vs r' hv
      rw [← he.1]
      simp [Val.hashable, iterV_hashable _ (ihs t' hs) n _ _ _ hv]
    have mp : ∀ n kt vt bs, kt.strict = true → kt.pf = true → vt.pf = true →
        (match iterP (dec o f false kt) (dec o f false vt) n .nil bs with
          | .ok (ps, r) => (Res.ok (Val.map ps, r) : Res (Val × Bytes)) | .err => .err | .panic => .panic) ≠ .panic := by
      intro n kt vt bs hs hk hv
      have := iterP_ne_panic _ _ (ihp kt hk) (ihp vt hv) (ihs kt hs) n .nil bs
      split <;> simp_all
    cases t
    case any => simp [Ty.pf, Ty.strict]
    case slice t' =>
      simp only [Ty.pf, Ty.strict, dec, Bool.false_eq_true, false_implies, and_true]
      intro hp
      cases bs with
      | nil => simp
      | cons b r =>
        simp only
        split; · simp
        split; · simp
        split; · simp
        split; · simp
        split; · simp
        exact arr _ _ _ hp
    case array n t' =>
      simp only [Ty.pf, Ty.strict, dec]
      constructor
      · intro hp
        cases bs with
        | nil => simp; split <;> simp
        | cons b r => exact arr _ _ _ hp
      · intro hs v r he
        cases bs with
        | nil => simp at he; split at he <;> simp at he; rw [← he.1]; rfl
        | cons b r' => exact arrh _ _ _ _ _ hs he
    case map kt vt =>
      simp only [Ty.pf, Ty.strict, dec, Bool.false_eq_true, false_implies, and_true, Bool.and_eq_true]
      intro hp
      cases bs with
      | nil => simp
      | cons b r =>
        simp only
        split; · simp
        split; · simp
        split; · simp
        split; · simp
        split; · simp
        exact mp _ _ _ _ hp.1.1 hp.1.2 hp.2
    case struct nm fs =>
      simp only [Ty.pf, Ty.strict, dec]
      constructor
      · intro hp
        have := iterF_ne_panic (fun t b => dec o f false t b) (fun t h bs => ihp t h bs) fs bs hp
        split <;> simp_all
      · intro hs v r he
        split at he <;> simp at he
        rename_i vs r' hv
        rw [← he.1]
        simp [Val.hashable, iterF_hashable (fun t b => dec o f false t b) (fun t h bs => ihs t h bs) fs _ _ _ hs hv]
    case marsh nm sz =>
      simp only [Ty.pf, Ty.strict, dec, Bool.false_eq_true, false_implies, and_true]
      intro _
      split; · simp
      split <;> simp
    case named nm t' =>
      cases t'
      case slice t'' =>
        simp only [Ty.pf, Ty.strict, dec, Bool.false_eq_true, false_implies, and_true]
        intro hp
        cases bs with
        | nil => simp
        | cons b r =>
          simp only
          split; · simp
          split; · simp
          split; · simp
          split; · simp
          exact arr _ _ _ hp
      case array n t'' =>
        simp only [Ty.pf, Ty.strict, dec]
        constructor
        · intro hp
          cases bs with
          | nil => simp; split <;> simp
          | cons b r => exact arr _ _ _ hp
        · intro hs v r he
          cases bs with
          | nil => simp at he; split at he <;> simp at he; rw [← he.1]; rfl
          | cons b r' => exact arrh _ _ _ _ _ hs he
      case map kt vt =>
        simp only [Ty.pf, Ty.strict, dec, Bool.false_eq_true, false_implies, and_true, Bool.and_eq_true]
        intro hp
        cases bs with
        | nil => simp
        | cons b r =>
          simp only
          split; · simp
          split; · simp
          split; · simp
          split; · simp
          split; · simp
          exact mp _ _ _ _ hp.1.1 hp.1.2 hp.2
      case bool =>
        simp only [dec, Ty.namedLeaf, Ty.pf, Ty.strict, ↓reduceIte]
        exact ⟨fun _ => decLeaf_ne_panic o _ bs, fun _ v r he => decLeaf_hashable o _ bs v r rfl he⟩
      case num p =>
        simp only [dec, Ty.namedLeaf, Ty.pf, Ty.strict, ↓reduceIte]
        exact ⟨fun _ => decLeaf_ne_panic o _ bs, fun _ v r he => decLeaf_hashable o _ bs v r rfl he⟩
      case str =>
        simp only [dec, Ty.namedLeaf, Ty.pf, Ty.strict, ↓reduceIte]
        exact ⟨fun _ => decLeaf_ne_panic o _ bs, fun _ v r he => decLeaf_hashable o _ bs v r rfl he⟩
      all_goals (simp [dec, Ty.namedLeaf, Ty.pf, Ty.strict])
    all_goals
      (simp only [dec, Ty.leafTag]
       refine ⟨fun _ => ?_, fun hs v r he => ?_⟩
       · split
         · exact decLeaf_ne_panic o _ _
         · simp
       · split at he
         · exact decLeaf_hashable o _ _ v r hs he
         · simp at he)
end ErgoVerif.Edf

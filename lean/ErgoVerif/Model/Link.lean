import ErgoVerif.Generated.Arith
/-!
Model of the ordered path of one `proto` connection (net/proto/connection.go):

  sender:   Send*/Call* compute `order` (from the sender id) and the wire byte `buf.B[6]`
            (from the receiver id); `send()` picks the pooled link
  network:  every pooled link is a FIFO byte stream; the links have arbitrary relative delay
            (event `deliver l` = the `serve()` goroutine of link `l` reads its next frame)
  receiver: `serve()` picks the receive queue from the wire byte (round robin by the link's own
            frame counter when it is 0); one worker per queue (`queue.Lock()` in serve,
            `handleRecvQueue`) pops frames in queue order and calls `core.Route*`
  pool:     `Join` appends a link; link loss removes pool[i] by `pool[i] = pool[0]; pool = pool[1:]`

All index arithmetic is the GENERATED translation of the Go expressions (`Gen.Arith`).
The model mirrors the code as it is: ids whose order byte is 0 are sent round robin.
-/
namespace ErgoVerif.Link
open ErgoVerif.Gen.Arith

structure Msg where
  src : Nat          -- from.ID
  dst : Nat          -- to.ID (or the id word the wire byte is derived from)
  seq : Nat          -- position in the global send history (for the oracle)
deriving DecidableEq, Repr

structure Frame where
  msg : Msg
  wire : Nat         -- buf.B[6]
deriving DecidableEq, Repr

def upd {α} (f : Nat → α) (i : Nat) (v : α) : Nat → α := fun j => if j = i then v else f j

structure St where
  pool : List Nat              -- c.pool (sender side), link ids in slice order
  rr : Nat                     -- c.order, the uint32 round-robin counter
  links : Nat → List Frame     -- frames in flight on each link, oldest first
  recvN : Nat → Nat            -- serve(): frames read so far on each link
  nq : Nat                     -- len(c.recvQueues) at the receiver
  queues : Nat → List Frame    -- c.recvQueues
  sent : List Msg              -- every frame handed to a link, in send order
  delivered : List Msg         -- core.Route* calls, in the order they happen

def init (pool : List Nat) (nq : Nat) : St :=
  ⟨pool, 0, fun _ => [], fun _ => 0, nq, fun _ => [], [], []⟩

inductive Ev
  | send (src dst : Nat) (keep : Bool)   -- SendPID & co. with options.KeepNetworkOrder = keep
  | deliver (l : Nat)                    -- serve() on link l handles its next frame
  | work (q : Nat)                       -- the worker of queue q handles its next frame
  | join (l : Nat)                       -- Join(): c.pool = append(c.pool, pi)
  | drop (i : Nat)                       -- link loss: c.pool[i] = c.pool[0]; c.pool = c.pool[1:]
  | redial (i l : Nat)                   -- dialing side: the lost link of slot i is re-dialed (`pi.connection = nc`): new link l
deriving DecidableEq, Repr

/-- `order` / `orderPeer` of SendPID: the id-derived byte, or 0 when KeepNetworkOrder is off -/
def orderOf (id : Nat) (keep : Bool) : Nat := if keep then orderByte id else 0

/-- send(): the link a frame with link order `order` is written to, and the new counter -/
def chooseLink (s : St) (order : Nat) : Nat × Nat :=
  if roundRobin order then
    let neworder := (s.rr + 1) % 4294967296          -- atomic.AddUint32(&c.order, 1)
    (s.pool.getD (poolIndexRR neworder s.pool.length) 0, neworder)
  else (s.pool.getD (poolIndex order s.pool.length) 0, s.rr)

def step (s : St) : Ev → St
  | .send src dst keep =>
    if s.pool.length = 0 then s           -- gen.ErrNoConnection, nothing written
    else
      let m : Msg := ⟨src, dst, s.sent.length⟩
      let fr : Frame := ⟨m, orderOf dst keep⟩
      let c := chooseLink s (orderOf src keep)
      { s with rr := c.2, links := upd s.links c.1 (s.links c.1 ++ [fr]), sent := s.sent ++ [m] }
  | .deliver l =>
    match s.links l with
    | [] => s
    | fr :: rest =>
      let n := s.recvN l + 1                                -- recvN++
      let q := queueIndex fr.wire n s.nq
      { s with links := upd s.links l rest, recvN := upd s.recvN l n,
               queues := upd s.queues q (s.queues q ++ [fr]) }
  | .work q =>
    match s.queues q with
    | [] => s
    | fr :: rest => { s with queues := upd s.queues q rest, delivered := s.delivered ++ [fr.msg] }
  | .join l => { s with pool := s.pool ++ [l] }
  | .drop i =>
    if i < s.pool.length then { s with pool := (s.pool.set i (s.pool.getD 0 0)).tail } else s
  | .redial i l => { s with pool := s.pool.set i l }    -- frames still buffered on the old link may yet be read by the peer

def run (s : St) : List Ev → St
  | [] => s
  | e :: es => run (step s e) es

def Ev.isPoolChange : Ev → Bool
  | .join _ => true
  | .drop _ => true
  | .redial _ _ => true
  | _ => false

/-- messages of the pair (src, dst) -/
def pair (src dst : Nat) (m : Msg) : Bool := m.src = src && m.dst = dst

end ErgoVerif.Link

/-
Mailbox of a process (gen/mailbox.go: queues Main / System / Urgent / Log; queue codes Urgent 0, System 1,
Main 2, Log 3) and the message selection of `ProcessRun` (act/actor.go:150-187 and the same loop in
supervisor.go, pool.go, web_worker.go): for every single message the queues are polled in a fixed order and the
first non-empty one yields its oldest element.
-/
namespace ErgoVerif.Mailbox

structure Msg where
  sender : Nat
  prio : Nat        -- 0 normal, 1 high, 2 max (gen.MessagePriority*); exit / inspect go straight to queue 0
  queue : Nat       -- the queue it was pushed into
  seq : Nat         -- per sender sequence number
deriving DecidableEq, Repr

/-- priority → queue as coded in every local delivery function (tied to Gen.Prio.prioMaps by C03_same_queue) -/
def queueOfPrio (p : Nat) : Nat := if p = 2 then 0 else if p = 1 then 1 else 2

/-- mailbox: queue code ↦ FIFO list, oldest first -/
structure MB where
  q : Nat → List Msg

def MB.empty : MB := ⟨fun _ => []⟩

/-- lib/mpsc.go Push into the message's queue (the total order of pushes is given by the head swaps) -/
def MB.push (mb : MB) (m : Msg) : MB := ⟨fun k => if k = m.queue then mb.q k ++ [m] else mb.q k⟩

/-- one round of the dequeue loop: poll the queues in `order`, take the oldest message of the first non-empty one -/
def pick (mb : MB) : List Nat → Option (Msg × MB)
  | [] => none
  | k :: ks => match mb.q k with
    | m :: rest => some (m, ⟨fun j => if j = k then rest else mb.q j⟩)
    | [] => pick mb ks

inductive Op
  | push (m : Msg)
  | pick
deriving Repr

/-- history: pushes and picks in any interleaving; `handled` in handling order -/
structure St where
  mb : MB
  handled : List Msg
  pushed : List Msg

def St.init : St := ⟨MB.empty, [], []⟩

def step (order : List Nat) (s : St) : Op → St
  | .push m => { s with mb := s.mb.push m, pushed := s.pushed ++ [m] }
  | .pick => match pick s.mb order with
    | some (m, mb') => { s with mb := mb', handled := s.handled ++ [m] }
    | none => s

def runOps (order : List Nat) (s : St) (ops : List Op) : St := ops.foldl (step order) s

end ErgoVerif.Mailbox

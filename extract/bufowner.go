package main

import (
	"fmt"
	"go/ast"
)

// Generated/BufOwner.lean: net/proto/connection.go — a frame builder takes a buffer from the pool, fills it and hands it
// to c.send, which owns it from then on (send releases it once the bytes are written, and releases the uncompressed
// original when it replaces it by the compressed one). The hand-off is final when the call is the operand of a
// `return`: nothing of the builder runs after it.

func init() {
	generators = append(generators, generator{name: "BufOwner", run: genBufOwner,
		fallback: "namespace ErgoVerif.Gen.BufOwner\ndef sendCalls : Nat := 0\ndef sendCallsReturned : Nat := 0\ndef notReturned : List String := [\"?\"]\nend ErgoVerif.Gen.BufOwner\n"})
}

func genBufOwner() (string, error) {
	f, err := parseFile("net/proto/connection.go")
	if err != nil {
		return "", err
	}
	calls, returned := 0, 0
	var bad []string
	for _, d := range f.Decls {
		fd, ok := d.(*ast.FuncDecl)
		if !ok || fd.Body == nil || fd.Name.Name == "send" {
			continue
		}
		inReturn := map[*ast.CallExpr]bool{}
		ast.Inspect(fd.Body, func(n ast.Node) bool {
			if rs, ok := n.(*ast.ReturnStmt); ok && len(rs.Results) == 1 {
				if ce, ok := rs.Results[0].(*ast.CallExpr); ok && exprStr(ce.Fun) == "c.send" {
					inReturn[ce] = true
				}
			}
			return true
		})
		ast.Inspect(fd.Body, func(n ast.Node) bool {
			if ce, ok := n.(*ast.CallExpr); ok && exprStr(ce.Fun) == "c.send" {
				calls++
				if inReturn[ce] {
					returned++
				} else {
					bad = append(bad, fd.Name.Name)
				}
			}
			return true
		})
	}
	if calls == 0 {
		return "", fmt.Errorf("no call of c.send in net/proto/connection.go")
	}
	q := "["
	for i, b := range bad {
		if i > 0 {
			q += ", "
		}
		q += fmt.Sprintf("%q", b)
	}
	q += "]"
	return fmt.Sprintf("namespace ErgoVerif.Gen.BufOwner\n/-- calls of c.send in the frame builders of connection.go / those that are the operand of a return -/\ndef sendCalls : Nat := %d\ndef sendCallsReturned : Nat := %d\n/-- builders that do something after c.send returned -/\ndef notReturned : List String := %s\nend ErgoVerif.Gen.BufOwner\n", calls, returned, q), nil
}

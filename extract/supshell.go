package main

import (
	"fmt"
	"go/ast"
	"strings"
)

// Generated/SupShell.lean: the shell around the supervisor state machines — Supervisor.handleAction
// (act/supervisor.go) executes the actions the machines return. The harness's closed-system simulation re-implements
// this shell around the real machines; the statement skeleton of every case is regenerated so that a change of the
// real shell is seen even where the real-node scenarios do not reach it.

func init() {
	generators = append(generators, generator{name: "SupShell", run: genSupShell,
		fallback: "namespace ErgoVerif.Gen.SupShell\ndef caseShapes : List String := []\nend ErgoVerif.Gen.SupShell\n"})
}

func genSupShell() (string, error) {
	f, err := parseFile("act/supervisor.go")
	if err != nil {
		return "", err
	}
	fd := funcDecl(f, "Supervisor", "handleAction")
	if fd == nil {
		return "", fmt.Errorf("Supervisor.handleAction not found")
	}
	var shapes []string
	ast.Inspect(fd.Body, func(n ast.Node) bool {
		sw, ok := n.(*ast.SwitchStmt)
		if !ok || exprStr(sw.Tag) != "action.do" {
			return true
		}
		for _, st := range sw.Body.List {
			cc := st.(*ast.CaseClause)
			var names []string
			for _, e := range cc.List {
				names = append(names, exprStr(e))
			}
			if len(names) == 0 {
				names = []string{"default"}
			}
			shapes = append(shapes, strings.Join(names, ",")+": "+stmtShape(cc.Body))
		}
		return false
	})
	if len(shapes) == 0 {
		return "", fmt.Errorf("switch action.do not found in handleAction")
	}
	q := make([]string, len(shapes))
	for i, s := range shapes {
		q[i] = fmt.Sprintf("%q", s)
	}
	return "namespace ErgoVerif.Gen.SupShell\n/-- statement skeleton of every case of `switch action.do` in Supervisor.handleAction -/\ndef caseShapes : List String := [\n  " + strings.Join(q, ",\n  ") + "]\nend ErgoVerif.Gen.SupShell\n", nil
}

package main

import (
	"fmt"
	"go/ast"
	"go/token"
)

// Generated/App.lean: does application.start clear the termination reason of the previous run?

func init() {
	generators = append(generators, generator{name: "App", run: genApp, fallback: "namespace ErgoVerif.Gen.App\ndef startResetsReason : Bool := false\nend ErgoVerif.Gen.App\n"})
}

func genApp() (string, error) {
	f, err := parseFile("node/application.go")
	if err != nil {
		return "", err
	}
	fd := funcDecl(f, "application", "start")
	if fd == nil {
		return "", fmt.Errorf("application.start not found")
	}
	resets := false
	ast.Inspect(fd.Body, func(n ast.Node) bool {
		as, ok := n.(*ast.AssignStmt)
		if !ok || as.Tok != token.ASSIGN || len(as.Lhs) != 1 || len(as.Rhs) != 1 {
			return true
		}
		if selName(as.Lhs[0]) == "a.reason" {
			if id, ok := as.Rhs[0].(*ast.Ident); ok && id.Name == "nil" {
				resets = true
			}
		}
		return true
	})
	return fmt.Sprintf("namespace ErgoVerif.Gen.App\n/-- application.start assigns `a.reason = nil` -/\ndef startResetsReason : Bool := %s\nend ErgoVerif.Gen.App\n", leanBool(resets)), nil
}

/-
Identity-level model of lib/mpsc.go (`queueMPSC` / `queueLimitMPSC`): a Vyukov multi-producer
single-consumer list at the granularity of its atomic operations.

`Push` = length++ ; `swap` (atomic SwapPointer on head: fixes the item's position in the total
order) ; `link` (atomic StorePointer old_head.next: makes the item reachable from its predecessor).
`Pop` (single consumer) returns the item after `tail` iff it has been linked.
An item is identified by (producer, seq); `seq` is the producer's own push counter.
-/
namespace ErgoVerif.Mpsc

structure Item where
  producer : Nat
  seq : Nat
deriving DecidableEq, Repr

structure Cell where
  item : Item
  linked : Bool
deriving DecidableEq, Repr

structure Q where
  cells : List Cell        -- every item ever swapped in, in swap order
  popped : Nat             -- the consumer has taken the first `popped` of them
  limit : Option Nat       -- queueLimitMPSC: Push refuses when length+1 > limit
  refused : List Item      -- items whose Push returned false
  pushedBy : Nat → Nat     -- per producer: number of pushes begun (accepted or refused)

def Q.init (limit : Option Nat) : Q := ⟨[], 0, limit, [], fun _ => 0⟩

/-- `length` field: incremented before the swap, decremented after a pop -/
def Q.length (q : Q) : Nat := q.cells.length - q.popped

/-- the limit check of queueLimitMPSC.Push: `q.Len()+1 > q.limit` -/
def Q.full (q : Q) : Bool :=
  match q.limit with
  | some l => decide (q.length + 1 > l)
  | none => false

inductive Op
  | swap (p : Nat)        -- producer p: limit check passed (or unlimited), length++, head swap
  | refuse (p : Nat)      -- producer p: limit check failed, Push returns false
  | link (i : Nat)        -- the producer of cell i stores the predecessor's next pointer
  | pop                   -- consumer
deriving Repr

def setLinked : List Cell → Nat → List Cell
  | [], _ => []
  | c :: cs, 0 => { c with linked := true } :: cs
  | c :: cs, n + 1 => c :: setLinked cs n

/-- result of a step: new queue and, for `pop`, what the consumer got -/
def step (q : Q) : Op → Option (Q × Option Item)
  | .swap p =>
    if q.full then none else
    let it : Item := ⟨p, q.pushedBy p⟩
    some ({ q with cells := q.cells ++ [⟨it, false⟩],
                   pushedBy := fun x => if x = p then q.pushedBy p + 1 else q.pushedBy x }, none)
  | .refuse p =>
    if !q.full then none else
    let it : Item := ⟨p, q.pushedBy p⟩
    some ({ q with refused := it :: q.refused,
                   pushedBy := fun x => if x = p then q.pushedBy p + 1 else q.pushedBy x }, none)
  | .link i =>
    if i < q.cells.length then some ({ q with cells := setLinked q.cells i }, none) else none
  | .pop =>
    match q.cells[q.popped]? with
    | some c => if c.linked then some ({ q with popped := q.popped + 1 }, some c.item)
                else some (q, none)          -- tail.next == nil: looks empty
    | none => some (q, none)

/-- run a list of operations, collecting what the consumer received -/
def runQ : Q → List Op → Option (Q × List Item)
  | q, [] => some (q, [])
  | q, o :: os => match step q o with
    | none => none
    | some (q', got) => match runQ q' os with
      | none => none
      | some (q'', rest) => some (q'', (match got with | some i => [i] | none => []) ++ rest)

end ErgoVerif.Mpsc

import ErgoVerif.Generated.Hs
/-
Model of the handshake message reader, net/handshake/handshake.go `readMessage`:

    var b [4096]byte; expect := 6
    for {
      if len(chunk) < expect { n, err := conn.Read(b[:]); if err != nil { return err }; chunk = append(chunk, b[:n]...); continue }
      if chunk[0] != handshakeMagic   { return "malformed handshake packet" }
      if chunk[1] != handshakeVersion { return "mismatch handshake version" }
      l := int(binary.BigEndian.Uint32(chunk[2:6]))
      if l > math.MaxUint16 { return "too long handshake message" }
      if len(chunk) < 6+l { expect = 6 + l; continue }
      return edf.Decode(chunk[6:], edf.Options{})
    }

The connection is the list of results of the successive `conn.Read` calls (each a byte string of at
most `readBuf` bytes; when the list is exhausted the next Read fails: EOF or deadline).  Go's partial
operations (index, slice) are explicit: they produce `panic` when out of range.  All numbers come
from Generated/Hs.lean (extracted from the source on every run).
-/
namespace ErgoVerif.HsReader
open ErgoVerif.Generated

abbrev Bytes := List UInt8

inductive Res
  | ok (payload : Bytes)     -- the bytes handed to edf.Decode: chunk[payloadOff:]
  | errRead                  -- conn.Read returned an error (EOF, deadline, reset)
  | errMagic | errVersion | errTooLong
  | panic                    -- an index or slice expression out of range
  deriving DecidableEq, Repr

structure Outcome where
  res : Res
  peak : Nat      -- largest len(chunk) reached (what `append` has to hold)
  reads : Nat     -- number of conn.Read calls made
  deriving DecidableEq, Repr

/-- `chunk[i]` -/
def idx (c : Bytes) (i : Nat) : Option UInt8 := c[i]?

/-- `binary.BigEndian.Uint32(chunk[lo:hi])`: the slice expression panics unless lo ≤ hi ≤ len, Uint32 panics unless hi-lo ≥ 4 -/
def be32 (c : Bytes) (lo hi : Nat) : Option Nat :=
  if lo ≤ hi ∧ hi ≤ c.length ∧ 4 ≤ hi - lo then
    match c.drop lo with
    | a :: b :: d :: e :: _ => some (a.toNat * 16777216 + b.toNat * 65536 + d.toNat * 256 + e.toNat)
    | _ => none
  else none

/-- one evaluation of the loop body's header part on a chunk that has at least `expect` bytes -/
inductive Hdr
  | panic | errMagic | errVersion | errTooLong
  | need (n : Nat)          -- message incomplete: expect := needBase + l
  | done (payload : Bytes)
  deriving DecidableEq, Repr

def header (chunk : Bytes) : Hdr :=
  match idx chunk Hs.magicOff with
  | none => .panic
  | some m =>
    if m.toNat ≠ Hs.handshakeMagic then .errMagic else
    match idx chunk Hs.versionOff with
    | none => .panic
    | some v =>
      if v.toNat ≠ Hs.handshakeVersion then .errVersion else
      match be32 chunk Hs.lenLo Hs.lenHi with
      | none => .panic
      | some l =>
        if l > Hs.maxLen then .errTooLong
        else if chunk.length < Hs.needBase + l then .need (Hs.needBase + l)
        else if Hs.payloadOff ≤ chunk.length then .done (chunk.drop Hs.payloadOff) else .panic

/-- the loop (the header of a chunk is looked at once between two reads) -/
def loop (chunk : Bytes) (expect : Nat) (conn : List Bytes) (peak reads : Nat) : Outcome :=
  if chunk.length < expect then
    match conn with
    | [] => ⟨.errRead, peak, reads + 1⟩
    | r :: rest =>
      let chunk' := chunk ++ r.take Hs.readBuf
      loop chunk' expect rest (max peak chunk'.length) (reads + 1)
  else
    match header chunk with
    | .panic => ⟨.panic, peak, reads⟩
    | .errMagic => ⟨.errMagic, peak, reads⟩
    | .errVersion => ⟨.errVersion, peak, reads⟩
    | .errTooLong => ⟨.errTooLong, peak, reads⟩
    | .done p => ⟨.ok p, peak, reads⟩
    | .need n =>
      -- expect = needBase + l; continue  — the next iteration reads (len(chunk) < expect holds)
      match conn with
      | [] => ⟨.errRead, peak, reads + 1⟩
      | r :: rest =>
        let chunk' := chunk ++ r.take Hs.readBuf
        loop chunk' n rest (max peak chunk'.length) (reads + 1)
termination_by structural conn

/-- `readMessage(conn, timeout, chunk)` -/
def readMessage (chunk : Bytes) (conn : List Bytes) : Outcome :=
  loop chunk Hs.headerLen conn chunk.length 0

/-- big-endian 32-bit encoding, `binary.BigEndian.PutUint32` -/
def be32enc (n : Nat) : Bytes :=
  [UInt8.ofNat (n / 16777216 % 256), UInt8.ofNat (n / 65536 % 256), UInt8.ofNat (n / 256 % 256), UInt8.ofNat (n % 256)]

/-- net/handshake/handshake.go writeMessage: `buf.B[0] = magic; buf.B[1] = version; PutUint32(buf.B[2:6], len(payload))`
    followed by the EDF payload -/
def frame (p : Bytes) : Bytes :=
  UInt8.ofNat Hs.handshakeMagic :: UInt8.ofNat Hs.handshakeVersion :: (be32enc p.length ++ p)

/-- Time. If the i-th read returns after `delays[i]`, the time spent in the first `n` reads is, depending on where
    `readMessage` arms its read deadline (`pm`, regenerated as Generated.Hs.deadlinePerMessage):
    * once for the whole message (`pm`): the reads share one deadline — whatever is still outstanding when it passes
      fails at once, so the total is capped by the timeout;
    * afresh before EVERY `conn.Read` (`¬pm`, the code before the repair): each read is capped on its own. -/
def elapsed (pm : Bool) (timeout : Nat) (delays : List Nat) (n : Nat) : Nat :=
  if pm then min (delays.take n).sum timeout
  else ((delays.take n).map (fun d => min d timeout)).sum

end ErgoVerif.HsReader

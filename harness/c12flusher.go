package main

import (
	"bufio"
	"bytes"
	"fmt"
	"strings"
	"sync"
	"time"

	"ergo.services/ergo/lib"
)

// c12flusher: lib/flusher.go (the writer every connection writes its frames through) against Model/Flusher.
//  A  bufio.Writer itself (the stdlib part of the model): random Write / Flush sequences on a real bufio.Writer of
//     size 16 / 64 / 4096 — the chunks the underlying writer gets are the model's, chunk by chunk.
//  B  the real lib.NewFlusher / NewFlusherWithKeepAlive with its real timer over a recording writer: random frame sizes
//     around and above the buffer size, random pauses. Oracles (the theorems' statements): the recorded byte stream is
//     the writes in order (keep-alives only between two writes, never inside one); nothing stays buffered. Refinement:
//     some placement of timer runs between the writes makes the model produce exactly the recorded chunks (found by a
//     search in the harness, judged by the Lean model).

type recWriter struct {
	mu     sync.Mutex
	chunks [][]byte
	total  int
}

func (w *recWriter) Write(p []byte) (int, error) {
	w.mu.Lock()
	w.chunks = append(w.chunks, append([]byte(nil), p...))
	w.total += len(p)
	w.mu.Unlock()
	return len(p), nil
}

func (w *recWriter) snapshot() ([][]byte, int) {
	w.mu.Lock()
	defer w.mu.Unlock()
	return append([][]byte(nil), w.chunks...), w.total
}

func flPayload(start, n int) []byte {
	b := make([]byte, n)
	for i := range b {
		b[i] = byte((start + i) % 251)
	}
	return b
}

func flSig(c []byte) string {
	h := 7
	for _, b := range c {
		h = (h*31 + int(b) + 1) % 1000003
	}
	return fmt.Sprintf("%d:%d", len(c), h)
}

func flSigs(cs [][]byte) string {
	if len(cs) == 0 {
		return "-"
	}
	s := make([]string, len(cs))
	for i, c := range cs {
		s[i] = flSig(c)
	}
	return strings.Join(s, ",")
}

type flWrite struct {
	Start int `json:"start"`
	N     int `json:"len"`
}

// the harness's own copy of the model, used only to SEARCH for a placement of timer runs; the verdict is the Lean model's
type flSim struct {
	cap     int
	ka      []byte
	buf     []byte
	out     [][]byte
	pending bool
	armed   bool
}

func (s *flSim) clone() *flSim {
	c := *s
	c.buf = append([]byte(nil), s.buf...)
	c.out = append([][]byte(nil), s.out...)
	return &c
}

func (s *flSim) bufWrite(p []byte) {
	if len(p) <= s.cap-len(s.buf) {
		s.buf = append(s.buf, p...)
		return
	}
	if len(s.buf) == 0 {
		s.out = append(s.out, p)
		return
	}
	n := s.cap - len(s.buf)
	s.out = append(s.out, append(append([]byte(nil), s.buf...), p[:n]...))
	s.buf = nil
	p = p[n:]
	if len(p) <= s.cap {
		s.buf = append(s.buf, p...)
	} else {
		s.out = append(s.out, p)
	}
}

func (s *flSim) flush() {
	if len(s.buf) > 0 {
		s.out = append(s.out, s.buf)
		s.buf = nil
	}
}

func (s *flSim) write(p []byte) {
	s.bufWrite(p)
	if !s.pending {
		s.armed = true
	}
	s.pending = true
}

func (s *flSim) fire() {
	if !s.armed {
		return
	}
	s.armed = false
	if s.pending {
		s.flush()
		s.pending = false
		s.armed = true
		return
	}
	if s.ka != nil {
		s.bufWrite(s.ka)
		s.flush()
		s.armed = true
	}
}

func (s *flSim) prefixOf(obs [][]byte) bool {
	if len(s.out) > len(obs) {
		return false
	}
	for i := range s.out {
		if !bytes.Equal(s.out[i], obs[i]) {
			return false
		}
	}
	return true
}

// flExplain searches for numbers of timer runs after each write (and before the first) that make the model produce obs
func flExplain(cap int, ka []byte, ws []flWrite, obs [][]byte) ([]string, bool) {
	s0 := &flSim{cap: cap, ka: ka, armed: true}
	budget := 200000
	var rec func(i int, s *flSim, ev []string) ([]string, bool)
	rec = func(i int, s *flSim, ev []string) ([]string, bool) {
		budget--
		if budget < 0 {
			return nil, false
		}
		// k timer runs at this point; more runs only add chunks, so stop at the first k that contradicts the recording
		maxK := 1
		if ka != nil {
			maxK = len(obs) + 1
		}
		for k := 0; k <= maxK; k++ {
			t := s.clone()
			e := append([]string(nil), ev...)
			for j := 0; j < k; j++ {
				t.fire()
				e = append(e, "fire")
			}
			if !t.prefixOf(obs) {
				break
			}
			if i == len(ws) {
				if len(t.out) == len(obs) && len(t.buf) == 0 {
					return e, true
				}
				continue
			}
			u := t.clone()
			u.write(flPayload(ws[i].Start, ws[i].N))
			if u.prefixOf(obs) {
				if r, ok := rec(i+1, u, append(e, fmt.Sprintf("w %d %d", ws[i].Start, ws[i].N))); ok {
					return r, true
				}
			}
		}
		return nil, false
	}
	return rec(0, s0, nil)
}

func c12flusher(c *Ctx) {
	r := c.R
	// ---- A: bufio.Writer vs bufWrite / bufFlush
	nA := c.N(150, 3000)
	var lines, wants []string
	for it := 0; it < nA; it++ {
		cap := []int{16, 64, 4096}[c.Rng.Intn(3)]
		rec := &recWriter{}
		bw := bufio.NewWriterSize(rec, cap)
		lines = append(lines, fmt.Sprintf("new %d -", cap))
		wants = append(wants, "ok")
		nops := 3 + c.Rng.Intn(12)
		var key []string
		for o := 0; o < nops; o++ {
			before := len(rec.chunks)
			if c.Rng.Intn(4) == 0 {
				bw.Flush()
				lines = append(lines, "fire")
				key = append(key, "f")
			} else {
				var n int
				switch c.Rng.Intn(4) {
				case 0:
					n = c.Rng.Intn(cap/4 + 1)
				case 1:
					n = cap - 2 + c.Rng.Intn(5)
				case 2:
					n = c.Rng.Intn(3*cap + 1)
				default:
					n = 1 + c.Rng.Intn(cap)
				}
				st := c.Rng.Intn(251)
				bw.Write(flPayload(st, n))
				lines = append(lines, fmt.Sprintf("w %d %d", st, n))
				key = append(key, fmt.Sprintf("w%d", n))
			}
			wants = append(wants, fmt.Sprintf("ok %s buf=%d", flSigs(rec.chunks[before:]), bw.Buffered()))
		}
		r.Case(fmt.Sprintf("bufio/%d/%s", cap, strings.Join(key, ",")), len(rec.chunks) > 1)
	}
	outs, err := Model("flusher", lines)
	if err != nil {
		r.Disagree("flusher.driver", err.Error(), nil)
		return
	}
	for i := range lines {
		got := outs[i]
		if j := strings.Index(got, " pending="); j >= 0 {
			got = got[:j]
		}
		if got != wants[i] {
			lo := i
			for lo > 0 && !strings.HasPrefix(lines[lo], "new") {
				lo--
			}
			r.Disagree("K2 Model.Flusher.bufWrite ~ bufio.Writer", fmt.Sprintf("op %q: model %q, bufio %q", lines[i], got, wants[i]),
				map[string]interface{}{"ops": lines[lo : i+1], "bufio": wants[lo : i+1]})
			break
		}
	}
	// ---- B: the real flusher with its real timer
	nB := c.N(60, 1500)
	ka := []byte{253, 254, 255}
	type flBatch struct {
		from, n int
		want    string
		empty   bool
	}
	var batch []flBatch
	var batchLines []string
	for it := 0; it < nB; it++ {
		// NewFlusherWithKeepAlive is NOT run here: its first timer run is due 3us after time.AfterFunc returns and uses
		// f.timer, which the constructor stores only after AfterFunc has returned — when the constructing goroutine is
		// delayed in between, the callback dereferences a nil timer and the process dies (seen on the first loaded run
		// of this part). That is outside the listed properties (only meta tcp/port use the keep-alive variant), so it is
		// recorded in DESIGN.md and the keep-alive variant is tied by its regenerated statement skeleton only.
		withKA := false
		rec := &recWriter{}
		var w interface{ Write([]byte) (int, error) }
		if withKA {
			w = lib.NewFlusherWithKeepAlive(rec, ka, 150*time.Microsecond)
		} else {
			w = lib.NewFlusher(rec)
		}
		nw := 3 + c.Rng.Intn(25)
		burst := it%3 == 1
		var ws []flWrite
		var hist []byte
		var bounds = map[int]bool{0: true}
		for k := 0; k < nw; k++ {
			var n int
			switch c.Rng.Intn(5) {
			case 0:
				n = 1 + c.Rng.Intn(64)
			case 1:
				n = 1 + c.Rng.Intn(1500)
			case 2:
				n = 4090 + c.Rng.Intn(12)
			case 3:
				n = 4097 + c.Rng.Intn(16000)
			default:
				n = 1 + c.Rng.Intn(4096)
			}
			st := c.Rng.Intn(251)
			p := flPayload(st, n)
			if m, err := w.Write(p); err != nil || m != n {
				r.Violation("C12/flusher-write-result", fmt.Sprintf("Write of %d bytes returned (%d, %v)", n, m, err), map[string]interface{}{"writes": ws})
			}
			ws = append(ws, flWrite{st, n})
			hist = append(hist, p...)
			bounds[len(hist)] = true
			if burst {
				continue // back to back: a frame is often still buffered when the next one comes
			}
			switch c.Rng.Intn(6) {
			case 0:
				time.Sleep(2 * time.Millisecond)
			case 1:
				time.Sleep(100 * time.Microsecond)
			case 2:
				for t0 := time.Now(); time.Since(t0) < 2*time.Microsecond; {
				}
			}
		}
		// nothing stays buffered: the pending flush comes by itself
		ok := waitUntil(10*time.Second, func() bool {
			cs, _ := rec.snapshot()
			n := 0
			for _, ch := range cs {
				if !(withKA && bytes.Equal(ch, ka)) {
					n += len(ch)
				}
			}
			return n >= len(hist)
		})
		obs, _ := rec.snapshot()
		rp := map[string]interface{}{"keepalive": withKA, "writes_start_len": ws, "recorded_chunks": flSigs(obs),
			"how": "lib.NewFlusher(recording writer); Write(payload(start,len)) for each entry, byte i = (start+i)%251; compare the recorded bytes with the concatenation"}
		var payload []byte
		kaInside := false
		for _, ch := range obs {
			if withKA && bytes.Equal(ch, ka) {
				if !bounds[len(payload)] {
					kaInside = true
				}
				continue
			}
			payload = append(payload, ch...)
		}
		if !ok {
			r.Violation("C12/flusher-stranded", fmt.Sprintf("%d of %d accepted bytes were not given to the connection within 10s of the last write", len(hist)-len(payload), len(hist)), rp)
			continue
		}
		if !bytes.Equal(payload, hist) {
			at := 0
			for at < len(payload) && at < len(hist) && payload[at] == hist[at] {
				at++
			}
			r.Violation("C12/flusher-stream", fmt.Sprintf("the bytes given to the connection are not the accepted writes in order: %d written, %d recorded, first difference at offset %d", len(hist), len(payload), at), rp)
			continue
		}
		if kaInside {
			r.Violation("C12/flusher-keepalive-inside-frame", "a keep-alive was written between two parts of one Write", rp)
			continue
		}
		// refinement: a placement of timer runs explains the chunks; judged by the Lean model
		var kap []byte
		kas := "-"
		if withKA {
			kap = ka
			kas = "253,254,255"
			// keep-alives after the last write are timing only: cut the recording after the last payload chunk
			last := -1
			for i, ch := range obs {
				if !bytes.Equal(ch, ka) {
					last = i
				}
			}
			obs = obs[:last+1]
		}
		ev, found := flExplain(4096, kap, ws, obs)
		if !found {
			r.Disagree("K2 Model.Flusher ~ lib.flusher (no placement of timer runs reproduces the chunks)", fmt.Sprintf("%d writes, %d recorded chunks %s", len(ws), len(obs), flSigs(obs)), rp)
			continue
		}
		ml := append([]string{fmt.Sprintf("new 4096 %s", kas)}, ev...)
		batch = append(batch, flBatch{from: len(batchLines), n: len(ml), want: flSigs(obs), empty: len(obs) == 0})
		batchLines = append(batchLines, ml...)
		nf := 0
		for _, e := range ev {
			if e == "fire" {
				nf++
			}
		}
		r.Case(fmt.Sprintf("flusher/%v/%d/%d/%s", withKA, len(ws), nf, flSigs(obs)), len(obs) > 1)
		r.CountN("flusher.timer-runs-placed", nf)
		r.CountN("flusher.chunks", len(obs))
	}
	// one run of the Lean model over all recorded histories: its chunks must be the recorded ones
	mo, err := Model("flusher", batchLines)
	if err != nil {
		r.Disagree("flusher.driver", err.Error(), nil)
		return
	}
	for _, b := range batch {
		var mchunks []string
		for _, o := range mo[b.from+1 : b.from+b.n] {
			f := strings.Fields(o)
			if len(f) >= 2 && f[1] != "-" {
				mchunks = append(mchunks, f[1])
			}
		}
		if got := strings.Join(mchunks, ","); got != b.want && !(b.empty && got == "") {
			r.Disagree("K2 Model.Flusher ~ lib.flusher", fmt.Sprintf("model chunks %q, recorded %q", got, b.want),
				map[string]interface{}{"events": batchLines[b.from : b.from+b.n], "recorded": b.want})
			break
		}
	}
}

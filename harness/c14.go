package main

// C14 — remote failure detection.
//  part 1 (K2): random operation sequences on the real gen.TargetManager against Model.TM, with an
//               independent set oracle for CleanupNode (exactly one report per relation whose target lived
//               on the lost node and whose holder did not; holder-side relations vanish silently).
//  part 2 (K5): incarnation guard of every guarded connection method (see c14_guard.go)
//  part 3     : two real nodes over loopback (see c14_nodes.go)

func init() { props["C14"] = runC14 }

func runC14(c *Ctx) {
	r := c.R
	r.Rule = "K2: random sequences (5..60 ops) of the 11 TargetManager operations over a small colliding universe " +
		"(2-4 nodes, 3-8 holder pids with two incarnations, 4-11 targets of the six dynamic types) -> every answer compared with Model.TM; " +
		"non-trivial = the sequence contains at least one Cleanup* operation; distinct by the op list"
	tmK2(c, c.N(1500, 30000), c.N(55, 90))
	for _, f := range c14Parts {
		f(c)
	}
}

var c14Parts []func(*Ctx)

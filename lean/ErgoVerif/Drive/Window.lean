import ErgoVerif.Drive.Util
import ErgoVerif.Model.Window
import ErgoVerif.Model.SupDefaults
import ErgoVerif.Generated.SupDefaults
namespace ErgoVerif.Drive.Window
open ErgoVerif.Drive ErgoVerif.Window

/-- `check <intensity> <periodMs> <now> <restarts>` → `<restarts'> <0|1>` -/
def line (s : String) : String :=
  match words s with
  | ["check", k, p, now, rs] =>
    match k.toNat?, p.toInt?, now.toInt?, parseIntList? rs with
    | some k, some p, some now, some rs =>
      let r := check rs now p k
      s!"{showIntList r.1} {if r.2 then 1 else 0}"
    | _, _, _, _ => "bad-op"
  | ["spec", k, p, ts] =>     -- verdict sequence of the specification over a whole history
    match k.toNat?, p.toInt?, parseIntList? ts with
    | some k, some p, some ts =>
      " ".intercalate ((runSpec p k [] ts).map fun b => if b then "1" else "0")
    | _, _, _ => "bad-op"
  | ["eff", i, p] =>          -- the restart options the state machines get for the options the developer wrote
    match i.toNat?, p.toNat? with
    | some i, some p =>
      -- the RULE (a zero field means its default, independently of the other field) with the regenerated default
      -- constants: what the harness expects of the implementation, whatever shape the code has
      let e := ErgoVerif.SupDefaults.eff true
        ErgoVerif.Gen.SupDefaults.defaultIntensity ErgoVerif.Gen.SupDefaults.defaultPeriod i p
      s!"{e.1} {e.2}"
    | _, _ => "bad-op"
  | _ => "bad-op"

def main (h : IO.FS.Stream) : IO Unit := loopPure h line

end ErgoVerif.Drive.Window

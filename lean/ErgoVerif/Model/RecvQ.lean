import ErgoVerif.Common
/-
The receive queue of a proto connection (net/proto/connection.go): `serve` (one reader goroutine per pooled
link) pushes every frame into the queue chosen by its order byte and then tries to take the queue's lock;
whoever gets the lock starts a worker (`go c.handleRecvQueue(queue)`). The worker pops and handles frames until
the queue is empty, releases the lock, looks at the queue once more and, when something arrived meanwhile, tries
to take the lock back.

Counting abstraction: any number of readers, any number of worker goroutines, one counter per program point;
the queue and the handled frames are lists (frame numbers) so that order is visible. Every queue operation is
one atomic step (lib.QueueMPSC: Push / Pop / Item / Lock (a try-lock) / Unlock).

`ub` (unlock before the re-check) is the code shape regenerated from the source (Generated/RecvQ.lean):
  true  : Pop=none; Unlock; Item==nil → exit; Lock fails → exit; continue           (the code as it is)
  false : Pop=none; Item!=nil → continue; Unlock; exit                              (re-check under the lock)
-/
namespace ErgoVerif.RecvQ

structure Cfg where
  q : List Nat          -- frames in the queue, oldest first
  locked : Bool
  sent : List Nat       -- every frame pushed so far, in push order
  handled : List Nat    -- frames handled by workers, in order
  rPushed : Nat         -- readers between Push and Lock
  wPop : Nat            -- workers about to Pop (they hold the lock)
  wEmpty : Nat          -- workers that popped nothing
  wUnl : Nat            -- ub: workers that released the lock and have not looked at the queue yet
  wSaw : Nat            -- ub: workers that saw an item after unlocking and will try the lock
  wNil : Nat            -- ¬ub: workers that saw an empty queue under the lock and will unlock and exit
deriving Repr, DecidableEq

def Cfg.init : Cfg := ⟨[], false, [], [], 0, 0, 0, 0, 0, 0⟩

inductive Lbl
  | rPush (m : Nat) | rLockOk | rLockFail
  | wPopSome | wPopNone | wUnlock | wItemNil | wItemSome | wLockOk | wLockFail
deriving Repr, DecidableEq

def step (ub : Bool) (c : Cfg) : Lbl → Option Cfg
  | .rPush m => some { c with q := c.q ++ [m], sent := c.sent ++ [m], rPushed := c.rPushed + 1 }
  | .rLockOk =>
    if c.rPushed = 0 then none else if c.locked then none
    else some { c with locked := true, rPushed := c.rPushed - 1, wPop := c.wPop + 1 }
  | .rLockFail =>
    if c.rPushed = 0 then none else if c.locked then some { c with rPushed := c.rPushed - 1 } else none
  | .wPopSome =>
    if c.wPop = 0 then none else
    match c.q with
    | [] => none
    | m :: rest => some { c with q := rest, handled := c.handled ++ [m] }
  | .wPopNone =>
    if c.wPop = 0 then none else
    match c.q with
    | [] => some { c with wPop := c.wPop - 1, wEmpty := c.wEmpty + 1 }
    | _ :: _ => none
  | .wUnlock =>
    if ub then
      if c.wEmpty = 0 then none else some { c with locked := false, wEmpty := c.wEmpty - 1, wUnl := c.wUnl + 1 }
    else
      if c.wNil = 0 then none else some { c with locked := false, wNil := c.wNil - 1 }
  | .wItemNil =>
    if ub then
      if c.wUnl = 0 then none else
      match c.q with
      | [] => some { c with wUnl := c.wUnl - 1 }
      | _ :: _ => none
    else
      if c.wEmpty = 0 then none else
      match c.q with
      | [] => some { c with wEmpty := c.wEmpty - 1, wNil := c.wNil + 1 }
      | _ :: _ => none
  | .wItemSome =>
    if ub then
      if c.wUnl = 0 then none else
      match c.q with
      | [] => none
      | _ :: _ => some { c with wUnl := c.wUnl - 1, wSaw := c.wSaw + 1 }
    else
      if c.wEmpty = 0 then none else
      match c.q with
      | [] => none
      | _ :: _ => some { c with wEmpty := c.wEmpty - 1, wPop := c.wPop + 1 }
  | .wLockOk =>
    if c.wSaw = 0 then none else if c.locked then none
    else some { c with locked := true, wSaw := c.wSaw - 1, wPop := c.wPop + 1 }
  | .wLockFail =>
    if c.wSaw = 0 then none else if c.locked then some { c with wSaw := c.wSaw - 1 } else none

/-- nobody is between two queue operations: every reader has dealt with the lock, every worker has exited -/
def Cfg.quiescent (c : Cfg) : Prop :=
  c.rPushed = 0 ∧ c.wPop = 0 ∧ c.wEmpty = 0 ∧ c.wUnl = 0 ∧ c.wSaw = 0 ∧ c.wNil = 0

instance (c : Cfg) : Decidable c.quiescent := by unfold Cfg.quiescent; infer_instance

end ErgoVerif.RecvQ

package main

import (
	"fmt"
	"strings"
	"go/ast"
	"go/token"
)

// Generated/App.lean: does application.start clear the termination reason of the previous run?

func init() {
	generators = append(generators, generator{name: "App", run: genApp, fallback: "namespace ErgoVerif.Gen.App\ndef startResetsReason : Bool := false\ndef causeAfterStoppingGuard : Bool := false\ndef unloadOnlyFromLoaded : Bool := false\nend ErgoVerif.Gen.App\n"})
}

func genApp() (string, error) {
	f, err := parseFile("node/application.go")
	if err != nil {
		return "", err
	}
	fd := funcDecl(f, "application", "start")
	if fd == nil {
		return "", fmt.Errorf("application.start not found")
	}
	resets := false
	ast.Inspect(fd.Body, func(n ast.Node) bool {
		as, ok := n.(*ast.AssignStmt)
		if !ok || as.Tok != token.ASSIGN || len(as.Lhs) != 1 || len(as.Rhs) != 1 {
			return true
		}
		if selName(as.Lhs[0]) == "a.reason" {
			if id, ok := as.Rhs[0].(*ast.Ident); ok && id.Name == "nil" {
				resets = true
			}
		}
		return true
	})
	// terminate(): in every case of `switch a.mode` that records the cause (`a.reason = reason`), the assignment comes
	// after the "already in stopping -> break" guard
	td := funcDecl(f, "application", "terminate")
	if td == nil {
		return "", fmt.Errorf("application.terminate not found")
	}
	guarded, cases := 0, 0
	ast.Inspect(td.Body, func(n ast.Node) bool {
		cc, ok := n.(*ast.CaseClause)
		if !ok {
			return true
		}
		assignAt, guardAt := -1, -1
		for i, st := range cc.Body {
			if as, ok := st.(*ast.AssignStmt); ok && len(as.Lhs) == 1 && selName(as.Lhs[0]) == "a.reason" && assignAt < 0 {
				assignAt = i
			}
			if is, ok := st.(*ast.IfStmt); ok && guardAt < 0 {
				cond := exprStr(is.Cond)
				hasBreak := false
				for _, b := range is.Body.List {
					if br, ok := b.(*ast.BranchStmt); ok && br.Tok == token.BREAK {
						hasBreak = true
					}
				}
				if hasBreak && contains(cond, "ApplicationStateStopping") {
					guardAt = i
				}
			}
		}
		if assignAt >= 0 {
			cases++
			if guardAt >= 0 && guardAt < assignAt {
				guarded++
			}
		}
		return true
	})
	// ApplicationUnload goes through tryUnload = CAS(loaded -> 0)
	nf, err := parseFile("node/node.go")
	if err != nil {
		return "", err
	}
	unloadOK := false
	if ud := funcDecl(nf, "node", "ApplicationUnload"); ud != nil && callsTo(ud.Body, "tryUnload") {
		if tu := funcDecl(f, "application", "tryUnload"); tu != nil {
			sh := stmtShape(tu.Body.List)
			src := ""
			ast.Inspect(tu.Body, func(n ast.Node) bool {
				if c, ok := n.(*ast.CallExpr); ok && exprStr(c.Fun) == "atomic.CompareAndSwapInt32" && len(c.Args) == 3 {
					src = exprStr(c.Args[1]) + "->" + exprStr(c.Args[2])
				}
				return true
			})
			unloadOK = sh == "return" && src == "int32(gen.ApplicationStateLoaded)->0"
		}
	}
	return fmt.Sprintf("namespace ErgoVerif.Gen.App\n/-- application.start assigns `a.reason = nil` -/\ndef startResetsReason : Bool := %s\n/-- terminate(): every mode case that records the cause does so after its \"already stopping -> break\" guard (%d of %d) -/\ndef causeAfterStoppingGuard : Bool := %s\n/-- ApplicationUnload succeeds only through CAS(loaded -> 0) -/\ndef unloadOnlyFromLoaded : Bool := %s\nend ErgoVerif.Gen.App\n",
		leanBool(resets), guarded, cases, leanBool(cases > 0 && guarded == cases), leanBool(unloadOK)), nil
}

func contains(s, sub string) bool { return strings.Contains(s, sub) }

import ErgoVerif.Lemmas.EdfReenc
namespace ErgoVerif.Edf
open ErgoVerif.Generated.Edt

theorem encB_leaf' (o : Opts) (t : Ty) (tag : UInt8) (h : t.leafTag = some tag) (v : Val) (hv : ¬ (t = .error ∧ v = .nil)) :
    encB o t v = encLeaf o t v := by
  cases t <;> simp [Ty.leafTag] at h <;> cases v <;> simp_all [encB]

theorem encB_namedLeaf' (o : Opts) (nm : Bytes) (t : Ty) (h : t.namedLeaf = true) (v : Val) :
    encB o (.named nm t) v = encLeaf o t v := by
  cases t <;> simp [Ty.namedLeaf] at h <;> cases v <;> simp [encB, Ty.namedLeaf]

theorem checkTag_len (dt : Bool) (tag : UInt8) (bs r : Bytes) (h : checkTag dt tag bs = some r) : r.length ≤ bs.length := by
  unfold checkTag at h
  split at h
  · split at h
    · split at h <;> simp at h; subst h; simp
    · simp at h
  · simp at h; subst h; omega

/-- every successful decode yields a value of bounded depth, does not grow the input, and the value re-encodes -/
theorem dec_inv (o : Opts) (hd : DecSideOK o) : ∀ (f : Nat) (dt : Bool) (t : Ty) (bs : Bytes) (v : Val) (r : Bytes),
    dec o f dt t bs = .ok (v, r) → Inv o t f bs v r
  | 0, dt, t, bs, v, r, h => by simp [dec] at h
  | f+1, dt, t, bs, v, r, h => by
    intro hL
    have ih : ∀ t' bs v r, dec o f false t' bs = .ok (v, r) → Inv o t' f bs v r :=
      fun t' bs v r h => dec_inv o hd f false t' bs v r h
    -- slice-like tail
    have sl : ∀ (t' : Ty) (n : Nat) (bs' : Bytes), bs'.length ≤ bs.length →
        (match iterV (dec o f false t') n bs' with
          | .ok (vs, r) => (Res.ok (Val.list vs, r) : Res (Val × Bytes)) | .err => .err | .panic => .panic) = .ok (v, r) →
        ∃ vs, v = .list vs ∧ vs.depth ≤ f ∧ r.length ≤ bs'.length ∧ vs.length = n ∧ (encs o t' vs).isSome = true := by
      intro t' n bs' hle he
      split at he <;> simp at he
      rename_i vs r' hv
      obtain ⟨rfl, rfl⟩ := he
      obtain ⟨a, b, c, d⟩ := iterV_inv o t' f _ (ih t') n _ _ _ hv (by omega)
      exact ⟨vs, rfl, a, b, c, d⟩
    have mp : ∀ (kt vt : Ty) (n : Nat) (bs' : Bytes), bs'.length ≤ bs.length →
        (match iterP (dec o f false kt) (dec o f false vt) n .nil bs' with
          | .ok (ps, r) => (Res.ok (Val.map ps, r) : Res (Val × Bytes)) | .err => .err | .panic => .panic) = .ok (v, r) →
        ∃ ps, v = .map ps ∧ ps.depth ≤ f ∧ r.length ≤ bs'.length ∧ (encp o kt vt ps).isSome = true := by
      intro kt vt n bs' hle he
      split at he <;> simp at he
      rename_i ps r' hv
      obtain ⟨rfl, rfl⟩ := he
      obtain ⟨a, b, c⟩ := iterP_inv o kt vt f _ _ (ih kt) (ih vt) n .nil _ _ _ hv (by omega) (by simp [Pairs.depth]) (by simp [encp])
      exact ⟨ps, rfl, a, b, c⟩
    cases t
    case any =>
      simp only [dec, lenLt_eq, decide_eq_true_eq] at h
      split at h
      · rename_i r0 dt' hg
        simp at h; obtain ⟨rfl, rfl⟩ := h
        have := getDecoder_nil_inv o dt bs _ _ hg
        exact ⟨by simp [Val.depth], by omega, by simp [encB]⟩
      · rename_i t' r0 dt' hg
        obtain ⟨henc, hlt⟩ := getDecoder_inv o hd dt bs t' r0 dt' hg
        split at h
        · rename_i v0 r1 hv0
          obtain ⟨d0, l0, e0⟩ := dec_inv o hd f dt' t' r0 v0 r1 hv0 (by omega)
          split at h
          · rename_i hany
            simp at h; obtain ⟨rfl, rfl⟩ := h
            subst hany
            exact ⟨by omega, by omega, e0⟩
          · rename_i hany
            split at h
            · simp at h; obtain ⟨rfl, rfl⟩ := h
              exact ⟨by simp [Val.depth], by omega, by simp [encB]⟩
            · rename_i hnn
              simp at h; obtain ⟨rfl, rfl⟩ := h
              refine ⟨by simp [Val.depth]; omega, by omega, ?_⟩
              have hnn' : ¬ (t' = .error ∧ v0 = .nil) := hnn
              cases hb : encB o t' v0 with
              | none => simp [hb] at e0
              | some b =>
                have : (t' == Ty.error && v0 == Val.nil) = false := by
                  cases h1 : (t' == Ty.error) <;> cases h2 : (v0 == Val.nil) <;> simp_all
                simp [encB, henc, hany, this, hb]
        · simp at h
        · simp at h
      · simp at h
      · simp at h
    case slice t' =>
      simp only [dec, lenLt_eq, decide_eq_true_eq] at h
      cases bs with
      | nil => simp at h
      | cons b r0 =>
        simp only at h
        split at h
        · simp at h; obtain ⟨rfl, rfl⟩ := h
          exact ⟨by simp [Val.depth], by simp, by simp [encB]⟩
        · split at h; · simp at h
          split at h; · simp at h
          rename_i n r' h32
          obtain ⟨_, hl⟩ := rd32_inv _ _ _ h32
          split at h
          · simp at h; obtain ⟨rfl, rfl⟩ := h
            exact ⟨by simp [Val.depth, Vals.depth], by simp; omega, by simp [encB, encs]⟩
          · split at h; · simp at h
            obtain ⟨vs, rfl, a, b', c, d⟩ := sl t' n r' (by simp; omega) h
            refine ⟨by simp [Val.depth]; omega, by simp; omega, ?_⟩
            cases hb : encs o t' vs with
            | none => simp [hb] at d
            | some e => simp [encB, hb]
    case array n t' =>
      simp only [dec, lenLt_eq, decide_eq_true_eq] at h
      cases bs with
      | nil =>
        simp at h
        split at h <;> simp at h
        rename_i hn
        obtain ⟨rfl, rfl⟩ := h
        subst hn
        exact ⟨by simp [Val.depth, Vals.depth], by simp, by simp [encB, encs, Vals.length]⟩
      | cons b r0 =>
        simp only at h
        obtain ⟨vs, rfl, a, b', c, d⟩ := sl t' n (b :: r0) (by simp) h
        refine ⟨by simp [Val.depth]; omega, b', ?_⟩
        cases hb : encs o t' vs with
        | none => simp [hb] at d
        | some e => simp [encB, hb, c]
    case map kt vt =>
      simp only [dec, lenLt_eq, decide_eq_true_eq] at h
      cases bs with
      | nil => simp at h
      | cons b r0 =>
        simp only at h
        split at h
        · simp at h; obtain ⟨rfl, rfl⟩ := h
          exact ⟨by simp [Val.depth], by simp, by simp [encB]⟩
        · split at h; · simp at h
          split at h; · simp at h
          rename_i n r' h32
          obtain ⟨_, hl⟩ := rd32_inv _ _ _ h32
          split at h
          · simp at h; obtain ⟨rfl, rfl⟩ := h
            exact ⟨by simp [Val.depth, Pairs.depth], by simp; omega, by simp [encB, encp]⟩
          · split at h; · simp at h
            obtain ⟨ps, rfl, a, b', d⟩ := mp kt vt n r' (by simp; omega) h
            refine ⟨by simp [Val.depth]; omega, by simp; omega, ?_⟩
            cases hb : encp o kt vt ps with
            | none => simp [hb] at d
            | some e => simp [encB, hb]
    case struct nm fs =>
      simp only [dec, lenLt_eq, decide_eq_true_eq] at h
      split at h <;> simp at h
      rename_i vs r' hv
      obtain ⟨rfl, rfl⟩ := h
      obtain ⟨a, b', d⟩ := iterF_inv o f _ (fun t bs v r h => ih t bs v r h) fs _ _ _ hv hL
      refine ⟨by simp [Val.depth]; omega, b', ?_⟩
      simpa [encB] using d
    case marsh nm sz =>
      simp only [dec, lenLt_eq, decide_eq_true_eq] at h
      split at h; · simp at h
      rename_i l r0 h32
      obtain ⟨_, hl⟩ := rd32_inv _ _ _ h32
      split at h <;> simp at h
      obtain ⟨rfl, rfl⟩ := h
      refine ⟨by simp [Val.depth], by simp; omega, ?_⟩
      simp [encB, limBinaryEnc]; omega
    case named nm t' =>
      cases t'
      case slice t'' =>
        simp only [dec, lenLt_eq, decide_eq_true_eq] at h
        cases bs with
        | nil => simp at h
        | cons b r0 =>
          simp only at h
          split at h
          · simp at h; obtain ⟨rfl, rfl⟩ := h
            exact ⟨by simp [Val.depth], by simp, by simp [encB]⟩
          · split at h; · simp at h
            split at h; · simp at h
            rename_i n r' h32
            obtain ⟨_, hl⟩ := rd32_inv _ _ _ h32
            split at h; · simp at h
            obtain ⟨vs, rfl, a, b', c, d⟩ := sl t'' n r' (by simp; omega) h
            refine ⟨by simp [Val.depth]; omega, by simp; omega, ?_⟩
            cases hb : encs o t'' vs with
            | none => simp [hb] at d
            | some e => simp [encB, hb]
      case array n t'' =>
        simp only [dec, lenLt_eq, decide_eq_true_eq] at h
        cases bs with
        | nil =>
          simp at h
          split at h <;> simp at h
          rename_i hn
          obtain ⟨rfl, rfl⟩ := h
          subst hn
          exact ⟨by simp [Val.depth, Vals.depth], by simp, by simp [encB, encs, Vals.length]⟩
        | cons b r0 =>
          simp only at h
          obtain ⟨vs, rfl, a, b', c, d⟩ := sl t'' n (b :: r0) (by simp) h
          refine ⟨by simp [Val.depth]; omega, b', ?_⟩
          cases hb : encs o t'' vs with
          | none => simp [hb] at d
          | some e => simp [encB, hb, c]
      case map kt vt =>
        simp only [dec, lenLt_eq, decide_eq_true_eq] at h
        cases bs with
        | nil => simp at h
        | cons b r0 =>
          simp only at h
          split at h
          · simp at h; obtain ⟨rfl, rfl⟩ := h
            exact ⟨by simp [Val.depth], by simp, by simp [encB]⟩
          · split at h; · simp at h
            split at h; · simp at h
            rename_i n r' h32
            obtain ⟨_, hl⟩ := rd32_inv _ _ _ h32
            split at h
            · simp at h; obtain ⟨rfl, rfl⟩ := h
              exact ⟨by simp [Val.depth, Pairs.depth], by simp; omega, by simp [encB, encp]⟩
            · split at h; · simp at h
              obtain ⟨ps, rfl, a, b', d⟩ := mp kt vt n r' (by simp; omega) h
              refine ⟨by simp [Val.depth]; omega, by simp; omega, ?_⟩
              cases hb : encp o kt vt ps with
              | none => simp [hb] at d
              | some e => simp [encB, hb]
      case bool =>
        simp only [dec, Ty.namedLeaf, ↓reduceIte] at h
        obtain ⟨a, b', c⟩ := decLeaf_inv o hd _ _ _ _ h
        refine ⟨by omega, b', ?_⟩
        rw [encB_namedLeaf' o nm _ rfl]
        rcases c with ⟨hc, _⟩ | c
        · cases hc
        · exact c
      case num p =>
        simp only [dec, Ty.namedLeaf, ↓reduceIte] at h
        obtain ⟨a, b', c⟩ := decLeaf_inv o hd _ _ _ _ h
        refine ⟨by omega, b', ?_⟩
        rw [encB_namedLeaf' o nm _ rfl]
        rcases c with ⟨hc, _⟩ | c
        · cases hc
        · exact c
      case str =>
        simp only [dec, Ty.namedLeaf, ↓reduceIte] at h
        obtain ⟨a, b', c⟩ := decLeaf_inv o hd _ _ _ _ h
        refine ⟨by omega, b', ?_⟩
        rw [encB_namedLeaf' o nm _ rfl]
        rcases c with ⟨hc, _⟩ | c
        · cases hc
        · exact c
      all_goals (simp [dec, Ty.namedLeaf] at h)
    all_goals
      (simp only [dec, Ty.leafTag] at h
       split at h
       · rename_i r0 hct
         have hlen := checkTag_len _ _ _ _ hct
         obtain ⟨a, b', c⟩ := decLeaf_inv o hd _ _ _ _ h
         refine ⟨by omega, by omega, ?_⟩
         rcases c with ⟨hc, hv⟩ | c
         · first
             | (cases hc; done)
             | (subst hv; simp [encB])
         · by_cases hx : v = .nil
           · subst hx; simp [encLeaf] at c
           · rw [encB_leaf' o _ _ rfl v (by intro hh; exact hx hh.2)]; exact c
       · simp at h)
end ErgoVerif.Edf

package main

// C20 — real-time smoke run (thorough tier only, ≤ ~65 s): a cron object made by createCron with its timer
// left armed; jobs are added before the first tick and the harness waits for the wall-clock minute boundary.
// Checks the actual timer path end to end: what runs at the first armed minute, with which action time, how often.

import (
	"fmt"
	"sync"
	"time"

	"ergo.services/ergo/gen"
	"ergo.services/ergo/node"
)

func init() { c20parts = append(c20parts, c20Smoke) }

func c20Smoke(c *Ctx) {
	if !c.Thorough() {
		return
	}
	r := c.R
	berlin, err := time.LoadLocation("Europe/Berlin")
	if err != nil {
		r.Note("smoke: no zone data: %v", err)
		return
	}
	if time.Now().Second() > 53 {
		time.Sleep(8 * time.Second)
	}
	var mu sync.Mutex
	var fired []c20fire
	act := c20action{&mu, &fired}
	vc := node.VerifNewCronLive()
	defer vc.Stop()
	cr := vc.Cron()
	T := vc.Next()
	if T.IsZero() || time.Until(T) > time.Minute || time.Until(T) < 2*time.Second {
		r.Count("smoke.inconclusive")
		r.Note("smoke: c.next=%s at %s, skipped", T, time.Now())
		return
	}
	tb := T.In(berlin)
	tu := T.UTC()
	otherWd := c20cronWd(tu)%7 + 1
	specs := map[int]struct {
		spec string
		loc  *time.Location
	}{
		1: {"* * * * *", time.UTC},
		2: {fmt.Sprintf("%d %d * * *", tb.Minute(), tb.Hour()), berlin},
		3: {fmt.Sprintf("%d * * * *", tu.Add(time.Minute).Minute()), time.UTC},
		4: {"* * * * *", time.UTC},
		5: {"* * * * *", berlin},
		6: {"* * * * *", time.UTC},
		7: {fmt.Sprintf("* * %d * %d", tu.Day(), otherWd), time.UTC},
		8: {fmt.Sprintf("* * %d * %d", tu.AddDate(0, 0, 1).Day(), otherWd), time.UTC},
	}
	lines := []string{fmt.Sprintf("init %d", c20min(T))}
	for _, m := range []time.Time{T, T.Add(time.Minute)} {
		lines = append(lines, fmt.Sprintf("civ 0 %d %s", c20min(m), c20civil(m.UTC())), fmt.Sprintf("civ 1 %d %s", c20min(m), c20civil(m.In(berlin))))
	}
	for n := 1; n <= 8; n++ {
		s := specs[n]
		if err := cr.AddJob(gen.CronJob{Name: c20name(n), Spec: s.spec, Location: s.loc, Action: act}); err != nil {
			r.Violation("C20/valid-spec-rejected", fmt.Sprintf("smoke: AddJob(%q): %v", s.spec, err), nil)
			return
		}
		zi := 0
		if s.loc == berlin {
			zi = 1
		}
		lines = append(lines, fmt.Sprintf("add %d %s %d", n, c20text(s.spec), zi))
	}
	cr.DisableJob(c20name(4))
	cr.RemoveJob(c20name(5))
	cr.DisableJob(c20name(6))
	cr.EnableJob(c20name(6))
	cr.EnableJob(c20name(6))
	lines = append(lines, "disable 4", "remove 5", "disable 6", "enable 6", "enable 6", fmt.Sprintf("tick %d", c20min(T)))
	time.Sleep(time.Until(T) + 1500*time.Millisecond)
	late := time.Since(T) > 20*time.Second
	vc.Stop()
	mu.Lock()
	got := append([]c20fire(nil), fired...)
	mu.Unlock()
	if late {
		r.Count("smoke.inconclusive")
		return
	}
	r.Count("smoke.ran")
	var names []int
	for _, f := range got {
		names = append(names, c20nameNum(f.job))
		if !f.atime.Equal(T) {
			r.Violation("C20/smoke", fmt.Sprintf("job %s ran with action time %s, armed minute %s", f.job, f.atime, T), nil)
		}
	}
	gotS := c20sortedInts(names)
	r.Case("smoke "+gotS, true)
	r.Sample(map[string]interface{}{"kind": "smoke", "armed_minute": T.UTC().Format(time.RFC3339), "ran": gotS})
	if gotS != "1,2,6,7" {
		r.Violation("C20/smoke", fmt.Sprintf("real timer at %s: expected jobs 1,2,6,7 to run once each (3: other minute, 4: disabled, 5: removed, 8: other day), ran [%s]", T.UTC().Format(time.RFC3339), gotS),
			map[string]interface{}{"ran": gotS})
	}
	if nx := vc.Next(); !nx.Equal(T.Add(time.Minute)) {
		r.Violation("C20/smoke", fmt.Sprintf("after the tick at %s c.next = %s", T, nx), nil)
	}
	outs, err := Model("cronsched", lines)
	if err != nil {
		r.Disagree("cronsched.driver", err.Error(), nil)
		return
	}
	if last := outs[len(outs)-1]; last != "fired "+gotS {
		r.Disagree("smoke CronSched.step ~ real timer", fmt.Sprintf("model %q, implementation %q", last, "fired "+gotS), map[string]interface{}{"lines": lines})
	}
}

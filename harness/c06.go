package main

// C06 — registry integrity.
//  A. identifiers: node.MakeRef at counter values placed on the bit-field boundaries (verif export of the counter)
//     against Generated/Ref.lean (driver "ref"), long no-repeat sweeps, aliases, pids.
//  B. names: racing RegisterName / spawn-with-name claimants (real goroutines) — exactly one success, the name
//     resolves to the winner, unregister makes it claimable again; outcome compared with Model/Registry.
//  C. release: histories on a puppet node; after a process terminated its name, aliases, events are gone and
//     claimable, it is in no listing and in no link/monitor relation as target or as requester
//     (queried through the node's own TargetManager instance).
//  E. losers and failed registrations leave nothing behind: a process whose RegisterEvent / RegisterName was refused
//     (name taken) terminates while the owner is alive — the owner keeps its identifier; a meta-process whose Init
//     fails (error or panic) leaves no alias; afterwards the node's counters of registered names, aliases and events are
//     back where they were.
//  D. registration vs termination (K3): node.RegisterName(name, pid) by a third party parked between its steps while
//     the process is killed and unregistered; afterwards the name must not be held for a dead process.

import (
	"errors"
	"fmt"
	"sort"
	"strings"
	"sync"
	"time"

	"ergo.services/ergo/gen"
	"ergo.services/ergo/node"
)

func init() { props["C06"] = runC06 }

func runC06(c *Ctx) {
	r := c.R
	r.Rule = "A: MakeRef/CreateAlias at counters {0, 2^18±k, m·2^18±k, 2^36±k, 2^46±k, 2^63±k, 2^64-k} vs the generated BitVec definitions and a no-repeat oracle (≥600k consecutive refs); " +
		"B: 2-8 goroutines racing RegisterName/SpawnRegister for one name (and several names for one process); C: random histories of register/alias/event/link/monitor then terminate one process, release oracle; " +
		"non-trivial = boundary counter or ≥2 racing claimants or a terminated process that held ≥2 kinds of resources; distinct by input"
	k, err := NewK4tm("c06n")
	if err != nil {
		r.Disagree("c06.node", err.Error(), nil)
		return
	}
	defer k.Stop()
	c06ids(c, k)
	c06names(c, k)
	c06release(c, k)
	c06regRace(c, k)
	c06losers(c, k)
}

// NewK4tm starts a puppet node with an explicit TargetManager instance the harness can query.
func NewK4tm(prefix string) (*K4, error) {
	tm := gen.CreateDefaultTargetManager()
	n, err := startQuietNodeOpts(prefix, func(o *gen.NodeOptions) { o.TargetManager = tm })
	if err != nil {
		return nil, err
	}
	return &K4{Node: n, puppets: map[gen.PID]*Puppet{}, TM: tm}, nil
}

func refKey(r gen.Ref) string { return fmt.Sprintf("%d.%d.%d", r.ID[0], r.ID[1], r.ID[2]) }

func c06ids(c *Ctx, k *K4) {
	r := c.R
	bases := []uint64{0, 1, 1<<18 - 4, 1<<18 - 1, 1 << 18, 2<<18 - 3, 5<<18 - 2, 1<<36 - 3, 1<<36 + 1<<18 - 2, 1<<46 - 4, 1 << 46, 1<<46 + 1<<18 - 3,
		1<<63 - 3, 1<<64 - 1<<18 - 3, 1<<64 - 9}
	for i := 0; i < c.N(20, 400); i++ {
		sh := uint(c.Rng.Intn(64))
		bases = append(bases, (uint64(1)<<sh)-uint64(c.Rng.Intn(5))+uint64(c.Rng.Intn(3))<<18)
	}
	seen := map[string]uint64{}
	var lines, wants []string
	check := func(id uint64, ref gen.Ref, what string) {
		key := refKey(ref)
		if prev, dup := seen[key]; dup && prev != id {
			sig := "C06/ref-repeat"
			r.Violation(sig, fmt.Sprintf("%s: counter values %d and %d produce the same identifier %s", what, prev, id, key),
				map[string]interface{}{"counter_a": prev, "counter_b": id, "id_words": key})
		}
		seen[key] = id
	}
	for _, b := range bases {
		node.VerifSetUniqID(k.Node, b)
		for j := 1; j <= 6; j++ {
			ref := k.Node.MakeRef()
			id := b + uint64(j)
			check(id, ref, "MakeRef")
			lines = append(lines, fmt.Sprintf("mk %d", id))
			wants = append(wants, refKey(ref))
			r.Case(fmt.Sprintf("ref/%d", id), true)
		}
		r.Count("ids.boundary-bases")
	}
	outs, err := Model("ref", lines)
	if err != nil {
		r.Disagree("ref.driver", err.Error(), nil)
		return
	}
	for i := range lines {
		if outs[i] != wants[i] {
			r.Disagree("K1 Gen.Ref.makeRef ~ node.MakeRef", fmt.Sprintf("%q: generated definition gives %q, implementation %q", lines[i], outs[i], wants[i]), lines[i])
			break
		}
	}
	r.Sample(map[string]interface{}{"kind": "ids", "line": lines[0], "impl": wants[0]})
	// long sweep: consecutive references never repeat
	start := uint64(1<<18 - 1000)
	node.VerifSetUniqID(k.Node, start)
	n := c.N(600000, 6000000)
	seen2 := make(map[[3]uint64]uint64, n)
	for j := 1; j <= n; j++ {
		ref := k.Node.MakeRef()
		if prev, dup := seen2[ref.ID]; dup {
			r.Violation("C06/ref-repeat", fmt.Sprintf("MakeRef returned %v twice, %d calls apart", ref.ID, uint64(j)-prev),
				map[string]interface{}{"counter_start": start, "first_call": prev, "second_call": j})
			break
		}
		seen2[ref.ID] = uint64(j)
	}
	r.CountN("ids.sweep-refs", n)
	// aliases are minted by the same function
	_, apid, _ := k.Spawn("A", false, gen.ProcessOptions{}, "")
	node.VerifSetUniqID(k.Node, 1<<18-3)
	als := map[gen.Alias]bool{}
	k.Exec(apid, func(p *Puppet) {
		for j := 0; j < 8; j++ {
			al, err := p.CreateAlias()
			if err != nil {
				continue
			}
			if als[al] {
				r.Violation("C06/alias-repeat", fmt.Sprintf("CreateAlias returned %v twice", al), nil)
			}
			als[al] = true
		}
	})
	k.Node.Kill(apid)
	// pids strictly increase
	node.VerifSetNextID(k.Node, 1<<32-2)
	var last uint64
	for j := 0; j < 5; j++ {
		_, pid, err := k.Spawn("P", false, gen.ProcessOptions{}, "")
		if err != nil {
			continue
		}
		if pid.ID <= last {
			r.Violation("C06/pid-not-increasing", fmt.Sprintf("pid %d after %d", pid.ID, last), nil)
		}
		last = pid.ID
		k.Node.Kill(pid)
	}
	k.resetPuppets()
}

func c06names(c *Ctx, k *K4) {
	r := c.R
	n := c.N(150, 6000)
	var lines, wants []string
	for it := 0; it < n; it++ {
		g := 2 + c.Rng.Intn(7)
		name := k.NextName("c06name")
		mode := c.Rng.Intn(3) // 0: g processes, one name; 1: one process, g names; 2: g-1 RegisterName + 1 SpawnRegister
		var pids []gen.PID
		np := g
		if mode == 1 {
			np = 1
		}
		for i := 0; i < np; i++ {
			_, pid, _ := k.Spawn("N", false, gen.ProcessOptions{}, "")
			pids = append(pids, pid)
		}
		results := make([]error, g)
		spawned := make([]gen.PID, g)
		var wg sync.WaitGroup
		start := make(chan struct{})
		for i := 0; i < g; i++ {
			wg.Add(1)
			go func(i int) {
				defer wg.Done()
				<-start
				switch {
				case mode == 0:
					results[i] = k.Node.RegisterName(name, pids[i])
				case mode == 1:
					results[i] = k.Node.RegisterName(gen.Atom(fmt.Sprintf("%s_%d", name, i)), pids[0])
				case mode == 2 && i == 0:
					pp := &Puppet{k: k}
					spawned[i], results[i] = k.Node.SpawnRegister(name, func() gen.ProcessBehavior { return pp }, gen.ProcessOptions{})
				default:
					results[i] = k.Node.RegisterName(name, pids[i])
				}
			}(i)
		}
		close(start)
		wg.Wait()
		okc, taken, other := 0, 0, 0
		winner := -1
		for i, e := range results {
			switch e {
			case nil:
				okc++
				winner = i
			case gen.ErrTaken:
				taken++
			default:
				other++
			}
		}
		rp := map[string]interface{}{"mode": mode, "claimants": g, "ok": okc, "taken": taken, "other": other}
		if okc != 1 || taken != g-1 {
			r.Violation("C06/race-winners", fmt.Sprintf("%d claimants raced (mode %d): %d succeeded, %d got ErrTaken, %d other errors", g, mode, okc, taken, other), rp)
		} else {
			// the name resolves to the winner
			var wpid gen.PID
			wname := name
			switch {
			case mode == 1:
				wpid = pids[0]
				wname = gen.Atom(fmt.Sprintf("%s_%d", name, winner))
			case mode == 2 && winner == 0:
				wpid = spawned[0]
			default:
				wpid = pids[winner]
			}
			info, err := k.Node.ProcessInfo(wpid)
			if err != nil || info.Name != wname {
				r.Violation("C06/name-resolves", fmt.Sprintf("winner %v should own %q, ProcessInfo says %q (%v)", wpid, wname, info.Name, err), rp)
			}
			// a further claimant fails; after unregister it succeeds
			_, extra, _ := k.Spawn("N", false, gen.ProcessOptions{}, "")
			if mode != 1 {
				if e := k.Node.RegisterName(wname, extra); e != gen.ErrTaken {
					r.Violation("C06/name-double-claim", fmt.Sprintf("name held by %v was claimed again: %v", wpid, e), rp)
				}
				if _, e := k.Node.UnregisterName(wname); e != nil {
					r.Violation("C06/unregister", fmt.Sprintf("UnregisterName of a held name failed: %v", e), rp)
				} else if e := k.Node.RegisterName(wname, extra); e != nil {
					r.Violation("C06/name-not-released", fmt.Sprintf("name was unregistered but cannot be claimed again: %v", e), rp)
				}
			}
			k.Node.Kill(extra)
		}
		lines = append(lines, fmt.Sprintf("race %d", g))
		wants = append(wants, fmt.Sprintf("ok=%d err=%d held=1", okc, taken))
		r.Case(fmt.Sprintf("race/%d/%d/%d", mode, g, it), g >= 2)
		r.Count(fmt.Sprintf("names.mode%d", mode))
		for _, p := range pids {
			k.Node.Kill(p)
		}
		for _, p := range spawned {
			if p.ID != 0 {
				k.Node.Kill(p)
			}
		}
		k.resetPuppets()
	}
	outs, err := Model("registry", lines)
	if err != nil {
		r.Disagree("registry.driver", err.Error(), nil)
		return
	}
	for i := range lines {
		if outs[i] != wants[i] {
			r.Disagree("Registry race outcome ~ RegisterName", fmt.Sprintf("%q: model %q, implementation %q", lines[i], outs[i], wants[i]), lines[i])
			break
		}
	}
}

// c06release: build a small world, terminate one process, check that nothing refers to it any more.
func c06release(c *Ctx, k *K4) {
	r := c.R
	n := c.N(120, 4000)
	for it := 0; it < n; it++ {
		np := 3 + c.Rng.Intn(3)
		pids := make([]gen.PID, np)
		names := make([]gen.Atom, np)
		aliases := make([][]gen.Alias, np)
		events := make([][]gen.Atom, np)
		for i := range pids {
			if c.Rng.Chance(2, 3) {
				names[i] = k.NextName("c06p")
			}
			_, pids[i], _ = k.Spawn(fmt.Sprintf("P%d", i), true, gen.ProcessOptions{}, names[i])
		}
		var hist []string
		// resources
		for i := range pids {
			na := c.Rng.Intn(4)
			ne := c.Rng.Intn(3)
			i := i
			k.Exec(pids[i], func(p *Puppet) {
				for j := 0; j < na; j++ {
					if al, err := p.CreateAlias(); err == nil {
						aliases[i] = append(aliases[i], al)
					}
				}
				for j := 0; j < ne; j++ {
					en := k.NextName("c06ev")
					if _, err := p.RegisterEvent(en, gen.EventOptions{}); err == nil {
						events[i] = append(events[i], en)
					}
				}
			})
			hist = append(hist, fmt.Sprintf("P%d: name=%q aliases=%d events=%d", i, names[i], len(aliases[i]), len(events[i])))
		}
		// a few alias deletions (exercise the alias list bookkeeping)
		for i := range pids {
			if len(aliases[i]) >= 2 && c.Rng.Chance(1, 2) {
				j := c.Rng.Intn(len(aliases[i]))
				al := aliases[i][j]
				i := i
				k.Exec(pids[i], func(p *Puppet) { p.DeleteAlias(al) })
				aliases[i] = append(aliases[i][:j:j], aliases[i][j+1:]...)
				hist = append(hist, fmt.Sprintf("P%d: delete alias #%d", i, j))
			}
		}
		// relations in both directions
		nrel := 2 + c.Rng.Intn(8)
		for x := 0; x < nrel; x++ {
			a := c.Rng.Intn(np)
			b := c.Rng.Intn(np)
			if a == b {
				continue
			}
			kind := c.Rng.Intn(8)
			a2, b2 := a, b
			k.Exec(pids[a], func(p *Puppet) {
				switch kind {
				case 0:
					p.LinkPID(pids[b2])
				case 1:
					p.MonitorPID(pids[b2])
				case 2:
					if names[b2] != "" {
						p.LinkProcessID(gen.ProcessID{Name: names[b2], Node: k.Name()})
					}
				case 3:
					if names[b2] != "" {
						p.MonitorProcessID(gen.ProcessID{Name: names[b2], Node: k.Name()})
					}
				case 4:
					if len(aliases[b2]) > 0 {
						p.LinkAlias(aliases[b2][0])
					}
				case 5:
					if len(aliases[b2]) > 0 {
						p.MonitorAlias(aliases[b2][len(aliases[b2])-1])
					}
				case 6:
					if len(events[b2]) > 0 {
						p.LinkEvent(gen.Event{Name: events[b2][0], Node: k.Name()})
					}
				case 7:
					if len(events[b2]) > 0 {
						p.MonitorEvent(gen.Event{Name: events[b2][0], Node: k.Name()})
					}
				}
				_ = a2
			})
			hist = append(hist, fmt.Sprintf("P%d -> P%d kind %d", a, b, kind))
		}
		k.Quiesce()
		// terminate the victim
		v := c.Rng.Intn(np)
		how := c.Rng.Intn(3)
		switch how {
		case 0:
			k.Node.Kill(pids[v])
		case 1:
			k.Node.Send(pids[v], k4stop{fmt.Errorf("crash")})
		case 2:
			k.Node.Send(pids[v], k4stop{gen.TerminateReasonNormal})
		}
		waitUntilGone(k, pids[v])
		k.Quiesce()
		hist = append(hist, fmt.Sprintf("terminate P%d how=%d", v, how))
		rp := map[string]interface{}{"history": hist}
		kinds := 0
		if names[v] != "" {
			kinds++
		}
		if len(aliases[v]) > 0 {
			kinds++
		}
		if len(events[v]) > 0 {
			kinds++
		}
		r.Case(strings.Join(hist, ";"), kinds >= 2)
		// ---- release oracle ------------------------------------------------------------------------
		if _, err := k.Node.ProcessInfo(pids[v]); err == nil {
			r.Violation("C06/still-listed", "terminated process is still known to the node", rp)
		}
		_, claimer, _ := k.Spawn("C", false, gen.ProcessOptions{}, "")
		if names[v] != "" {
			if e := k.Node.Send(gen.ProcessID{Name: names[v], Node: k.Name()}, "x"); e == nil {
				r.Violation("C06/name-still-resolves", fmt.Sprintf("name %q of a terminated process still resolves", names[v]), rp)
			}
			if e := k.Node.RegisterName(names[v], claimer); e != nil {
				r.Violation("C06/name-not-released", fmt.Sprintf("name %q of a terminated process cannot be claimed: %v", names[v], e), rp)
			} else {
				k.Node.UnregisterName(names[v])
			}
		}
		for _, al := range aliases[v] {
			if e := k.Node.Send(al, "x"); e == nil {
				r.Violation("C06/alias-still-resolves", "alias of a terminated process still resolves", rp)
			}
		}
		for _, en := range events[v] {
			var e error
			k.Exec(claimer, func(p *Puppet) { _, e = p.RegisterEvent(en, gen.EventOptions{}) })
			if e != nil {
				r.Violation("C06/event-not-released", fmt.Sprintf("event %q of a terminated process cannot be registered again: %v", en, e), rp)
			}
		}
		if k.TM != nil {
			targets := []any{pids[v]}
			if names[v] != "" {
				targets = append(targets, gen.ProcessID{Name: names[v], Node: k.Name()})
			}
			for _, al := range aliases[v] {
				targets = append(targets, al)
			}
			// events were re-registered by the claimer above: relations on them must have been drained before that
			for _, t := range targets {
				if cs := k.TM.GetConsumersForTarget(t); len(cs) > 0 {
					r.Violation("C06/relation-target-left", fmt.Sprintf("relations on target %v of the terminated process remain: consumers %v", t, cs), rp)
				}
			}
			ls, ms := k.TM.GetTargetsForConsumer(pids[v])
			if len(ls)+len(ms) > 0 {
				r.Violation("C06/relation-requester-left", fmt.Sprintf("terminated process still appears as requester: links %v monitors %v", ls, ms), rp)
			}
		}
		for i, p := range pids {
			if i == v {
				continue
			}
			info, err := k.Node.ProcessInfo(p)
			if err != nil {
				continue
			}
			for _, x := range append(append([]gen.PID{}, info.LinksPID...), info.MonitorsPID...) {
				if x == pids[v] {
					r.Violation("C06/listed-in-relations", fmt.Sprintf("process P%d still lists the terminated process in its links/monitors", i), rp)
				}
			}
		}
		// alias bookkeeping of the survivors: Aliases() must equal what was created minus what was deleted
		for i, p := range pids {
			if i == v {
				continue
			}
			info, err := k.Node.ProcessInfo(p)
			if err != nil {
				continue
			}
			got := append([]gen.Alias(nil), info.Aliases...)
			want := append([]gen.Alias(nil), aliases[i]...)
			sortAliases(got)
			sortAliases(want)
			if fmt.Sprint(got) != fmt.Sprint(want) {
				r.Violation("C06/alias-list", fmt.Sprintf("P%d: alias list %v, expected %v (created minus deleted)", i, got, want), rp)
			}
		}
		if it < 2 {
			r.Sample(rp)
		}
		k.Node.Kill(claimer)
		for _, p := range pids {
			k.Node.Kill(p)
		}
		k.Quiesce()
		k.resetPuppets()
	}
}

func sortAliases(a []gen.Alias) {
	sort.Slice(a, func(i, j int) bool {
		if a[i].ID[1] != a[j].ID[1] {
			return a[i].ID[1] < a[j].ID[1]
		}
		return a[i].ID[0] < a[j].ID[0]
	})
}

// c06regRace: K3 on node.RegisterName racing with the termination of the process the name is for. RegisterName is
// parked after it has claimed the process ("regname:claimed") or after the table insert ("regname:stored"); the
// process is killed and unregistered completely; RegisterName runs to its end. Whatever it returns, a terminated
// process holds no name afterwards: the name resolves to nothing and can be claimed by another process.
func c06regRace(c *Ctx, k *K4) {
	r := c.R
	rounds := c.N(2, 20)
	for it := 0; it < rounds; it++ {
		for _, parkAt := range []string{"regname:claimed", "regname:stored"} {
			_, tpid, _ := k.Spawn("T", false, gen.ProcessOptions{}, "")
			_, qpid, _ := k.Spawn("Q", false, gen.ProcessOptions{}, "")
			name := k.NextName("c06race")
			ctl := NewCtl("k3-no-process")
			ctl.AddQueue(tpid)
			ctl.On()
			done := make(chan error, 1)
			go func() { done <- k.Node.RegisterName(name, tpid) }()
			stuck := ""
			if !waitUntil(2*time.Second, func() bool { return len(ctl.Parked()) == 1 }) {
				stuck = "RegisterName did not park"
			}
			var rname string
			if stuck == "" {
				rname = ctl.Parked()[0].name
				ctl.Drain()
				if parkAt == "regname:stored" {
					if _, to, _, err := ctl.Step(rname); err != nil || to != "regname:stored" {
						stuck = fmt.Sprintf("RegisterName did not reach %s (%v, %s)", parkAt, err, to)
					}
				}
			}
			if stuck == "" {
				if _, err := ctl.Start("T", func() { k.Node.Kill(tpid) }); err != nil {
					stuck = err.Error()
				}
				for i := 0; i < 8 && stuck == ""; i++ {
					t := ctl.Find("T")
					if t == nil || !t.parked {
						break
					}
					if _, _, _, err := ctl.Step("T"); err != nil {
						stuck = err.Error()
					}
				}
			}
			trace := append([]string(nil), ctl.Trace...)
			ctl.ReleaseAll()
			ctl.Close()
			var regErr error
			select {
			case regErr = <-done:
			case <-time.After(3 * time.Second):
				stuck = "RegisterName did not return"
			}
			if stuck != "" {
				r.Count("regrace.inconclusive")
				r.Note("C06 regrace: %s", stuck)
				k.Node.Kill(tpid)
				k.Node.Kill(qpid)
				continue
			}
			waitUntilGone(k, tpid)
			k.Quiesce()
			rp := map[string]interface{}{"parked_at": parkAt, "register_result": fmt.Sprint(regErr), "trace": trace}
			// the name of a terminated process is gone: nobody is found under it and it can be claimed again
			if err := k.Node.RegisterName(name, qpid); err != nil {
				r.Violation("C06/name-not-claimable-after-termination", fmt.Sprintf("RegisterName(%s) raced with the termination of its process and returned %v: the process is gone, yet another process cannot claim the name (%v)", name, regErr, err), rp)
				if pid, e2 := k.Node.UnregisterName(name); e2 == nil {
					if _, e3 := k.Node.ProcessInfo(pid); e3 != nil {
						r.Violation("C06/name-held-by-dead-process", fmt.Sprintf("the name %s is held by the terminated process %s", name, pid), rp)
					}
				}
			}
			r.Case(fmt.Sprintf("regrace/%s/%v", parkAt, regErr), true)
			r.Count("regrace.rounds")
			k.Node.Kill(qpid)
			k.Quiesce()
			k.resetPuppets()
		}
	}
}


type c06failMeta struct {
	panics bool
}

func (m *c06failMeta) Init(process gen.MetaProcess) error {
	if m.panics {
		panic("c06: meta init panics")
	}
	return errors.New("c06: meta init fails")
}
func (m *c06failMeta) Start() error                                                    { return nil }
func (m *c06failMeta) HandleMessage(from gen.PID, message any) error                   { return nil }
func (m *c06failMeta) HandleCall(from gen.PID, ref gen.Ref, request any) (any, error) { return nil, nil }
func (m *c06failMeta) Terminate(reason error)                                          {}
func (m *c06failMeta) HandleInspect(from gen.PID, item ...string) map[string]string   { return nil }

// c06losers: see part E in the header.
func c06losers(c *Ctx, k *K4) {
	r := c.R
	rounds := c.N(3, 30)
	for it := 0; it < rounds; it++ {
		k.Quiesce()
		base, _ := k.Node.Info()
		_, opid, _ := k.Spawn("O", true, gen.ProcessOptions{}, "")
		_, lpid, _ := k.Spawn("L", true, gen.ProcessOptions{}, "")
		watch, wpid, _ := k.Spawn("W", true, gen.ProcessOptions{}, "")
		_, qpid, _ := k.Spawn("Q", true, gen.ProcessOptions{}, "")
		evName := k.NextName("c06lev")
		ev := gen.Event{Name: evName, Node: k.Name()}
		nm := k.NextName("c06lname")
		var tok gen.Ref
		var e1, e2, e3, e4 error
		k.Exec(opid, func(p *Puppet) {
			tok, e1 = p.RegisterEvent(evName, gen.EventOptions{})
			e2 = p.RegisterName(nm)
		})
		k.Exec(wpid, func(p *Puppet) { p.MonitorEvent(ev); p.MonitorProcessID(gen.ProcessID{Name: nm, Node: k.Name()}) })
		// the loser: both claims are refused
		k.Exec(lpid, func(p *Puppet) {
			_, e3 = p.RegisterEvent(evName, gen.EventOptions{})
			e4 = p.RegisterName(nm)
		})
		rp := map[string]interface{}{"history": "O registers event and name; W monitors both; L's RegisterEvent / RegisterName are refused; L terminates; O still owns both"}
		if e1 != nil || e2 != nil {
			r.Count("losers.inconclusive")
		} else {
			if e3 == nil || e4 == nil {
				r.Violation("C06/two-owners", fmt.Sprintf("a second process claimed an identifier that is taken: RegisterEvent -> %v, RegisterName -> %v", e3, e4), rp)
			}
			how := it % 3
			switch how {
			case 0:
				k.Node.Kill(lpid)
			case 1:
				k.Node.Send(lpid, k4stop{gen.TerminateReasonNormal})
			default:
				k.Node.Send(lpid, k4stop{errors.New("crash")})
			}
			waitUntilGone(k, lpid)
			k.Quiesce()
			// the owner still owns both
			var pubErr error
			k.Exec(opid, func(p *Puppet) { pubErr = p.SendEvent(evName, tok, c18payload{1}) })
			if pubErr != nil {
				r.Violation("C06/loser-took-the-event-down", fmt.Sprintf("after a process whose RegisterEvent had been refused terminated, the owner's SendEvent with its token fails: %v", pubErr), rp)
			}
			var qe1, qe2 error
			k.Exec(qpid, func(p *Puppet) {
				_, qe1 = p.RegisterEvent(evName, gen.EventOptions{})
				qe2 = p.RegisterName(nm)
			})
			if qe1 == nil || qe2 == nil {
				r.Violation("C06/two-owners", fmt.Sprintf("while the owner is alive a third process could claim its identifiers after a refused claimant terminated: RegisterEvent -> %v, RegisterName -> %v", qe1, qe2), rp)
			}
			for _, e := range watch.Log() {
				if strings.HasPrefix(e.Kind, "down") {
					r.Violation("C06/spurious-down", fmt.Sprintf("a monitor of the owner's identifier got %s although the owner is alive and has not unregistered it", e.Kind), rp)
					break
				}
			}
		}
		// a meta-process whose Init fails leaves nothing registered
		var me1, me2 error
		var a1, a2 gen.Alias
		k.Exec(opid, func(p *Puppet) {
			a1, me1 = p.SpawnMeta(&c06failMeta{}, gen.MetaOptions{})
			a2, me2 = p.SpawnMeta(&c06failMeta{panics: true}, gen.MetaOptions{})
		})
		if me1 == nil || me2 == nil {
			r.Violation("C06/meta-init-failure-ignored", fmt.Sprintf("SpawnMeta with a failing Init returned %v / %v", me1, me2), nil)
		}
		for _, a := range []gen.Alias{a1, a2} {
			if a == (gen.Alias{}) {
				continue
			}
			var le error
			k.Exec(wpid, func(p *Puppet) { le = p.MonitorAlias(a) })
			if le == nil {
				r.Violation("C06/alias-of-failed-meta", fmt.Sprintf("the id %s of a meta-process whose Init failed is still registered: MonitorAlias succeeds", a), nil)
			}
		}
		for _, pid := range []gen.PID{opid, lpid, wpid, qpid} {
			k.Node.Kill(pid)
			waitUntilGone(k, pid)
		}
		k.Quiesce()
		k.resetPuppets()
		after, _ := k.Node.Info()
		if after.RegisteredNames != base.RegisteredNames || after.RegisteredAliases != base.RegisteredAliases || after.RegisteredEvents != base.RegisteredEvents {
			r.Violation("C06/registry-leak", fmt.Sprintf("after every process of the round terminated the node counts names/aliases/events %d/%d/%d, before the round %d/%d/%d",
				after.RegisteredNames, after.RegisteredAliases, after.RegisteredEvents, base.RegisteredNames, base.RegisteredAliases, base.RegisteredEvents), nil)
		}
		r.Case(fmt.Sprintf("losers/%d", it), true)
		r.Count("losers.rounds")
	}
}

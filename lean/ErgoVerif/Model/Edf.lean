/-
Executable model of the EDF codec (net/edf/{encode,decode,register,init}.go) — the code AS IT IS after the
`fix:` commits for D3/D4/D4b/D26/D27/D31 (see known_findings.json); behaviour the property forbids is mirrored, not
tidied (zero-width elements, 2^28-element array descriptors, nested slice counts, ...).

  Ty      Go type algebra seen by the codec (reflect.Type): primitives, framework identifiers, time, error, any,
          unnamed slice/array/map, registered named types, registered structs, registered (Binary)Marshalers
  Val     Go values; numbers are their raw big-endian wire bytes (floats = raw bits), strings/atoms are bytes,
          time and marshaler payloads are opaque bytes; `nil` is the nil any/slice/map/error
  Opts    edf.Options of one direction of a connection + the global registry (encoders/decoders maps)
  encTy   enc.Prefix of getEncoder (the folded type descriptor, full name or cache id)
  enc     encoder.Encode with the state.encodeType flag        (encode.go, register.go)
  dec     decoder.Decode with the state.decodeType flag, fuel = nesting depth (decode.go, register.go)
  decTy   decodeType (unfolding a descriptor), getReg = getRegDecoder, getDecoder
  encode/decode   edf.Encode / edf.Decode (public API; Decode recovers panics: lib.Recover() is true)
  alloc   bytes requested from the Go allocator by Decode (reflect.New, MakeSlice, MakeMapWithSize)
Core Lean only.  No proofs here.
-/
import ErgoVerif.Generated.Edt
namespace ErgoVerif.Edf
open ErgoVerif.Generated.Edt

abbrev Bytes := List UInt8

/-- result of a Go operation that may return an error or panic -/
inductive Res (α : Type) where
  | ok (a : α)
  | err          -- an error is returned
  | panic        -- a Go run-time panic (recovered by edf.Decode's deferred recover when lib.Recover())
deriving Repr, DecidableEq

/-- fixed-width numeric kinds -/
inductive Num | i8 | i16 | i32 | i64 | int | u8 | u16 | u32 | u64 | uint | f32 | f64
deriving DecidableEq, Repr

def Num.width : Num → Nat
  | .i8 | .u8 => 1
  | .i16 | .u16 => 2
  | .i32 | .u32 | .f32 => 4
  | _ => 8

def Num.tag : Num → UInt8
  | .i8 => edtInt8 | .i16 => edtInt16 | .i32 => edtInt32 | .i64 => edtInt64 | .int => edtInt
  | .u8 => edtUint8 | .u16 => edtUint16 | .u32 => edtUint32 | .u64 => edtUint64 | .uint => edtUint
  | .f32 => edtFloat32 | .f64 => edtFloat64

/-- identifiers made of a node atom and raw words: gen.PID (ID, Creation), gen.Ref / gen.Alias (Creation, ID[3]) -/
inductive IdR | pid | ref | alias deriving DecidableEq, Repr
def IdR.rawLen : IdR → Nat | .pid => 16 | _ => 32
def IdR.tag : IdR → UInt8 | .pid => edtPID | .ref => edtRef | .alias => edtAlias
/-- identifiers made of two atoms: gen.ProcessID (Node, Name), gen.Event (Node, Name) -/
inductive IdN | processid | event deriving DecidableEq, Repr
def IdN.tag : IdN → UInt8 | .processid => edtProcessID | .event => edtEvent

mutual
inductive Ty
  | bool | num (p : Num) | str | bin | atom | idr (k : IdR) | idn (k : IdN) | time | error | any
  | slice (t : Ty) | array (n : Nat) (t : Ty) | map (k v : Ty)
  /-- registered named type over bool/num/str (`type X int`) or over a slice/array/map (`type X []T`) -/
  | named (name : Bytes) (t : Ty)
  /-- registered struct: exported fields in order -/
  | struct (name : Bytes) (fs : Tys)
  /-- registered edf.Marshaler / encoding.BinaryMarshaler: opaque payload; `sz` = Go size of the type -/
  | marsh (name : Bytes) (sz : Nat)
inductive Tys | nil | cons (t : Ty) (ts : Tys)
end
deriving instance DecidableEq for Ty, Tys
deriving instance Repr for Ty, Tys

mutual
inductive Val
  | bool (b : Bool)
  | num (bs : Bytes)                 -- raw big-endian bytes, width given by the type
  | str (s : Bytes) | bin (s : Bytes) | atom (a : Bytes)
  | idr (node raw : Bytes) | idn (node name : Bytes)
  | time (bs : Bytes)                -- time.Time as its MarshalBinary bytes
  | errText (s : Bytes)              -- errors.New(text) / fmt.Errorf wrapped form: only the text travels
  | errSent (k : Nat)                -- k-th registered sentinel error (identity matters)
  | nil                              -- nil any / nil slice / nil map / nil error
  | any (t : Ty) (v : Val)           -- non-nil interface holding v of dynamic type t
  | list (vs : Vals)                 -- slice, array, struct fields
  | map (ps : Pairs)
  | opaque (bs : Bytes)              -- payload of a Marshaler
inductive Vals | nil | cons (v : Val) (vs : Vals)
inductive Pairs | nil | cons (k v : Val) (ps : Pairs)
end
deriving instance DecidableEq for Val, Vals, Pairs
deriving instance Repr for Val, Vals, Pairs

def Vals.length : Vals → Nat | .nil => 0 | .cons _ vs => vs.length + 1
def Pairs.length : Pairs → Nat | .nil => 0 | .cons _ _ ps => ps.length + 1
def Tys.length : Tys → Nat | .nil => 0 | .cons _ ts => ts.length + 1

/-- edf.Options of the encoding side and of the decoding side, and the global registry -/
structure Opts where
  /-- encode AtomCache: atom → id (none when AtomCache == nil or atom absent) -/
  atomId : Bytes → Option Nat
  /-- decode AtomCache: id → atom -/
  atomOf : Nat → Option Bytes
  /-- AtomMapping on the encoding / decoding side (identity where nothing is mapped) -/
  emap : Bytes → Bytes
  dmap : Bytes → Bytes
  /-- encode RegCache: type name → cache id -/
  regId : Bytes → Option Nat
  /-- decode RegCache: id → type name -/
  regOf : Nat → Option Bytes
  /-- `decoders` registry: type name → registered type -/
  reg : Bytes → Option Ty
  /-- encode ErrCache: sentinel → id -/
  errId : Nat → Option Nat
  /-- decode ErrCache: id → error value (a sentinel of this node, or a text error) -/
  errOf : Nat → Option Val
  /-- Error() of the k-th sentinel -/
  errText : Nat → Bytes

-- ---------------------------------------------------------------------------------------------
-- integers on the wire (encoding/binary.BigEndian)
-- ---------------------------------------------------------------------------------------------

/-- PutUint16(uint16(n)) : the conversion truncates -/
def be16 (n : Nat) : Bytes := [UInt8.ofNat (n / 256), UInt8.ofNat n]
/-- PutUint32(uint32(n)) -/
def be32 (n : Nat) : Bytes := [UInt8.ofNat (n / 16777216), UInt8.ofNat (n / 65536), UInt8.ofNat (n / 256), UInt8.ofNat n]

/-- `len(bs) < n`. Go's `len` is O(1); this walks at most `n` cells instead of the whole list
    (`lenLt bs n = decide (bs.length < n)`, Lemmas/Edf.lean). -/
def lenLt : Bytes → Nat → Bool
  | _, 0 => false
  | [], _+1 => true
  | _ :: r, n+1 => lenLt r n

def rd16 : Bytes → Option (Nat × Bytes)
  | a :: b :: r => some (a.toNat * 256 + b.toNat, r)
  | _ => none
def rd32 : Bytes → Option (Nat × Bytes)
  | a :: b :: c :: d :: r => some (((a.toNat * 256 + b.toNat) * 256 + c.toNat) * 256 + d.toNat, r)
  | _ => none

-- ---------------------------------------------------------------------------------------------
-- Go memory layout (amd64) — needed for reflect.ArrayOf's overflow panic and for the allocation measure
-- ---------------------------------------------------------------------------------------------

def roundUp (n a : Nat) : Nat := if a = 0 then n else (n + a - 1) / a * a

mutual
def Ty.align : Ty → Nat
  | .bool => 1
  | .num p => p.width
  | .array _ t => t.align
  | .named _ t => t.align
  | .struct _ fs => fs.align
  | .marsh _ _ => 8
  | _ => 8
def Tys.align : Tys → Nat
  | .nil => 1
  | .cons t ts => max t.align ts.align
end

mutual
/-- unsafe.Sizeof -/
def Ty.size : Ty → Nat
  | .bool => 1
  | .num p => p.width
  | .str | .atom => 16
  | .bin => 24
  | .idr .pid => 32
  | .idr _ => 48
  | .idn _ => 32
  | .time => 24
  | .error | .any => 16
  | .slice _ => 24
  | .map _ _ => 8
  | .array n t => n * t.size
  | .named _ t => t.size
  | .struct _ fs => roundUp (fs.layout 0) fs.align
  | .marsh _ sz => sz
/-- offset after laying out the fields starting at `off` -/
def Tys.layout : Tys → Nat → Nat
  | .nil, off => off
  | .cons t ts, off => ts.layout (roundUp off t.align + t.size)
end

mutual
/-- Go comparability of the type (reflect.MapOf panics on a non-comparable key type) -/
def Ty.comparable : Ty → Bool
  | .bin | .slice _ | .map _ _ | .marsh _ _ => false
  | .array _ t => t.comparable
  | .named _ t => t.comparable
  | .struct _ fs => fs.comparable
  | _ => true
def Tys.comparable : Tys → Bool
  | .nil => true
  | .cons t ts => t.comparable && ts.comparable
end

mutual
/-- run-time hashability of a key value (SetMapIndex panics "hash of unhashable type" otherwise) -/
def Val.hashable : Val → Bool
  | .any t v => t.comparable && v.hashable
  | .list vs => vs.hashable
  | .map _ => false
  | _ => true
def Vals.hashable : Vals → Bool
  | .nil => true
  | .cons v vs => v.hashable && vs.hashable
end

-- ---------------------------------------------------------------------------------------------
-- type descriptors:  enc.Prefix of getEncoder (encode.go:69-314), regEncoder (register.go:673)
-- ---------------------------------------------------------------------------------------------

/-- prefix of a registered type: the 3-byte cache id when the RegCache has the type, else edtReg len16 name -/
def regPrefix (o : Opts) (name : Bytes) : Bytes :=
  match o.regId name with
  | some id => edtReg :: be16 id
  | none => edtReg :: be16 name.length ++ name

def encTy (o : Opts) : Ty → Bytes
  | .bool => [edtBool]
  | .num p => [p.tag]
  | .str => [edtString]
  | .bin => [edtBinary]
  | .atom => [edtAtom]
  | .idr k => [k.tag]
  | .idn k => [k.tag]
  | .time => [edtTime]
  | .error => [edtError]
  | .any => [edtAny]
  | .slice t => edtSlice :: encTy o t
  | .array n t => edtArray :: be32 n ++ encTy o t
  | .map k v => edtMap :: encTy o k ++ encTy o v
  | .named name _ => regPrefix o name
  | .struct name _ => regPrefix o name
  | .marsh name _ => regPrefix o name

/-- getEncoder fails for arrays longer than MaxUint32 (encode.go:260); everything else in the algebra has an encoder -/
def Ty.encodable : Ty → Bool
  | .slice t => t.encodable
  | .array n t => decide (n ≤ limBinaryEnc) && t.encodable
  | .map k v => k.encodable && v.encodable
  | _ => true

/-- what Encode writes in front of the body when state.encodeType is set (and what edf.Encode writes at top level):
    unnamed composites: edtType, uint16(len(prefix)), prefix (encode.go:58-65, 142-147, 204-209, 268-273);
    registered types: the name prefix or the 3-byte cache id (regEncoder, register.go:684); leaves: the tag byte -/
def hdr (o : Opts) : Ty → Bytes
  | .slice t => edtType :: be16 (encTy o (.slice t)).length ++ encTy o (.slice t)
  | .array n t => edtType :: be16 (encTy o (.array n t)).length ++ encTy o (.array n t)
  | .map k v => edtType :: be16 (encTy o (.map k v)).length ++ encTy o (.map k v)
  | t => encTy o t

-- ---------------------------------------------------------------------------------------------
-- leaves
-- ---------------------------------------------------------------------------------------------

/-- float32 goes through float64 (`float32(value.Float())`, `SetFloat(float64(...))`): a signalling NaN is quieted -/
def quiet32 : Bytes → Bytes
  | [a, b, c, d] =>
    if (a &&& 0x7f == 0x7f) && (b &&& 0x80 == 0x80) && !((b &&& 0x7f == 0) && c == 0 && d == 0)
    then [a, b ||| 0x40, c, d] else [a, b, c, d]
  | bs => bs

def numCanon (p : Num) (bs : Bytes) : Bytes := if p = .f32 then quiet32 bs else bs

/-- time.Time.UnmarshalBinary accepts version 1 with 15 bytes and version 2 with 16 bytes -/
def timeValid : Bytes → Bool
  | v :: r => (v == 1 && r.length == 14) || (v == 2 && r.length == 15)
  | [] => false

/-- writeAtom (encode.go:648): mapping, then cache id (> 255) or uint16 length + bytes -/
def writeAtom (o : Opts) (a : Bytes) : Bytes :=
  let a' := o.emap a
  match o.atomId a' with
  | some id => if id > limAtomIdEnc then be16 id else be16 a'.length ++ a'
  | none => be16 a'.length ++ a'

/-- readAtom (decode.go:1216) -/
def readAtom (o : Opts) (bs : Bytes) : Res (Bytes × Bytes) :=
  match rd16 bs with
  | none => .err
  | some (id, r) =>
    if id > limAtomIdDec then
      match o.atomOf id with
      | some a => .ok (o.dmap a, r)
      | none => .err
    else if lenLt r id then .err
    else .ok (o.dmap (r.take id), r.drop id)

/-- body of the leaf encoders, without the type tag. `none` = the encoder returns an error
    (or the value is not a value of the type). -/
def encLeaf (o : Opts) : Ty → Val → Option Bytes
  | .bool, .bool b => some [if b then 1 else 0]
  | .num p, .num bs => if bs.length = p.width then some (numCanon p bs) else none
  | .str, .str s => if s.length > limStringEnc then none else some (be16 s.length ++ s)
  | .bin, .bin s => if s.length > limBinaryEnc then none else some (be32 s.length ++ s)
  | .atom, .atom a => if a.length > limAtomEnc then none else some (writeAtom o a)
  | .idr k, .idr node raw =>
      if node.length > limAtomPidEnc then none
      else if raw.length = k.rawLen then some (writeAtom o node ++ raw) else none
  | .idn _, .idn node name =>
      if node.length > limAtomPidEnc then none
      else if name.length > limAtomPidEnc then none
      else some (writeAtom o node ++ writeAtom o name)
  | .time, .time bs => if timeValid bs then some (UInt8.ofNat bs.length :: bs) else none
  | .error, .errText s => if s.length > limErrorEnc then none else some (be16 s.length ++ s)
  | .error, .errSent k =>
      match o.errId k with
      | some id => if id > limErrIdEnc then some (be16 id)
                   else if (o.errText k).length > limErrorEnc then none else some (be16 (o.errText k).length ++ o.errText k)
      | none => if (o.errText k).length > limErrorEnc then none else some (be16 (o.errText k).length ++ o.errText k)
  | _, _ => none

def Ty.leafTag : Ty → Option UInt8
  | .bool => some edtBool | .num p => some p.tag | .str => some edtString | .bin => some edtBinary
  | .atom => some edtAtom | .idr k => some k.tag | .idn k => some k.tag | .time => some edtTime
  | .error => some edtError
  | _ => none

/-- registered named types over these kinds reuse the leaf encoder/decoder (register.go:183-293) -/
def Ty.namedLeaf : Ty → Bool
  | .bool | .num _ | .str => true
  | _ => false

-- ---------------------------------------------------------------------------------------------
-- encoder
-- ---------------------------------------------------------------------------------------------

mutual
/-- encoder.Encode(value, b, state) with state.encodeType = false: the body without any type information.
    (With encodeType = true the same body follows `hdr o t`; the only exception is a nil error, which writes
    ff ff before looking at the flag, encode.go:613 — a nil error never sits in an interface.) -/
def encB (o : Opts) : Ty → Val → Option Bytes
  | .error, .nil => some [0xff, 0xff]
  -- encodeAny (encode.go:414): the dynamic value is encoded with encodeType = true
  | .any, .nil => some [edtNil]
  | .any, .any t v =>
      if t.encodable && t != .any && !(t == .error && v == .nil) then (encB o t v).map fun body => hdr o t ++ body else none
  -- unnamed slice (encode.go:203)
  | .slice _, .nil => some [edtNil]
  | .slice t, .list vs => (encs o t vs).map fun body => edtSlice :: be32 vs.length ++ body
  -- unnamed array (encode.go:267)
  | .array n t, .list vs => if vs.length = n then encs o t vs else none
  -- unnamed map (encode.go:141)
  | .map _ _, .nil => some [edtNil]
  | .map k v, .map ps => (encp o k v ps).map fun body => edtMap :: be32 ps.length ++ body
  -- registered slice / array / map (register.go:379, 477, 550)
  | .named _ (.slice _), .nil => some [edtNil]
  | .named _ (.slice t), .list vs => (encs o t vs).map fun body => edtReg :: be32 vs.length ++ body
  | .named _ (.array n t), .list vs => if vs.length = n then encs o t vs else none
  | .named _ (.map _ _), .nil => some [edtNil]
  | .named _ (.map k v), .map ps => (encp o k v ps).map fun body => edtReg :: be32 ps.length ++ body
  -- registered struct (register.go:321)
  | .struct _ fs, .list vs => encf o fs vs
  -- registered Marshaler / BinaryMarshaler (register.go:61, 116)
  | .marsh _ _, .opaque p => if p.length > limBinaryEnc - 1 then none else some (be32 p.length ++ p)
  -- registered named bool/number/string, and the leaves
  | .named _ t, v => if t.namedLeaf then encLeaf o t v else none
  | t, v => encLeaf o t v
/-- elements of a slice/array: encodeType = false for every item -/
def encs (o : Opts) : Ty → Vals → Option Bytes
  | _, .nil => some []
  | t, .cons v vs =>
      match encB o t v, encs o t vs with
      | some a, some b => some (a ++ b)
      | _, _ => none
/-- key/value pairs of a map in iteration order -/
def encp (o : Opts) : Ty → Ty → Pairs → Option Bytes
  | _, _, .nil => some []
  | kt, vt, .cons k v ps =>
      match encB o kt k, encB o vt v, encp o kt vt ps with
      | some a, some b, some c => some (a ++ b ++ c)
      | _, _, _ => none
/-- struct fields -/
def encf (o : Opts) : Tys → Vals → Option Bytes
  | .nil, .nil => some []
  | .cons t ts, .cons v vs =>
      match encB o t v, encf o ts vs with
      | some a, some b => some (a ++ b)
      | _, _ => none
  | _, _ => none
end

/-- edf.Encode(x, b, options) for a non-nil x of dynamic type t (encode.go:35): getEncoder must succeed,
    then prefix (= `hdr`) and body. -/
def encode (o : Opts) (t : Ty) (v : Val) : Option Bytes :=
  if t.encodable && t != .any && !(t == .error && v == .nil) then (encB o t v).map fun body => hdr o t ++ body else none

-- ---------------------------------------------------------------------------------------------
-- decoder
-- ---------------------------------------------------------------------------------------------

/-- the byte-keyed entries of the `decoders` registry (init.go:200-292) -/
def tagTable : List (UInt8 × Ty) :=
  [(edtPID, .idr .pid), (edtProcessID, .idn .processid), (edtRef, .idr .ref), (edtAlias, .idr .alias),
   (edtEvent, .idn .event), (edtTime, .time), (edtBool, .bool), (edtAtom, .atom), (edtString, .str),
   (edtInt, .num .int), (edtInt8, .num .i8), (edtInt16, .num .i16), (edtInt32, .num .i32), (edtInt64, .num .i64),
   (edtUint, .num .uint), (edtUint8, .num .u8), (edtUint16, .num .u16), (edtUint32, .num .u32), (edtUint64, .num .u64),
   (edtBinary, .bin), (edtFloat32, .num .f32), (edtFloat64, .num .f64), (edtAny, .any), (edtError, .error)]

/-- decoders.Load(id) for a tag byte -/
def tagTy (b : UInt8) : Option Ty := (tagTable.find? (fun e => e.1 = b)).map (·.2)

/-- getRegDecoder (decode.go:110): cache id (> 4095) or inline name, then the registry -/
def getReg (o : Opts) (bs : Bytes) : Res (Ty × Bytes) :=
  match rd16 bs with
  | none => .err
  | some (n, r) =>
    if n > limRegIdDec then
      match o.regOf n with
      | none => .err
      | some name => match o.reg name with
        | some t => .ok (t, r)
        | none => .err
    else if lenLt r n then .err
    else match o.reg (r.take n) with
      | some t => .ok (t, r.drop n)
      | none => .err

/-- 2^64: reflect.ArrayOf panics when length * elem size does not fit a uintptr -/
def uintptrLimit : Nat := 18446744073709551616

/-- decodeType(fold) (decode.go:146): returns the type and what is left of the fold.
    Slices and maps insist on consuming the whole fold and return nothing; an array returns what follows its
    element type. -/
def decTy (o : Opts) : Nat → Bytes → Res (Ty × Bytes)
  | 0, _ => .err
  | _, [] => .err
  | fuel+1, b :: r =>
    if b = edtMap then
      match decTy o fuel r with
      | .ok (k, f) =>
        match decTy o fuel f with
        | .ok (v, f') =>
          if f' ≠ [] then .err
          else if !k.comparable then .panic      -- reflect.MapOf: invalid key type
          else .ok (.map k v, [])
        | .err => .err
        | .panic => .panic
      | .err => .err
      | .panic => .panic
    else if b = edtSlice then
      match decTy o fuel r with
      | .ok (t, f) => if f ≠ [] then .err else .ok (.slice t, [])
      | .err => .err
      | .panic => .panic
    else if b = edtArray then
      if lenLt r 5 then .err       -- len(fold) < 6
      else match rd32 r with
        | none => .err
        | some (n, r') =>
          match decTy o fuel r' with
          | .ok (t, f) =>
            -- what follows the element type belongs to the caller (an array type can be a map key; fix 07a18f8)
            if t.size > 0 ∧ n * t.size ≥ uintptrLimit then .panic   -- reflect.ArrayOf: array size would exceed virtual address space
            else .ok (.array n t, f)
          | .err => .err
          | .panic => .panic
    else if b = edtReg then getReg o r
    else match tagTy b with
      | some t => .ok (t, r)
      | none => .err

/-- getDecoder (decode.go:67): `none` type = edtNil; the Bool is state.decodeType afterwards -/
def getDecoder (o : Opts) (dt : Bool) : Bytes → Res (Option Ty × Bytes × Bool)
  | [] => .err
  | b :: r =>
    if b = edtReg then
      match getReg o r with
      | .ok (t, r') => .ok (some t, r', false)
      | .err => .err
      | .panic => .panic
    else if b = edtType then
      match rd16 r with
      | none => .err
      | some (n, r') =>
        if lenLt r' n then .err
        else match decTy o (n + 1) (r'.take n) with
          | .ok (t, f) => if f ≠ [] then .err else .ok (some t, r'.drop n, dt)   -- leftover fold bytes are refused
          | .err => .err
          | .panic => .panic
    else if b = edtNil then .ok (none, r, dt)
    else match tagTy b with
      | some t => .ok (some t, r, false)
      | none => .err

/-- insert with overwrite (reflect.Value.SetMapIndex); keeps the first position of a key -/
def Pairs.insert (k v : Val) : Pairs → Pairs
  | .nil => .cons k v .nil
  | .cons k' v' ps => if k' = k then .cons k' v ps else .cons k' v' (Pairs.insert k v ps)

def Pairs.hasKey (k : Val) : Pairs → Bool
  | .nil => false
  | .cons k' _ ps => k' = k || ps.hasKey k

/-- a slice/array loop: `n` calls of the item decoder -/
def iterV (f : Bytes → Res (Val × Bytes)) : Nat → Bytes → Res (Vals × Bytes)
  | 0, bs => .ok (.nil, bs)
  | n+1, bs =>
    match f bs with
    | .ok (v, r) =>
      match iterV f n r with
      | .ok (vs, r') => .ok (.cons v vs, r')
      | .err => .err
      | .panic => .panic
    | .err => .err
    | .panic => .panic

/-- a map loop: n × (key, value, SetMapIndex) -/
def iterP (fk fv : Bytes → Res (Val × Bytes)) : Nat → Pairs → Bytes → Res (Pairs × Bytes)
  | 0, acc, bs => .ok (acc, bs)
  | n+1, acc, bs =>
    match fk bs with
    | .ok (k, r) =>
      match fv r with
      | .ok (v, r') => if k.hashable then iterP fk fv n (acc.insert k v) r' else .panic
      | .err => .err
      | .panic => .panic
    | .err => .err
    | .panic => .panic

/-- struct fields -/
def iterF (f : Ty → Bytes → Res (Val × Bytes)) : Tys → Bytes → Res (Vals × Bytes)
  | .nil, bs => .ok (.nil, bs)
  | .cons t ts, bs =>
    match f t bs with
    | .ok (v, r) =>
      match iterF f ts r with
      | .ok (vs, r') => .ok (.cons v vs, r')
      | .err => .err
      | .panic => .panic
    | .err => .err
    | .panic => .panic

/-- leaf decoders after the optional tag check -/
def decLeaf (o : Opts) : Ty → Bytes → Res (Val × Bytes)
  | .bool, b :: r => .ok (.bool (b == 1), r)
  | .bool, [] => .err
  | .num p, bs => if lenLt bs p.width then .err else .ok (.num (numCanon p (bs.take p.width)), bs.drop p.width)
  | .str, bs =>
    match rd16 bs with
    | none => .err
    | some (l, r) => if lenLt r l then .err else .ok (.str (r.take l), r.drop l)
  | .bin, bs =>
    match rd32 bs with
    | none => .err
    | some (l, r) => if lenLt r l then .err else .ok (.bin (r.take l), r.drop l)
  | .atom, bs =>
    match readAtom o bs with
    | .ok (a, r) => .ok (.atom a, r)
    | .err => .err
    | .panic => .panic
  | .idr k, bs =>
    match readAtom o bs with
    | .ok (a, r) => if lenLt r k.rawLen then .err else .ok (.idr a (r.take k.rawLen), r.drop k.rawLen)
    | .err => .err
    | .panic => .panic
  | .idn _, bs =>
    match readAtom o bs with
    | .ok (a, r) =>
      match readAtom o r with
      | .ok (b, r') => .ok (.idn a b, r')
      | .err => .err
      | .panic => .panic
    | .err => .err
    | .panic => .panic
  | .time, l :: r =>
    if lenLt r l.toNat then .err
    else if timeValid (r.take l.toNat) then .ok (.time (r.take l.toNat), r.drop l.toNat) else .err
  | .time, [] => .err
  | .error, bs =>
    match rd16 bs with
    | none => .err
    | some (id, r) =>
      if id = errNilId then .ok (.nil, r)
      else if id > limErrIdDec then
        match o.errOf id with
        | some e => .ok (e, r)
        | none => .err
      else if lenLt r id then .err
      else .ok (.errText (r.take id), r.drop id)
  | _, _ => .err

/-- the tag check of the leaf decoders when state.decodeType is set -/
def checkTag (dt : Bool) (tag : UInt8) (bs : Bytes) : Option Bytes :=
  if dt then
    match bs with
    | b :: r => if b = tag then some r else none
    | [] => none
  else some bs

/-- decoder.Decode(value, packet, state) with state.decodeType = dt; fuel bounds the nesting depth -/
def dec (o : Opts) : Nat → Bool → Ty → Bytes → Res (Val × Bytes)
  | 0, _, _, _ => .err
  | fuel+1, dt, t, bs =>
    match t with
    | .any =>                                   -- decodeAny (decode.go:1125)
      match getDecoder o dt bs with
      | .ok (none, r, _) => .ok (.nil, r)
      | .ok (some t', r, dt') =>
        (match dec o fuel dt' t' r with
         | .ok (v, r') =>
           if t' = .any then .ok (v, r')                         -- decodeAny into the same interface slot
           else if t' = .error ∧ v = .nil then .ok (.nil, r')    -- a nil error stored into an interface is a nil interface
           else .ok (.any t' v, r')
         | .err => .err
         | .panic => .panic)
      | .err => .err
      | .panic => .panic
    | .slice t' =>                              -- decode.go:268
      match bs with
      | [] => .err
      | b :: r =>
        if b = edtNil then .ok (.nil, r)
        else if b ≠ edtSlice then .err
        else match rd32 r with
          | none => .err
          | some (n, r') =>
            if n = 0 then .ok (.list .nil, r')
            else if lenLt r' n then .err
            else match iterV (dec o fuel false t') n r' with
              | .ok (vs, r'') => .ok (.list vs, r'')
              | .err => .err
              | .panic => .panic
    | .array n t' =>                            -- decode.go:357
      match bs with
      | [] => if n = 0 then .ok (.list .nil, []) else .err
      | _ =>
        match iterV (dec o fuel false t') n bs with
        | .ok (vs, r) => .ok (.list vs, r)
        | .err => .err
        | .panic => .panic
    | .map kt vt =>                             -- decode.go:175
      match bs with
      | [] => .err
      | b :: r =>
        if b = edtNil then .ok (.nil, r)
        else if b ≠ edtMap then .err
        else match rd32 r with
          | none => .err
          | some (n, r') =>
            if n = 0 then .ok (.map .nil, r')
            else if lenLt r' n then .err
            else match iterP (dec o fuel false kt) (dec o fuel false vt) n .nil r' with
              | .ok (ps, r'') => .ok (.map ps, r'')
              | .err => .err
              | .panic => .panic
    | .named _ (.slice t') =>                   -- register.go:404
      match bs with
      | [] => .err
      | b :: r =>
        if b = edtNil then .ok (.nil, r)
        else if b ≠ edtReg then .err
        else match rd32 r with
          | none => .err
          | some (n, r') =>
            if lenLt r' n then .err
            else match iterV (dec o fuel false t') n r' with
              | .ok (vs, r'') => .ok (.list vs, r'')
              | .err => .err
              | .panic => .panic
    | .named _ (.array n t') =>                 -- register.go:492
      match bs with
      | [] => if n = 0 then .ok (.list .nil, []) else .err
      | _ =>
        match iterV (dec o fuel false t') n bs with
        | .ok (vs, r) => .ok (.list vs, r)
        | .err => .err
        | .panic => .panic
    | .named _ (.map kt vt) =>                  -- register.go:584
      match bs with
      | [] => .err
      | b :: r =>
        if b = edtNil then .ok (.nil, r)
        else if b ≠ edtReg then .err
        else match rd32 r with
          | none => .err
          | some (n, r') =>
            if n = 0 then .ok (.map .nil, r')
            else if lenLt r' n then .err
            else match iterP (dec o fuel false kt) (dec o fuel false vt) n .nil r' with
              | .ok (ps, r'') => .ok (.map ps, r'')
              | .err => .err
              | .panic => .panic
    | .named _ t' => if t'.namedLeaf then decLeaf o t' bs else .err     -- register.go:183-293 (no tag check: getRegDecoder cleared decodeType)
    | .struct _ fs =>                           -- register.go:337
      match iterF (fun t b => dec o fuel false t b) fs bs with
      | .ok (vs, r) => .ok (.list vs, r)
      | .err => .err
      | .panic => .panic
    | .marsh _ _ =>                             -- register.go:78, 136 (UnmarshalEDF/UnmarshalBinary assumed to succeed)
      match rd32 bs with
      | none => .err
      | some (l, r) => if lenLt r l then .err else .ok (.opaque (r.take l), r.drop l)
    | t =>
      match t.leafTag with
      | some tag =>
        (match checkTag dt tag bs with
         | some r => decLeaf o t r
         | none => .err)
      | none => .err

-- nesting depth needed to decode a value of the type
mutual
def Ty.depth : Ty → Nat
  | .slice t => t.depth + 1
  | .array _ t => t.depth + 1
  | .map k v => max k.depth v.depth + 1
  | .named _ t => t.depth + 1
  | .struct _ fs => fs.depth + 1
  | _ => 1
def Tys.depth : Tys → Nat
  | .nil => 0
  | .cons t ts => max t.depth ts.depth
end

/-- what edf.Decode hands back for the value decoded at the top-level type: `value.Interface()` of an interface-typed
    slot is the dynamic value (or nil), a nil error is nil -/
def topNorm : Ty → Val → Option (Ty × Val)
  | .any, .any t v => some (t, v)
  | .any, _ => none
  | .error, .nil => none
  | t, v => some (t, v)

/-- edf.Decode (decode.go:31): `ok (none, rest)` = nil value. Panics are recovered into an error (lib.Recover()). -/
def decodeRaw (o : Opts) (fuel : Nat) (bs : Bytes) : Res (Option (Ty × Val) × Bytes) :=
  match getDecoder o true bs with
  | .ok (none, r, _) => .ok (none, r)
  | .ok (some t, r, dt) =>
    (match dec o fuel dt t r with
     | .ok (v, r') => .ok (topNorm t v, r')
     | .err => .err
     | .panic => .panic)
  | .err => .err
  | .panic => .panic

def recover {α : Type} : Res α → Res α
  | .panic => .err
  | r => r

def decode (o : Opts) (fuel : Nat) (bs : Bytes) : Res (Option (Ty × Val) × Bytes) := recover (decodeRaw o fuel bs)

end ErgoVerif.Edf

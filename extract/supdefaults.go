package main

import (
	"fmt"
	"go/ast"
	"go/token"
	"strconv"
)

// Generated/SupDefaults.lean: how Supervisor.ProcessInit (act/supervisor.go) fills in the restart options: the two
// default constants and whether each of Intensity / Period is defaulted on its own (`if X == 0 { X = default }`).

func init() {
	generators = append(generators, generator{name: "SupDefaults", run: genSupDefaults,
		fallback: "namespace ErgoVerif.Gen.SupDefaults\ndef defaultIntensity : Nat := 0\ndef defaultPeriod : Nat := 0\ndef defaultsIndependent : Bool := false\nend ErgoVerif.Gen.SupDefaults\n"})
}

func genSupDefaults() (string, error) {
	f, err := parseFile("act/supervisor.go")
	if err != nil {
		return "", err
	}
	consts := map[string]int{}
	for _, d := range f.Decls {
		gd, ok := d.(*ast.GenDecl)
		if !ok || gd.Tok != token.CONST {
			continue
		}
		for _, sp := range gd.Specs {
			vs := sp.(*ast.ValueSpec)
			for i, n := range vs.Names {
				if i < len(vs.Values) {
					if bl, ok := vs.Values[i].(*ast.BasicLit); ok && bl.Kind == token.INT {
						v, _ := strconv.Atoi(bl.Value)
						consts[n.Name] = v
					}
				}
			}
		}
	}
	di, ok1 := consts["defaultRestartIntensity"]
	dp, ok2 := consts["defaultRestartPeriod"]
	if !ok1 || !ok2 {
		return "", fmt.Errorf("defaultRestartIntensity / defaultRestartPeriod not found in act/supervisor.go")
	}
	// own(field, constant): a statement `if spec.Restart.<field> == 0 { spec.Restart.<field> = <constant> }` in ProcessInit
	own := map[string]bool{}
	found := false
	for _, d := range f.Decls {
		fd, ok := d.(*ast.FuncDecl)
		if !ok || fd.Body == nil || fd.Name.Name != "ProcessInit" || fd.Recv == nil {
			continue
		}
		found = true
		ast.Inspect(fd.Body, func(n ast.Node) bool {
			is, ok := n.(*ast.IfStmt)
			if !ok || is.Init != nil || is.Else != nil || len(is.Body.List) != 1 {
				return true
			}
			be, ok := is.Cond.(*ast.BinaryExpr)
			if !ok || be.Op != token.EQL || exprStr(be.Y) != "0" {
				return true
			}
			as, ok := is.Body.List[0].(*ast.AssignStmt)
			if !ok || as.Tok != token.ASSIGN || len(as.Lhs) != 1 || exprStr(as.Lhs[0]) != exprStr(be.X) {
				return true
			}
			own[exprStr(be.X)+"="+exprStr(as.Rhs[0])] = true
			return true
		})
	}
	if !found {
		return "", fmt.Errorf("Supervisor.ProcessInit not found")
	}
	ind := own["spec.Restart.Intensity=defaultRestartIntensity"] && own["spec.Restart.Period=defaultRestartPeriod"]
	return fmt.Sprintf("namespace ErgoVerif.Gen.SupDefaults\ndef defaultIntensity : Nat := %d\ndef defaultPeriod : Nat := %d\n/-- ProcessInit has `if spec.Restart.Intensity == 0 { = default }` and, separately, the same for Period -/\ndef defaultsIndependent : Bool := %v\nend ErgoVerif.Gen.SupDefaults\n", di, dp, ind), nil
}

/-
Model of the cron spec compiler and matcher: node/cron_parse.go.

  * AST of the spec grammar (`Item`, `Field`, `Spec`), validity, printer.
  * `parseSpec`     — cronParseSpec / cronParseSpecField / cronParseInt on the text, up to the AST
                      (regexp stage = `shape`/`regexAllows`, value stage = `parseItem`).
  * `compileSpec`   — the bit-mask compiler part of cronParseSpecField (AST → mask lists).
  * `specIsRunAt`   — cronSpecMask.IsRunAt / cronMaskList.IsRunAt / cronMask.IsRunAt on masks.
  * `Spec.denote`   — the denotational matcher (standard crontab rules) on civil fields.

Constants (mask types, field bounds, macro table) come from Generated/Cron.lean, which the
extractor rewrites from the working tree on every run. Core Lean only; no proofs here.
Masks are `Nat`; `Lemmas/CronMask.lean` shows every compiled mask is < 2^64, so `Nat` bit
operations coincide with Go's uint64 ones.
-/
import ErgoVerif.Generated.Cron
namespace ErgoVerif.Cron
open ErgoVerif.Generated.Cron

/-! ## AST -/

inductive Kind | minute | hour | day | month | wday
  deriving DecidableEq, Repr

/-- cronFieldMin … cronFieldWeekDay -/
def Kind.desc : Kind → FieldDesc
  | .minute => cronFieldMin
  | .hour => cronFieldHour
  | .day => cronFieldDay
  | .month => cronFieldMonth
  | .wday => cronFieldWeekDay

def Kind.lo (k : Kind) : Nat := k.desc.min
def Kind.hi (k : Kind) : Nat := k.desc.max
def Kind.mask (k : Kind) : Nat := k.desc.mask

/-- one comma-separated option of a field -/
inductive Item
  | num (n : Nat)             -- d
  | range (a b : Nat)         -- d-d
  | rangeStep (a b s : Nat)   -- d-d/d
  | starStep (s : Nat)        -- */d
  | last                      -- L      (day of month)
  | lastW (w : Nat)           -- wL     (weekday)
  | nth (w n : Nat)           -- w#n    (weekday)
  deriving DecidableEq, Repr

inductive Field
  | star
  | list (items : List Item)
  deriving DecidableEq, Repr

structure Spec where
  minute : Field
  hour : Field
  day : Field
  month : Field
  wday : Field
  deriving DecidableEq, Repr

/-- which alternatives the field's regexp has (cronField*.reg) -/
def Kind.allowsStep : Kind → Bool        -- */d
  | .wday => false
  | _ => true
def Kind.allowsRangeStep : Kind → Bool   -- d-d/d
  | .minute | .hour | .day => true
  | _ => false

/-- the grammar: values inside the field bounds, ascending ranges, steps 1..max,
    `L` only in the day field, `wL` and `w#n` only in the weekday field -/
def Item.valid (k : Kind) : Item → Bool
  | .num n => k.lo ≤ n && n ≤ k.hi
  | .range a b => k.lo ≤ a && a ≤ b && b ≤ k.hi
  | .rangeStep a b s => k.allowsRangeStep && k.lo ≤ a && a ≤ b && b ≤ k.hi && 1 ≤ s && s ≤ k.hi
  | .starStep s => k.allowsStep && 1 ≤ s && s ≤ k.hi
  | .last => k = .day
  | .lastW w => k = .wday && 1 ≤ w && w ≤ 7
  | .nth w n => k = .wday && 1 ≤ w && w ≤ 7 && 1 ≤ n && n ≤ 5

def Field.valid (k : Kind) : Field → Bool
  | .star => true
  | .list items => !items.isEmpty && items.all (Item.valid k)

def Spec.valid (s : Spec) : Bool :=
  s.minute.valid .minute && s.hour.valid .hour && s.day.valid .day && s.month.valid .month && s.wday.valid .wday

/-! ## Printer (canonical text of an AST) -/

def digitChar (d : Nat) : Char := Char.ofNat (48 + d)

/-- decimal digits, most significant first; fuel `n+1` is always enough -/
def digitsAux : Nat → Nat → List Char → List Char
  | 0, _, acc => acc
  | f + 1, n, acc =>
    let acc' := digitChar (n % 10) :: acc
    if n < 10 then acc' else digitsAux f (n / 10) acc'

def digits (n : Nat) : List Char := digitsAux (n + 1) n []

def Item.print : Item → List Char
  | .num n => digits n
  | .range a b => digits a ++ '-' :: digits b
  | .rangeStep a b s => digits a ++ '-' :: (digits b ++ '/' :: digits s)
  | .starStep s => '*' :: '/' :: digits s
  | .last => ['L']
  | .lastW w => digits w ++ ['L']
  | .nth w n => digits w ++ '#' :: digits n

def joinWith (sep : Char) : List (List Char) → List Char
  | [] => []
  | [x] => x
  | x :: y :: r => x ++ sep :: joinWith sep (y :: r)

def Field.print : Field → List Char
  | .star => ['*']
  | .list items => joinWith ',' (items.map Item.print)

/-- "min hour day month weekday" -/
def Spec.print (s : Spec) : List Char :=
  joinWith ' ' [s.minute.print, s.hour.print, s.day.print, s.month.print, s.wday.print]

/-! ## Parser: cronParseSpec on the text -/

def isDigit (c : Char) : Bool := '0' ≤ c && c ≤ '9'

/-- `\d+` -/
def allDigits (cs : List Char) : Bool := !cs.isEmpty && cs.all isDigit

/-- strconv.Atoi on a `\d+` string (without the 64-bit range error, which `cronParseInt`
    turns into a rejection just like its own `n > max` test) -/
def atoi (cs : List Char) : Nat := cs.foldl (fun a c => a * 10 + (c.toNat - 48)) 0

/-- cronParseInt(s, min, max) -/
def parseInt (cs : List Char) (lo hi : Nat) : Option Nat :=
  if allDigits cs then
    let n := atoi cs
    if n < lo then none else if n > hi then none else some n
  else none

/-- strings.Split(s, sep) for a one-character separator -/
def splitOn (sep : Char) : List Char → List (List Char)
  | [] => [[]]
  | c :: cs =>
    if c = sep then [] :: splitOn sep cs
    else match splitOn sep cs with
      | [] => [[c]]            -- unreachable: splitOn never returns []
      | w :: ws => (c :: w) :: ws

/-- unicode.IsSpace -/
def isSpace (c : Char) : Bool :=
  c = ' ' || c = '\t' || c = '\n' || c = '\r' || c.toNat = 0x0b || c.toNat = 0x0c ||
  c.toNat = 0x85 || c.toNat = 0xA0 || c.toNat = 0x1680 || (0x2000 ≤ c.toNat && c.toNat ≤ 0x200a) ||
  c.toNat = 0x2028 || c.toNat = 0x2029 || c.toNat = 0x202f || c.toNat = 0x205f || c.toNat = 0x3000

/-- strings.Fields: maximal runs of non-space characters (`cur` = the word being read, reversed) -/
def fieldsAux : List Char → List Char → List (List Char)
  | [], cur => if cur.isEmpty then [] else [cur.reverse]
  | c :: cs, cur =>
    if isSpace c then (if cur.isEmpty then fieldsAux cs [] else cur.reverse :: fieldsAux cs [])
    else fieldsAux cs (c :: cur)

def fields (cs : List Char) : List (List Char) := fieldsAux cs []

/-- the alternative of the field regexps a text matches (they are pairwise disjoint) -/
inductive Shape
  | star | starStep (s : List Char) | range (a b : List Char) | rangeStep (a b s : List Char)
  | L | num (d : List Char) | wL (w : Char) | nth (w n : Char)
  deriving DecidableEq, Repr

/-- `[c]` → c -/
def single (cs : List Char) : Option Char :=
  match cs with
  | [c] => some c
  | _ => none

/-- the alternatives that start with a digit: strings.Split on "-", "/", "#", "L" -/
def shapeTail (cs : List Char) : Option Shape :=
  match splitOn '-' cs with
  | [a, r] =>
    if allDigits a then
      match splitOn '/' r with
      | [b] => if allDigits b then some (.range a b) else none
      | [b, s] => if allDigits b && allDigits s then some (.rangeStep a b s) else none
      | _ => none
    else none
  | [d] =>
    match splitOn '#' d with
    | [w, n] =>
      match single w, single n with
      | some w, some n => if '1' ≤ w && w ≤ '7' && '1' ≤ n && n ≤ '5' then some (.nth w n) else none
      | _, _ => none
    | [x] =>
      match splitOn 'L' x with
      | [w, e] =>
        match single w with
        | some w => if e.isEmpty && '1' ≤ w && w ≤ '7' then some (.wL w) else none
        | none => none
      | [y] => if allDigits y then some (.num y) else none
      | _ => none
    | _ => none
  | _ => none

/-- which alternative matches; the tests follow the order in which cronParseSpecField takes the text
    apart ("*", "L", "*/", then the splits) -/
def shape (cs : List Char) : Option Shape :=
  if cs = ['*'] then some .star
  else if cs = ['L'] then some .L
  else if cs.head? = some '*' then
    (if (cs.drop 1).head? = some '/' && allDigits (cs.drop 2) then some (.starStep (cs.drop 2)) else none)
  else shapeTail cs

/-- does cronField<k>.reg have this alternative -/
def regexAllows (k : Kind) : Shape → Bool
  | .star | .range _ _ | .num _ => true
  | .starStep _ => k.allowsStep
  | .rangeStep _ _ _ => k.allowsRangeStep
  | .L => k = .day
  | .wL _ | .nth _ _ => k = .wday

/-- result of handling one option in the loop of cronParseSpecField -/
inductive Opt | wildcard | item (i : Item)
  deriving DecidableEq

/-- the body of the loop over `fieldOptions` (regexp, then the value checks with cronParseInt) -/
def parseOption (k : Kind) (fo : List Char) : Option Opt :=
  match shape fo with
  | none => none
  | some sh =>
    if regexAllows k sh = false then none else
    match sh with
    | .star => some .wildcard
    | .L => some (.item .last)
    | .starStep ds => (parseInt ds 1 k.hi).map fun s => .item (.starStep s)
    | .range a b =>
      match parseInt a k.lo k.hi, parseInt b k.lo k.hi with
      | some a, some b => if a > b then none else some (.item (.range a b))
      | _, _ => none
    | .rangeStep a b s =>
      match parseInt a k.lo k.hi, parseInt b k.lo k.hi, parseInt s 1 k.hi with
      | some a, some b, some s => if a > b then none else some (.item (.rangeStep a b s))
      | _, _, _ => none
    | .nth w n =>
      match parseInt [w] k.lo k.hi, parseInt [n] k.lo k.hi with
      | some w, some n => some (.item (.nth w n))
      | _, _ => none
    | .wL w => (parseInt [w] 1 7).map fun w => .item (.lastW w)
    | .num d => (parseInt d k.lo k.hi).map fun n => .item (.num n)

/-- the loop: a wildcard is accepted only as the single option -/
def parseOptions (k : Kind) : List (List Char) → Option (List Item)
  | [] => some []
  | fo :: rest =>
    match parseOption k fo with
    | some (.item i) => (parseOptions k rest).map (i :: ·)
    | _ => none

/-- cronParseSpecField up to the AST -/
def parseField (k : Kind) (f : List Char) : Option Field :=
  let opts := splitOn ',' f
  match opts with
  | [fo] =>
    match parseOption k fo with
    | some .wildcard => some .star
    | some (.item i) => some (.list [i])
    | none => none
  | _ => (parseOptions k opts).map Field.list

def expandMacro (cs : List Char) : List Char :=
  match macros.find? (fun m => m.1.toList = cs) with
  | some m => m.2.toList
  | none => cs

/-- cronParseSpec up to the AST; `none` = error returned -/
def parseSpec (cs : List Char) : Option Spec :=
  match fields (expandMacro cs) with
  | [f0, f1, f2, f3, f4] =>
    match parseField .minute f0, parseField .hour f1, parseField .month f3, parseField .day f2, parseField .wday f4 with
    | some mi, some ho, some mo, some da, some wd => some ⟨mi, ho, da, mo, wd⟩
    | _, _, _, _, _ => none
  | _ => none

/-! ## Compiler: the mask side of cronParseSpecField -/

/-- `for x := a; x <= b; x += s { mask |= 1 << x }`; the last argument bounds the iterations -/
def setRange (mask a b s : Nat) : Nat → Nat
  | 0 => mask
  | n + 1 => if a ≤ b then setRange (mask ||| (1 <<< a)) (a + s) b s n else mask

/-- `b + 1` iterations are enough for every step ≥ 1 -/
def loopBits (mask a b s : Nat) : Nat := setRange mask a b s (b + 1)

/-- `result` of cronParseSpecField: result[0] and the appended special masks -/
structure Acc where
  bits : Nat
  special : List Nat
  deriving DecidableEq, Repr

def compileItem (k : Kind) (acc : Acc) : Item → Acc
  | .num n => { acc with bits := acc.bits ||| (1 <<< n) }
  | .range a b => { acc with bits := loopBits acc.bits a b 1 }
  | .rangeStep a b s => { acc with bits := loopBits acc.bits a b s }
  | .starStep s => { acc with bits := loopBits acc.bits k.lo k.hi s }
  | .last => { acc with special := acc.special ++ [cronMaskTypeLastDM] }
  | .lastW w =>
    -- `switch mtype`: cronMaskTypeDay → LastDM | n (never produced: the day regexp has no `\dL`)
    if k = .day then { acc with special := acc.special ++ [cronMaskTypeLastDM ||| w] }
    else { acc with special := acc.special ++ [cronMaskTypeLastDW ||| w] }
  | .nth w n => { acc with special := acc.special ++ [cronMaskTypeNDW ||| (w <<< 8) ||| n] }

def compileField (k : Kind) : Field → List Nat
  | .star => []
  | .list items =>
    let acc := items.foldl (compileItem k) ⟨k.mask, []⟩
    -- "check if the first element has an empty mask": result[0] == field.mask&cronMaskType
    if acc.bits = k.mask &&& cronMaskType then acc.special else acc.bits :: acc.special

/-- cronSpecMask -/
structure SpecMask where
  minHourMonth : List Nat
  day : List Nat
  weekDay : List Nat
  deriving DecidableEq, Repr

def compileSpec (s : Spec) : SpecMask :=
  { minHourMonth := compileField .minute s.minute ++ compileField .hour s.hour ++ compileField .month s.month
    day := compileField .day s.day
    weekDay := compileField .wday s.wday }

/-! ## Civil time (what Go's `time` reports for an instant in a location; trusted) -/

structure Civil where
  year : Nat
  month : Nat      -- 1..12   t.Month()
  dom : Nat        -- 1..31   t.Day()
  hour : Nat       -- t.Hour()
  minute : Nat     -- t.Minute()
  wd : Nat         -- 0..6, Sunday = 0   t.Weekday()
  deriving DecidableEq, Repr

def isLeap (y : Nat) : Bool := y % 4 = 0 && (y % 100 ≠ 0 || y % 400 = 0)

def daysIn (y m : Nat) : Nat :=
  if m = 2 then (if isLeap y then 29 else 28)
  else if m = 4 || m = 6 || m = 9 || m = 11 then 30 else 31

def Civil.dim (c : Civil) : Nat := daysIn c.year c.month

def Civil.wf (c : Civil) : Prop :=
  1 ≤ c.month ∧ c.month ≤ 12 ∧ 1 ≤ c.dom ∧ c.dom ≤ c.dim ∧ c.hour ≤ 23 ∧ c.minute ≤ 59 ∧ c.wd ≤ 6

instance (c : Civil) : Decidable c.wf := by unfold Civil.wf; infer_instance

/-- `wd := t.Weekday(); if wd == 0 { wd = 7 }` -/
def Civil.cronWd (c : Civil) : Nat := if c.wd = 0 then 7 else c.wd

/-- `t.AddDate(0, 1, -t.Day()).Day()`: Date(y, m+1, 0) normalises to the last day of month m -/
def Civil.goLastDay (c : Civil) : Nat := c.dim

/-- `t.AddDate(0, 0, 7).Month()`: Date(y, m, d+7) normalises into the next month iff d+7 exceeds the month -/
def Civil.goMonthPlus7 (c : Civil) : Nat :=
  if c.dom + 7 > c.dim then (if c.month = 12 then 1 else c.month + 1) else c.month

/-! ## Mask matcher: IsRunAt -/

/-- cronMask.MaskType -/
def maskType (cm : Nat) : Nat := cm &&& cronMaskType

/-- `cm&(1<<i) > 0` -/
def bitSet (cm i : Nat) : Bool := decide (cm &&& (1 <<< i) > 0)

/-- cronMask.IsRunAt; the `default:` branch panics in Go — `maskKnown` marks the others -/
def maskIsRunAt (cm : Nat) (c : Civil) : Bool :=
  let t := maskType cm
  if t = cronMaskTypeMin then bitSet cm c.minute
  else if t = cronMaskTypeHour then bitSet cm c.hour
  else if t = cronMaskTypeDay then bitSet cm c.dom
  else if t = cronMaskTypeMonth then bitSet cm c.month
  else if t = cronMaskTypeWeekDay then bitSet cm c.cronWd
  else if t = cronMaskTypeLastDM then c.goLastDay == c.dom
  else if t = cronMaskTypeLastDW then
    let wd := cm &&& 15
    if wd ≠ c.cronWd then false else c.month != c.goMonthPlus7
  else if t = cronMaskTypeNDW then
    let wd := (cm >>> 8) &&& 255
    if wd ≠ c.cronWd then false else
    let n := cm &&& 255
    (c.dom - 1) / 7 + 1 == n
  else false

def maskKnown (cm : Nat) : Bool :=
  let t := maskType cm
  t = cronMaskTypeMin || t = cronMaskTypeHour || t = cronMaskTypeDay || t = cronMaskTypeMonth ||
  t = cronMaskTypeWeekDay || t = cronMaskTypeLastDM || t = cronMaskTypeLastDW || t = cronMaskTypeNDW

/-- `case cronMaskTypeMin, cronMaskTypeHour, cronMaskTypeMonth:` of cronMaskList.IsRunAt -/
def isAndType (cm : Nat) : Bool :=
  let t := maskType cm
  t = cronMaskTypeMin || t = cronMaskTypeHour || t = cronMaskTypeMonth

/-- the loop of cronMaskList.IsRunAt with its `run` variable -/
def listLoop (c : Civil) : List Nat → Bool → Bool
  | [], run => run
  | cm :: rest, run =>
    if isAndType cm then
      (if maskIsRunAt cm c = false then false else listLoop c rest run)
    else
      let run' := maskIsRunAt cm c
      if run' = true then true else listLoop c rest run'

/-- cronMaskList.IsRunAt -/
def listIsRunAt (l : List Nat) (c : Civil) : Bool := listLoop c l true

/-- cronSpecMask.IsRunAt -/
def specIsRunAt (m : SpecMask) (c : Civil) : Bool :=
  if m.day.length = 0 && listIsRunAt m.weekDay c = false then false
  else if m.weekDay.length = 0 && listIsRunAt m.day c = false then false
  else if (decide (m.day.length > 0) && decide (m.weekDay.length > 0)) &&
          (listIsRunAt m.day c = false && listIsRunAt m.weekDay c = false) then false
  else if listIsRunAt m.minHourMonth c = false then false
  else true

/-! ## Denotational matcher: standard crontab rules on civil fields -/

/-- the value a field looks at -/
def Kind.value (k : Kind) (c : Civil) : Nat :=
  match k with
  | .minute => c.minute
  | .hour => c.hour
  | .day => c.dom
  | .month => c.month
  | .wday => c.cronWd

def Item.denote (k : Kind) (c : Civil) : Item → Bool
  | .num n => k.value c = n
  | .range a b => a ≤ k.value c && k.value c ≤ b
  | .rangeStep a b s => a ≤ k.value c && k.value c ≤ b && (k.value c - a) % s = 0
  | .starStep s => k.lo ≤ k.value c && k.value c ≤ k.hi && (k.value c - k.lo) % s = 0
  | .last => c.dom = c.dim                                   -- last day of the month
  | .lastW w => c.cronWd = w && c.dom + 7 > c.dim            -- last weekday w of the month
  | .nth w n => c.cronWd = w && (c.dom - 1) / 7 + 1 = n      -- n-th weekday w of the month

def Field.denote (k : Kind) (c : Civil) : Field → Bool
  | .star => true
  | .list items => items.any (Item.denote k c)

def Field.isStar : Field → Bool
  | .star => true
  | .list _ => false

/-- minute ∧ hour ∧ month ∧ day-rule, where the day rule is: the restricted one of day-of-month /
    day-of-week when only one is restricted, either of them when both are -/
def Spec.denote (s : Spec) (c : Civil) : Bool :=
  s.minute.denote .minute c && s.hour.denote .hour c && s.month.denote .month c &&
  (if s.day.isStar then s.wday.denote .wday c
   else if s.wday.isStar then s.day.denote .day c
   else s.day.denote .day c || s.wday.denote .wday c)

/-- the whole path of AddJob's spec handling: text → masks (none = rejected) -/
def compileText (cs : List Char) : Option SpecMask := (parseSpec cs).map compileSpec

end ErgoVerif.Cron

package main

import (
	"errors"
	"fmt"
	"sort"
	"strconv"
	"strings"
	"sync"
	"time"

	"ergo.services/ergo/act"
	"ergo.services/ergo/gen"
)

// C08 — supervisor restart semantics (and the supervisor half of C09).
//
// K2: the real state machines supOFO / supARFO / supSOFO (through act/verif_export.go, tag verif)
// are driven with operation sequences; every operation is also written as a line for the Lean
// driver `sup` (Model/SupOFO, SupARFO, SupSOFO); the returned action and the whole visible state
// are compared after every operation.  The clock of the restart-intensity check is controlled only
// by shifting the stored history; the timestamp the code used is read back and given to the model.
//
// Two generators: (1) a closed-system simulation (c08sim.go: a Go copy of Supervisor.handleAction
// and of the exit dispatch around the REAL state machine, children that die at any moment, spawn
// failures, management calls) on which an implementation-independent oracle of the documented
// rules runs; (2) "wild" sequences of arbitrary method calls (unknown names/pids, mismatching
// name/pid, calls in every mode) for the differential alone.

func init() { props["C08"] = runC08 }

// ---------------------------------------------------------------------------
// plain-value encoding shared with the Lean driver
// ---------------------------------------------------------------------------

func supAtom(n int) gen.Atom {
	if n == 0 {
		return ""
	}
	return gen.Atom("c" + strconv.Itoa(n))
}
func supAtomN(a gen.Atom) int {
	if a == "" {
		return 0
	}
	n, err := strconv.Atoi(strings.TrimPrefix(string(a), "c"))
	if err != nil {
		return -1
	}
	return n
}
func supPid(n uint64) gen.PID {
	if n == 0 {
		return gen.PID{}
	}
	return gen.PID{Node: "v@h", ID: n, Creation: 1}
}

var supOther = []error{errors.New("other0"), errors.New("other1"), errors.New("other2"), errors.New("other3")}

// Wrapped reasons: an actor that obeys an exit signal terminates with fmt.Errorf("%s: %w", senderPid, reason)
// (act/actor.go) — an error that is not identical to any of the base reasons.  They are written "o1NN" where NN
// is the code of the innermost base reason, so that the Lean model sees them as `Reason.other (100+NN)`.
var supBaseNames = []string{"normal", "shutdown", "kill", "panic", "exceeded", "", "", "", "", "", "o0", "o1", "o2", "o3"}

func supBaseCode(s string) int {
	for i, n := range supBaseNames {
		if n == s && n != "" {
			return i
		}
	}
	return -1
}

// supWrap: the reason a child that was sent `r` terminates with
func supWrap(r string) string {
	if c := supBaseCode(r); c >= 0 {
		return fmt.Sprintf("o%d", 100+c)
	}
	return r // already wrapped
}

// supBase: innermost base reason
func supBase(r string) string {
	if strings.HasPrefix(r, "o1") && len(r) == 4 {
		n, _ := strconv.Atoi(r[1:])
		if n >= 100 && n-100 < len(supBaseNames) && supBaseNames[n-100] != "" {
			return supBaseNames[n-100]
		}
	}
	return r
}

func supReason(s string) error {
	if b := supBase(s); b != s {
		return fmt.Errorf("<pid>: %w", supReason(b))
	}
	switch s {
	case "normal":
		return gen.TerminateReasonNormal
	case "shutdown":
		return gen.TerminateReasonShutdown
	case "kill":
		return gen.TerminateReasonKill
	case "panic":
		return gen.TerminateReasonPanic
	case "exceeded":
		return act.ErrSupervisorRestartsExceeded
	case "-":
		return nil
	}
	if strings.HasPrefix(s, "o") {
		n, _ := strconv.Atoi(s[1:])
		return supOther[n%len(supOther)]
	}
	return errors.New("unknown-reason")
}
func supReasonS(e error) string {
	if e != nil && errors.Unwrap(e) != nil {
		in := e
		for errors.Unwrap(in) != nil {
			in = errors.Unwrap(in)
		}
		if c := supBaseCode(supReasonS(in)); c >= 0 {
			return fmt.Sprintf("o%d", 100+c)
		}
	}
	switch e {
	case nil:
		return "-"
	case gen.TerminateReasonNormal:
		return "normal"
	case gen.TerminateReasonShutdown:
		return "shutdown"
	case gen.TerminateReasonKill:
		return "kill"
	case gen.TerminateReasonPanic:
		return "panic"
	case act.ErrSupervisorRestartsExceeded:
		return "exceeded"
	}
	for i, o := range supOther {
		if e == o {
			return "o" + strconv.Itoa(i)
		}
	}
	return "?" + e.Error()
}
func supErrS(e error) string {
	switch e {
	case act.ErrSupervisorStrategyActive:
		return "active"
	case act.ErrSupervisorChildDuplicate:
		return "duplicate"
	case act.ErrSupervisorChildDisabled:
		return "disabled"
	case act.ErrSupervisorChildRunning:
		return "running"
	case act.ErrSupervisorChildUnknown:
		return "unknown"
	}
	if e.Error() == "shutting down" {
		return "shuttingdown"
	}
	if strings.Contains(e.Error(), "invalid child spec") || strings.Contains(e.Error(), "Factory is nil") {
		return "invalid"
	}
	return "?" + e.Error()
}
func supArgs(n int) []any {
	if n == 0 {
		return nil
	}
	return []any{n}
}
func supArgsN(a []any) int {
	if len(a) == 0 {
		return 0
	}
	if n, ok := a[0].(int); ok {
		return n
	}
	return -1
}
func sb2s(b bool) string {
	if b {
		return "1"
	}
	return "0"
}
func supSpecS(c act.VerifChildSpec) string {
	return fmt.Sprintf("%d:%d:%s:%d:%s:%s:%d", supAtomN(c.Name), c.PID.ID, sb2s(c.Disabled), supArgsN(c.Args), sb2s(c.Significant), sb2s(c.Register), c.I)
}
func supPidsS(l []gen.PID, sorted bool) string {
	if len(l) == 0 {
		return "-"
	}
	ids := make([]uint64, len(l))
	for i, p := range l {
		ids[i] = p.ID
	}
	if sorted {
		sort.Slice(ids, func(i, j int) bool { return ids[i] < ids[j] })
	}
	ss := make([]string, len(ids))
	for i, x := range ids {
		ss[i] = strconv.FormatUint(x, 10)
	}
	return strings.Join(ss, ",")
}

var supDoS = map[int]string{0: "nothing", 1: "start", 2: "tc", 4: "term"}

// ---------------------------------------------------------------------------
// one real state machine + the log of (model line, canonical observation)
// ---------------------------------------------------------------------------

type supCfg struct {
	Kind     string `json:"kind"` // ofo afo rfo sofo
	Strategy int    `json:"strategy"`
	K        int    `json:"intensity"`
	Period   int    `json:"period_s"`
	KO       bool   `json:"keep_order"`
	DAS      bool   `json:"disable_auto_shutdown"`
	Children []supChildIn `json:"children"`
}
type supChildIn struct {
	Name int  `json:"name"`
	Sig  bool `json:"significant"`
}

type supRun struct {
	cfg   supCfg
	v     *act.VerifSup
	lines []string
	obs   []string
	lastNow int64 // the clock reading passed to the model for the last childTerminated
	vt    int64 // virtual time (ms)
	delta int64 // stored restarts = virtual + delta
}

func (r *supRun) sofo() bool { return r.cfg.Kind == "sofo" }

func (r *supRun) stateS() string {
	st := r.v.State()
	rs := make([]int64, len(st.Restarts))
	for i, t := range st.Restarts {
		rs[i] = t - r.delta
	}
	specs := "-"
	if len(st.Specs) > 0 {
		ss := make([]string, len(st.Specs))
		for i, c := range st.Specs {
			ss[i] = supSpecS(c)
		}
		specs = strings.Join(ss, ",")
	}
	switch st.Kind {
	case "ofo":
		return fmt.Sprintf("ofo mode=%d sd=%s sr=%s wait=%s i=%d as=%s rs=%s %s", st.Mode, sb2s(st.Shutdown), supReasonS(st.ShutdownReason),
			supPidsS(st.Wait, true), st.I, sb2s(st.Autoshutdown), dashList(rs), specs)
	case "arfo":
		return fmt.Sprintf("arfo mode=%d rest=%s ko=%s sr=%s wait=%s ri=%d i=%d as=%s rs=%s %s", st.Mode, sb2s(st.Rest), sb2s(st.KeepOrder),
			supReasonS(st.ShutdownReason), supPidsS(st.Wait, true), st.RestartI, st.I, sb2s(st.Autoshutdown), dashList(rs), specs)
	default:
		ps := "-"
		if len(st.Pids) > 0 {
			ss := make([]string, len(st.Pids))
			for i, p := range st.Pids {
				ss[i] = fmt.Sprintf("%d:%d", p.PID.ID, supAtomN(p.Name))
			}
			ps = strings.Join(ss, ",")
		}
		return fmt.Sprintf("sofo sd=%s sr=%s wait=%s i=%d rs=%s pids=%s %s", sb2s(st.Shutdown), supReasonS(st.ShutdownReason),
			supPidsS(st.Wait, true), st.I, dashList(rs), ps, specs)
	}
}

type supOut struct {
	A        act.VerifAction
	Err      error
	Panicked bool
}

func (r *supRun) record(line string, a act.VerifAction, err error, panicked bool) supOut {
	var res string
	switch {
	case panicked:
		res = "panic"
	case err != nil:
		res = "err " + supErrS(err)
	default:
		d, ok := supDoS[a.Do]
		if !ok {
			d = "do" + strconv.Itoa(a.Do)
		}
		res = fmt.Sprintf("ok %s %s %s %s", d, supSpecS(a.Spec), supPidsS(a.Terminate, r.sofo()), supReasonS(a.Reason))
	}
	r.lines = append(r.lines, line)
	r.obs = append(r.obs, res+" | "+r.stateS())
	return supOut{a, err, panicked}
}

func newSupRun(cfg supCfg) (*supRun, supOut) {
	r := &supRun{cfg: cfg, vt: 1000000}
	var t act.SupervisorType
	switch cfg.Kind {
	case "ofo":
		t = act.SupervisorTypeOneForOne
	case "afo":
		t = act.SupervisorTypeAllForOne
	case "rfo":
		t = act.SupervisorTypeRestForOne
	default:
		t = act.SupervisorTypeSimpleOneForOne
	}
	r.v = act.VerifNewSup(t)
	spec := act.SupervisorSpec{Type: t, DisableAutoShutdown: cfg.DAS}
	spec.Restart = act.SupervisorRestart{Strategy: act.SupervisorStrategy(cfg.Strategy), Intensity: uint16(cfg.K), Period: uint16(cfg.Period), KeepOrder: cfg.KO}
	ch := "-"
	var cs []string
	for _, c := range cfg.Children {
		spec.Children = append(spec.Children, act.VerifChild(supAtom(c.Name), c.Sig))
		cs = append(cs, fmt.Sprintf("%d:%s", c.Name, sb2s(c.Sig)))
	}
	if len(cs) > 0 {
		ch = strings.Join(cs, ",")
	}
	line := fmt.Sprintf("new %s %d %d %d %s %s %s", cfg.Kind, cfg.Strategy, cfg.K, cfg.Period*1000, sb2s(cfg.KO), sb2s(cfg.DAS), ch)
	a, err, p := r.v.Init(spec)
	return r, r.record(line, a, err, p)
}

func (r *supRun) started(i int, name int, args int, pid uint64) supOut {
	cs := act.VerifChildSpec{Name: supAtom(name), I: i, Args: supArgs(args)}
	a, err, p := r.v.ChildStarted(cs, supPid(pid))
	return r.record(fmt.Sprintf("started %d %d %d %d", i, name, args, pid), a, err, p)
}

// terminated advances the virtual clock by gap ms, places the stored history accordingly, calls childTerminated.
func (r *supRun) terminated(name int, pid uint64, reason string, gap int64) supOut {
	r.vt += gap
	st := r.v.State()
	virt := make([]int64, len(st.Restarts))
	for i, t := range st.Restarts {
		virt[i] = t - r.delta
	}
	r.delta = time.Now().UnixMilli() - r.vt
	shifted := make([]int64, len(virt))
	for i, t := range virt {
		shifted[i] = t + r.delta
	}
	r.v.SetRestarts(shifted)
	a, err, p := r.v.ChildTerminated(supAtom(name), supPid(pid), supReason(reason))
	after := r.v.State().Restarts
	now := r.vt
	changed := len(after) != len(shifted)
	for i := 0; !changed && i < len(after); i++ {
		changed = after[i] != shifted[i]
	}
	if changed && len(after) > 0 {
		now = after[len(after)-1] - r.delta // the clock reading the code took (vt, or a millisecond later)
		if now > r.vt {
			r.vt = now
		}
	}
	r.lastNow = now
	return r.record(fmt.Sprintf("term %d %d %s %d", name, pid, reason, now), a, err, p)
}
func (r *supRun) childSpec(name int) supOut {
	a, err, p := r.v.ChildSpec(supAtom(name))
	return r.record(fmt.Sprintf("spec %d", name), a, err, p)
}
func (r *supRun) addSpec(name int, sig bool) supOut {
	a, err, p := r.v.ChildAddSpec(act.VerifChild(supAtom(name), sig))
	return r.record(fmt.Sprintf("add %d %s", name, sb2s(sig)), a, err, p)
}
func (r *supRun) enable(name int) supOut {
	a, err, p := r.v.ChildEnable(supAtom(name))
	return r.record(fmt.Sprintf("enable %d", name), a, err, p)
}
func (r *supRun) disable(name int) supOut {
	a, err, p := r.v.ChildDisable(supAtom(name))
	return r.record(fmt.Sprintf("disable %d", name), a, err, p)
}

// ---------------------------------------------------------------------------
// model comparison: sequences are split over several driver processes at `new` lines
// ---------------------------------------------------------------------------

type supSeq struct {
	lines, obs []string
	cfg        supCfg
	tag        string
}

func supCompare(c *Ctx, seqs []supSeq, workers int) { supCompareModel(c, "sup", seqs, workers) }

func supCompareModel(c *Ctx, model string, seqs []supSeq, workers int) {
	r := c.R
	if len(seqs) == 0 {
		return
	}
	if workers > len(seqs) {
		workers = len(seqs)
	}
	chunk := (len(seqs) + workers - 1) / workers
	type res struct {
		outs []string
		err  error
	}
	results := make([]res, workers)
	var wg sync.WaitGroup
	for w := 0; w < workers; w++ {
		lo, hi := w*chunk, (w+1)*chunk
		if lo >= len(seqs) {
			break
		}
		if hi > len(seqs) {
			hi = len(seqs)
		}
		wg.Add(1)
		go func(w, lo, hi int) {
			defer wg.Done()
			var lines []string
			for _, s := range seqs[lo:hi] {
				lines = append(lines, s.lines...)
			}
			results[w].outs, results[w].err = Model(model, lines)
		}(w, lo, hi)
	}
	wg.Wait()
	reported := 0
	for w := 0; w < workers; w++ {
		lo, hi := w*chunk, (w+1)*chunk
		if lo >= len(seqs) {
			break
		}
		if hi > len(seqs) {
			hi = len(seqs)
		}
		if results[w].err != nil {
			r.Disagree(model+".driver", results[w].err.Error(), nil)
			return
		}
		k := 0
		for _, s := range seqs[lo:hi] {
			for j := range s.lines {
				if results[w].outs[k+j] != s.obs[j] && reported < 3 {
					reported++
					nm := "K2 Model.Sup" + strings.ToUpper(s.cfg.Kind) + " ~ act.sup* state machine (" + s.tag + ")"
					if model == "suploop" {
						nm = "K2 Model.SupLoop (closed system over the model machines) ~ simulation around the real " + s.cfg.Kind + " state machine (" + s.tag + ")"
					}
					r.Disagree(nm,
						fmt.Sprintf("op %d %q: model %q, implementation %q", j, s.lines[j], results[w].outs[k+j], s.obs[j]),
						map[string]interface{}{"config": s.cfg, "ops": s.lines[:j+1]})
					break
				}
			}
			k += len(s.lines)
		}
	}
}

// ---------------------------------------------------------------------------
// configurations
// ---------------------------------------------------------------------------

var supKinds = []string{"ofo", "afo", "rfo", "sofo"}

func supRandCfg(g *Rng) supCfg {
	cfg := supCfg{Kind: supKinds[g.Intn(4)], Strategy: g.Intn(3), K: 1 + g.Intn(3), Period: 1 + g.Intn(3), KO: g.Bool(), DAS: g.Bool()}
	if g.Chance(1, 6) {
		cfg.K = 4 + g.Intn(4)
	}
	n := 1 + g.Intn(4)
	for i := 0; i < n; i++ {
		cfg.Children = append(cfg.Children, supChildIn{Name: i + 1, Sig: g.Chance(1, 4)})
	}
	return cfg
}

var supReasons = []string{"normal", "shutdown", "kill", "panic", "o1", "o2"}

// wild sequence: arbitrary calls, for the differential only
func supWild(g *Rng, cfg supCfg, nops int) *supRun {
	r, _ := newSupRun(cfg)
	nextPid := uint64(100)
	pm := int64(cfg.Period) * 1000
	for i := 0; i < nops; i++ {
		st := r.v.State()
		nspec := len(st.Specs)
		name := func() int {
			if nspec > 0 && !g.Chance(1, 8) {
				return supAtomN(st.Specs[g.Intn(nspec)].Name)
			}
			return g.Intn(8) // possibly unknown, 0 = empty atom
		}
		somePid := func() uint64 {
			var cand []uint64
			for _, c := range st.Specs {
				if c.PID.ID != 0 {
					cand = append(cand, c.PID.ID)
				}
			}
			for _, p := range st.Pids {
				cand = append(cand, p.PID.ID)
			}
			for _, p := range st.Wait {
				cand = append(cand, p.ID)
			}
			if len(cand) > 0 && !g.Chance(1, 6) {
				return cand[g.Intn(len(cand))]
			}
			if g.Chance(1, 10) {
				return 0
			}
			return 90 + uint64(g.Intn(30))
		}
		gap := func() int64 {
			switch g.Intn(5) {
			case 0:
				return 0
			case 1:
				return int64(g.Intn(40))
			case 2:
				return pm/int64(cfg.K+1) + int64(g.Intn(3)) - 1
			case 3:
				return pm + int64(g.Intn(5)) - 2
			}
			return int64(g.Intn(int(pm)))
		}
		switch g.Intn(10) {
		case 0, 1, 2:
			// started: mostly a consistent (i, name), sometimes not
			if nspec == 0 {
				continue
			}
			k := g.Intn(nspec)
			c := st.Specs[k]
			idx, nm := c.I, supAtomN(c.Name)
			if g.Chance(1, 12) {
				idx = g.Intn(nspec + 2)
			}
			if g.Chance(1, 12) {
				nm = g.Intn(8)
			}
			nextPid++
			pid := nextPid
			if g.Chance(1, 15) {
				pid = somePid()
			}
			r.started(idx, nm, g.Intn(3), pid)
		case 3, 4, 5, 6:
			// terminated: mostly a consistent (name, pid)
			pid := somePid()
			nm := 0
			for _, c := range st.Specs {
				if c.PID.ID == pid && pid != 0 {
					nm = supAtomN(c.Name)
				}
			}
			for _, p := range st.Pids {
				if p.PID.ID == pid {
					nm = supAtomN(p.Name)
				}
			}
			if g.Chance(1, 8) {
				nm = name()
			}
			r.terminated(nm, pid, supReasons[g.Intn(len(supReasons))], gap())
		case 7:
			switch g.Intn(3) {
			case 0:
				r.childSpec(name())
			case 1:
				r.addSpec(g.Intn(9), g.Chance(1, 4))
			default:
				r.childSpec(name())
			}
		case 8:
			r.enable(name())
		default:
			r.disable(name())
		}
	}
	return r
}

// ---------------------------------------------------------------------------

func runC08(c *Ctx) {
	r := c.R
	r.Rule = "K2: operation sequences on the real supOFO/supARFO/supSOFO (verif export) and on the Lean models, action + full state compared after every operation; " +
		"generators: closed-system simulation (deaths at any moment incl. during restarts/stops, immediately after start, spawn failures, Start/Add/Enable/DisableChild) with an " +
		"independent oracle of the documented rules, and wild call sequences; non-trivial = sequence with at least one child termination handled outside shutdown; distinct by (config, op lines)"
	t0 := time.Now()
	var seqs, loops []supSeq

	// ---- listed / fixed witnesses first ------------------------------------------
	ws, wl := supWitnesses(c)
	seqs = append(seqs, ws...)
	loops = append(loops, wl...)

	// ---- closed-system simulation with the oracle ---------------------------------
	nsim := c.N(6000, 150000)
	for i := 0; i < nsim; i++ {
		g := c.Rng.Fork()
		cfg := supRandCfg(g)
		s := newSupSim(c, g, cfg)
		s.runEpisodes(6 + g.Intn(10))
		seqs = append(seqs, supSeq{s.run.lines, s.run.obs, cfg, "sim"})
		loops = append(loops, supSeq{s.loopLines, s.loopObs, cfg, "sim"})
		r.CountN("labels.closed-system", len(s.loopLines))
		r.Case(fmt.Sprintf("%v|%s", cfg, strings.Join(s.run.lines, ";")), s.handledDeaths > 0)
		r.CountN("ops.sim", len(s.run.lines))
		r.Count("cfg." + cfg.Kind + ".strategy" + strconv.Itoa(cfg.Strategy) + ".ko" + sb2s(cfg.KO))
		if i < 2 {
			r.Sample(map[string]interface{}{"kind": "sim", "config": cfg, "ops": s.run.lines, "observed": s.run.obs[len(s.run.obs)-1], "events": s.eventsS()})
		}
	}
	// ---- wild sequences -----------------------------------------------------------
	nw := c.N(4000, 100000)
	for i := 0; i < nw; i++ {
		g := c.Rng.Fork()
		cfg := supRandCfg(g)
		w := supWild(g, cfg, 8+g.Intn(25))
		seqs = append(seqs, supSeq{w.lines, w.obs, cfg, "wild"})
		nontriv := false
		for _, l := range w.lines {
			if strings.HasPrefix(l, "term ") {
				nontriv = true
			}
		}
		r.Case(fmt.Sprintf("%v|%s", cfg, strings.Join(w.lines, ";")), nontriv)
		r.CountN("ops.wild", len(w.lines))
		for _, o := range w.obs {
			if strings.HasPrefix(o, "panic") {
				r.Count("wild.panic-outcomes")
			} else if strings.HasPrefix(o, "err") {
				r.Count("wild.err-outcomes")
			}
		}
		if i < 2 {
			r.Sample(map[string]interface{}{"kind": "wild", "config": cfg, "ops": w.lines})
		}
	}
	r.Count("sequences")
	r.Distribution["sequences"] = len(seqs)
	implS := time.Since(t0).Seconds()
	supCompare(c, seqs, 12)
	supCompareModel(c, "suploop", loops, 12)
	// ---- K4: the same rules on a real node ---------------------------------------
	tk := time.Now()
	runSupK4(c)
	r.Note("K4 %.1fs", time.Since(tk).Seconds())
	r.Note("implementation side %.1fs, with model comparison %.1fs, %d sequences", implS, time.Since(t0).Seconds(), len(seqs))
}

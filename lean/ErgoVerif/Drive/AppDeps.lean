import ErgoVerif.Drive.Util
import ErgoVerif.Model.AppDeps
namespace ErgoVerif.Drive.AppDeps
open ErgoVerif ErgoVerif.Drive ErgoVerif.AppDeps

def bits (s : String) : List Bool := s.toList.map (· == '1')

def showRes : Res → String
  | .ok => "ok" | .running => "running" | .unknown => "unknown" | .depends => "depends" | .failed => "failed"

def sortNat (l : List Nat) : List Nat := l.mergeSort (fun a b => decide (a ≤ b))

structure D where
  sp : Spec
  st : St

def D.init : D := ⟨⟨[], [], []⟩, ⟨[], []⟩⟩

/-- `spec <loaded bits> <deps: lists separated by ;> <fails bits>` | `running <list>` | `stop <a>` | `start <a>` (prints the Start callbacks of this call) -/
def line (d : D) (ln : String) : D × String :=
  match words ln with
  | ["spec", l, ds, f] =>
    match (ds.splitOn ";").mapM parseNatList? with
    | some deps => ({ sp := ⟨bits l, deps, bits f⟩, st := ⟨[], []⟩ }, "ok")
    | none => (d, "bad-op")
  | ["running", l] => match parseNatList? l with
    | some r => ({ d with st := ⟨r, []⟩ }, "ok")
    | none => (d, "bad-op")
  | ["stop", a] => match a.toNat? with
    | some a => ({ d with st := ⟨d.st.running.filter (· ≠ a), []⟩ }, "ok")
    | none => (d, "bad-op")
  | ["start", a] => match a.toNat? with
    | some a =>
      let r := start d.sp (d.sp.loaded.length + 1) { d.st with order := [] } a
      ({ d with st := r.1 }, s!"{showRes r.2} running={showNatList (sortNat r.1.running)} order={showNatList r.1.order}")
    | none => (d, "bad-op")
  | _ => (d, "bad-op")

def main (h : IO.FS.Stream) : IO Unit := loopState h line D.init
end ErgoVerif.Drive.AppDeps

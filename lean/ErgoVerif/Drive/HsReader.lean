import ErgoVerif.Drive.Util
import ErgoVerif.Model.HsReader
namespace ErgoVerif.Drive.HsReader
open ErgoVerif.Drive ErgoVerif.HsReader

def parseSegs? (s : String) : Option (List (List UInt8)) :=
  if s = "-" then some [] else (s.splitOn ",").mapM parseHex?

/-- `read <chunk hex|-> <seg,seg,…|->` → `<class> [payload hex] <peak> <reads>` -/
def line (s : String) : String :=
  match words s with
  | ["read", c, segs] =>
    match parseHex? c, parseSegs? segs with
    | some c, some segs =>
      let o := readMessage c segs
      let cls := match o.res with
        | .ok p => s!"ok {showHex p}"
        | .errRead => "errread"
        | .errMagic => "errmagic"
        | .errVersion => "errversion"
        | .errTooLong => "errtoolong"
        | .panic => "panic"
      s!"{cls} {o.peak} {o.reads}"
    | _, _ => "bad-op"
  | ["frame", p] =>     -- the bytes writeMessage produces for this payload
    match parseHex? p with
    | some p => showHex (frame p)
    | none => "bad-op"
  | _ => "bad-op"

def main (h : IO.FS.Stream) : IO Unit := loopPure h line

end ErgoVerif.Drive.HsReader

/-
Every mask the compiler produces for a valid spec has a known type (cronMask.IsRunAt never reaches its
panicking `default:`) and fits in 64 bits (so the model's `Nat` operations are Go's uint64 operations).
-/
import ErgoVerif.Lemmas.CronSpec
namespace ErgoVerif.Cron
open ErgoVerif.Generated.Cron

theorem Kind.mask_lt (k : Kind) : k.mask < 2 ^ 64 := by cases k <;> decide

theorem compileField_wellformed (k : Kind) (f : Field) (hv : f.valid k = true) :
    ∀ m ∈ compileField k f, maskKnown m = true ∧ m < 2 ^ 64 := by
  cases f with
  | star => intro m hm; simp [compileField] at hm
  | list items =>
    simp only [Field.valid, Bool.and_eq_true, Bool.not_eq_true', List.all_eq_true] at hv
    obtain ⟨_, hv⟩ := hv
    have hsp : ∀ m ∈ items.filterMap (Item.specialMask k), maskKnown m = true ∧ m < 2 ^ 64 := by
      intro m hm
      have := special_mem k items hv ⟨0, 1, 1, 0, 0, 0⟩ m hm
      exact ⟨this.2.1, this.2.2⟩
    have hbits : maskKnown (items.foldl (compileItem k) ⟨k.mask, []⟩).bits = true ∧
        (items.foldl (compileItem k) ⟨k.mask, []⟩).bits < 2 ^ 64 := by
      refine ⟨maskKnown_of_type k _ (acc_bits_type k items hv), ?_⟩
      apply Nat.lt_pow_two_of_testBit
      intro i hi
      rw [acc_bits_testBit k items hv i, Nat.testBit_lt_two_pow (Nat.lt_of_lt_of_le k.mask_lt (Nat.pow_le_pow_right (by omega) hi))]
      have : items.any (Item.numDenote k i) = false := by
        rw [List.any_eq_false]
        intro it hit
        simp [numDenote_high k it (hv it hit) (by omega : 60 ≤ i)]
      simp [this]
    intro m hm
    simp only [compileField] at hm
    rw [acc_special k items] at hm
    split at hm
    · exact hsp m hm
    · rcases List.mem_cons.mp hm with rfl | hm
      · exact hbits
      · exact hsp m hm

theorem compileSpec_wellformed (s : Spec) (hs : s.valid = true) :
    ∀ m, (m ∈ (compileSpec s).minHourMonth ∨ m ∈ (compileSpec s).day ∨ m ∈ (compileSpec s).weekDay) →
      maskKnown m = true ∧ m < 2 ^ 64 := by
  simp only [Spec.valid, Bool.and_eq_true] at hs
  obtain ⟨⟨⟨⟨h1, h2⟩, h3⟩, h4⟩, h5⟩ := hs
  intro m hm
  simp only [compileSpec, List.mem_append] at hm
  rcases hm with ((hm | hm) | hm) | hm | hm
  · exact compileField_wellformed _ _ h1 m hm
  · exact compileField_wellformed _ _ h2 m hm
  · exact compileField_wellformed _ _ h4 m hm
  · exact compileField_wellformed _ _ h3 m hm
  · exact compileField_wellformed _ _ h5 m hm

end ErgoVerif.Cron

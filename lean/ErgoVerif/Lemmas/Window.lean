import ErgoVerif.Model.Window
namespace ErgoVerif.Window

theorem sorted_tail {a : Int} {l : List Int} (h : Sorted (a :: l)) : Sorted l := by
  cases l with
  | nil => trivial
  | cons b r => exact h.2

theorem sorted_head_le {a : Int} {l : List Int} (h : Sorted (a :: l)) : ∀ x ∈ l, a ≤ x := by
  induction l generalizing a with
  | nil => simp
  | cons b r ih =>
    intro x hx
    simp at hx
    rcases hx with rfl | hx
    · exact h.1
    · have := ih (a := b) h.2 x hx
      have := h.1
      omega

theorem sorted_append_singleton {l : List Int} {t : Int} (hs : Sorted l) (hb : ∀ x ∈ l, x ≤ t) :
    Sorted (l ++ [t]) := by
  induction l with
  | nil => trivial
  | cons a r ih =>
    cases r with
    | nil => exact ⟨hb a (by simp), trivial⟩
    | cons b r' =>
      exact ⟨hs.1, ih hs.2 (fun x hx => hb x (by simp [hx]))⟩

theorem sorted_of_append_right {l₁ l₂ : List Int} (h : Sorted (l₁ ++ l₂)) : Sorted l₂ := by
  induction l₁ with
  | nil => simpa using h
  | cons a r ih => exact ih (sorted_tail h)

/-- on a sorted list bounded by `now`, dropWhile (too old) leaves exactly the in-window entries -/
theorem dropWhile_eq_filter (l : List Int) (now period : Int) (hs : Sorted l) (hn : ∀ x ∈ l, x ≤ now) :
    l.dropWhile (fun t => decide (now - t > period)) = l.filter (fun t => decide (now - t ≤ period)) := by
  induction l with
  | nil => simp
  | cons a r ih =>
    by_cases h : now - a > period
    · have : ¬ (now - a ≤ period) := by omega
      simp [List.dropWhile, List.filter, h, this]
      exact ih (sorted_tail hs) (fun x hx => hn x (by simp [hx]))
    · have h' : now - a ≤ period := by omega
      simp only [List.dropWhile, h, decide_false]
      have hall : ∀ x ∈ a :: r, now - x ≤ period := by
        intro x hx
        simp at hx
        rcases hx with rfl | hx
        · exact h'
        · have := sorted_head_le hs x hx
          omega
      symm
      apply List.filter_eq_self.mpr
      intro x hx
      simpa using hall x hx

/-- `dropWhile p l` is a suffix: `l = dropped ++ dropWhile p l` with every dropped element satisfying `p` -/
theorem dropWhile_split (p : Int → Bool) (l : List Int) :
    ∃ dr, l = dr ++ l.dropWhile p ∧ ∀ d ∈ dr, p d = true := by
  induction l with
  | nil => exact ⟨[], by simp⟩
  | cons a r ih =>
    by_cases h : p a = true
    · obtain ⟨dr, h1, h2⟩ := ih
      refine ⟨a :: dr, ?_, ?_⟩
      · simp only [List.dropWhile, h, List.cons_append]; rw [← h1]
      · intro d hd; simp at hd; rcases hd with rfl | hd
        · exact h
        · exact h2 d hd
    · exact ⟨[], by simp [List.dropWhile, h]⟩

/-- single step: on a sorted retained list bounded by `now`, the verdict is the window count of the retained list -/
theorem check_spec (st : List Int) (now period : Int) (intensity : Nat)
    (hs : Sorted (st ++ [now])) (hn : ∀ x ∈ st, x ≤ now) :
    (check st now period intensity).2 = decide (inWindow (st ++ [now]) now period > intensity) := by
  unfold check inWindow
  simp only
  split
  · rename_i hle
    have := List.length_filter_le (fun t => decide (now - t ≤ period)) (st ++ [now])
    simp at hle this ⊢
    omega
  · rw [dropWhile_eq_filter _ now period hs (by
      intro x hx; simp at hx; rcases hx with hx | rfl
      · exact hn x hx
      · omega)]

theorem inWindow_append (a b : List Int) (now p : Int) :
    inWindow (a ++ b) now p = inWindow a now p + inWindow b now p := by
  simp [inWindow]

theorem inWindow_zero_of_old (dr : List Int) (now p : Int) (h : ∀ d ∈ dr, now - d > p) :
    inWindow dr now p = 0 := by
  unfold inWindow
  rw [List.length_eq_zero_iff, List.filter_eq_nil_iff]
  intro d hd
  have := h d hd
  simp; omega

/-- invariant linking the lazily pruned list `st` to the full history `pre` -/
def Rel (period : Int) (pre st : List Int) (last : Int) : Prop :=
  ∃ dr, pre = dr ++ st ∧ (∀ d ∈ dr, last - d > period) ∧ Sorted pre ∧ (∀ x ∈ pre, x ≤ last)

theorem rel_step {period : Int} (hp : 0 ≤ period) {pre st : List Int} {last t : Int} (k : Nat)
    (hr : Rel period pre st last) (ht : last ≤ t) :
    Rel period (pre ++ [t]) (check st t period k).1 t ∧
    (check st t period k).2 = decide (inWindow (pre ++ [t]) t period > k) := by
  obtain ⟨dr, hpre, hold, hsort, hbound⟩ := hr
  have hbt : ∀ x ∈ pre, x ≤ t := fun x hx => by have := hbound x hx; omega
  have hsort' : Sorted (pre ++ [t]) := sorted_append_singleton hsort hbt
  have hst_sorted : Sorted (st ++ [t]) := by
    have : pre ++ [t] = dr ++ (st ++ [t]) := by rw [hpre]; simp
    rw [this] at hsort'
    exact sorted_of_append_right hsort'
  have hst_b : ∀ x ∈ st, x ≤ t := fun x hx => hbt x (by rw [hpre]; simp [hx])
  have hold' : ∀ d ∈ dr, t - d > period := fun d hd => by have := hold d hd; omega
  constructor
  · unfold check
    simp only
    split
    · exact ⟨dr, by rw [hpre]; simp, hold', hsort', by
        intro x hx; simp at hx; rcases hx with hx | rfl
        · exact hbt x hx
        · omega⟩
    · obtain ⟨dr2, h1, h2⟩ := dropWhile_split (fun x => decide (t - x > period)) (st ++ [t])
      refine ⟨dr ++ dr2, ?_, ?_, hsort', ?_⟩
      · rw [hpre, List.append_assoc, List.append_assoc]
        rw [← h1]
      · intro d hd
        simp at hd
        rcases hd with hd | hd
        · exact hold' d hd
        · simpa using h2 d hd
      · intro x hx; simp at hx; rcases hx with hx | rfl
        · exact hbt x hx
        · omega
  · rw [check_spec st t period k hst_sorted hst_b]
    have : pre ++ [t] = dr ++ (st ++ [t]) := by rw [hpre]; simp
    rw [this, inWindow_append dr, inWindow_zero_of_old dr t period hold']
    simp

theorem runImpl_eq_runSpec {period : Int} (hp : 0 ≤ period) (k : Nat) :
    ∀ (ts pre st : List Int) (last : Int), Rel period pre st last → Sorted (last :: ts) →
      (runImpl period k st ts).2 = runSpec period k pre ts := by
  intro ts
  induction ts with
  | nil => intros; simp [runImpl, runSpec]
  | cons t ts ih =>
    intro pre st last hr hs
    have ht : last ≤ t := hs.1
    obtain ⟨hr', hv⟩ := rel_step hp k hr ht
    simp only [runImpl, runSpec]
    rw [hv, ih (pre ++ [t]) _ t hr' (sorted_tail hs)]

end ErgoVerif.Window

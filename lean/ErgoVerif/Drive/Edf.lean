import ErgoVerif.Drive.Util
import ErgoVerif.Model.Edf
import ErgoVerif.Model.EdfAlloc
/-!
Line protocol of the EDF model (`driver edf`), stateful: configuration lines set the options / registry,
`enc`/`dec`/`top` lines evaluate the model.

  reg <ty>                    register a named type / struct / marshaler under its name
  sent <k> <hextext>          text of the k-th sentinel error
  acache e|d <hexatom>=<id>,… encode / decode AtomCache           ("-" = empty)
  amap   e|d <hex>=<hex>,…    AtomMapping of the encoding / decoding side
  rcache e|d <hexname>=<id>,… encode / decode RegCache
  ecache e <k>=<id>,…         encode ErrCache (sentinel index → id)
  ecache d <id>=<val>,…       decode ErrCache (id → error value)
  clear                       drop caches and mappings (the registry stays)
  enc <ty> <val>              edf.Encode            → hex | none
  dec <hex>                   edf.Decode (raw)      → ok <ty> <val> <resthex> | ok nil <resthex> | err | panic
  rt <ty> <val>               decode (encode v)     → same as dec, or none
  alloc <hex>                 allocation measure of Decode → <bytes>

Types:  b bool · i1 i2 i4 i8 ii u1 u2 u4 u8 uu f4 f8 · s string · y []byte · a atom · P pid · Q ref · L alias ·
        D processid · E event · t time · e error · x any · S(T) · A<n>(T) · M(K,V) · N<hexname>(T) · R<hexname>(T,…) · Z<hexname>:<size>
Values: T F · #<hex> number · s<hex> y<hex> a<hex> · p<node>.<raw> · q<node>.<name> · t<hex> · e<hex> · G<k> sentinel ·
        _ nil · x<ty>:<val> · [v,…] · {k=v,…} (printed sorted by key text) · o<hex> opaque
-/
namespace ErgoVerif.Drive.Edf
open ErgoVerif.Drive ErgoVerif.Edf

abbrev P (α : Type) := List Char → Option (α × List Char)

def isHex (c : Char) : Bool := ('0' ≤ c ∧ c ≤ '9') || ('a' ≤ c ∧ c ≤ 'f')

def pHex : P Bytes := fun cs =>
  let rec go : List Char → List UInt8 → Option (Bytes × List Char)
    | a :: b :: r, acc =>
      if isHex a && isHex b then
        match hexDigit? a, hexDigit? b with
        | some x, some y => go r (UInt8.ofNat (x * 16 + y) :: acc)
        | _, _ => none
      else some (acc.reverse, a :: b :: r)
    | r, acc => some (acc.reverse, r)
  go cs []

def pNat : P Nat := fun cs =>
  let ds := cs.takeWhile Char.isDigit
  if ds.isEmpty then none else some (ds.foldl (fun n c => n * 10 + (c.toNat - '0'.toNat)) 0, cs.dropWhile Char.isDigit)

def expect (c : Char) : List Char → Option (List Char)
  | d :: r => if c = d then some r else none
  | [] => none

def tysOfList : List Ty → Tys
  | [] => .nil
  | t :: ts => .cons t (tysOfList ts)
def valsOfList : List Val → Vals
  | [] => .nil
  | t :: ts => .cons t (valsOfList ts)
def pairsOfList : List (Val × Val) → Pairs
  | [] => .nil
  | (k, v) :: ts => .cons k v (pairsOfList ts)
def Tys.toList : Tys → List Ty | .nil => [] | .cons t ts => t :: Tys.toList ts
def Vals.toList : Vals → List Val | .nil => [] | .cons t ts => t :: Vals.toList ts
def Pairs.toList : Pairs → List (Val × Val) | .nil => [] | .cons k v ts => (k, v) :: Pairs.toList ts

mutual
partial def pTy : P Ty := fun cs =>
  match cs with
  | 'b' :: r => some (.bool, r)
  | 'i' :: '1' :: r => some (.num .i8, r)
  | 'i' :: '2' :: r => some (.num .i16, r)
  | 'i' :: '4' :: r => some (.num .i32, r)
  | 'i' :: '8' :: r => some (.num .i64, r)
  | 'i' :: 'i' :: r => some (.num .int, r)
  | 'u' :: '1' :: r => some (.num .u8, r)
  | 'u' :: '2' :: r => some (.num .u16, r)
  | 'u' :: '4' :: r => some (.num .u32, r)
  | 'u' :: '8' :: r => some (.num .u64, r)
  | 'u' :: 'u' :: r => some (.num .uint, r)
  | 'f' :: '4' :: r => some (.num .f32, r)
  | 'f' :: '8' :: r => some (.num .f64, r)
  | 's' :: r => some (.str, r)
  | 'y' :: r => some (.bin, r)
  | 'a' :: r => some (.atom, r)
  | 'P' :: r => some (.idr .pid, r)
  | 'Q' :: r => some (.idr .ref, r)
  | 'L' :: r => some (.idr .alias, r)
  | 'D' :: r => some (.idn .processid, r)
  | 'E' :: r => some (.idn .event, r)
  | 't' :: r => some (.time, r)
  | 'e' :: r => some (.error, r)
  | 'x' :: r => some (.any, r)
  | 'S' :: '(' :: r => do
      let (t, r) ← pTy r
      let r ← expect ')' r
      pure (.slice t, r)
  | 'A' :: r => do
      let (n, r) ← pNat r
      let r ← expect '(' r
      let (t, r) ← pTy r
      let r ← expect ')' r
      pure (.array n t, r)
  | 'M' :: '(' :: r => do
      let (k, r) ← pTy r
      let r ← expect ',' r
      let (v, r) ← pTy r
      let r ← expect ')' r
      pure (.map k v, r)
  | 'N' :: r => do
      let (nm, r) ← pHex r
      let r ← expect '(' r
      let (t, r) ← pTy r
      let r ← expect ')' r
      pure (.named nm t, r)
  | 'R' :: r => do
      let (nm, r) ← pHex r
      let r ← expect '(' r
      match r with
      | ')' :: r => pure (.struct nm .nil, r)
      | _ =>
        let (ts, r) ← pTyList r
        let r ← expect ')' r
        pure (.struct nm (tysOfList ts), r)
  | 'Z' :: r => do
      let (nm, r) ← pHex r
      let r ← expect ':' r
      let (n, r) ← pNat r
      pure (.marsh nm n, r)
  | _ => none
partial def pTyList : P (List Ty) := fun cs => do
  let (t, r) ← pTy cs
  match r with
  | ',' :: r => do
    let (ts, r) ← pTyList r
    pure (t :: ts, r)
  | _ => pure ([t], r)
end

mutual
partial def pVal : P Val := fun cs =>
  match cs with
  | 'T' :: r => some (.bool true, r)
  | 'F' :: r => some (.bool false, r)
  | '#' :: r => (pHex r).map fun (b, r) => (.num b, r)
  | 's' :: r => (pHex r).map fun (b, r) => (.str b, r)
  | 'y' :: r => (pHex r).map fun (b, r) => (.bin b, r)
  | 'a' :: r => (pHex r).map fun (b, r) => (.atom b, r)
  | 't' :: r => (pHex r).map fun (b, r) => (.time b, r)
  | 'e' :: r => (pHex r).map fun (b, r) => (.errText b, r)
  | 'o' :: r => (pHex r).map fun (b, r) => (.opaque b, r)
  | 'G' :: r => (pNat r).map fun (k, r) => (.errSent k, r)
  | '_' :: r => some (.nil, r)
  | 'p' :: r => do
      let (a, r) ← pHex r
      let r ← expect '.' r
      let (b, r) ← pHex r
      pure (.idr a b, r)
  | 'q' :: r => do
      let (a, r) ← pHex r
      let r ← expect '.' r
      let (b, r) ← pHex r
      pure (.idn a b, r)
  | 'x' :: r => do
      let (t, r) ← pTy r
      let r ← expect ':' r
      let (v, r) ← pVal r
      pure (.any t v, r)
  | '[' :: ']' :: r => some (.list .nil, r)
  | '[' :: r => do
      let (vs, r) ← pValList r
      let r ← expect ']' r
      pure (.list (valsOfList vs), r)
  | '{' :: '}' :: r => some (.map .nil, r)
  | '{' :: r => do
      let (ps, r) ← pPairList r
      let r ← expect '}' r
      pure (.map (pairsOfList ps), r)
  | _ => none
partial def pValList : P (List Val) := fun cs => do
  let (t, r) ← pVal cs
  match r with
  | ',' :: r => do
    let (ts, r) ← pValList r
    pure (t :: ts, r)
  | _ => pure ([t], r)
partial def pPairList : P (List (Val × Val)) := fun cs => do
  let (k, r) ← pVal cs
  let r ← expect '=' r
  let (v, r) ← pVal r
  match r with
  | ',' :: r => do
    let (ts, r) ← pPairList r
    pure ((k, v) :: ts, r)
  | _ => pure ([(k, v)], r)
end

def hexs (bs : Bytes) : String :=
  String.ofList (bs.flatMap fun b => [hexChar (b.toNat / 16), hexChar (b.toNat % 16)])

partial def showTy : Ty → String
  | .bool => "b"
  | .num .i8 => "i1" | .num .i16 => "i2" | .num .i32 => "i4" | .num .i64 => "i8" | .num .int => "ii"
  | .num .u8 => "u1" | .num .u16 => "u2" | .num .u32 => "u4" | .num .u64 => "u8" | .num .uint => "uu"
  | .num .f32 => "f4" | .num .f64 => "f8"
  | .str => "s" | .bin => "y" | .atom => "a"
  | .idr .pid => "P" | .idr .ref => "Q" | .idr .alias => "L"
  | .idn .processid => "D" | .idn .event => "E"
  | .time => "t" | .error => "e" | .any => "x"
  | .slice t => s!"S({showTy t})"
  | .array n t => s!"A{n}({showTy t})"
  | .map k v => s!"M({showTy k},{showTy v})"
  | .named nm t => s!"N{hexs nm}({showTy t})"
  | .struct nm fs => s!"R{hexs nm}({",".intercalate ((Tys.toList fs).map showTy)})"
  | .marsh nm sz => s!"Z{hexs nm}:{sz}"

partial def showVal : Val → String
  | .bool true => "T"
  | .bool false => "F"
  | .num b => "#" ++ hexs b
  | .str b => "s" ++ hexs b
  | .bin b => "y" ++ hexs b
  | .atom b => "a" ++ hexs b
  | .idr a b => "p" ++ hexs a ++ "." ++ hexs b
  | .idn a b => "q" ++ hexs a ++ "." ++ hexs b
  | .time b => "t" ++ hexs b
  | .errText b => "e" ++ hexs b
  | .errSent k => s!"G{k}"
  | .nil => "_"
  | .any t v => s!"x{showTy t}:{showVal v}"
  | .list vs => "[" ++ ",".intercalate ((Vals.toList vs).map showVal) ++ "]"
  | .map ps =>
    let es := (Pairs.toList ps).map fun (k, v) => (showVal k, showVal v)
    let es := es.toArray.qsort (fun a b => a.1 < b.1) |>.toList
    "{" ++ ",".intercalate (es.map fun (k, v) => k ++ "=" ++ v) ++ "}"
  | .opaque b => "o" ++ hexs b

structure St where
  reg : List (Bytes × Ty) := []
  sent : List (Nat × Bytes) := []
  acE : List (Bytes × Nat) := []
  acD : List (Nat × Bytes) := []
  amE : List (Bytes × Bytes) := []
  amD : List (Bytes × Bytes) := []
  rcE : List (Bytes × Nat) := []
  rcD : List (Nat × Bytes) := []
  ecE : List (Nat × Nat) := []
  ecD : List (Nat × Val) := []

def look {α β : Type} [DecidableEq α] (l : List (α × β)) (a : α) : Option β := (l.find? (·.1 = a)).map (·.2)

def St.opts (s : St) : Opts where
  atomId := look s.acE
  atomOf := look s.acD
  emap := fun a => (look s.amE a).getD a
  dmap := fun a => (look s.amD a).getD a
  regId := look s.rcE
  regOf := look s.rcD
  reg := look s.reg
  errId := look s.ecE
  errOf := look s.ecD
  errText := fun k => (look s.sent k).getD []

def tyName : Ty → Option Bytes
  | .named nm _ => some nm
  | .struct nm _ => some nm
  | .marsh nm _ => some nm
  | _ => none

/-- "k=v,k=v" with the given parsers; "-" = empty -/
def pAssoc {α β : Type} (pk : P α) (pv : P β) (s : String) : Option (List (α × β)) :=
  if s = "-" then some [] else
  (s.splitOn ",").mapM fun item => do
    let (k, r) ← pk item.toList
    let r ← expect '=' r
    let (v, r) ← pv r
    if r.isEmpty then some (k, v) else none

def full {α : Type} (p : P α) (s : String) : Option α :=
  match p s.toList with
  | some (a, []) => some a
  | _ => none

def showDec (r : Res (Option (Ty × Val) × Bytes)) : String :=
  match r with
  | .ok (none, rest) => s!"ok nil {showHex rest}"
  | .ok (some (t, v), rest) =>
    -- edf.Decode returns the dynamic value: a top-level `any` shows what it holds
    (match t, v with
     | .any, .any t' v' => s!"ok {showTy t'} {showVal v'} {showHex rest}"
     | .any, .nil => s!"ok nil {showHex rest}"
     | .error, .nil => s!"ok nil {showHex rest}"
     | _, _ => s!"ok {showTy t} {showVal v} {showHex rest}")
  | .err => "err"
  | .panic => "panic"

def fuelFor (s : St) (bs : Bytes) : Nat := bs.length + 8 * (s.reg.length + 2) + 16

def step (s : St) (line : String) : St × String :=
  match words line with
  | ["reg", t] =>
    match full pTy t with
    | some ty => match tyName ty with
      | some nm => ({ s with reg := (nm, ty) :: s.reg }, "ok")
      | none => (s, "bad-op")
    | none => (s, "bad-op")
  | ["sent", k, h] =>
    match k.toNat?, parseHex? h with
    | some k, some b => ({ s with sent := (k, b) :: s.sent }, "ok")
    | _, _ => (s, "bad-op")
  | ["acache", "e", l] => match pAssoc pHex pNat l with
    | some l => ({ s with acE := l }, "ok") | none => (s, "bad-op")
  | ["acache", "d", l] => match pAssoc pNat pHex l with
    | some l => ({ s with acD := l }, "ok") | none => (s, "bad-op")
  | ["amap", "e", l] => match pAssoc pHex pHex l with
    | some l => ({ s with amE := l }, "ok") | none => (s, "bad-op")
  | ["amap", "d", l] => match pAssoc pHex pHex l with
    | some l => ({ s with amD := l }, "ok") | none => (s, "bad-op")
  | ["rcache", "e", l] => match pAssoc pHex pNat l with
    | some l => ({ s with rcE := l }, "ok") | none => (s, "bad-op")
  | ["rcache", "d", l] => match pAssoc pNat pHex l with
    | some l => ({ s with rcD := l }, "ok") | none => (s, "bad-op")
  | ["ecache", "e", l] => match pAssoc pNat pNat l with
    | some l => ({ s with ecE := l }, "ok") | none => (s, "bad-op")
  | ["ecache", "d", l] => match pAssoc pNat pVal l with
    | some l => ({ s with ecD := l }, "ok") | none => (s, "bad-op")
  | ["clear"] => ({ s with acE := [], acD := [], amE := [], amD := [], rcE := [], rcD := [], ecE := [], ecD := [] }, "ok")
  | ["enc", t, v] =>
    match full pTy t, full pVal v with
    | some t, some v =>
      (match encode s.opts t v with
       | some bs => (s, showHex bs)
       | none => (s, "none"))
    | _, _ => (s, "bad-op")
  | ["dec", h] =>
    match parseHex? h with
    | some bs => (s, showDec (decodeRaw s.opts (fuelFor s bs) bs))
    | none => (s, "bad-op")
  | ["rt", t, v] =>
    match full pTy t, full pVal v with
    | some t, some v =>
      (match encode s.opts t v with
       | some bs => (s, showDec (decodeRaw s.opts (fuelFor s bs) bs))
       | none => (s, "none"))
    | _, _ => (s, "bad-op")
  | ["alloc", h] =>
    match parseHex? h with
    | some bs => (s, toString (allocTop s.opts (fuelFor s bs) bs))
    | none => (s, "bad-op")
  | _ => (s, "bad-op")

def main (h : IO.FS.Stream) : IO Unit := loopState h step ({} : St)

end ErgoVerif.Drive.Edf

import ErgoVerif.Drive.Util
import ErgoVerif.Model.Pool
namespace ErgoVerif.Drive.Pool
open ErgoVerif.Drive ErgoVerif.Pool

structure DS where
  p : Pool
  fail : List Nat     -- spawn attempts (by id) that fail

def showRing (p : Pool) : String :=
  let ws := p.ring.map fun w => s!"{w.id}:{if w.alive then 1 else 0}:{w.len}"
  (if ws.isEmpty then "-" else ",".intercalate ws) ++ s!" f={p.forwarded} r={p.restarts} u={p.unhandled}"

def showOut : Option Out → String
  | none => "-"
  | some (.to w) => s!"to:{w}"
  | some (.respawned d n) => s!"respawned:{d}:{n}"
  | some .dropped => "dropped"

/-- `new <size> <limit>` | `send` | `die <w>` | `handle <w>` | `add` | `remove` | `failnext` -/
def line (s : DS) (ln : String) : DS × String :=
  let ok := fun k => !(s.fail.contains k)
  match words ln with
  | ["new", n, l] => match n.toNat?, l.toNat? with
    | some n, some l => let p := mkPool n l; (⟨p, []⟩, "- " ++ showRing p)
    | _, _ => (s, "bad-op")
  | ["failnext"] => ({ s with fail := s.p.nextId :: s.fail }, "- " ++ showRing s.p)
  | [op] =>
    let o : Option Op := match op with
      | "send" => some .send | "add" => some .add | "remove" => some .remove | _ => none
    match o with
    | some o => let r := step ok s.p o; ({ s with p := r.1 }, showOut r.2 ++ " " ++ showRing r.1)
    | none => (s, "bad-op")
  | [op, w] => match w.toNat? with
    | some w =>
      let o : Option Op := match op with | "die" => some (.die w) | "handle" => some (.handle w) | _ => none
      match o with
      | some o => let r := step ok s.p o; ({ s with p := r.1 }, showOut r.2 ++ " " ++ showRing r.1)
      | none => (s, "bad-op")
    | none => (s, "bad-op")
  | _ => (s, "bad-op")

def main (h : IO.FS.Stream) : IO Unit := loopState h line ⟨mkPool 0 0, []⟩
end ErgoVerif.Drive.Pool

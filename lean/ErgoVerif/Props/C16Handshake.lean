import ErgoVerif.Lemmas.HsReader
import ErgoVerif.Lemmas.HsFrame
/-!
# C16 (handshake part) — the handshake message reader on hostile input

Model/HsReader.lean mirrors net/handshake/handshake.go `readMessage`, with the connection as the
list of results of the successive `conn.Read` calls, Go's index/slice expressions as partial
operations, and all constants taken from Generated/Hs.lean.  The statements quantify over EVERY
initial chunk and EVERY sequence of reads (arbitrary bytes, arbitrary segmentation, a connection
that fails at any point).  What `edf.Decode` does with the payload is the EDF part of C16.
-/
namespace ErgoVerif.Props.C16Handshake
open ErgoVerif.HsReader ErgoVerif.Generated

/-- **No panic**: whatever bytes arrive, in whatever pieces, no index or slice expression of the
    reader is evaluated out of range. -/
theorem C16_reader_no_panic (chunk : Bytes) (conn : List Bytes) :
    (readMessage chunk conn).res ≠ .panic :=
  loop_no_panic conn chunk _ _ _ (Nat.le_refl _)

/-- **Bounded buffer**: the accumulated chunk never grows beyond the initial chunk (the tail of the
    previous message, itself bounded by this theorem) or header + 65535 + one read buffer — whatever
    the length field claims and however much the peer sends. -/
theorem C16_reader_bounded (chunk : Bytes) (conn : List Bytes) :
    (readMessage chunk conn).peak ≤ max chunk.length (Hs.needBase + Hs.maxLen + Hs.readBuf) := by
  apply loop_peak _ (by simp [maxMsg, Hs.needBase, Hs.maxLen, Hs.readBuf]; omega) conn chunk
  · exact Nat.le_refl _
  · simp [maxMsg, Hs.headerLen, Hs.needBase, Hs.maxLen]
  · exact Nat.le_max_left _ _

/-- the concrete numbers of the current source: at most 69 637 bytes are ever buffered -/
theorem C16_reader_bound_value : Hs.needBase + Hs.maxLen + Hs.readBuf = 69637 := by decide

/-- **Framing**: a successful read hands `edf.Decode` exactly the accumulated bytes after the header,
    the header carries the right magic and version, the length field is within the cap and the
    message is complete; and the reader stopped reading as soon as that was the case. -/
theorem C16_reader_ok (chunk : Bytes) (conn : List Bytes) (p : Bytes)
    (h : (readMessage chunk conn).res = .ok p) :
    ∃ k, k ≤ conn.length ∧ header (acc chunk conn k) = .done p ∧ (readMessage chunk conn).reads = k := by
  obtain ⟨k, hk, hh, hr⟩ := loop_ok conn chunk _ _ _ p (Nat.le_refl _) h
  exact ⟨k, hk, hh, by simpa [readMessage] using hr⟩

/-- what `.done` means -/
theorem C16_header_done (c : Bytes) (p : Bytes) (h : header c = .done p) :
    c[Hs.magicOff]? = some (UInt8.ofNat Hs.handshakeMagic) ∧
    c[Hs.versionOff]? = some (UInt8.ofNat Hs.handshakeVersion) ∧
    p = c.drop Hs.payloadOff ∧
    ∃ l, be32 c Hs.lenLo Hs.lenHi = some l ∧ l ≤ Hs.maxLen ∧ Hs.needBase + l ≤ c.length := by
  unfold header idx at h
  split at h
  · cases h
  · rename_i m hm
    split at h
    · cases h
    · rename_i hmagic
      split at h
      · cases h
      · rename_i v hv
        split at h
        · cases h
        · rename_i hver
          split at h
          · cases h
          · rename_i l hl
            split at h
            · cases h
            · split at h
              · cases h
              · split at h
                · rename_i h1 h2 h3
                  injection h with h
                  refine ⟨?_, ?_, h.symm, l, hl, by omega, by omega⟩
                  · rw [hm]; congr
                    have : m.toNat = Hs.handshakeMagic := by simpa using hmagic
                    rw [← this]; simp
                  · rw [hv]; congr
                    have : v.toNat = Hs.handshakeVersion := by simpa using hver
                    rw [← this]; simp
                · cases h

/-- **No unbounded wait in reads**: if every `Read` returns at least one byte, at most
    header + 65535 + 1 reads are made (the time they take is the subject of `C16_reader_time` below). -/
theorem C16_reader_reads (chunk : Bytes) (conn : List Bytes) (hne : ∀ r ∈ conn, r ≠ []) :
    (readMessage chunk conn).reads ≤ Hs.needBase + Hs.maxLen + 1 := by
  have := loop_reads conn hne chunk Hs.headerLen chunk.length 0 (Nat.le_refl _)
    (by simp [maxMsg, Hs.headerLen, Hs.needBase, Hs.maxLen])
  simp only [readMessage]
  simp only [maxMsg] at this
  omega

/-- **Writer/reader round trip**: a frame as `writeMessage` builds it (payload of at most 65535 bytes),
    delivered in ANY segmentation — part of it possibly already in the initial chunk — is read back as
    exactly that payload. -/
theorem C16_reader_roundtrip (p chunk : Bytes) (conn : List Bytes) (hp : p.length ≤ Hs.maxLen)
    (hsegs : ∀ r ∈ conn, r ≠ [] ∧ r.length ≤ Hs.readBuf) (hall : chunk ++ conn.flatten = frame p) :
    (readMessage chunk conn).res = .ok p :=
  loop_roundtrip p hp conn chunk _ _ _ hsegs hall (Or.inl rfl)

/-- **Time, full statement**: a call with read timeout `t` is over within `t`, whatever the peer does. -/
def C16_reader_time_full (pm : Bool) : Prop :=
  ∀ (t : Nat) (chunk : Bytes) (conn : List Bytes) (delays : List Nat), (∀ r ∈ conn, r ≠ []) →
    elapsed pm t delays (readMessage chunk conn).reads ≤ t

/-- **Time, for the code as it is**: the read deadline is armed once per message, so reading one handshake message
    takes at most the timeout however the peer spaces its bytes. -/
theorem C16_reader_time : C16_reader_time_full Hs.deadlinePerMessage := by
  have h : Hs.deadlinePerMessage = true := by decide
  rw [h]
  intro t chunk conn delays _
  unfold elapsed
  simp only [if_true]
  exact Nat.min_le_right _ _

/-- the code before the repair (listed finding D26-trickle, now fixed): the deadline was re-armed before every read, so
    a peer that sent one byte just before each deadline kept the reader — and the node's serial accept loop that called
    it — busy. Two one-byte reads, each arriving after 1000 of a 1000 ms timeout, already take 2000. Kept as a regression
    statement. -/
theorem C16_reader_time_before_fix : ¬ C16_reader_time_full false := by
  intro h
  have := h 1000 [] [[87], [1]] [1000, 1000] (by decide)
  revert this; decide

/-- what held for the per-read deadline: the time was bounded only by the number of reads times the timeout, i.e. by
    (header + 65535 + 1) timeouts — about 18 hours for the 1 s used by Start/Accept/Join. -/
theorem C16_reader_time_per_read (t : Nat) (chunk : Bytes) (conn : List Bytes) (delays : List Nat)
    (hne : ∀ r ∈ conn, r ≠ []) :
    elapsed false t delays (readMessage chunk conn).reads ≤ (Hs.needBase + Hs.maxLen + 1) * t := by
  have hr := C16_reader_reads chunk conn hne
  have hsum : ∀ (l : List Nat), (l.map (fun d => min d t)).sum ≤ l.length * t := by
    intro l
    induction l with
    | nil => simp
    | cons a l ih =>
      simp only [List.map_cons, List.sum_cons, List.length_cons]
      have : min a t ≤ t := Nat.min_le_right _ _
      rw [Nat.add_mul]; omega
  unfold elapsed
  simp only [Bool.false_eq_true, if_false]
  refine Nat.le_trans (hsum _) (Nat.mul_le_mul_right _ ?_)
  rw [List.length_take]
  exact Nat.le_trans (Nat.min_le_left _ _) hr

/- non-vacuity: a well-formed message in two pieces is read; an inflated length field is refused
   before anything is buffered for it; a truncated message ends in the read error -/
example : (readMessage [] [[87, 1, 0, 0], [0, 2, 9, 8]]).res = .ok [9, 8] := by decide
example : (readMessage [] [[87, 1, 0, 1, 0, 0]]).res = .errTooLong := by decide
example : (readMessage [] [[87, 1, 0, 0, 255, 255, 1]]).res = .errRead := by decide
example : (readMessage [] [[86, 1, 0, 0, 0, 0]]).res = .errMagic := by decide
example : (readMessage [87, 1, 0, 0, 0, 1, 5, 6] []).res = .ok [5, 6] := by decide

end ErgoVerif.Props.C16Handshake

/-
Application lifecycle (node/application.go start / stop / terminate, node/node.go ApplicationStart*).
Sequential granularity: every call and every member termination is one step (the member-termination hook
`terminate(pid, reason)` runs inside unregisterProcess). Members are numbered 0..n-1 per run.
`resetReason` = `start` clears `a.reason` (regenerated from the source: Generated/App.lean).
-/
namespace ErgoVerif.App

inductive AState | loaded | running | stopping deriving DecidableEq, Repr
inductive Mode | temporary | transient | permanent deriving DecidableEq, Repr
inductive Reason | normal | shutdown | kill | crash (n : Nat) deriving DecidableEq, Repr

def Reason.abnormal : Reason → Bool
  | .normal | .shutdown => false
  | _ => true

structure App where
  state : AState
  group : List Nat            -- live members of the current run
  mode : Mode
  reason : Option Reason
  run : Nat                   -- number of successful starts
  startCbs : List Nat         -- runs in which Start was invoked
  termCbs : List (Nat × Reason)   -- (run, reason) of every Terminate invocation
  exitsSent : List Nat        -- members that were sent a shutdown exit / kill in the current run
deriving Repr

def App.init : App := ⟨.loaded, [], .temporary, none, 0, [], [], []⟩

inductive Res | ok | errRunning | errState | errStopping | errSpawn | pending
deriving DecidableEq, Repr

inductive Op
  | start (mode : Mode) (n : Nat) (failAt : Option Nat)   -- n members; spawning member `failAt` fails
  | memberExit (i : Nat) (r : Reason)                     -- member i of the current run terminated with r
  | stop (force : Bool)
deriving Repr

/-- the mode's stop rule for a member termination -/
def modeRule : Mode → Reason → Bool
  | .permanent, _ => true
  | .transient, r => r.abnormal
  | .temporary, _ => false

/-- the `switch a.mode` of terminate(): begin the stop (once), record the cause, shut the other members down -/
def afterRule (a : App) (r : Reason) : App :=
  if modeRule a.mode r then
    if a.state = .stopping then a
    else { a with state := .stopping, reason := some r, exitsSent := a.exitsSent ++ a.group }
  else a

/-- the tail of terminate(): when the group is empty flip the state once and invoke Terminate -/
def finish (a : App) : App :=
  if a.group ≠ [] then a else
  let rsn := a.reason.getD Reason.normal
  if a.state = .loaded then { a with reason := some rsn }
  else { a with state := .loaded, reason := some rsn, termCbs := a.termCbs ++ [(a.run, rsn)] }

/-- node/application.go terminate(pid, reason) -/
def terminate (a : App) (i : Nat) (r : Reason) : App :=
  if i ∉ a.group then a else finish (afterRule { a with group := a.group.erase i } r)

/-- the state after a successful start: members 0..n-1 spawned in order, Start invoked -/
def started (resetReason : Bool) (a : App) (mode : Mode) (n : Nat) : App :=
  ⟨.running, List.range n, mode, (if resetReason then none else a.reason), a.run + 1, a.startCbs ++ [a.run + 1], a.termCbs, []⟩

def step (resetReason : Bool) (a : App) : Op → App × Res
  | .start mode n failAt =>
    match a.state with
    | .running => (a, .errRunning)
    | .stopping => (a, .errState)
    | .loaded =>
      match failAt with
      | some k =>
        if k < n then
          -- members 0..k-1 were spawned and are killed again; state back to loaded; Start is not invoked
          ({ a with state := .loaded, group := [] }, .errSpawn)
        else
          (started resetReason a mode n, .ok)
      | none =>
        (started resetReason a mode n, .ok)
  | .memberExit i r => (terminate a i r, .ok)
  | .stop force =>
    match a.state with
    | .loaded => (a, .ok)
    | .stopping => if force then
          ({ a with mode := .temporary, exitsSent := a.exitsSent ++ a.group, reason := some .kill }, .pending)
        else (a, .errStopping)
    | .running =>
      ({ a with state := .stopping, mode := .temporary, exitsSent := a.exitsSent ++ a.group,
                reason := some (if force then .kill else .shutdown) }, .pending)

def runOps (rr : Bool) (a : App) : List Op → App
  | [] => a
  | o :: os => runOps rr (step rr a o).1 os

end ErgoVerif.App

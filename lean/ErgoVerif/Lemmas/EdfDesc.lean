import ErgoVerif.Lemmas.Edf
namespace ErgoVerif.Edf
open ErgoVerif.Generated.Edt

def Ty.composite : Ty → Bool
  | .slice _ | .array _ _ | .map _ _ => true
  | _ => false

/-- descriptors that insist on ending the fold: slices and maps (and arrays of them) -/
def Ty.closed : Ty → Bool
  | .slice _ | .map _ _ => true
  | .array _ t => t.closed
  | _ => false

theorem Ty.closed_of_comparable : (t : Ty) → t.comparable = true → t.closed = false
  | .array _ t, h => by simp only [Ty.comparable] at h; simpa [Ty.closed] using Ty.closed_of_comparable t h
  | .slice _, h | .map _ _, h | .bin, h | .marsh _ _, h => by simp [Ty.comparable] at h
  | .bool, _ | .num _, _ | .str, _ | .atom, _ | .idr _, _ | .idn _, _ | .time, _ | .error, _ | .any, _
  | .named _ _, _ | .struct _ _, _ => by simp [Ty.closed]

def RegOK (o : Opts) (nm : Bytes) (t : Ty) : Prop := o.reg nm = some t ∧ nm.length ≤ 4095

/-- the descriptor of the type unfolds back to the type -/
def DescOK (o : Opts) : Ty → Prop
  | .slice t => DescOK o t
  | .array n t => n < 4294967296 ∧ ¬ (t.size > 0 ∧ n * t.size ≥ uintptrLimit) ∧ DescOK o t
  | .map k v => k.comparable = true ∧ DescOK o k ∧ DescOK o v
  | .named nm t => RegOK o nm (.named nm t)
  | .struct nm fs => RegOK o nm (.struct nm fs)
  | .marsh nm sz => RegOK o nm (.marsh nm sz)
  | _ => True

/-- nesting depth of the descriptor -/
def Ty.ddepth : Ty → Nat
  | .slice t => t.ddepth + 1
  | .array _ t => t.ddepth + 1
  | .map k v => max k.ddepth v.ddepth + 1
  | _ => 1

theorem getReg_regPrefix (o : Opts) (hc : CachesConsistent o) (nm : Bytes) (t : Ty) (h : RegOK o nm t) (f : Bytes) :
    ∃ tl, regPrefix o nm = edtReg :: tl ∧ getReg o (tl ++ f) = .ok (t, f) := by
  obtain ⟨hr, hl⟩ := h
  unfold regPrefix
  cases hid : o.regId nm with
  | some id =>
    obtain ⟨h1, h2, h3⟩ := hc.reg _ _ hid
    refine ⟨be16 id, rfl, ?_⟩
    unfold getReg
    rw [rd16_be16 _ h2]
    simp [h1, h3, hr]
  | none =>
    refine ⟨be16 nm.length ++ nm, rfl, ?_⟩
    unfold getReg
    rw [List.append_assoc, rd16_be16 _ (by omega)]
    have : ¬ nm.length > limRegIdDec := by simp [limRegIdDec]; omega
    simp [this, hr]

theorem tagTy_leaf (t : Ty) (tag : UInt8) (h : t.leafTag = some tag) :
    tagTy tag = some t ∧ tag ≠ edtMap ∧ tag ≠ edtSlice ∧ tag ≠ edtArray ∧ tag ≠ edtReg ∧ tag ≠ edtType ∧ tag ≠ edtNil := by
  cases t <;> simp [Ty.leafTag] at h <;> subst h
  case num p => cases p <;> decide
  case idr k => cases k <;> decide
  case idn k => cases k <;> decide
  all_goals decide

theorem decTy_leaf (o : Opts) (t : Ty) (tag : UInt8) (h : t.leafTag = some tag) (f : Bytes) (fuel : Nat) (hf : t.ddepth ≤ fuel) :
    decTy o fuel (encTy o t ++ f) = .ok (t, if t.closed then [] else f) := by
  obtain ⟨h1, h2, h3, h4, h5, _⟩ := tagTy_leaf t tag h
  have hd : t.ddepth = 1 := by cases t <;> simp [Ty.leafTag] at h <;> rfl
  have hc : t.closed = false := by cases t <;> simp [Ty.leafTag] at h <;> rfl
  have he : encTy o t = [tag] := by cases t <;> simp [Ty.leafTag] at h <;> simp [encTy, h]
  cases fuel with
  | zero => omega
  | succ n => simp [he, decTy, hc, h1, h2, h3, h4, h5]

/-- unfolding the descriptor of a type gives the type back and returns what follows it (nothing may follow a
    closed descriptor) -/
theorem decTy_encTy (o : Opts) (hc : CachesConsistent o) (t : Ty) (f : Bytes) (fuel : Nat)
    (hd : DescOK o t) (hf : t.ddepth ≤ fuel) (hcf : t.closed = true → f = []) :
    decTy o fuel (encTy o t ++ f) = .ok (t, if t.closed then [] else f) := by
  match t, hd, hf, hcf with
  | .slice t, hd, hf, hcf =>
    have ih := fun f fuel => decTy_encTy o hc t f fuel
    cases fuel with
    | zero => simp [Ty.ddepth] at hf
    | succ n =>
      have := hcf rfl; subst this
      simp only [Ty.ddepth] at hf
      simp only [DescOK] at hd
      have h := ih [] n hd (by omega) (by simp)
      simp only [encTy, List.append_nil, List.cons_append] at h ⊢
      simp only [decTy]
      have e1 : edtSlice ≠ edtMap := by decide
      simp only [e1, ↓reduceIte, h]
      cases t.closed <;> simp [Ty.closed]
  | .array k t, hd, hf, hcf =>
    have ih := fun f fuel => decTy_encTy o hc t f fuel
    cases fuel with
    | zero => simp [Ty.ddepth] at hf
    | succ n =>
      simp only [Ty.ddepth] at hf
      obtain ⟨hk, hs, hd⟩ := hd
      have h := ih f n hd (by omega) (by simpa [Ty.closed] using hcf)
      simp only [encTy, List.cons_append, List.append_assoc] at h ⊢
      simp only [decTy]
      have e1 : edtArray ≠ edtMap := by decide
      have e2 : edtArray ≠ edtSlice := by decide
      have hne : ¬ (be32 k ++ (encTy o t ++ f)).length < 5 := by
        have : (encTy o t).length ≥ 1 := by
          cases t <;> simp [encTy, regPrefix] <;> (try split) <;> simp
        simp; omega
      simp only [e1, e2, ↓reduceIte, lenLt_eq, decide_eq_true_eq, hne, rd32_be32 _ hk, h, hs, Ty.closed]
      try rfl
  | .map k v, hd, hf, hcf =>
    have ihk := fun f fuel => decTy_encTy o hc k f fuel
    have ihv := fun f fuel => decTy_encTy o hc v f fuel
    cases fuel with
    | zero => simp [Ty.ddepth] at hf
    | succ n =>
      have := hcf rfl; subst this
      simp only [Ty.ddepth] at hf
      obtain ⟨hcmp, hdk, hdv⟩ := hd
      have hkc := Ty.closed_of_comparable k hcmp
      have hk := ihk (encTy o v) n hdk (by omega) (by simp [hkc])
      have hv := ihv [] n hdv (by omega) (by simp)
      simp only [encTy, List.append_nil, List.cons_append, List.append_assoc] at hk hv ⊢
      simp only [decTy, ↓reduceIte, hk, hkc, Bool.false_eq_true, hv]
      cases v.closed <;> simp [Ty.closed, hcmp]
  | .named nm t, hd, hf, hcf =>
    cases fuel with
    | zero => simp [Ty.ddepth] at hf
    | succ n =>
      obtain ⟨tl, h1, h2⟩ := getReg_regPrefix o hc nm _ hd f
      simp only [encTy, h1, List.cons_append, decTy]
      have e1 : edtReg ≠ edtMap := by decide
      have e2 : edtReg ≠ edtSlice := by decide
      have e3 : edtReg ≠ edtArray := by decide
      simp [e1, e2, e3, h2, Ty.closed]
  | .struct nm fs, hd, hf, hcf =>
    cases fuel with
    | zero => simp [Ty.ddepth] at hf
    | succ n =>
      obtain ⟨tl, h1, h2⟩ := getReg_regPrefix o hc nm _ hd f
      simp only [encTy, h1, List.cons_append, decTy]
      have e1 : edtReg ≠ edtMap := by decide
      have e2 : edtReg ≠ edtSlice := by decide
      have e3 : edtReg ≠ edtArray := by decide
      simp [e1, e2, e3, h2, Ty.closed]
  | .marsh nm sz, hd, hf, hcf =>
    cases fuel with
    | zero => simp [Ty.ddepth] at hf
    | succ n =>
      obtain ⟨tl, h1, h2⟩ := getReg_regPrefix o hc nm _ hd f
      simp only [encTy, h1, List.cons_append, decTy]
      have e1 : edtReg ≠ edtMap := by decide
      have e2 : edtReg ≠ edtSlice := by decide
      have e3 : edtReg ≠ edtArray := by decide
      simp [e1, e2, e3, h2, Ty.closed]
  | .any, hd, hf, hcf =>
    cases fuel with
    | zero => simp [Ty.ddepth] at hf
    | succ n =>
      have h1 : tagTy edtAny = some .any := by decide
      have e1 : edtAny ≠ edtMap := by decide
      have e2 : edtAny ≠ edtSlice := by decide
      have e3 : edtAny ≠ edtArray := by decide
      have e4 : edtAny ≠ edtReg := by decide
      simp [encTy, decTy, Ty.closed, h1, e1, e2, e3, e4]
  | .bool, _, hf, _ => exact decTy_leaf o _ _ rfl f fuel hf
  | .str, _, hf, _ => exact decTy_leaf o _ _ rfl f fuel hf
  | .bin, _, hf, _ => exact decTy_leaf o _ _ rfl f fuel hf
  | .atom, _, hf, _ => exact decTy_leaf o _ _ rfl f fuel hf
  | .time, _, hf, _ => exact decTy_leaf o _ _ rfl f fuel hf
  | .error, _, hf, _ => exact decTy_leaf o _ _ rfl f fuel hf
  | .num p, _, hf, _ => exact decTy_leaf o _ _ rfl f fuel hf
  | .idr p, _, hf, _ => exact decTy_leaf o _ _ rfl f fuel hf
  | .idn p, _, hf, _ => exact decTy_leaf o _ _ rfl f fuel hf
end ErgoVerif.Edf

/-
Model of the remote spawn / remote application-start permission tables
(node/network.go: enableSpawn/enableAppStart, EnableSpawn, getEnabledSpawn, DisableSpawn,
EnableApplicationStart, isEnabledApplicationStart, DisableApplicationStart), the flag checks on
both ends of a request (net/proto/connection.go: RemoteSpawn / applicationStart on the requester,
`case MessageSpawn` / `case MessageApplicationStart` in handleMessage on the receiver) and the
environment exposure (connection.Spawn / applicationStart, node/process.go RemoteSpawn).

Names, peers and factory types are numbers (the harness maps atoms to numbers).
Go `map[gen.Atom]bool` is an association list with unique keys; the outer sync.Map is a total
function `Nat → Option _`.  The code is mirrored as it is after the `fix:` commit for D11
(DisableApplicationStart stores `false` instead of deleting the key).
-/
namespace ErgoVerif.Perm

/-- Go `map[gen.Atom]bool` -/
abbrev NodeMap := List (Nat × Bool)

namespace NodeMap
/-- `m[k]` (zero value `false` when the key is absent) -/
def get (m : NodeMap) (k : Nat) : Bool := (m.lookup k).getD false
/-- `m[k] = v` -/
def set (m : NodeMap) (k : Nat) (v : Bool) : NodeMap := (k, v) :: m.filter (fun e => e.1 != k)
/-- `delete(m, k)` -/
def del (m : NodeMap) (k : Nat) : NodeMap := m.filter (fun e => e.1 != k)
/-- `for _, nn := range nodes { m[nn] = v }` -/
def setAll (m : NodeMap) (ks : List Nat) (v : Bool) : NodeMap := ks.foldl (fun m k => m.set k v) m
/-- `for _, nn := range nodes { delete(m, nn) }` -/
def delAll (m : NodeMap) (ks : List Nat) : NodeMap := ks.foldl (fun m k => m.del k) m
/-- the lookup shared by getEnabledSpawn and isEnabledApplicationStart:
    `allowed := true; if len(nodes) > 0 { allowed = nodes[source] }` -/
def allows (m : NodeMap) (source : Nat) : Bool := if m.length > 0 then m.get source else true
end NodeMap

/-- `type enableSpawn struct { factory; behavior; nodes }`; the factory is represented by the
    number of its behaviour type (0 = nil factory) -/
structure SpawnEntry where
  factory : Nat
  nodes : NodeMap

structure St where
  spawn : Nat → Option SpawnEntry      -- network.enableSpawn (sync.Map)
  app : Nat → Option NodeMap           -- network.enableAppStart (sync.Map)

def init : St := ⟨fun _ => none, fun _ => none⟩

inductive Err
  | ok | incorrect | otherFactory | unknown | nameUnknown | notAllowed
  deriving DecidableEq, Repr

inductive Op
  | enableSpawn (name factory : Nat) (nodes : List Nat)
  | disableSpawn (name : Nat) (nodes : List Nat)
  | enableApp (name : Nat) (nodes : List Nat)
  | disableApp (name : Nat) (nodes : List Nat)
  deriving DecidableEq, Repr

def upd {α : Type} (f : Nat → Option α) (k : Nat) (v : Option α) : Nat → Option α :=
  fun k' => if k' = k then v else f k'

/-- node/network.go EnableSpawn -/
def enableSpawn (s : St) (name factory : Nat) (nodes : List Nat) : St × Err :=
  if factory = 0 then (s, .incorrect) else           -- factory == nil
  -- LoadOrStore(name, &enableSpawn{factory, nodes: {}})
  let e : SpawnEntry := match s.spawn name with
    | some e => e
    | none => ⟨factory, []⟩
  if e.factory ≠ factory then (s, .otherFactory) else   -- reflect.TypeOf(enable.factory()) != reflect.TypeOf(factory())
  let nodes' := if nodes.isEmpty then [] else e.nodes.setAll nodes true
  ({ s with spawn := upd s.spawn name (some ⟨e.factory, nodes'⟩) }, .ok)

/-- node/network.go DisableSpawn -/
def disableSpawn (s : St) (name : Nat) (nodes : List Nat) : St × Err :=
  match s.spawn name with
  | none => (s, .unknown)
  | some e =>
    if nodes.isEmpty then ({ s with spawn := upd s.spawn name none }, .ok)   -- LoadAndDelete
    else ({ s with spawn := upd s.spawn name (some ⟨e.factory, e.nodes.setAll nodes false⟩) }, .ok)

/-- node/network.go EnableApplicationStart -/
def enableApp (s : St) (name : Nat) (nodes : List Nat) : St × Err :=
  let m : NodeMap := (s.app name).getD []
  let m' := if nodes.isEmpty then [] else m.setAll nodes true
  ({ s with app := upd s.app name (some m') }, .ok)

/-- node/network.go DisableApplicationStart (after the D11 fix: `enable.nodes[nn] = false`) -/
def disableApp (s : St) (name : Nat) (nodes : List Nat) : St × Err :=
  match s.app name with
  | none => (s, .unknown)
  | some m =>
    if nodes.isEmpty then ({ s with app := upd s.app name none }, .ok)
    else ({ s with app := upd s.app name (some (m.setAll nodes false)) }, .ok)

/-- the code before the D11 fix: `delete(enable.nodes, nn)` (kept to state what was wrong) -/
def disableAppOld (s : St) (name : Nat) (nodes : List Nat) : St × Err :=
  match s.app name with
  | none => (s, .unknown)
  | some m =>
    if nodes.isEmpty then ({ s with app := upd s.app name none }, .ok)
    else ({ s with app := upd s.app name (some (m.delAll nodes)) }, .ok)

def step (s : St) : Op → St × Err
  | .enableSpawn n f ns => enableSpawn s n f ns
  | .disableSpawn n ns => disableSpawn s n ns
  | .enableApp n ns => enableApp s n ns
  | .disableApp n ns => disableApp s n ns

/-- the same with the pre-fix DisableApplicationStart -/
def stepOld (s : St) : Op → St × Err
  | .disableApp n ns => disableAppOld s n ns
  | op => step s op

/-- node/network.go getEnabledSpawn: (error, factory) -/
def getEnabledSpawn (s : St) (name source : Nat) : Err × Nat :=
  match s.spawn name with
  | none => (.nameUnknown, 0)
  | some e => if e.nodes.allows source then (.ok, e.factory) else (.notAllowed, 0)

/-- node/network.go isEnabledApplicationStart -/
def isEnabledApp (s : St) (name source : Nat) : Err :=
  match s.app name with
  | none => .nameUnknown
  | some m => if m.allows source then .ok else .notAllowed

/-- histories are lists with the NEWEST operation first: `after (op :: older) = step (after older) op` -/
def after : List Op → St
  | [] => init
  | op :: older => (step (after older) op).1

def afterOld : List Op → St
  | [] => init
  | op :: older => (stepOld (afterOld older) op).1

/-- an operation's node list covers a peer: the empty list means "any node" for the enable
    operations and "the whole entry" for the disable operations -/
def covers (nodes : List Nat) (peer : Nat) : Bool := nodes.isEmpty || nodes.contains peer

/-- "an enable operation covering the peer happened, successfully, after the last disable
    operation covering it" — decided newest-first -/
def spawnJustified (name peer : Nat) : List Op → Bool
  | [] => false
  | .enableSpawn n f ns :: older =>
    if n = name ∧ covers ns peer ∧ (enableSpawn (after older) n f ns).2 = .ok then true
    else spawnJustified name peer older
  | .disableSpawn n ns :: older =>
    if n = name ∧ covers ns peer then false else spawnJustified name peer older
  | _ :: older => spawnJustified name peer older

def appJustified (name peer : Nat) : List Op → Bool
  | [] => false
  | .enableApp n ns :: older =>
    if n = name ∧ covers ns peer then true else appJustified name peer older
  | .disableApp n ns :: older =>
    if n = name ∧ covers ns peer then false else appJustified name peer older
  | _ :: older => appJustified name peer older

/- ------------------------------------------------------------------------------------------
   flags and requests
   ------------------------------------------------------------------------------------------ -/

/-- the three bits of gen.NetworkFlags that matter here -/
structure Flags where
  enable : Bool
  spawn : Bool
  appStart : Bool
  deriving DecidableEq, Repr

/-- gen.DefaultNetworkFlags -/
def defaultFlags : Flags := ⟨true, true, true⟩

/-- `if flags.Enable == false { flags = gen.DefaultNetworkFlags }` — network.start, connect
    (falls back to the node's flags, which went through the same rule), startAcceptor -/
def effFlags (given fallback : Flags) : Flags := if given.enable then given else fallback

/-- gen.NetworkFlags.MarshalEDF ∘ UnmarshalEDF on the three bits: nothing but zeros travels when Enable is off -/
def wireFlags (f : Flags) : Flags := if f.enable then f else ⟨false, false, false⟩

/-- the guard used at all four sites: `flags.Enable && flags.EnableRemoteX == false` → refuse -/
def refuses (f : Flags) (bit : Flags → Bool) : Bool := f.enable && !bit f

inductive SpawnOutcome
  | refusedByRequester          -- connection.RemoteSpawn returns ErrNotAllowed, nothing is sent
  | droppedByReceiver           -- handleMessage logs a warning and returns: no reply (requester times out)
  | error (e : Err)             -- reply carries the error of getEnabledSpawn
  | spawned (factory : Nat) (env : List Nat)
  deriving DecidableEq, Repr

/-- environment that travels with the request: connection.Spawn / process.RemoteSpawn
    `if Security().ExposeEnvRemoteSpawn { opts.ParentEnv = EnvList() }` -/
def sentEnv (expose : Bool) (env : List Nat) : List Nat := if expose then env else []

/-- a remote spawn request end to end: requester holds `peerFlags` (the flags the receiver
    introduced itself with), the receiver holds `nodeFlags` (its own flags for this connection) -/
def remoteSpawn (peerFlags nodeFlags : Flags) (s : St) (name requester : Nat)
    (expose : Bool) (env : List Nat) : SpawnOutcome :=
  if refuses peerFlags (·.spawn) then .refusedByRequester
  else if refuses nodeFlags (·.spawn) then .droppedByReceiver
  else match getEnabledSpawn s name requester with
    | (.ok, f) => .spawned f (sentEnv expose env)
    | (e, _) => .error e

inductive AppOutcome
  | refusedByRequester | droppedByReceiver | error (e : Err) | started (env : List Nat)
  deriving DecidableEq, Repr

def remoteAppStart (peerFlags nodeFlags : Flags) (s : St) (name requester : Nat)
    (expose : Bool) (env : List Nat) : AppOutcome :=
  if refuses peerFlags (·.appStart) then .refusedByRequester
  else if refuses nodeFlags (·.appStart) then .droppedByReceiver
  else match isEnabledApp s name requester with
    | .ok => .started (sentEnv expose env)
    | e => .error e

end ErgoVerif.Perm

/-
The reader configuration of a real link: the numbers come from the source
(Generated/Proto.lean: protoMagic, protoVersion, the lower bound read() enforces on the length field).
-/
import ErgoVerif.Model.Stream
import ErgoVerif.Generated.Proto
namespace ErgoVerif.Stream
open ErgoVerif.Generated.Proto

/-- `max` = c.node_maxmessagesize of the receiving side -/
def linkCfg (max : Nat) : Cfg := ⟨max, readMinLen, protoMagic, protoVersion⟩

/-- the reader before the D12 repair: no lower bound on the length field -/
def unguardedCfg (max : Nat) : Cfg := ⟨max, 0, protoMagic, protoVersion⟩

end ErgoVerif.Stream

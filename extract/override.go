package main

import (
	"fmt"
	"go/ast"
	"go/token"
	"sort"
	"strings"
)

// Generated/Override.lean: the wrappers of node/process.go that override a field of the process for ONE operation
// (SendWithPriority, CallWithPriority, SendImportant, CallImportant): `old, p.F = p.F, v; r := inner(); p.F = old;
// return r`. For each: is the old value put back on every path (no return between the swap and the restore)?

func init() {
	generators = append(generators, generator{name: "Override", run: genOverride,
		fallback: "namespace ErgoVerif.Gen.Override\nstructure Site where\n  method : String\n  field : String\n  restored : Bool\nderiving DecidableEq, Repr\ndef sites : List Site := []\nend ErgoVerif.Gen.Override\n"})
}

func genOverride() (string, error) {
	f, err := parseFile("node/process.go")
	if err != nil {
		return "", err
	}
	type site struct {
		method, field string
		restored      bool
	}
	var sites []site
	for _, d := range f.Decls {
		fd, ok := d.(*ast.FuncDecl)
		if !ok || fd.Body == nil || fd.Recv == nil {
			continue
		}
		list := fd.Body.List
		for i, st := range list {
			as, ok := st.(*ast.AssignStmt)
			if !ok {
				continue
			}
			var fld, old string
			switch {
			case as.Tok == token.ASSIGN && len(as.Lhs) == 2 && len(as.Rhs) == 2 && exprStr(as.Rhs[0]) == exprStr(as.Lhs[1]):
				// old, p.F = p.F, v
				fld, old = exprStr(as.Lhs[1]), exprStr(as.Lhs[0])
			case len(as.Lhs) == 1 && len(as.Rhs) == 1 && i+1 < len(list):
				// old := p.F ; p.F = v
				if nx, ok := list[i+1].(*ast.AssignStmt); ok && nx.Tok == token.ASSIGN && len(nx.Lhs) == 1 && exprStr(nx.Lhs[0]) == exprStr(as.Rhs[0]) {
					fld, old = exprStr(as.Rhs[0]), exprStr(as.Lhs[0])
				}
			}
			if !strings.HasPrefix(fld, "p.") || strings.Count(fld, ".") != 1 {
				continue
			}
			// the rest of the body: straight-line statements up to `p.F = old`, none of them (or their children) a return
			restored := false
			for _, nx := range list[i+1:] {
				if r, ok := nx.(*ast.AssignStmt); ok && r.Tok == token.ASSIGN && len(r.Lhs) == 1 && len(r.Rhs) == 1 && exprStr(r.Lhs[0]) == fld && exprStr(r.Rhs[0]) == old {
					restored = true
					break
				}
				hasReturn := false
				ast.Inspect(nx, func(n ast.Node) bool {
					switch n.(type) {
					case *ast.ReturnStmt, *ast.BranchStmt:
						hasReturn = true
					case *ast.FuncLit:
						return false
					}
					return true
				})
				if hasReturn {
					break
				}
			}
			if !restored {
				// or a deferred restore right after the swap
				ast.Inspect(fd.Body, func(n ast.Node) bool {
					if ds, ok := n.(*ast.DeferStmt); ok {
						if fl, ok := ds.Call.Fun.(*ast.FuncLit); ok && strings.Contains(stmtShape(fl.Body.List), fld+"="+old) {
							restored = true
						}
					}
					return true
				})
			}
			sites = append(sites, site{fd.Name.Name, fld, restored})
		}
	}
	if len(sites) == 0 {
		return "", fmt.Errorf("no override wrapper (old, p.F = p.F, v) found in node/process.go")
	}
	sort.Slice(sites, func(i, j int) bool { return sites[i].method < sites[j].method })
	var b strings.Builder
	b.WriteString("namespace ErgoVerif.Gen.Override\nstructure Site where\n  method : String\n  field : String\n  /-- the old value is put back before any return -/\n  restored : Bool\nderiving DecidableEq, Repr\ndef sites : List Site := [\n")
	for i, s := range sites {
		c := ","
		if i == len(sites)-1 {
			c = ""
		}
		fmt.Fprintf(&b, "  ⟨%q, %q, %v⟩%s\n", s.method, s.field, s.restored, c)
	}
	b.WriteString("]\nend ErgoVerif.Gen.Override\n")
	return b.String(), nil
}

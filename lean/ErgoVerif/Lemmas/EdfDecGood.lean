import ErgoVerif.Lemmas.EdfKeys
namespace ErgoVerif.Edf
open ErgoVerif.Generated.Edt

/-- assumptions on the decoding side under which decoded values are in canonical form for the encoding side -/
structure DecGoodOK (o : Opts) : Prop where
  atomInline : ∀ a : Bytes, a.length ≤ 255 → AtomOK o (o.dmap a)
  atomCached : ∀ id a, o.atomOf id = some a → AtomOK o (o.dmap a)
  err : ∀ id e, o.errOf id = some e → LeafGood o .error e
  reg : ∀ nm t, o.reg nm = some t → DescOK o t ∧ t.closed = false

theorem numCanon_idem (p : Num) (bs : Bytes) : numCanon p (numCanon p bs) = numCanon p bs := by
  unfold numCanon
  split
  · match bs with
    | [a, b, c, d] => exact quiet32_idem a b c d
    | [] => rfl
    | [_] => rfl
    | [_, _] => rfl
    | [_, _, _] => rfl
    | _ :: _ :: _ :: _ :: _ :: _ => rfl
  · rfl

theorem tagTy_flat (b : UInt8) (t : Ty) (h : tagTy b = some t) : (t.leafTag.isSome = true ∨ t = .any) := by
  simp only [tagTy, Option.map_eq_some_iff] at h
  obtain ⟨e, he, rfl⟩ := h
  have hm := List.mem_of_find?_eq_some he
  have : ∀ e ∈ tagTable, (e.2.leafTag.isSome = true ∨ e.2 = .any) := by decide
  exact this e hm

theorem flat_DescOK (o : Opts) (t : Ty) (h : t.leafTag.isSome = true ∨ t = .any) : DescOK o t ∧ t.closed = false := by
  rcases h with h | rfl
  · cases t <;> simp [Ty.leafTag] at h <;> simp [DescOK, Ty.closed]
  · simp [DescOK, Ty.closed]

theorem getReg_DescOK (o : Opts) (hd : DecGoodOK o) (bs : Bytes) (t : Ty) (r : Bytes) (h : getReg o bs = .ok (t, r)) :
    DescOK o t ∧ t.closed = false := by
  unfold getReg at h
  split at h; · simp at h
  split at h
  · split at h; · simp at h
    split at h
    · rename_i t' ht
      simp at h; obtain ⟨rfl, rfl⟩ := h
      exact hd.reg _ _ ht
    · simp at h
  · split at h; · simp at h
    split at h
    · rename_i t' ht
      simp at h; obtain ⟨rfl, rfl⟩ := h
      exact hd.reg _ _ ht
    · simp at h

theorem decTy_DescOK (o : Opts) (hd : DecGoodOK o) : ∀ (f : Nat) (bs : Bytes) (t : Ty) (r : Bytes),
    decTy o f bs = .ok (t, r) → DescOK o t ∧ (t.closed = true → r = [])
  | 0, bs, t, r, h => by simp [decTy] at h
  | f+1, [], t, r, h => by simp [decTy] at h
  | f+1, b :: r0, t, r, h => by
    simp only [decTy, lenLt_eq, decide_eq_true_eq] at h
    split at h
    · split at h
      · rename_i k fk hk
        split at h
        · rename_i v fv hv
          split at h; · simp at h
          split at h; · simp at h
          rename_i hcmp
          simp at h; obtain ⟨rfl, rfl⟩ := h
          obtain ⟨dk, ck⟩ := decTy_DescOK o hd f _ _ _ hk
          obtain ⟨dv, _⟩ := decTy_DescOK o hd f _ _ _ hv
          refine ⟨?_, fun _ => rfl⟩
          simp only [DescOK]
          exact ⟨by simpa using hcmp, dk, dv⟩
        · simp at h
        · simp at h
      · simp at h
      · simp at h
    · split at h
      · split at h
        · rename_i t' f' ht
          split at h; · simp at h
          simp at h; obtain ⟨rfl, rfl⟩ := h
          exact ⟨by simpa [DescOK] using (decTy_DescOK o hd f _ _ _ ht).1, fun _ => rfl⟩
        · simp at h
        · simp at h
      · split at h
        · split at h; · simp at h
          split at h; · simp at h
          rename_i n r' h32
          obtain ⟨hn, _⟩ := rd32_inv _ _ _ h32
          split at h
          · rename_i t' f' ht
            split at h; · simp at h
            rename_i hov
            simp at h; obtain ⟨rfl, rfl⟩ := h
            obtain ⟨d1, c1⟩ := decTy_DescOK o hd f _ _ _ ht
            refine ⟨?_, fun hc => c1 (by simpa [Ty.closed] using hc)⟩
            simp only [DescOK]
            exact ⟨hn, hov, d1⟩
          · simp at h
          · simp at h
        · split at h
          · obtain ⟨a, b'⟩ := getReg_DescOK o hd _ _ _ h
            exact ⟨a, fun hc => by rw [b'] at hc; cases hc⟩
          · split at h
            · rename_i t' ht
              simp at h; obtain ⟨rfl, rfl⟩ := h
              obtain ⟨a, b'⟩ := flat_DescOK o _ (tagTy_flat _ _ ht)
              exact ⟨a, fun hc => by rw [b'] at hc; cases hc⟩
            · simp at h

theorem getDecoder_DescOK (o : Opts) (hd : DecGoodOK o) (dt : Bool) (bs : Bytes) (t : Ty) (r : Bytes) (dt' : Bool)
    (h : getDecoder o dt bs = .ok (some t, r, dt')) : DescOK o t := by
  cases bs with
  | nil => simp [getDecoder] at h
  | cons b r0 =>
    simp only [getDecoder, lenLt_eq, decide_eq_true_eq] at h
    split at h
    · split at h
      · rename_i t' r' hg
        simp at h; obtain ⟨rfl, rfl, rfl⟩ := h
        exact (getReg_DescOK o hd _ _ _ hg).1
      · simp at h
      · simp at h
    · split at h
      · split at h; · simp at h
        split at h; · simp at h
        split at h
        · rename_i t' f' ht
          split at h; · simp at h
          simp at h; obtain ⟨rfl, rfl, rfl⟩ := h
          exact (decTy_DescOK o hd _ _ _ _ ht).1
        · simp at h
        · simp at h
      · split at h; · simp at h
        split at h
        · rename_i t' ht
          simp at h; obtain ⟨rfl, rfl, rfl⟩ := h
          exact (flat_DescOK o _ (tagTy_flat _ _ ht)).1
        · simp at h
end ErgoVerif.Edf

import ErgoVerif.Model.SupARFO
/-
Order facts of the all/rest-for-one machine: which children are stopped for a restart and in which
order (`childrenForTermination`), and which child is started next (`findStart`).
-/
namespace ErgoVerif.Sup

/-- KeepOrder: only the first element of the list is stopped now -/
def pick (ko : Bool) (l : List Nat) : List Nat := if ko then l.take 1 else l

def stoppable (c : ChildSpec) : Bool := !c.disabled && c.pid != 0

/-- the loop of `childrenForTermination` over the reversed slice -/
theorem forTermination_rev (rI : Nat) (ko : Bool) (rev : List ChildSpec) :
    ARFO.forTermination rI ko rev (rev.length - 1) =
      pick ko (((rev.take (rev.length - rI)).filter stoppable).map (·.pid)) := by
  induction rev with
  | nil => simp [ARFO.forTermination, pick]
  | cons c r ih =>
    simp only [List.length_cons, Nat.add_sub_cancel]
    unfold ARFO.forTermination
    by_cases h : r.length < rI
    · have : r.length + 1 - rI = 0 := by omega
      simp [h, this, pick]
    · have hle : rI ≤ r.length := by omega
      have e : r.length + 1 - rI = (r.length - rI) + 1 := by omega
      simp only [h, if_false, e, List.take_succ_cons]
      by_cases hd : c.disabled = true
      · simp only [hd, if_true]
        rw [ih]
        simp [List.filter, stoppable, hd]
      · have hd' : c.disabled = false := by simpa using hd
        simp only [hd', Bool.false_eq_true, if_false]
        by_cases hp : c.pid = 0
        · simp only [hp, if_true]
          rw [ih]
          simp [List.filter, stoppable, hp]
        · simp only [hp, if_false]
          have hs : stoppable c = true := by simp [stoppable, hd', hp]
          cases ko with
          | true => simp [pick, List.filter, hs]
          | false =>
            simp only [Bool.false_eq_true, if_false]
            rw [ih]
            simp [pick, List.filter, hs]

/-- `supARFO.childrenForTermination`, in terms of the spec slice itself: the children of the enabled specs
at positions ≥ restartI that are running, in REVERSE spec order (all of them, or only the last one with KeepOrder) -/
theorem forTermination_eq (rI : Nat) (ko : Bool) (l : List ChildSpec) :
    ARFO.forTermination rI ko l.reverse (l.length - 1) =
      pick ko ((((l.drop rI).filter stoppable).map (·.pid)).reverse) := by
  have := forTermination_rev rI ko l.reverse
  rw [List.length_reverse] at this
  rw [this]
  congr 1
  rw [← List.map_reverse, ← List.filter_reverse]
  congr 2
  rw [List.take_reverse]
  congr 1
  by_cases h : rI ≤ l.length
  · have : l.length - (l.length - rI) = rI := by omega
    rw [this]
  · have h1 : l.length - (l.length - rI) = l.length := by omega
    rw [h1, List.drop_length, List.drop_eq_nil_of_le (by omega)]

/-- T3 (rest-for-one: the prefix is untouched): every child that is told to stop belongs to a spec at a
position ≥ the restart position, is enabled and was running -/
theorem stop_targets (s : ARFO) (p : Nat) (h : p ∈ (ARFO.childrenForTermination s).2) :
    ∃ c, c ∈ s.spec.drop s.restartI ∧ c.pid = p ∧ c.disabled = false ∧ p ≠ 0 := by
  unfold ARFO.childrenForTermination at h
  simp only at h
  rw [forTermination_eq] at h
  have h' : p ∈ (((s.spec.drop s.restartI).filter stoppable).map (·.pid)).reverse := by
    unfold pick at h
    split at h
    · exact List.mem_of_mem_take h
    · exact h
  rw [List.mem_reverse, List.mem_map] at h'
  obtain ⟨c, hc, hcp⟩ := h'
  rw [List.mem_filter] at hc
  have hs := hc.2
  simp [stoppable] at hs
  exact ⟨c, hc.1, hcp, hs.1, by rw [← hcp]; exact hs.2⟩

/-- KeepOrder: at most one child is told to stop at a time -/
theorem stop_keeporder (s : ARFO) (h : s.keeporder = true) : (ARFO.childrenForTermination s).2.length ≤ 1 := by
  unfold ARFO.childrenForTermination
  simp only
  rw [forTermination_eq, h]
  simp [pick]
  omega

/-- T4: the next child to start is the first enabled, not running spec at or after `frm` -/
theorem findStart_spec (frm : Nat) (l : List ChildSpec) (k j : Nat) (c : ChildSpec)
    (h : findStart frm k l = some (j, c)) :
    frm ≤ j ∧ k ≤ j ∧ l[j - k]? = some c ∧ c.pid = 0 ∧ c.disabled = false ∧
    ∀ i, k ≤ i → i < j → frm ≤ i → ∃ d, l[i - k]? = some d ∧ (d.pid ≠ 0 ∨ d.disabled = true) := by
  induction l generalizing k with
  | nil => simp [findStart] at h
  | cons a t ih =>
    unfold findStart at h
    split at h
    · -- k < frm
      have ⟨h1, h2, h3, h4, h5, h6⟩ := ih (k + 1) h
      refine ⟨h1, by omega, ?_, h4, h5, ?_⟩
      · have : j - k = (j - (k + 1)) + 1 := by omega
        rw [this]; simpa using h3
      · intro i hi hij hfi
        have hik : k + 1 ≤ i := by omega
        obtain ⟨d, hd, hd'⟩ := h6 i hik hij hfi
        refine ⟨d, ?_, hd'⟩
        have : i - k = (i - (k + 1)) + 1 := by omega
        rw [this]; simpa using hd
    · split at h
      · -- running
        rename_i hk hp
        have ⟨h1, h2, h3, h4, h5, h6⟩ := ih (k + 1) h
        refine ⟨h1, by omega, ?_, h4, h5, ?_⟩
        · have : j - k = (j - (k + 1)) + 1 := by omega
          rw [this]; simpa using h3
        · intro i hi hij hfi
          by_cases hik : i = k
          · subst hik; exact ⟨a, by simp, Or.inl hp⟩
          · obtain ⟨d, hd, hd'⟩ := h6 i (by omega) hij hfi
            refine ⟨d, ?_, hd'⟩
            have : i - k = (i - (k + 1)) + 1 := by omega
            rw [this]; simpa using hd
      · split at h
        · -- disabled
          rename_i hk hp hdis
          have ⟨h1, h2, h3, h4, h5, h6⟩ := ih (k + 1) h
          refine ⟨h1, by omega, ?_, h4, h5, ?_⟩
          · have : j - k = (j - (k + 1)) + 1 := by omega
            rw [this]; simpa using h3
          · intro i hi hij hfi
            by_cases hik : i = k
            · subst hik; exact ⟨a, by simp, Or.inr hdis⟩
            · obtain ⟨d, hd, hd'⟩ := h6 i (by omega) hij hfi
              refine ⟨d, ?_, hd'⟩
              have : i - k = (i - (k + 1)) + 1 := by omega
              rw [this]; simpa using hd
        · rename_i hk hp hdis
          simp at h
          obtain ⟨rfl, rfl⟩ := h
          refine ⟨by omega, Nat.le_refl _, by simp, by simpa using hp, by simpa using hdis, ?_⟩
          intro i hi hij; omega

end ErgoVerif.Sup

/-!
lib/flusher.go — the writer every proto connection, meta tcp connection and meta port writes its frames through:
a `bufio.Writer` over the socket plus a timer. `Write` copies into the buffer (bufio flushes or bypasses the buffer when
it does not fit) and, when no flush is pending, marks one pending and arms the timer; the timer callback flushes the
buffer, clears `pending` and re-arms (`NewFlusher`), or — `NewFlusherWithKeepAlive` — writes the keep-alive bytes when
nothing is pending.

`bufWrite` is `bufio.Writer.Write` for a writer of size `cap` whose underlying writer takes everything it is given
(a TCP connection; an error ends the connection): bytes are numbers, `out` is the list of chunks handed to the socket.
-/
namespace ErgoVerif.Flusher

/-- bufio.Writer.Write: `while len(p) > Available() { if Buffered()==0 { direct } else { fill; Flush } }; copy rest`.
    After one fill-and-flush round the buffer is empty, so the loop body runs at most twice. -/
def bufWrite (cap : Nat) (buf : List Nat) (out : List (List Nat)) (p : List Nat) : List Nat × List (List Nat) :=
  if p.length ≤ cap - buf.length then (buf ++ p, out)
  else if buf = [] then ([], out ++ [p])
  else
    let n := cap - buf.length
    let out1 := out ++ [buf ++ p.take n]
    let p1 := p.drop n
    if p1.length ≤ cap then (p1, out1) else ([], out1 ++ [p1])

/-- bufio.Writer.Flush -/
def bufFlush (buf : List Nat) (out : List (List Nat)) : List Nat × List (List Nat) :=
  if buf = [] then ([], out) else ([], out ++ [buf])

structure St where
  buf : List Nat
  out : List (List Nat)
  pending : Bool
  armed : Bool             -- a run of the timer callback is scheduled
  log : List (List Nat)    -- ghost: the accepted writes and the keep-alives, as units, in the order they were accepted
deriving DecidableEq, Repr

def init : St := ⟨[], [], false, true, []⟩   -- time.AfterFunc arms the timer at construction

inductive Ev
  | write (p : List Nat)
  | fire        -- the scheduled run of the callback
  | stale       -- a run of the callback that was already under way when the timer was re-armed
deriving DecidableEq, Repr

/-- the body of the timer callback; `ka` = the keep-alive bytes of NewFlusherWithKeepAlive, none for NewFlusher -/
def callback (cap : Nat) (ka : Option (List Nat)) (s : St) : St :=
  if s.pending then
    let r := bufFlush s.buf s.out
    { s with buf := r.1, out := r.2, pending := false, armed := true }
  else
    match ka with
    | none => s
    | some k =>
      let w := bufWrite cap s.buf s.out k
      let r := bufFlush w.1 w.2
      { s with buf := r.1, out := r.2, armed := true, log := s.log ++ [k] }

def step (cap : Nat) (ka : Option (List Nat)) (s : St) : Ev → St
  | .write p =>
    let w := bufWrite cap s.buf s.out p
    { s with buf := w.1, out := w.2, log := s.log ++ [p], pending := true, armed := if s.pending then s.armed else true }
  | .fire => if s.armed then callback cap ka { s with armed := false } else s
  | .stale => callback cap ka s

def run (cap : Nat) (ka : Option (List Nat)) (s : St) : List Ev → St
  | [] => s
  | e :: es => run cap ka (step cap ka s e) es

/-- the bytes the socket has been given, in order -/
def St.sent (s : St) : List Nat := s.out.flatten

end ErgoVerif.Flusher

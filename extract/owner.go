package main

import (
	"fmt"
	"go/ast"
	"go/token"
	"sort"
	"strings"
)

// Generated/Owner.lean: the mailbox loops (node/meta.go handle, act/{actor,pool,supervisor,web_worker}.go
// ProcessRun) give the previously handled *gen.MailboxMessage back to the sync.Pool of gen/mailbox.go. A message
// object may be given back once per Take: every call gen.ReleaseMailboxMessage(X) must be the first statement of
// an `if X != nil` body and be followed directly by `X = nil`.

func init() {
	generators = append(generators, generator{name: "Owner", run: genOwner,
		fallback: "namespace ErgoVerif.Gen.Owner\nstructure Site where\n  file : String\n  fn : String\n  guarded : Bool\n  reset : Bool\nderiving DecidableEq, Repr\ndef releaseSites : List Site := []\nend ErgoVerif.Gen.Owner\n"})
}

func genOwner() (string, error) {
	type site struct {
		file, fn       string
		guarded, reset bool
	}
	var sites []site
	files := []string{"node/meta.go", "node/process.go", "act/actor.go", "act/pool.go", "act/supervisor.go", "act/web_worker.go"}
	for _, file := range files {
		f, err := parseFile(file)
		if err != nil {
			return "", err
		}
		for _, d := range f.Decls {
			fd, ok := d.(*ast.FuncDecl)
			if !ok || fd.Body == nil {
				continue
			}
			// every block: look at consecutive statements
			seen := map[token.Pos]bool{}
			var visit func(n ast.Node) bool
			visit = func(n ast.Node) bool {
				switch x := n.(type) {
				case *ast.IfStmt:
					// `if X != nil { gen.ReleaseMailboxMessage(X); X = nil }`
					if be, ok := x.Cond.(*ast.BinaryExpr); ok && be.Op == token.NEQ && selName(be.Y) == "nil" && x.Init == nil && x.Else == nil {
						v := selName(be.X)
						if len(x.Body.List) >= 1 {
							if arg, pos := releaseCall(x.Body.List[0]); arg != "" && arg == v {
								seen[pos] = true
								rs := len(x.Body.List) >= 2 && isNilAssign(x.Body.List[1], v)
								sites = append(sites, site{file, fd.Name.Name, true, rs})
							}
						}
					}
				case *ast.CallExpr:
					if selName(x.Fun) == "gen.ReleaseMailboxMessage" && !seen[x.Pos()] {
						sites = append(sites, site{file, fd.Name.Name, false, false})
					}
				}
				return true
			}
			ast.Inspect(fd.Body, visit)
		}
	}
	if len(sites) == 0 {
		return "", fmt.Errorf("no gen.ReleaseMailboxMessage call found in %v", files)
	}
	sort.Slice(sites, func(i, j int) bool { return sites[i].file+sites[i].fn < sites[j].file+sites[j].fn })
	var b strings.Builder
	b.WriteString("namespace ErgoVerif.Gen.Owner\nstructure Site where\n  file : String\n  fn : String\n  /-- first statement of an `if X != nil` body -/\n  guarded : Bool\n  /-- followed directly by `X = nil` -/\n  reset : Bool\nderiving DecidableEq, Repr\n")
	b.WriteString("/-- every call of gen.ReleaseMailboxMessage in the mailbox loops -/\ndef releaseSites : List Site := [\n")
	for i, s := range sites {
		c := ","
		if i == len(sites)-1 {
			c = ""
		}
		fmt.Fprintf(&b, "  ⟨%q, %q, %v, %v⟩%s\n", s.file, s.fn, s.guarded, s.reset, c)
	}
	b.WriteString("]\nend ErgoVerif.Gen.Owner\n")
	return b.String(), nil
}

func releaseCall(s ast.Stmt) (string, token.Pos) {
	es, ok := s.(*ast.ExprStmt)
	if !ok {
		return "", 0
	}
	ce, ok := es.X.(*ast.CallExpr)
	if !ok || selName(ce.Fun) != "gen.ReleaseMailboxMessage" || len(ce.Args) != 1 {
		return "", 0
	}
	return selName(ce.Args[0]), ce.Pos()
}

func isNilAssign(s ast.Stmt, v string) bool {
	as, ok := s.(*ast.AssignStmt)
	return ok && as.Tok == token.ASSIGN && len(as.Lhs) == 1 && len(as.Rhs) == 1 && selName(as.Lhs[0]) == v && selName(as.Rhs[0]) == "nil"
}

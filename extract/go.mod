module verifextract

go 1.20

import ErgoVerif.Lemmas.Call
import ErgoVerif.Lemmas.Ref
/-!
# C07 — request/response correlation

`Model/Call.lean`: the caller's buffered response channel and `waitResponse`. References come from
`MakeRef`, which is injective in the node's counter (`Props/C06.lean`, repeated here as the freshness premise).
-/
namespace ErgoVerif.Props.C07
open ErgoVerif ErgoVerif.Call

/-- **A call returns only a reply made for that very request.** For every history of calls, deliveries of replies
of any age (late, duplicate, from any process), receive steps and timeouts: if a call with reference `r` returned
the value `v`, then a reply carrying exactly `r` and `v` was handed to this process, and `r` is the reference of a
call this process made. -/
theorem C07_own_reply (ops : List Op) (r : Ref) (v : Nat)
    (h : (r, Outcome.value v) ∈ (runOps ops).returned) :
    (⟨r, v⟩ : Reply) ∈ (runOps ops).delivered ∧ r ∈ (runOps ops).issued := by
  have hi := run_inv ops
  obtain ⟨hc, hiss⟩ := hi.returned_ok r v h
  refine ⟨?_, hiss⟩
  have : (⟨r, v⟩ : Reply) ∈ (runOps ops).delivered.reverse := by
    rw [hi.conserve]; simp [hc]
  simpa using this

/-- references are fresh: distinct counter values give distinct references (MakeRef, regenerated from the source),
so "carries the reference of this call" means "was produced for this call" as long as the callee copies the
reference it was given. -/
theorem C07_refs_fresh (a b : BitVec 64) (hne : a ≠ b) :
    (Gen.Ref.makeRef0 a, Gen.Ref.makeRef1 a, Gen.Ref.makeRef2 a) ≠ (Gen.Ref.makeRef0 b, Gen.Ref.makeRef1 b, Gen.Ref.makeRef2 b) := by
  intro h
  simp only [Prod.mk.injEq] at h
  apply hne
  have h0 := h.1
  have h1 := h.2.1
  unfold Gen.Ref.makeRef0 at h0
  unfold Gen.Ref.makeRef1 at h1
  rw [Ref.mask18] at h0
  exact Ref.split18_inj a b h0 h1

/-- **A reply is consumed at most once**: the replies taken out of the channel are, in order, a prefix of the replies
that were accepted; nothing is consumed that was not delivered and no delivery is consumed twice. Refused
hand-overs (`ErrResponseIgnored`) are never consumed. -/
theorem C07_consumed_once (ops : List Op) :
    (runOps ops).consumed.reverse <+: (runOps ops).delivered.reverse ∧
    (runOps ops).consumed.length + (runOps ops).chan.length = (runOps ops).delivered.length ∧
    (runOps ops).chan.length ≤ cap := by
  have hi := run_inv ops
  refine ⟨⟨_, hi.conserve.symm⟩, ?_, hi.chan_cap⟩
  have := congrArg List.length hi.conserve
  simp at this
  omega

/-- **A call returns at most once**: completed calls plus the pending one (if any) are exactly the calls issued. -/
theorem C07_returns_once (ops : List Op) :
    (runOps ops).returned.length + (if (runOps ops).waiting.isSome then 1 else 0) = (runOps ops).issued.length ∧
    ∀ r o, (r, o) ∈ (runOps ops).returned → r ∈ (runOps ops).issued :=
  ⟨(run_inv ops).count, (run_inv ops).returned_issued⟩

/-- a stale reply never completes a later call: with the late reply to request 1 arriving while request 2 waits,
request 2 still returns its own value (non-vacuity + the scenario of the property's statement) -/
example : (runOps [.call 1, .timeout, .call 2, .deliver ⟨1, 100⟩, .recv, .deliver ⟨2, 200⟩, .recv]).returned
    = [(2, .value 200), (1, .timeout)] := by decide

end ErgoVerif.Props.C07

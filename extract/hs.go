package main

// Gen.Hs — facts about the handshake (net/handshake/*.go):
//   * every digest site of Start / Accept / Join: which protocol values are hashed, in which order
//     (arguments of fmt.Sprintf resolved to roles), what the digest is used for (stored into which
//     message field, or compared with which received field), whether a TLS fingerprint is appended;
//   * the reader's constants: magic, version, header length, length-field offsets, size cap, read buffer.
// The format string of every site must be "%s" repeated and joined with ':' (that is what makes the
// hash input the colon-joined list of the arguments); anything else is reported as a missing anchor.

import (
	"fmt"
	"go/ast"
	"go/constant"
	"go/parser"
	"go/token"
	"go/types"
	"path/filepath"
	"strconv"
	"strings"
)

const hsHeader = `namespace ErgoVerif.Generated.Hs

/-- the functions of net/handshake that compute digests -/
inductive Fn | start | accept | join
  deriving DecidableEq, Repr

/-- branch of Accept's type switch a site sits in -/
inductive Ctx | top | hello | join
  deriving DecidableEq, Repr

/-- protocol values that are hashed (Go expressions resolved per function, see extract/hs.go) -/
inductive Role | ownSalt | peerSalt | ownDigest | peerDigest | connId | cookie
  deriving DecidableEq, Repr

/-- what the hex digest is used for: stored into a field of the message being built, or compared
    with a field of the message just received -/
inductive Use | set | cmp | unused
  deriving DecidableEq, Repr

/-- the message field concerned -/
inductive Field | helloDigest | helloCert | introDigest | joinDigest | acceptDigest | acceptCert | other
  deriving DecidableEq, Repr

structure Site where
  fn : Fn
  ctx : Ctx
  use : Use
  field : Field
  args : List Role
  fingerprint : Bool      -- a second hash.Write(fp) follows (TLS certificate fingerprint)
  deriving DecidableEq, Repr
`

var hsFallback = hsHeader + `
def sites : List Site := []
def handshakeMagic : Nat := 0
def handshakeVersion : Nat := 0
def headerLen : Nat := 0
def magicOff : Nat := 0
def versionOff : Nat := 0
def lenLo : Nat := 0
def lenHi : Nat := 0
def payloadOff : Nat := 0
def needBase : Nat := 0
def maxLen : Nat := 0
def readBuf : Nat := 0
def deadlinePerMessage : Bool := false
end ErgoVerif.Generated.Hs
`

func init() {
	generators = append(generators, generator{name: "Hs", run: genHs, fallback: hsFallback})
}

type hsSite struct {
	fn, ctx, use, field string
	args                []string
	fp                  bool
	exprs               []string
	target              string
}

// (function, ctx, expression) -> role
var hsRoles = map[string]string{
	"start|top|salt":              "ownSalt",
	"start|top|hello.Salt":        "ownSalt",
	"start|top|options.Cookie":    "cookie",
	"start|top|hello2.Salt":       "peerSalt",
	"start|top|hello.Digest":      "ownDigest",
	"start|top|digest":            "ownDigest",
	"accept|hello|m.Salt":         "peerSalt",
	"accept|hello|m.Digest":       "peerDigest",
	"accept|hello|salt":           "ownSalt",
	"accept|hello|options.Cookie": "cookie",
	"accept|join|m.ConnectionID":  "connId",
	"accept|join|m.Salt":          "peerSalt",
	"accept|join|m.Digest":        "peerDigest",
	"accept|join|options.Cookie":  "cookie",
	"accept|top|salt":             "ownSalt",
	"accept|top|options.Cookie":   "cookie",
	"join|top|id":                 "connId",
	"join|top|salt":               "ownSalt",
	"join|top|options.Cookie":     "cookie",
	"join|top|message.Digest":     "ownDigest",
	"join|top|digest":             "ownDigest",
}

// (function, ctx, use, target expression) -> message field
var hsFields = map[string]string{
	"start|top|set|digest":              "helloDigest",
	"start|top|cmp|hello2.Digest":       "helloDigest",
	"start|top|cmp|hello2.DigestCert":   "helloCert",
	"start|top|set|intro.Digest":        "introDigest",
	"accept|hello|cmp|m.Digest":         "helloDigest",
	"accept|hello|set|hello.Digest":     "helloDigest",
	"accept|hello|set|hello.DigestCert": "helloCert",
	"accept|join|cmp|m.Digest":          "joinDigest",
	"accept|join|set|accept.Digest":     "acceptDigest",
	"accept|join|set|accept.DigestCert": "acceptCert",
	"accept|top|cmp|intro.Digest":       "introDigest",
	"join|top|set|digest":               "joinDigest",
	"join|top|cmp|accept.Digest":        "acceptDigest",
	"join|top|cmp|accept.DigestCert":    "acceptCert",
}

func isCall(e ast.Expr, recv, name string) (*ast.CallExpr, bool) {
	c, ok := e.(*ast.CallExpr)
	if !ok {
		return nil, false
	}
	s, ok := c.Fun.(*ast.SelectorExpr)
	if !ok || s.Sel.Name != name {
		return nil, false
	}
	id, ok := s.X.(*ast.Ident)
	if !ok || id.Name != recv {
		return nil, false
	}
	return c, true
}

// containsHashSum: expression contains hash.Sum(...)
func containsHashSum(n ast.Node) bool {
	found := false
	ast.Inspect(n, func(x ast.Node) bool {
		if e, ok := x.(ast.Expr); ok {
			if _, ok := isCall(e, "hash", "Sum"); ok {
				found = true
			}
		}
		return !found
	})
	return found
}

func genHs() (string, error) {
	fset := token.NewFileSet()
	dir := filepath.Join(repo, "net", "handshake")
	pkgs, err := parser.ParseDir(fset, dir, nil, 0)
	if err != nil {
		return "", err
	}
	pkg, ok := pkgs["handshake"]
	if !ok {
		return "", fmt.Errorf("package handshake not found")
	}
	consts := map[string]int64{}
	funcs := map[string]*ast.FuncDecl{}
	for _, f := range pkg.Files {
		for _, d := range f.Decls {
			switch x := d.(type) {
			case *ast.GenDecl:
				if x.Tok != token.CONST {
					continue
				}
				for _, sp := range x.Specs {
					vs := sp.(*ast.ValueSpec)
					for i, nm := range vs.Names {
						if i < len(vs.Values) {
							if bl, ok := vs.Values[i].(*ast.BasicLit); ok && bl.Kind == token.INT {
								v := constant.MakeFromLiteral(bl.Value, bl.Kind, 0)
								if iv, ok := constant.Int64Val(v); ok {
									consts[nm.Name] = iv
								}
							}
						}
					}
				}
			case *ast.FuncDecl:
				if x.Recv != nil {
					funcs[x.Name.Name] = x
				}
			}
		}
	}
	var sites []*hsSite
	for _, fn := range []string{"Start", "Accept", "Join"} {
		fd, ok := funcs[fn]
		if !ok {
			return "", fmt.Errorf("method %s not found in net/handshake", fn)
		}
		ss, err := hsSitesOf(strings.ToLower(fn), fd)
		if err != nil {
			return "", err
		}
		sites = append(sites, ss...)
	}
	if len(sites) == 0 {
		return "", fmt.Errorf("no digest sites found")
	}
	// reader
	rd, ok := funcs["readMessage"]
	if !ok {
		return "", fmt.Errorf("readMessage not found")
	}
	rc, err := hsReaderFacts(rd, consts)
	if err != nil {
		return "", err
	}
	for _, k := range []string{"handshakeMagic", "handshakeVersion"} {
		if _, ok := consts[k]; !ok {
			return "", fmt.Errorf("constant %s not found", k)
		}
	}
	var sb strings.Builder
	sb.WriteString(hsHeader)
	sb.WriteString("\ndef sites : List Site := [\n")
	var fsites []map[string]interface{}
	for i, s := range sites {
		roles := make([]string, len(s.args))
		for j, a := range s.args {
			roles[j] = "." + a
		}
		fmt.Fprintf(&sb, "  ⟨.%s, .%s, .%s, .%s, [%s], %v⟩%s   -- %s(%s)  %s %s\n", s.fn, s.ctx, s.use, s.field,
			strings.Join(roles, ", "), s.fp, map[bool]string{true: ",", false: ""}[i < len(sites)-1],
			s.fn, strings.Join(s.exprs, ", "), s.use, s.target)
		fsites = append(fsites, map[string]interface{}{"fn": s.fn, "ctx": s.ctx, "use": s.use, "field": s.field,
			"args": s.args, "exprs": s.exprs, "target": s.target, "fingerprint": s.fp})
	}
	sb.WriteString("]\n\n")
	fmt.Fprintf(&sb, "def handshakeMagic : Nat := %d\n", consts["handshakeMagic"])
	fmt.Fprintf(&sb, "def handshakeVersion : Nat := %d\n", consts["handshakeVersion"])
	for _, k := range []string{"headerLen", "magicOff", "versionOff", "lenLo", "lenHi", "payloadOff", "needBase", "maxLen", "readBuf"} {
		fmt.Fprintf(&sb, "def %s : Nat := %d\n", k, rc[k])
	}
	pm, err := hsDeadlinePerMessage(rd)
	if err != nil {
		return "", err
	}
	fmt.Fprintf(&sb, "/-- readMessage arms the read deadline (time.Now().Add(timeout)) once, before its loop, and never inside it -/\ndef deadlinePerMessage : Bool := %v\n", pm)
	sb.WriteString("end ErgoVerif.Generated.Hs\n")
	facts.Values["hs.sites"] = fsites
	facts.Values["hs.reader"] = rc
	facts.Values["hs.magic"] = consts["handshakeMagic"]
	facts.Values["hs.version"] = consts["handshakeVersion"]
	return sb.String(), nil
}

// hsSitesOf walks the function body in source order.
func hsSitesOf(fn string, fd *ast.FuncDecl) ([]*hsSite, error) {
	var sites []*hsSite
	var cur *hsSite // last site whose hex digest has not been consumed yet
	var werr error
	consume := func(use, target, ctx string) {
		if cur == nil {
			return
		}
		cur.use, cur.target = use, target
		if target == "_" {
			// the digest is computed and thrown away: the site stays "unused"
			cur = nil
			return
		}
		f, ok := hsFields[fn+"|"+ctx+"|"+use+"|"+target]
		if !ok {
			// a digest stored into / compared with something the model does not know: kept as a site of
			// field `other` (the model then has no check / no digest there, and its theorems stop proving)
			f = "other"
		}
		cur.field = f
		cur = nil
	}
	var walkStmts func(list []ast.Stmt, ctx string)
	var walkStmt func(s ast.Stmt, ctx string)
	walkStmt = func(s ast.Stmt, ctx string) {
		switch x := s.(type) {
		case *ast.ExprStmt:
			if c, ok := isCall(x.X, "hash", "Write"); ok && len(c.Args) == 1 {
				// hash.Write([]byte(fmt.Sprintf(f, args...)))  or hash.Write(fp)
				if conv, ok := c.Args[0].(*ast.CallExpr); ok && len(conv.Args) == 1 {
					if sp, ok := isCall(conv.Args[0], "fmt", "Sprintf"); ok && len(sp.Args) >= 1 {
						bl, ok := sp.Args[0].(*ast.BasicLit)
						if !ok || bl.Kind != token.STRING {
							werr = fmt.Errorf("%s: digest format is not a literal", fn)
							return
						}
						f, _ := strconv.Unquote(bl.Value)
						n := len(sp.Args) - 1
						want := strings.TrimSuffix(strings.Repeat("%s:", n), ":")
						if f != want {
							werr = fmt.Errorf("%s: digest format %q is not %q", fn, f, want)
							return
						}
						st := &hsSite{fn: fn, ctx: ctx, use: "unused", field: "other"}
						for _, a := range sp.Args[1:] {
							e := types.ExprString(a)
							r, ok := hsRoles[fn+"|"+ctx+"|"+e]
							if !ok {
								werr = fmt.Errorf("%s: hashed expression %q is not a known protocol value", fn, e)
								return
							}
							st.args = append(st.args, r)
							st.exprs = append(st.exprs, e)
						}
						sites = append(sites, st)
						cur = st
						return
					}
				}
				if id, ok := c.Args[0].(*ast.Ident); ok && id.Name == "fp" && cur != nil {
					cur.fp = true
				}
			}
		case *ast.AssignStmt:
			if len(x.Lhs) == 1 && len(x.Rhs) == 1 {
				if containsHashSum(x.Rhs[0]) {
					if cl, ok := x.Rhs[0].(*ast.CompositeLit); ok {
						// v := T{ ..., Field: fmt.Sprintf("%x", hash.Sum(nil)) }
						for _, el := range cl.Elts {
							if kv, ok := el.(*ast.KeyValueExpr); ok && containsHashSum(kv.Value) {
								consume("set", types.ExprString(x.Lhs[0])+"."+types.ExprString(kv.Key), ctx)
							}
						}
					} else {
						consume("set", types.ExprString(x.Lhs[0]), ctx)
					}
				}
			}
		case *ast.IfStmt:
			if x.Init != nil {
				walkStmt(x.Init, ctx)
			}
			if be, ok := x.Cond.(*ast.BinaryExpr); ok && be.Op == token.NEQ && containsHashSum(be.Y) {
				// if X != fmt.Sprintf("%x", hash.Sum(nil)) { return error }
				if hsReturnsError(x.Body) {
					consume("cmp", types.ExprString(be.X), ctx)
				}
			}
			walkStmts(x.Body.List, ctx)
			if x.Else != nil {
				walkStmt(x.Else, ctx)
			}
		case *ast.BlockStmt:
			walkStmts(x.List, ctx)
		case *ast.TypeSwitchStmt:
			for _, cc := range x.Body.List {
				cl := cc.(*ast.CaseClause)
				c2 := "top"
				if len(cl.List) == 1 {
					switch types.ExprString(cl.List[0]) {
					case "MessageHello":
						c2 = "hello"
					case "MessageJoin":
						c2 = "join"
					}
				}
				walkStmts(cl.Body, c2)
			}
		case *ast.ForStmt:
			walkStmts(x.Body.List, ctx)
		}
	}
	walkStmts = func(list []ast.Stmt, ctx string) {
		for _, s := range list {
			walkStmt(s, ctx)
		}
	}
	walkStmts(fd.Body.List, "top")
	return sites, werr
}

// hsReturnsError: the block ends in `return ..., <non-nil error expression>`
func hsReturnsError(b *ast.BlockStmt) bool {
	if len(b.List) == 0 {
		return false
	}
	rs, ok := b.List[len(b.List)-1].(*ast.ReturnStmt)
	if !ok || len(rs.Results) == 0 {
		return false
	}
	last := rs.Results[len(rs.Results)-1]
	if id, ok := last.(*ast.Ident); ok && id.Name == "nil" {
		return false
	}
	return true
}

func hsEvalInt(e ast.Expr, consts map[string]int64) (int64, bool) {
	switch x := e.(type) {
	case *ast.BasicLit:
		v := constant.MakeFromLiteral(x.Value, x.Kind, 0)
		return constant.Int64Val(v)
	case *ast.Ident:
		v, ok := consts[x.Name]
		return v, ok
	case *ast.SelectorExpr:
		switch types.ExprString(x) {
		case "math.MaxUint16":
			return 65535, true
		case "math.MaxUint8":
			return 255, true
		case "math.MaxInt16":
			return 32767, true
		case "math.MaxUint32":
			return 4294967295, true
		case "math.MaxInt32":
			return 2147483647, true
		}
	case *ast.ParenExpr:
		return hsEvalInt(x.X, consts)
	case *ast.BinaryExpr:
		a, ok1 := hsEvalInt(x.X, consts)
		b, ok2 := hsEvalInt(x.Y, consts)
		if ok1 && ok2 {
			switch x.Op {
			case token.ADD:
				return a + b, true
			case token.SUB:
				return a - b, true
			case token.MUL:
				return a * b, true
			case token.SHL:
				return a << uint(b), true
			}
		}
	}
	return 0, false
}

// hsReaderFacts: the numbers readMessage works with.
func hsReaderFacts(fd *ast.FuncDecl, consts map[string]int64) (map[string]int64, error) {
	rc := map[string]int64{}
	var err error
	fail := func(f string, a ...interface{}) {
		if err == nil {
			err = fmt.Errorf("readMessage: "+f, a...)
		}
	}
	ast.Inspect(fd.Body, func(n ast.Node) bool {
		switch x := n.(type) {
		case *ast.DeclStmt:
			// var b [4096]byte
			if gd, ok := x.Decl.(*ast.GenDecl); ok && gd.Tok == token.VAR {
				for _, sp := range gd.Specs {
					vs := sp.(*ast.ValueSpec)
					if at, ok := vs.Type.(*ast.ArrayType); ok && at.Len != nil && len(vs.Names) == 1 && vs.Names[0].Name == "b" {
						if v, ok := hsEvalInt(at.Len, consts); ok {
							rc["readBuf"] = v
						}
					}
				}
			}
		case *ast.AssignStmt:
			if len(x.Lhs) == 1 && len(x.Rhs) == 1 {
				if id, ok := x.Lhs[0].(*ast.Ident); ok && id.Name == "expect" {
					if x.Tok == token.DEFINE {
						if v, ok := hsEvalInt(x.Rhs[0], consts); ok {
							rc["headerLen"] = v
						} else {
							fail("initial expect is not a constant")
						}
					} else if be, ok := x.Rhs[0].(*ast.BinaryExpr); ok && be.Op == token.ADD {
						// expect = 6 + l
						if v, ok := hsEvalInt(be.X, consts); ok {
							rc["expectBase"] = v
						}
					}
				}
				// l := int(binary.BigEndian.Uint32(chunk[2:6]))
				if id, ok := x.Lhs[0].(*ast.Ident); ok && id.Name == "l" {
					ast.Inspect(x.Rhs[0], func(m ast.Node) bool {
						if se, ok := m.(*ast.SliceExpr); ok && types.ExprString(se.X) == "chunk" && se.Low != nil && se.High != nil {
							lo, ok1 := hsEvalInt(se.Low, consts)
							hi, ok2 := hsEvalInt(se.High, consts)
							if ok1 && ok2 {
								rc["lenLo"], rc["lenHi"] = lo, hi
							}
						}
						if c, ok := m.(*ast.CallExpr); ok {
							if s := types.ExprString(c.Fun); strings.HasPrefix(s, "binary.") && s != "binary.BigEndian.Uint32" {
								fail("length field is read with %s", s)
							}
						}
						return true
					})
				}
			}
		case *ast.IfStmt:
			be, ok := x.Cond.(*ast.BinaryExpr)
			if !ok {
				return true
			}
			l, r := types.ExprString(be.X), types.ExprString(be.Y)
			switch {
			case be.Op == token.NEQ && strings.HasPrefix(l, "chunk[") && r == "handshakeMagic":
				if ie, ok := be.X.(*ast.IndexExpr); ok {
					if v, ok := hsEvalInt(ie.Index, consts); ok {
						rc["magicOff"] = v
						rc["hasMagic"] = 1
					}
				}
			case be.Op == token.NEQ && strings.HasPrefix(l, "chunk[") && r == "handshakeVersion":
				if ie, ok := be.X.(*ast.IndexExpr); ok {
					if v, ok := hsEvalInt(ie.Index, consts); ok {
						rc["versionOff"] = v
						rc["hasVersion"] = 1
					}
				}
			case l == "l" && (be.Op == token.GTR || be.Op == token.GEQ):
				if v, ok := hsEvalInt(be.Y, consts); ok {
					if be.Op == token.GEQ {
						v--
					}
					rc["maxLen"] = v
					rc["hasMax"] = 1
				}
			case l == "len(chunk)" && be.Op == token.LSS && r != "expect":
				// len(chunk) < 6+l
				if b2, ok := be.Y.(*ast.BinaryExpr); ok && b2.Op == token.ADD {
					if v, ok := hsEvalInt(b2.X, consts); ok {
						rc["needBase"] = v
					}
				}
			}
		case *ast.ReturnStmt:
			// return edf.Decode(chunk[6:], ...)
			if len(x.Results) == 1 {
				if c, ok := x.Results[0].(*ast.CallExpr); ok && types.ExprString(c.Fun) == "edf.Decode" && len(c.Args) >= 1 {
					if se, ok := c.Args[0].(*ast.SliceExpr); ok && se.Low != nil && se.High == nil {
						if v, ok := hsEvalInt(se.Low, consts); ok {
							rc["payloadOff"] = v
							rc["hasPayload"] = 1
						}
					}
				}
			}
		}
		return true
	})
	if err != nil {
		return nil, err
	}
	for _, k := range []string{"readBuf", "headerLen", "lenHi", "needBase", "hasMagic", "hasVersion", "hasMax", "hasPayload"} {
		if _, ok := rc[k]; !ok {
			return nil, fmt.Errorf("readMessage: %s not found", k)
		}
	}
	if rc["expectBase"] != rc["needBase"] {
		return nil, fmt.Errorf("readMessage: expect = %d+l but the completeness test uses %d+l", rc["expectBase"], rc["needBase"])
	}
	return rc, nil
}


// hsDeadlinePerMessage: where readMessage arms the read deadline with `time.Now().Add(timeout)`: true when such a
// call stands before the read loop and none inside it; false when one is inside the loop (re-armed per Read).
func hsDeadlinePerMessage(fd *ast.FuncDecl) (bool, error) {
	arms := func(n ast.Node) bool {
		found := false
		ast.Inspect(n, func(x ast.Node) bool {
			c, ok := x.(*ast.CallExpr)
			if !ok || !strings.HasSuffix(hsSel(c.Fun), ".SetReadDeadline") || len(c.Args) != 1 {
				return true
			}
			if a, ok := c.Args[0].(*ast.CallExpr); ok && strings.HasSuffix(hsSel(a.Fun), ".Add") {
				found = true
			}
			return !found
		})
		return found
	}
	outside, inside, loops := false, false, 0
	for _, st := range fd.Body.List {
		if f, ok := st.(*ast.ForStmt); ok {
			loops++
			if arms(f) {
				inside = true
			}
			continue
		}
		if arms(st) {
			outside = true
		}
	}
	if loops != 1 {
		return false, fmt.Errorf("readMessage: expected one read loop at the top level of the function, found %d", loops)
	}
	if !outside && !inside {
		return false, fmt.Errorf("readMessage: no SetReadDeadline(time.Now().Add(timeout)) found")
	}
	return outside && !inside, nil
}

func hsSel(e ast.Expr) string {
	switch x := e.(type) {
	case *ast.Ident:
		return x.Name
	case *ast.SelectorExpr:
		return hsSel(x.X) + "." + x.Sel.Name
	case *ast.CallExpr:
		return hsSel(x.Fun) + "()"
	}
	return "?"
}

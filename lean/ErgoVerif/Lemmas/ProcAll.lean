import ErgoVerif.Lemmas.Proc
import ErgoVerif.Lemmas.ProcWake
import ErgoVerif.Lemmas.ProcReason
namespace ErgoVerif.Proc

/-- all invariants together -/
def InvAll (c : Cfg) : Prop := Inv c ∧ InvW c ∧ InvR c

theorem invAll_init : InvAll init := ⟨inv_init, invW_init, invR_init⟩

theorem step_invAll (c : Cfg) (l : Lbl) (c' : Cfg) (h : InvAll c) (hs : step true c l = some c') : InvAll c' :=
  ⟨step_inv c c' l h.1 hs, step_invW c c' l h.1 h.2.1 hs, step_invR c c' l h.1 h.2.2 hs⟩

theorem reach_inv {c : Cfg} (h : Reach true c) : InvAll c := by
  obtain ⟨ls, hr⟩ := h
  exact run_inv (Inv := InvAll) step_invAll invAll_init hr

theorem run_invAll {c c' : Cfg} {ls : List Lbl} (h : InvAll c) (hr : run (step true) c ls = some c') : InvAll c' :=
  run_inv (Inv := InvAll) step_invAll h hr

/-- the number of elected finalisers never decreases -/
theorem step_fin_mono (c c' : Cfg) (l : Lbl) (hs : step true c l = some c') :
    c.fE + c.fP + c.fK + c.terms ≤ c'.fE + c'.fP + c'.fK + c'.terms ∧ c.terms ≤ c'.terms := by
  obtain ⟨st, i0, i1, s0, s1, s2, w0, w1, r0, rb, r3, r4, r5, re, rp, rk, k0, k1, k2, fE, fP, fK, tm,
    mail, handled, accepted, refused, terms, why, sawErr, sawPanic, sawKill, initFailed⟩ := c
  cases l <;> simp only [step] at hs <;>
    (repeat' split at hs) <;>
    (first | (cases hs) | skip) <;> simp <;> omega

theorem run_fin_mono {c c' : Cfg} {ls : List Lbl} (hr : run (step true) c ls = some c') :
    c.fE + c.fP + c.fK + c.terms ≤ c'.fE + c'.fP + c'.fK + c'.terms ∧ c.terms ≤ c'.terms := by
  induction ls generalizing c with
  | nil => simp [run] at hr; subst hr; exact ⟨Nat.le_refl _, Nat.le_refl _⟩
  | cons a as ih =>
    simp only [run] at hr
    cases hs : step true c a with
    | none => simp [hs] at hr
    | some c1 =>
      simp [hs] at hr
      have h1 := step_fin_mono c c1 a hs
      have h2 := ih hr
      omega

end ErgoVerif.Proc

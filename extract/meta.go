package main

import (
	"fmt"
	"go/ast"
	"strings"
)

// Generated/Meta.lean: how a meta-process whose Start callback is over terminates (node/meta.go):
//   (a) the goroutine that ran Start swaps the state to terminated and, when the previous state was `running`
//       (a mailbox handler is inside a callback), does NOT run Terminate itself (an empty `case gen.MetaStateRunning:`);
//   (b) the handler goroutine, when its CAS running→sleep fails, runs the termination.
// Both or neither: the two halves of one hand-off.

func init() {
	generators = append(generators, generator{name: "Meta", run: genMeta,
		fallback: "namespace ErgoVerif.Gen.Meta\ndef startHandsOff : Bool := false\nend ErgoVerif.Gen.Meta\n"})
}

func genMeta() (string, error) {
	f, err := parseFile("node/meta.go")
	if err != nil {
		return "", err
	}
	terminates := func(n ast.Node) bool {
		found := false
		ast.Inspect(n, func(x ast.Node) bool {
			if c, ok := x.(*ast.CallExpr); ok {
				fn := selName(c.Fun)
				if fn == "m.terminate" || fn == "m.behavior.Terminate" {
					found = true
				}
			}
			return !found
		})
		return found
	}
	// (a) a switch over the previous state with an empty `case gen.MetaStateRunning`, in a function that swaps to terminated
	a := false
	swaps := 0
	for _, d := range f.Decls {
		fd, ok := d.(*ast.FuncDecl)
		if !ok || fd.Body == nil {
			continue
		}
		hasSwap := false
		ast.Inspect(fd.Body, func(x ast.Node) bool {
			if c, ok := x.(*ast.CallExpr); ok && selName(c.Fun) == "atomic.SwapInt32" && len(c.Args) == 2 && strings.Contains(exprText(c.Args[1]), "MetaStateTerminated") {
				hasSwap = true
			}
			return true
		})
		if !hasSwap {
			continue
		}
		swaps++
		ast.Inspect(fd.Body, func(x ast.Node) bool {
			sw, ok := x.(*ast.SwitchStmt)
			if !ok {
				return true
			}
			for _, cl := range sw.Body.List {
				cc := cl.(*ast.CaseClause)
				for _, e := range cc.List {
					if selName(e) == "gen.MetaStateRunning" && len(cc.Body) == 0 {
						a = true
					}
				}
			}
			return true
		})
	}
	// (b) the branch of handle() taken when CAS running→sleep fails
	hd := funcDecl(f, "meta", "handle")
	if hd == nil {
		return "", fmt.Errorf("meta.handle not found")
	}
	b, found := false, false
	ast.Inspect(hd.Body, func(x ast.Node) bool {
		is, ok := x.(*ast.IfStmt)
		if !ok {
			return true
		}
		t := exprText(is.Cond)
		if strings.Contains(t, "CompareAndSwapInt32") && strings.Contains(t, "MetaStateRunning), int32(gen.MetaStateSleep)") {
			found = true
			b = terminates(is.Body)
		}
		return true
	})
	if !found {
		return "", fmt.Errorf("meta.handle: the CAS running→sleep was not found")
	}
	if a != b {
		return "", fmt.Errorf("node/meta.go: the hand-off of the termination is half there (start leaves it to the handler: %v, the handler takes it: %v)", a, b)
	}
	return fmt.Sprintf("namespace ErgoVerif.Gen.Meta\n/-- when Start is over while a mailbox handler is inside a callback, the start goroutine leaves the termination to the handler goroutine, which runs it when its CAS running→sleep fails -/\ndef startHandsOff : Bool := %s\nend ErgoVerif.Gen.Meta\n", leanBool(a && b)), nil
}

import ErgoVerif.Lemmas.Handshake
namespace ErgoVerif.Handshake
open ErgoVerif.Generated

/-- knowledge after hearing more atoms -/
def learn (K : Atom → Prop) (l : List Atom) : Atom → Prop := fun t => K t ∨ t ∈ l

/-- what the acceptor requires for the main handshake to complete -/
theorem accept_main_ok (cfg : Cfg) (s id : Atom) (saltI digestI : Field) (rest : List Msg)
    (h : isOk (accept cfg s id (.hello saltI digestI :: rest)).res = true) :
    digestI = [H (saltI ++ [cfg.cookie])] ∧
    ∃ info dg rest2, rest = .intro info dg :: rest2 ∧ dg = [H [s, cfg.cookie]] ∧ info.name ≠ cfg.info.name := by
  by_cases hd : digestI = [H (saltI ++ [cfg.cookie])]
  · refine ⟨hd, ?_⟩
    subst hd
    cases rest with
    | nil => simp [accept, isOk] at h
    | cons m rest2 =>
      cases m with
      | intro info dg =>
        by_cases hname : info.name = cfg.info.name
        · simp [accept, isOk, hname] at h
        · by_cases hdg : dg = [H [s, cfg.cookie]]
          · exact ⟨info, dg, rest2, rfl, hdg, hname⟩
          · simp [accept, isOk, hname, hdg] at h
      | hello _ _ => simp [accept, isOk] at h
      | join _ _ _ _ => simp [accept, isOk] at h
      | accept _ _ _ => simp [accept, isOk] at h
      | other => simp [accept, isOk] at h
  · simp [accept, isOk, hd] at h

theorem accept_first_sent (cfg : Cfg) (s id : Atom) (saltI : Field) :
    (accept cfg s id [.hello saltI [H (saltI ++ [cfg.cookie])]]).sent =
      [.hello [s] [H [s, H (saltI ++ [cfg.cookie]), cfg.cookie]]] := by
  simp [accept]

theorem acceptor_not_fooled (cfg : Cfg) (c : Nat) (hcfg : cfg.cookie = .cookie c)
    (K : Atom → Prop) (adv : Nat → Prop) (s : Nat) (id : Atom)
    (hk : ¬ K (.cookie c)) (hfresh : ∀ t, K t → t.occurs s = false)
    (saltI digestI : Field) (rest : List Msg)
    (hder : ∀ info dg, rest.head? = some (.intro info dg) →
      DerivF (learn K ((accept cfg (.nonce s) id [.hello saltI digestI]).sent.flatMap Msg.atoms)) adv dg) :
    isOk (accept cfg (.nonce s) id (.hello saltI digestI :: rest)).res = false := by
  cases hok : isOk (accept cfg (.nonce s) id (.hello saltI digestI :: rest)).res with
  | false => rfl
  | true =>
    exfalso
    obtain ⟨hd, info, dg, rest2, rfl, hdg, _⟩ := accept_main_ok _ _ _ _ _ _ hok
    subst hd hdg
    have h1 := hder info _ rfl (H [Atom.nonce s, cfg.cookie]) (by simp)
    rw [accept_first_sent, hcfg] at h1
    simp only [List.flatMap_cons, Msg.atoms, List.flatMap_nil, List.append_nil, List.cons_append,
      List.nil_append] at h1
    have hk' : ¬ learn K [Atom.nonce s, H [Atom.nonce s, H (saltI ++ [Atom.cookie c]), Atom.cookie c]] (.cookie c) := by
      intro h; rcases h with h | h
      · exact hk h
      · simp at h
    have h2 : Derivable _ adv (H ([Atom.nonce s] ++ [Atom.cookie c])) := h1
    rcases hash_cookie_known hk' h2 with h | h
    · have := hfresh _ h; simp at this
    · simp at h

/-- what the initiator requires -/
theorem start_ok (cfg : Cfg) (s : Atom) (inbox : List Msg)
    (h : isOk (start cfg s inbox).res = true) :
    ∃ salt2 d2 rest, inbox = .hello salt2 d2 :: rest ∧ d2 = [H (salt2 ++ [H [s, cfg.cookie], cfg.cookie])] := by
  cases inbox with
  | nil => simp [start, isOk] at h
  | cons m rest =>
    cases m with
    | hello salt2 d2 =>
      by_cases hd : d2 = [H (salt2 ++ [H [s, cfg.cookie], cfg.cookie])]
      · exact ⟨salt2, d2, rest, rfl, hd⟩
      · simp [start, isOk, hd] at h
    | intro _ _ => simp [start, isOk] at h
    | join _ _ _ _ => simp [start, isOk] at h
    | accept _ _ _ => simp [start, isOk] at h
    | other => simp [start, isOk] at h

theorem initiator_not_fooled (cfg : Cfg) (c : Nat) (hcfg : cfg.cookie = .cookie c)
    (K : Atom → Prop) (adv : Nat → Prop) (s : Nat)
    (hk : ¬ K (.cookie c)) (hfresh : ∀ t, K t → t.occurs s = false)
    (inbox : List Msg)
    (hder : ∀ salt2 d2, inbox.head? = some (.hello salt2 d2) →
      DerivF (learn K ((start cfg (.nonce s) []).sent.flatMap Msg.atoms)) adv d2) :
    isOk (start cfg (.nonce s) inbox).res = false := by
  cases hok : isOk (start cfg (.nonce s) inbox).res with
  | false => rfl
  | true =>
    exfalso
    obtain ⟨salt2, d2, rest, rfl, hd⟩ := start_ok _ _ _ hok
    subst hd
    have h1 := hder salt2 _ rfl _ (List.mem_singleton.mpr rfl)
    simp only [start, start_hello_digest, hcfg, List.flatMap_cons, Msg.atoms, List.flatMap_nil, List.append_nil,
      List.cons_append, List.nil_append] at h1
    have hk' : ¬ learn K [Atom.nonce s, H [Atom.nonce s, Atom.cookie c]] (.cookie c) := by
      intro h; rcases h with h | h
      · exact hk h
      · simp at h
    have h2 : Derivable (learn K [Atom.nonce s, H [Atom.nonce s, Atom.cookie c]]) adv
        (H ((salt2 ++ [H [Atom.nonce s, Atom.cookie c]]) ++ [Atom.cookie c])) := by
      simpa using h1
    rcases hash_cookie_known hk' h2 with h | h
    · have := hfresh _ h; simp at this
    · simp only [List.mem_cons, H_ne_nonce, H_inj, List.not_mem_nil, or_false, false_or] at h
      have := congrArg List.length h
      simp at this
      subst this
      simp at h

end ErgoVerif.Handshake

package main

// Generated/Guard.lean — the incarnation guard of every exported method of *connection
// (net/proto/connection.go): which parameter addresses an identifier that carries a creation stamp
// (gen.PID / gen.Alias named `to` or `target`), whether the method starts with
//     if <param>.Creation != <c.peer_creation | c.core.Creation()> { return …gen.ErrProcessIncarnation }
// and at which statement index that guard stands (0 = before anything else, in particular before any
// buffer is taken or any byte is written).

import (
	"fmt"
	"go/ast"
	"go/parser"
	"go/token"
	"path/filepath"
	"strings"
)

func init() {
	generators = append(generators, generator{name: "Guard", run: genGuard, fallback: guardFallback})
}

const guardHeader = `namespace ErgoVerif.Gen.Guard

/-- one exported method of *connection -/
structure Row where
  method : String
  /-- name of the parameter that addresses an identifier with a creation stamp ("" = none) -/
  param : String
  /-- "PID" | "Alias" | "" -/
  ptype : String
  /-- true for the Terminate* frames: the identifier belongs to the SENDING node -/
  localSubject : Bool
  /-- 0 = no guard, 1 = compared with c.peer_creation, 2 = compared with c.core.Creation() -/
  guard : Nat
  /-- statement index of the guard in the method body -/
  guardIndex : Nat
deriving Repr, DecidableEq

`

const guardFallback = guardHeader + `def table : List Row := []
def extracted : Bool := false
end ErgoVerif.Gen.Guard
`

func typeText(e ast.Expr) string {
	switch x := e.(type) {
	case *ast.Ident:
		return x.Name
	case *ast.SelectorExpr:
		return exprText(x.X) + "." + x.Sel.Name
	case *ast.StarExpr:
		return "*" + typeText(x.X)
	case *ast.ArrayType:
		return "[]" + typeText(x.Elt)
	case *ast.Ellipsis:
		return "..." + typeText(x.Elt)
	}
	return "?"
}

func genGuard() (string, error) {
	fset := token.NewFileSet()
	f, err := parser.ParseFile(fset, filepath.Join(repo, "net/proto/connection.go"), nil, 0)
	if err != nil {
		return "", err
	}
	var rows []string
	nGuarded := 0
	for _, d := range f.Decls {
		fd, ok := d.(*ast.FuncDecl)
		if !ok || !isConnMethod(fd) || fd.Body == nil || !fd.Name.IsExported() {
			continue
		}
		param, ptype := "", ""
		for _, fl := range fd.Type.Params.List {
			tt := typeText(fl.Type)
			for _, nm := range fl.Names {
				if (nm.Name == "to" || nm.Name == "target") && (tt == "gen.PID" || tt == "gen.Alias") {
					param, ptype = nm.Name, strings.TrimPrefix(tt, "gen.")
				}
			}
		}
		guard, gidx := 0, 0
		for i, st := range fd.Body.List {
			is, ok := st.(*ast.IfStmt)
			if !ok || is.Init != nil {
				continue
			}
			be, ok := is.Cond.(*ast.BinaryExpr)
			if !ok || be.Op != token.NEQ {
				continue
			}
			l, r := exprText(be.X), exprText(be.Y)
			if !strings.HasSuffix(l, ".Creation") {
				continue
			}
			// the body must return ErrProcessIncarnation
			ret := false
			for _, bs := range is.Body.List {
				if rs, ok := bs.(*ast.ReturnStmt); ok {
					for _, res := range rs.Results {
						if exprText(res) == "gen.ErrProcessIncarnation" {
							ret = true
						}
					}
				}
			}
			if !ret {
				continue
			}
			if strings.TrimSuffix(l, ".Creation") != param {
				return "", fmt.Errorf("%s: guard on %s but the addressed parameter is %q", fd.Name.Name, l, param)
			}
			switch r {
			case "c.peer_creation":
				guard = 1
			case "c.core.Creation()":
				guard = 2
			default:
				return "", fmt.Errorf("%s: guard compares with %s", fd.Name.Name, r)
			}
			gidx = i
			break
		}
		if guard > 0 {
			nGuarded++
		}
		local := strings.HasPrefix(fd.Name.Name, "SendTerminate")
		rows = append(rows, fmt.Sprintf("  ⟨%q, %q, %q, %v, %d, %d⟩", fd.Name.Name, param, ptype, local, guard, gidx))
	}
	if nGuarded == 0 {
		return "", fmt.Errorf("no incarnation guard found in connection.go")
	}
	var sb strings.Builder
	sb.WriteString(guardHeader)
	sb.WriteString("def table : List Row := [\n" + strings.Join(rows, ",\n") + "\n]\n\ndef extracted : Bool := true\n\nend ErgoVerif.Gen.Guard\n")
	facts.Values["guard.methods"] = len(rows)
	facts.Values["guard.guarded"] = nGuarded
	return sb.String(), nil
}

package main

import (
	"bytes"
	"encoding/binary"
	"fmt"
	"io"
	"net"
	"reflect"
	"strings"
	"time"

	"ergo.services/ergo/gen"
	"ergo.services/ergo/net/edf"
	"ergo.services/ergo/net/handshake"
)

// C16, handshake part: the real readMessage (verif export) against Model.HsReader on a scripted
// connection (the exact list of Read results), mostly mutations of valid handshake messages:
// truncation at every byte, inflated / deflated / boundary length fields, wrong magic / version,
// every segmentation boundary, initial chunks carrying a partial / whole / more than one message.
// Compared: outcome class, the payload handed to edf.Decode (through its decoded result), the
// number of Read calls. Independent oracles: no panic, returns after at most len(script)+1 reads,
// buffer growth bounded (bytes requested from the connection), and through the public API
// (Accept over an in-memory pipe) a hostile peer gets an error within the read deadline.

func init() { c16parts = append(c16parts, runC16Handshake) }

// scriptConn: net.Conn whose Read returns the scripted segments, then io.EOF.
type scriptConn struct {
	segs  [][]byte
	reads int
	got   int // bytes delivered
	wrote bytes.Buffer
}

func (s *scriptConn) Read(p []byte) (int, error) {
	s.reads++
	if len(s.segs) == 0 {
		return 0, io.EOF
	}
	n := copy(p, s.segs[0])
	if n < len(s.segs[0]) {
		s.segs[0] = s.segs[0][n:]
	} else {
		s.segs = s.segs[1:]
	}
	s.got += n
	return n, nil
}
func (s *scriptConn) Write(p []byte) (int, error)      { return s.wrote.Write(p) }
func (s *scriptConn) Close() error                     { return nil }
func (s *scriptConn) LocalAddr() net.Addr              { return &net.TCPAddr{IP: net.IPv4(127, 0, 0, 1), Port: 1} }
func (s *scriptConn) RemoteAddr() net.Addr             { return &net.TCPAddr{IP: net.IPv4(127, 0, 0, 1), Port: 2} }
func (s *scriptConn) SetDeadline(time.Time) error      { return nil }
func (s *scriptConn) SetReadDeadline(time.Time) error  { return nil }
func (s *scriptConn) SetWriteDeadline(time.Time) error { return nil }

func hsFrame(msg any) []byte {
	sc := &scriptConn{}
	if err := handshake.VerifWriteMessage(sc, msg); err != nil {
		panic(err)
	}
	return append([]byte(nil), sc.wrote.Bytes()...)
}

var hsValidOrig []any

func hsValidMessages(rng *Rng) [][]byte {
	rs := func(n int) string {
		const al = "abcdefghijklmnopqrstuvwxyz0123456789"
		b := make([]byte, n)
		for i := range b {
			b[i] = al[rng.Intn(len(al))]
		}
		return string(b)
	}
	msgs := []any{
		handshake.MessageHello{Salt: rs(64), Digest: rs(64)},
		handshake.MessageHello{Salt: rs(64), Digest: rs(64), DigestCert: rs(64)},
		handshake.MessageJoin{Node: "a@b", ConnectionID: rs(32), Salt: rs(64), Digest: rs(64)},
		handshake.MessageAccept{ID: rs(32), PoolSize: 3, PoolDSN: []string{"127.0.0.1:1234"}},
		handshake.MessageAccept{},
		handshake.MessageIntroduce{Node: "n@h", Version: gen.Version{Name: "x", Release: "1"}, Flags: gen.DefaultNetworkFlags,
			Creation: 12345, MaxMessageSize: 1 << 20, AtomCache: map[uint16]gen.Atom{300: "abc"}, Digest: rs(64)},
		handshake.MessageHello{Salt: rs(3000), Digest: rs(5000)}, // spans several read buffers
	}
	hsValidOrig = msgs
	var out [][]byte
	for _, m := range msgs {
		out = append(out, hsFrame(m))
	}
	return out
}

func cutSegments(rng *Rng, b []byte, mode int) [][]byte {
	var segs [][]byte
	for len(b) > 0 {
		var k int
		switch mode {
		case 0:
			k = len(b)
		case 1:
			k = 1
		case 2:
			k = 1 + rng.Intn(8)
		case 3:
			k = 4095 + rng.Intn(3) // around the read buffer
		default:
			k = 1 + rng.Intn(5000)
		}
		if k > len(b) {
			k = len(b)
		}
		if k > 4096 {
			k = 4096 // one Read never returns more than the buffer
		}
		segs = append(segs, b[:k])
		b = b[k:]
	}
	return segs
}

type hsReadCase struct {
	Chunk string   `json:"chunk"`
	Segs  []string `json:"reads"`
	What  string   `json:"what"`
}

func runC16Handshake(c *Ctx) {
	r := c.R
	if r.Rule != "" {
		r.Rule += "; "
	}
	r.Rule += "handshake reader: (initial chunk, scripted Read results) from mutations of valid handshake messages -> class, decoded payload, number of reads vs Model.HsReader; " +
		"non-trivial = input with a valid magic+version header prefix (length-field logic reached)"
	valid := hsValidMessages(c.Rng)
	type rec struct {
		cs    hsReadCase
		line  string
		impl  string
		chunk []byte
		segs  [][]byte
		orig  any // set when the input is an intact frame of this message (possibly followed by more bytes)
	}
	var recs []rec
	add := func(what string, chunk []byte, segs0 [][]byte) {
		// one Read returns at most the 4096-byte buffer: longer scripted segments arrive in pieces
		var segs [][]byte
		for _, s := range segs0 {
			for len(s) > 4096 {
				segs = append(segs, s[:4096])
				s = s[4096:]
			}
			segs = append(segs, s)
		}
		hs := make([]string, len(segs))
		for i, s := range segs {
			hs[i] = hexs(s)
		}
		segl := "-"
		if len(segs) > 0 {
			segl = strings.Join(hs, ",")
		}
		ch := "-"
		if len(chunk) > 0 {
			ch = hexs(chunk)
		}
		recs = append(recs, rec{cs: hsReadCase{ch, hs, what}, line: "read " + ch + " " + segl, chunk: chunk, segs: segs})
	}
	setLen := func(m []byte, l uint32) []byte {
		o := append([]byte(nil), m...)
		binary.BigEndian.PutUint32(o[2:6], l)
		return o
	}
	// --- structured sweep ---------------------------------------------------------------
	origs := append([]any(nil), hsValidOrig...)
	for vi, m := range valid {
		intactFrom := len(recs)
		add(fmt.Sprintf("valid%d whole", vi), nil, [][]byte{m}[:1])
		if len(m) <= 4096 {
			add(fmt.Sprintf("valid%d as initial chunk", vi), m, nil)
		}
		for mode := 0; mode < 5; mode++ {
			add(fmt.Sprintf("valid%d whole, segmentation %d", vi, mode), nil, cutSegments(c.Rng, m, mode))
		}
		for i := intactFrom; i < len(recs); i++ {
			recs[i].orig = origs[vi]
		}
		// truncation at every byte (short messages) / at sampled bytes (long ones)
		step := 1
		if len(m) > 400 {
			step = 97
		}
		for cut := 0; cut < len(m); cut += step {
			add(fmt.Sprintf("valid%d truncated at %d", vi, cut), nil, cutSegments(c.Rng, m[:cut], c.Rng.Intn(5)))
		}
		// split between chunk and connection at every header offset and a few more
		for cut := 0; cut <= 8 && cut <= len(m); cut++ {
			add(fmt.Sprintf("valid%d chunk/conn split at %d", vi, cut), m[:cut], cutSegments(c.Rng, m[cut:], c.Rng.Intn(5)))
		}
		// message followed by the beginning of the next one (tail)
		for _, extra := range []int{1, 5, 6, 7, 100} {
			nx := valid[(vi+1)%len(valid)]
			if extra > len(nx) {
				extra = len(nx)
			}
			add(fmt.Sprintf("valid%d + %d bytes of the next", vi, extra), nil, cutSegments(c.Rng, append(append([]byte(nil), m...), nx[:extra]...), c.Rng.Intn(5)))
		}
		// length field around its boundaries
		l := uint32(len(m) - 6)
		for _, nl := range []uint32{0, 1, l - 1, l + 1, l + 4096, 65534, 65535, 65536, 65537, 1 << 24, 0x7fffffff, 0x80000000, 0xffffffff} {
			add(fmt.Sprintf("valid%d length field %d (true %d)", vi, nl, l), nil, cutSegments(c.Rng, setLen(m, nl), c.Rng.Intn(5)))
		}
		// wrong magic / version
		for _, off := range []int{0, 1} {
			for _, d := range []byte{1, 0xff, 0x80} {
				o := append([]byte(nil), m...)
				o[off] += d
				add(fmt.Sprintf("valid%d byte %d changed", vi, off), nil, cutSegments(c.Rng, o, c.Rng.Intn(5)))
			}
		}
	}
	// a maximal message: exactly 65535 payload bytes, and one more
	big := make([]byte, 6+65536)
	big[0], big[1] = 87, 1
	for i := 6; i < len(big); i++ {
		big[i] = byte(c.Rng.Intn(256))
	}
	add("65535 payload bytes", nil, cutSegments(c.Rng, setLen(big[:6+65535], 65535), 3))
	add("65536 payload bytes", nil, cutSegments(c.Rng, setLen(big, 65536), 4))
	add("65535 announced, 10 sent", nil, cutSegments(c.Rng, setLen(big[:16], 65535), 0))
	add("empty", nil, nil)
	// a peer that announces a huge message and keeps sending: the reader must stop at the cap
	flood := make([]byte, 6+200000)
	flood[0], flood[1] = 87, 1
	add("16 MiB announced, 200 KB sent", nil, cutSegments(c.Rng, setLen(flood, 1<<24), 3))
	add("65535 announced, 200 KB sent", nil, cutSegments(c.Rng, setLen(flood, 65535), 4))
	// --- random stream --------------------------------------------------------------------
	n := c.N(1500, 40000)
	for i := 0; i < n; i++ {
		m := append([]byte(nil), valid[c.Rng.Intn(len(valid)-1)]...)
		what := "random"
		switch c.Rng.Intn(7) {
		case 0: // garbage
			m = make([]byte, c.Rng.Intn(40))
			for j := range m {
				m[j] = byte(c.Rng.Intn(256))
			}
			what = "garbage"
		case 1: // garbage with a valid header prefix
			g := make([]byte, 6+c.Rng.Intn(60))
			for j := range g {
				g[j] = byte(c.Rng.Intn(256))
			}
			g[0], g[1] = 87, 1
			if c.Rng.Bool() {
				g[2], g[3] = 0, 0
			}
			m = g
			what = "header+garbage"
		case 2: // flip some bytes
			for k := 0; k < 1+c.Rng.Intn(3); k++ {
				m[c.Rng.Intn(len(m))] ^= byte(1 << uint(c.Rng.Intn(8)))
			}
			what = "bitflips"
		case 3: // change the length field by a small amount
			l := int64(binary.BigEndian.Uint32(m[2:6])) + int64(c.Rng.Intn(9)) - 4
			if l < 0 {
				l = 0
			}
			m = setLen(m, uint32(l))
			what = "length±"
		case 4: // truncate
			m = m[:c.Rng.Intn(len(m)+1)]
			what = "truncated"
		case 5: // two messages back to back
			m = append(m, valid[c.Rng.Intn(len(valid)-1)]...)
			what = "two messages"
		}
		cut := 0
		if c.Rng.Chance(1, 3) && len(m) > 0 {
			cut = c.Rng.Intn(len(m) + 1)
		}
		add(what, m[:cut], cutSegments(c.Rng, m[cut:], c.Rng.Intn(5)))
	}
	// --- run the implementation ---------------------------------------------------------------
	lines := make([]string, len(recs))
	for i := range recs {
		rc := &recs[i]
		lines[i] = rc.line
		total := len(rc.chunk)
		for _, s := range rc.segs {
			total += len(s)
		}
		sc := &scriptConn{segs: append([][]byte(nil), rc.segs...)}
		var v any
		var tail []byte
		var err error
		panicked := ""
		doneCh := make(chan struct{})
		go func() {
			defer close(doneCh)
			defer func() {
				if p := recover(); p != nil {
					panicked = fmt.Sprint(p)
				}
			}()
			v, tail, err = handshake.VerifReadMessage(sc, 0, append([]byte(nil), rc.chunk...))
		}()
		select {
		case <-doneCh:
		case <-time.After(10 * time.Second):
			// the scripted connection never blocks: a reader that has not returned is spinning or waiting for nothing
			r.Violation("C16/handshake-reader-hang", fmt.Sprintf("readMessage did not return within 10 s on a scripted connection (%d reads so far, script of %d segments): the accept loop of a node would be stuck on this peer", sc.reads, len(rc.segs)), rc.cs)
			return
		}
		if panicked != "" {
			r.Violation("C16/handshake-reader-panic", "readMessage panicked: "+panicked, rc.cs)
			rc.impl = "panic"
			continue
		}
		if sc.reads > len(rc.segs)+1 {
			r.Violation("C16/handshake-reader-reads", fmt.Sprintf("%d reads for a script of %d segments", sc.reads, len(rc.segs)), rc.cs)
		}
		// bounded buffering: the reader must stop asking for bytes once it holds a complete message or
		// has rejected the header: never more than cap + one buffer beyond what a message can be
		if sc.got+len(rc.chunk) > 6+65535+4096 && len(rc.chunk) <= 6+65535 {
			r.Violation("C16/handshake-reader-unbounded", fmt.Sprintf("reader consumed %d bytes", sc.got+len(rc.chunk)), rc.cs)
		}
		cls := ""
		switch {
		case err == io.EOF:
			cls = "errread"
		case err != nil && err.Error() == "malformed handshake packet":
			cls = "errmagic"
		case err != nil && err.Error() == "mismatch handshake version":
			cls = "errversion"
		case err != nil && err.Error() == "too long handshake message":
			cls = "errtoolong"
		default:
			cls = "ok"
		}
		r.Count("hsreader." + strings.SplitN(rc.cs.What, " ", 2)[0] + "." + cls)
		rc.impl = cls
		nontriv := false
		all := append(append([]byte(nil), rc.chunk...), bytes.Join(rc.segs, nil)...)
		if len(all) >= 2 && all[0] == 87 && all[1] == 1 {
			nontriv = true
		}
		r.Case("hsr:"+rc.line, nontriv)
		if rc.orig != nil && (cls != "ok" || err != nil || !reflect.DeepEqual(v, rc.orig)) {
			// writer/reader round trip: an intact frame written by writeMessage must be read back as the same message
			r.Violation("C16/handshake-frame-roundtrip", fmt.Sprintf("an intact %T frame was read back as (%T, err=%v)", rc.orig, v, err), rc.cs)
		}
		if cls == "ok" {
			// stash the decoded result for the comparison with the model's payload
			rc.impl = fmt.Sprintf("ok %d", sc.reads)
			recs[i].cs.What += fmt.Sprintf(" |decoded %T tail=%d err=%v", v, len(tail), err)
			recsDecoded[i] = decoded{v, tail, err}
		} else {
			rc.impl = fmt.Sprintf("%s %d", cls, sc.reads)
		}
	}
	out, err := ModelParallel("hsreader", lines, 4)
	if err != nil {
		r.Disagree("c16-hsreader-model", err.Error(), nil)
		return
	}
	for i, o := range out {
		rc := recs[i]
		if rc.impl == "panic" {
			continue
		}
		f := strings.Fields(o)
		if len(f) < 3 {
			r.Disagree("c16-hsreader", "model output "+o, rc.cs)
			return
		}
		mcls, mreads := f[0], f[len(f)-1]
		if mcls == "panic" {
			r.Disagree("c16-hsreader", "model predicts a panic", rc.cs)
			return
		}
		if fmt.Sprintf("%s %s", mcls, mreads) != rc.impl {
			r.Disagree("c16-hsreader", fmt.Sprintf("model %q (class, reads) vs implementation %q", mcls+" "+mreads, rc.impl), rc.cs)
			return
		}
		if mcls == "ok" {
			// the payload the model hands to the decoder must decode to what the implementation returned
			var payload []byte
			if f[1] != "-" {
				payload = unhex(f[1])
			}
			d := recsDecoded[i]
			var v2 any
			var t2 []byte
			var e2 error
			func() {
				defer func() {
					if p := recover(); p != nil {
						e2 = fmt.Errorf("panic: %v", p)
					}
				}()
				v2, t2, e2 = edf.Decode(payload, edf.Options{})
			}()
			if !reflect.DeepEqual(d.v, v2) || !bytes.Equal(d.tail, t2) || fmt.Sprint(d.err) != fmt.Sprint(e2) {
				r.Disagree("c16-hsreader-payload", fmt.Sprintf("decoding the model's payload gives (%T, tail %d, %v), the implementation returned (%T, tail %d, %v)",
					v2, len(t2), e2, d.v, len(d.tail), d.err), rc.cs)
				return
			}
			r.Count("hsreader.payload-compared")
		}
		delete(recsDecoded, i)
	}
	if len(recs) > 0 {
		r.Sample(map[string]interface{}{"part": "hsreader", "case": recs[len(recs)/2].cs})
	}
	// the writer: the bytes writeMessage produced for the valid messages vs Model.HsReader.frame of their payload
	var flines []string
	for _, m := range valid {
		flines = append(flines, "frame "+hexs(m[6:]))
	}
	if fout, err := Model("hsreader", flines); err != nil {
		r.Disagree("c16-hsframe-model", err.Error(), nil)
	} else {
		for i, m := range valid {
			r.Case("hsframe:"+flines[i][:min2(len(flines[i]), 80)], true)
			if fout[i] != hexs(m) {
				r.Disagree("c16-hsframe", fmt.Sprintf("writeMessage produced %s…, the model's frame is %s…", hexs(m[:8]), fout[i][:min2(len(fout[i]), 16)]), nil)
				break
			}
		}
	}
	hsPublicAPIHostile(c)
	hsSlowTrickle(c)
}

func min2(a, b int) int {
	if a < b {
		return a
	}
	return b
}

// hsSlowTrickle: the listed finding C16/handshake-trickle-holds-acceptor, replayed on every run. A client that
// sends a valid header announcing a long message and then one byte shortly before each read deadline keeps
// readMessage (1 s deadline, re-armed per Read) busy; on a live node the accept loop is serial, so nobody else can
// connect to that acceptor meanwhile. Timing is generous: the verdict is "still busy after more than three
// timeouts", which cannot be caused by a slow machine (a slow machine makes the deadline fire, i.e. hides the finding).
func hsSlowTrickle(c *Ctx) {
	r := c.R
	reg := &memReg{routes: map[gen.Atom][]gen.Route{}}
	y, yport, err := startNetNode(reg, nodeSpec{cookie: "trickle"})
	if err != nil {
		r.Count("hsreader.trickle.inconclusive")
		return
	}
	defer y.StopForce()
	x, _, err := startNetNode(reg, nodeSpec{cookie: "trickle"})
	if err != nil {
		r.Count("hsreader.trickle.inconclusive")
		return
	}
	defer x.StopForce()
	conn, err := net.Dial("tcp4", fmt.Sprintf("127.0.0.1:%d", yport))
	if err != nil {
		r.Count("hsreader.trickle.inconclusive")
		return
	}
	defer conn.Close()
	hdr := []byte{87, 1, 0, 0, 0xea, 0x60} // announces 60000 bytes
	start := time.Now()
	stop := make(chan struct{})
	closedEarly := make(chan struct{})
	go func() {
		conn.Write(hdr)
		for i := 0; ; i++ {
			select {
			case <-stop:
				return
			case <-time.After(400 * time.Millisecond):
			}
			if _, err := conn.Write([]byte{byte(i)}); err != nil {
				close(closedEarly)
				return
			}
		}
	}()
	// meanwhile an honest node tries to connect to the same acceptor
	time.Sleep(300 * time.Millisecond)
	yInfo, _ := y.Network().Info()
	route := gen.NetworkRoute{Route: gen.Route{Host: "localhost", Port: yport, HandshakeVersion: yInfo.HandshakeVersion, ProtoVersion: yInfo.ProtoVersion}}
	_, errDuring := x.Network().GetNodeWithRoute(y.Name(), route)
	// is the trickler still being served after more than three read timeouts?
	held := false
	select {
	case <-closedEarly:
	case <-time.After(time.Until(start.Add(3500 * time.Millisecond))):
		one := []byte{0}
		if _, err := conn.Write(one); err == nil {
			conn.SetReadDeadline(time.Now().Add(50 * time.Millisecond))
			_, rerr := conn.Read(one)
			ne, isNet := rerr.(net.Error)
			held = isNet && ne.Timeout() // not closed by the node
		}
	}
	heldFor := time.Since(start)
	close(stop)
	conn.Close()
	// once the trickler is gone the honest node gets through
	var errAfter error
	for i := 0; i < 5; i++ {
		var rn gen.RemoteNode
		rn, errAfter = x.Network().GetNodeWithRoute(y.Name(), route)
		if errAfter == nil {
			rn.Disconnect()
			break
		}
		time.Sleep(300 * time.Millisecond)
	}
	r.Case("hsreader-trickle", true)
	r.Count(fmt.Sprintf("hsreader.trickle.held-%v.honest-blocked-%v.honest-after-%v", held, errDuring != nil, errAfter == nil))
	if held {
		what := fmt.Sprintf("a client sending one byte every 400 ms after a header announcing 60000 bytes was still being served by the acceptor after %.1f s (read timeout 1 s, re-armed per read; bound: 65542 timeouts)", heldFor.Seconds())
		if errDuring != nil && errAfter == nil {
			what += fmt.Sprintf("; meanwhile an honest node could not connect to that acceptor (%v) and connected at once after the client left", errDuring)
		}
		r.Violation("C16/handshake-trickle-holds-acceptor", what, map[string]interface{}{"header": hexs(hdr), "interval_ms": 400})
	}
}

type decoded struct {
	v    any
	tail []byte
	err  error
}

var recsDecoded = map[int]decoded{}

func unhex(s string) []byte {
	b := make([]byte, len(s)/2)
	for i := range b {
		fmt.Sscanf(s[2*i:2*i+2], "%02x", &b[i])
	}
	return b
}

// hsPublicAPIHostile: Accept / Start / Join of the public handshake object on a scripted connection fed
// with hostile bytes: must return an error (never a result, never a panic).
func hsPublicAPIHostile(c *Ctx) {
	r := c.R
	hs := handshake.Create(handshake.Options{})
	nh := &hsNode{name: "victim@localhost", creation: 77}
	opts := gen.HandshakeOptions{Cookie: "secret", Flags: gen.DefaultNetworkFlags}
	valid := hsValidMessages(c.Rng)
	n := c.N(300, 5000)
	for i := 0; i < n; i++ {
		var stream []byte
		k := 1 + c.Rng.Intn(3)
		for j := 0; j < k; j++ {
			m := append([]byte(nil), valid[c.Rng.Intn(len(valid))]...)
			switch c.Rng.Intn(4) {
			case 0:
				m = m[:c.Rng.Intn(len(m)+1)]
			case 1:
				m[c.Rng.Intn(len(m))] ^= byte(1 << uint(c.Rng.Intn(8)))
			case 2:
				binary.BigEndian.PutUint32(m[2:6], uint32(c.Rng.Intn(70000)))
			}
			stream = append(stream, m...)
		}
		which := c.Rng.Intn(3)
		sc := &scriptConn{segs: cutSegments(c.Rng, stream, c.Rng.Intn(5))}
		var err error
		panicked := ""
		func() {
			defer func() {
				if p := recover(); p != nil {
					panicked = fmt.Sprint(p)
				}
			}()
			switch which {
			case 0:
				_, err = hs.Accept(nh, sc, opts)
			case 1:
				_, err = hs.Start(nh, sc, opts)
			default:
				_, err = hs.Join(nh, sc, "someid", opts)
			}
		}()
		name := []string{"Accept", "Start", "Join"}[which]
		r.Case(fmt.Sprintf("hsapi:%s:%x", name, stream), true)
		if panicked != "" {
			r.Violation("C16/handshake-api-panic", name+" panicked on hostile bytes: "+panicked, map[string]interface{}{"fn": name, "stream": hexs(stream)})
			return
		}
		if err == nil {
			r.Violation("C16/handshake-api-accepts-garbage", name+" completed on a mutated stream without the cookie", map[string]interface{}{"fn": name, "stream": hexs(stream)})
			return
		}
		r.Count("hsapi." + name + ".rejected")
	}
}

// hsNode implements gen.NodeHandshake
type hsNode struct {
	name     gen.Atom
	creation int64
}

func (n *hsNode) Name() gen.Atom       { return n.name }
func (n *hsNode) Creation() int64      { return n.creation }
func (n *hsNode) Version() gen.Version { return gen.Version{Name: "verif", Release: "1"} }

import ErgoVerif.Lemmas.LinkOps
import ErgoVerif.Generated.LinkRace
/-!
# C04 — links and monitors: exactly one notification when the target goes away

`Model/TM.lean` mirrors gen/default_target_manager.go (relation set + per-target index);
`Model/LinkOps.lean` the node-level operations that use it and the request-vs-termination race.
-/
namespace ErgoVerif.Props.C04
open ErgoVerif ErgoVerif.TM ErgoVerif.LinkOps

/-- every history of operations keeps the relation set duplicate-free and the per-target index in agreement with it -/
theorem C04_index_invariant (ops : List LinkOps.Op) : Inv (runOps World.init ops).tm :=
  run_inv ops World.init init_inv

/-- **Exactly one notification.** In any state reached by any history, when a target goes away (process terminated,
name / alias / event unregistered): every holder of a link on it gets exactly one exit signal and every holder of a
monitor exactly one down message naming that target; a process without such a relation — never created, or removed
before — gets none; nothing about other targets is sent; and no relation on the target remains. -/
theorem C04_exactly_once (ops : List LinkOps.Op) (t : Target) :
    let w := runOps World.init ops
    let r := goneStep w t
    (∀ c m, (r.2.count ⟨c, if m then .down else .exit, t⟩) = if (⟨c, t, m⟩ : Key) ∈ w.tm.rel then 1 else 0) ∧
    (∀ n ∈ r.2, n.target = t) ∧
    (∀ k ∈ r.1.tm.rel, k.target ≠ t) ∧
    r.1.sent = w.sent ++ r.2 := by
  intro w r
  have hinv : Inv w.tm := C04_index_invariant ops
  obtain ⟨htgt, hmem, hnd, hrel, _, hsent⟩ := goneStep_spec w hinv t
  refine ⟨?_, htgt, ?_, hsent⟩
  · intro c m
    have hk := hmem ⟨c, t, m⟩ rfl
    simp only [notifOf] at hk
    rw [List.Nodup.count hnd]
    by_cases hin : (⟨c, t, m⟩ : Key) ∈ w.tm.rel
    · simp only [hin, if_true]; rw [if_pos (hk.mpr hin)]
    · simp only [hin, if_false]; rw [if_neg (fun h => hin (hk.mp h))]
  · intro k hk
    rw [hrel] at hk
    simp [List.mem_filter] at hk
    exact hk.2

/-- a removed relation is gone: after unlink / demonitor succeeded the relation set no longer contains it, so by
`C04_exactly_once` its former holder is not notified -/
theorem C04_removed (w : World) (h : Inv w.tm) (c : Pid) (t : Target) (m : Bool) :
    (⟨c, t, m⟩ : Key) ∉ (delRel w ⟨c, t, m⟩).1.tm.rel := by
  unfold delRel
  simp only [remove_rel]
  intro hmem
  exact (List.Nodup.mem_erase_iff h.1).mp hmem |>.1 rfl

/-- a request on a target that does not exist fails and creates nothing -/
theorem C04_unknown_target (w : World) (k : Key) (hl : w.live k.target = false) :
    addRel w k = (w, .errUnknown) := by
  simp [addRel, hl]

/-- **Complete release on termination** (used by C06): after `unregisterProcess` of p, which owned the targets
`owned` (name, aliases, events), no relation mentions p as requester nor any of its targets. -/
theorem C04_release (ops : List LinkOps.Op) (p : Pid) (owned : List Target) :
    let w' := (step (runOps World.init ops) (.terminate p owned)).1
    ∀ k ∈ w'.tm.rel, k.consumer ≠ p ∧ k.target ≠ .pid p ∧ k.target ∉ owned := by
  intro w' k hk
  have hinv : Inv (runOps World.init ops).tm := C04_index_invariant ops
  have hinv2 := goneAll_inv (.pid p :: owned) _ hinv
  have hrel := goneAll_rel (.pid p :: owned) _ hinv
  have hcc := (cleanupConsumer_spec hinv2 p).1
  simp only [w', LinkOps.step] at hk
  rw [hcc, hrel] at hk
  simp [List.mem_filter] at hk
  exact hk.2

/-! ### the race between a request and the target's termination -/

open Race in
/-- the full statement: whatever the interleaving of the requester's steps with the terminator's, a request that
reported success has been notified once both are done -/
def C04_race_full (recheck : Bool) : Prop :=
  ∀ ls c, Race.run recheck Race.init ls = some c → c.l = .doneOk → c.t = .done → c.notified = true

open Race in
/-- **The code before the repair of D15** (no re-check): the request checks the table, then adds the relation; the
terminator deletes the table entry, then drains. check · delete · drain · add loses the relation: the request reports
success and is never notified. Kept as a regression statement. -/
theorem C04_race_counterexample : ¬ C04_race_full false := by
  intro h
  have := h [.lStep, .tStep, .tStep, .lStep] ⟨false, true, .doneOk, .done, false⟩ (by decide) rfl rfl
  simp at this

namespace RaceProof
open Race

/-- the inductive invariant of the race with re-check, as a decidable predicate -/
def good (c : Cfg) : Bool :=
  (c.t != .delete || (c.inTable && !c.notified)) &&
  (c.t == .delete || !c.inTable) &&
  (!(c.l == .check || c.l == .add || c.l == .doneErr) || (!c.rel && !c.notified)) &&
  (!(c.l == .recheck || c.l == .doneOk) || (c.rel != c.notified)) &&
  (!(c.t == .done && c.rel) || c.l == .recheck)

def allCfgs : List Cfg :=
  [true, false].flatMap fun a => [true, false].flatMap fun b =>
  [LPc.check, .add, .recheck, .doneOk, .doneErr].flatMap fun l => [TPc.delete, .drain, .done].flatMap fun t =>
  [true, false].map fun n => ⟨a, b, l, t, n⟩

theorem all_mem (c : Cfg) : c ∈ allCfgs := by
  obtain ⟨a, b, l, t, n⟩ := c
  cases a <;> cases b <;> cases l <;> cases t <;> cases n <;> decide

def stepOk (c : Cfg) (l : Lbl) : Bool :=
  !good c || (match Race.step true c l with | some c' => good c' | none => true)

theorem step_good_all : (allCfgs.all fun c => stepOk c .lStep && stepOk c .tStep) = true := by decide

theorem step_good (c c' : Cfg) (l : Lbl) (h : good c = true) (hs : Race.step true c l = some c') : good c' = true := by
  have := List.all_eq_true.mp step_good_all c (all_mem c)
  simp only [Bool.and_eq_true] at this
  cases l
  · have h1 := this.1; simp [stepOk, h, hs] at h1; exact h1
  · have h1 := this.2; simp [stepOk, h, hs] at h1; exact h1

theorem run_good : ∀ (ls : List Lbl) (c c' : Cfg), good c = true → Race.run true c ls = some c' → good c' = true := by
  intro ls
  induction ls with
  | nil => intro c c' h hr; simp [Race.run] at hr; subst hr; exact h
  | cons l ls ih =>
    intro c c' h hr
    simp only [Race.run] at hr
    cases hs : Race.step true c l with
    | none => simp [hs] at hr
    | some c1 => simp only [hs] at hr; exact ih c1 c' (step_good c c1 l h hs) hr

end RaceProof

open Race in
/-- with a re-check after the insert the statement holds for every interleaving -/
theorem C04_race_with_recheck : C04_race_full true := by
  intro ls c hr hl ht
  have hg := RaceProof.run_good ls Race.init c (by decide) hr
  obtain ⟨it, rl, lp, tp, nt⟩ := c
  simp only at hl ht
  subst hl ht
  cases nt
  · revert hg; cases it <;> cases rl <;> decide
  · rfl

/-- **The race, for the code as it is** (`Gen.LinkRace.recheckAfterAdd`, regenerated from the eight local branches of
RouteLink*/RouteMonitor*): a request that overlaps the target's termination either fails or is notified, for every
interleaving of its lookup / insert / re-check with the terminator's table delete / drain. -/
theorem C04_race : C04_race_full Gen.LinkRace.recheckAfterAdd := by
  have h : Gen.LinkRace.recheckAfterAdd = true := by decide
  rw [h]
  exact C04_race_with_recheck

/-- what the extractor saw in the source: every one of the eight local branches looks the target up again after the
insert, and the table delete precedes the drain in unregisterProcess — the shape `Race` models with `recheck := true` -/
theorem C04_code_shape : Gen.LinkRace.recheckAfterAdd = true ∧ Gen.LinkRace.deleteBeforeDrain = true ∧
    Gen.LinkRace.lookups.length = 8 ∧ (∀ e ∈ Gen.LinkRace.lookups, e.2 = 2) := by decide

/-- … and at every site where a target disappears — the four kinds of identifiers in unregisterProcess, UnregisterName,
DeleteAlias, UnregisterEvent — the table entry is removed before the relations on the target are drained (the
terminator of `Race`: `delete`, then `drain`) -/
theorem C04_code_shape_sites : Gen.LinkRace.drainOrder.length = 7 ∧ (∀ e ∈ Gen.LinkRace.drainOrder, e.2 = true) := by
  decide

/-- non-vacuity: a history with two holders of different kinds and an unrelated process -/
example :
    let p (i : Nat) : Pid := ⟨0, i, 1⟩
    let w := runOps World.init [.create (.pid (p 1)), .link (p 2) (.pid (p 1)), .monitor (p 3) (.pid (p 1)),
                               .link (p 4) (.pid (p 1)), .unlink (p 4) (.pid (p 1))]
    (goneStep w (.pid (p 1))).2.length = 2 := by decide

end ErgoVerif.Props.C04

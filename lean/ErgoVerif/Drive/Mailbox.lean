import ErgoVerif.Drive.Util
import ErgoVerif.Model.Mailbox
namespace ErgoVerif.Drive.Mailbox
open ErgoVerif.Drive ErgoVerif.Mailbox

/-- op syntax: `P<sender>.<kind>.<seq>` with kind n|h|m (priority normal/high/max), x (exit signal), d (down
    notification); `K` = one pick. Line: `run <op>,<op>,...`; answer: handled messages `sender.kind.seq,...` -/
def parseOp (s : String) : Option Op :=
  if s = "K" then some .pick else
  match (s.drop 1).toString.splitOn "." with
  | [snd, kind, seq] =>
    match snd.toNat?, seq.toNat? with
    | some sn, some sq =>
      let pq : Option (Nat × Nat) := match kind with
        | "n" => some (0, queueOfPrio 0) | "h" => some (1, queueOfPrio 1) | "m" => some (2, queueOfPrio 2)
        | "x" => some (9, 0)                 -- exit signal: sendExitMessage pushes into Urgent
        | "d" => some (8, queueOfPrio 1)     -- down notification: sent with High priority
        | "g" => some (7, 3)                 -- log message: the Log queue
        | _ => none
      pq.map fun (p, q) => Op.push ⟨sn, p, q, sq⟩
    | _, _ => none
  | _ => none

def showMsg (m : Msg) : String :=
  let k := if m.prio = 0 then "n" else if m.prio = 1 then "h" else if m.prio = 2 then "m" else if m.prio = 9 then "x" else if m.prio = 7 then "g" else "d"
  s!"{m.sender}.{k}.{m.seq}"

def line (s : String) : String :=
  match words s with
  | ["run", ops] =>
    match (ops.splitOn ",").mapM parseOp with
    | some os =>
      let st := runOps [0, 1, 2, 3] St.init os
      if st.handled.isEmpty then "-" else ",".intercalate (st.handled.map showMsg)
    | none => "bad-op"
  | _ => "bad-op"

def main (h : IO.FS.Stream) : IO Unit := loopPure h line

end ErgoVerif.Drive.Mailbox

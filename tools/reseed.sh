#!/bin/bash
# reseed.sh <ids...>: in a vp-run snapshot (cwd = verif snapshot, $VP_RUN_REPO = repo snapshot): apply each stored seed, run the checks named in its meta.json
export GOFLAGS=-mod=mod GOPROXY=off GOSUMDB=off GOTOOLCHAIN=local VERIF_REPO=$VP_RUN_REPO
./setup.sh >/dev/null 2>&1
for id in "$@"; do
  d=seeded/$id
  props=$(python3 -c "
import json,re
m=json.load(open('$d/meta.json'))
ps=re.findall(r'C\d\d', m.get('caught_by',''))
out=[]
for p in ps:
    if p not in out: out.append(p)
if not out: out=[m['property']]
print(' '.join(out[:2]))")
  if ! git -C $VP_RUN_REPO apply $PWD/$d/patch.diff 2>/dev/null; then echo "SEED $id: patch-does-not-apply-to-HEAD"; continue; fi
  if ! (cd $VP_RUN_REPO && go build ./... 2>/dev/null); then echo "SEED $id: build-failed"; git -C $VP_RUN_REPO checkout -q -- .; continue; fi
  caught=""
  for p in $props; do
    ./check $p > /tmp/reseed_$$.log 2>&1; rc=$?
    v=$(grep -c "^VIOLATION" /tmp/reseed_$$.log)
    nf=$(grep "^VIOLATION" /tmp/reseed_$$.log | grep -c "no-failing-input-found")
    if [ $rc -ne 0 ] && [ $v -gt 0 ]; then caught="$caught $p(violations=$v,no-input=$nf)"; break; else caught="$caught $p(rc=$rc,missed)"; fi
  done
  echo "SEED $id:$caught"
  git -C $VP_RUN_REPO checkout -q -- .
  git -C $VP_RUN_REPO clean -fdq 2>/dev/null
  rm -rf replays /tmp/reseed_$$.log
done
echo RESEED-DONE

package main

import (
	"fmt"
	"go/ast"
)

// Generated/Acceptor.lean: where network.accept (node/network.go) gets the gen.HandshakeOptions it passes to
// handshake.Accept: built inside the accept loop, for every incoming connection (true), or once before the loop (false).

func init() {
	generators = append(generators, generator{name: "Acceptor", run: genAcceptor,
		fallback: "namespace ErgoVerif.Gen.Acceptor\ndef optionsReadPerConnection : Bool := false\nend ErgoVerif.Gen.Acceptor\n"})
}

func genAcceptor() (string, error) {
	f, err := parseFile("node/network.go")
	if err != nil {
		return "", err
	}
	fd := funcDecl(f, "network", "accept")
	if fd == nil {
		return "", fmt.Errorf("network.accept not found")
	}
	builds := func(n ast.Node) bool {
		found := false
		ast.Inspect(n, func(x ast.Node) bool {
			switch c := x.(type) {
			case *ast.CompositeLit:
				if selName(c.Type) == "gen.HandshakeOptions" {
					found = true
				}
			case *ast.CallExpr:
				if selName(c.Fun) == "a.handshakeOptions" {
					found = true
				}
			}
			return !found
		})
		return found
	}
	before, inside, loops, accepts := false, false, 0, false
	for _, st := range fd.Body.List {
		if loop, ok := st.(*ast.ForStmt); ok {
			loops++
			inside = inside || builds(loop)
			accepts = accepts || containsCall(loop, "a.handshake.Accept")
			continue
		}
		before = before || builds(st)
	}
	if loops != 1 || !accepts {
		return "", fmt.Errorf("network.accept: expected one accept loop calling a.handshake.Accept at the top level of the function")
	}
	if !before && !inside {
		return "", fmt.Errorf("network.accept: the construction of gen.HandshakeOptions was not found")
	}
	// the options are what the setters wrote only when they are read inside the loop and not cached before it
	return fmt.Sprintf("namespace ErgoVerif.Gen.Acceptor\n/-- network.accept builds the gen.HandshakeOptions for handshake.Accept inside its loop, from the acceptor's fields as they are then -/\ndef optionsReadPerConnection : Bool := %s\nend ErgoVerif.Gen.Acceptor\n", leanBool(inside && !before)), nil
}

import ErgoVerif.Generated.AliveGuard
/-!
# C02 / C19 — "a send that reports an error (terminated process) is never handled", and its converse for the pool

The process models (`Model/Proc`, `Model/Pool`) take a delivery to a process that is not alive — terminated, or killed
while inside a callback (zombie) — as refused with an error and nothing queued. In the code that is an
`if T.isAlive() == false { return ErrProcessTerminated }` before the push into `T`'s mailbox. This theorem is over the
regenerated table of every function of node/core.go and node/process.go that pushes into a process mailbox: the message,
request and forward paths (what `act.Pool` uses to hand a message to a worker) all carry the test for the process
whose mailbox they push into.
(`sendExitMessage` and `sendEventMessage` push without it: they report nothing to a user, and a terminated process
handles nothing.)
-/
namespace ErgoVerif.Props.AliveGuard
open ErgoVerif.Gen.AliveGuard

def deliveryFunctions : List String :=
  ["Forward", "RouteSendPID", "RouteSendProcessID", "RouteSendAlias", "RouteCallPID", "RouteCallProcessID", "RouteCallAlias"]

theorem delivery_checks_alive :
    (deliveryFunctions.all fun f => rows.any fun r => r.fn == f && r.guarded) = true ∧
    (rows.all fun r => r.guarded || r.fn == "sendExitMessage" || r.fn == "sendEventMessage") = true := by
  decide

end ErgoVerif.Props.AliveGuard

import ErgoVerif.Model.Override
import ErgoVerif.Generated.Override
/-!
# C03 — the priority a message is sent with is the one asked for, and an override lasts one operation

The ordering theorems of `Props/C03` are about the priority carried by each message. These say where that priority
comes from for a sequence of operations of one process: a plain Send/Call carries the process's configured priority and
importance whatever happened before — in particular after a `…WithPriority` / `…Important` operation that FAILED.

* `C03_override_one_operation` — for every sequence of operations with any outcomes: the k-th operation is sent with the
                                 configured values, overridden only by its own arguments
* `C03_override_leaks_without_restore` — restoring only on success: a failed CallWithPriority leaves its priority behind
* `C03_code_shape_overrides`  — the four wrappers of the current source put the old value back on every path
-/
namespace ErgoVerif.Props.C03Override
open ErgoVerif.Override

theorem after_restores (p : P) (o : Op) : after true p o = p := by
  cases o <;> simp [after]

theorem trace_eq (p : P) (os : List Op) : trace true p os = os.map (sentWith p) := by
  induction os with
  | nil => rfl
  | cons o os ih => simp [trace, after_restores, ih]

/-- the flag form -/
theorem C03_override_one_operation_full (ra : Bool) (hra : ra = true) (p : P) (os : List Op) (k : Nat) (o : Op)
    (hk : os[k]? = some o) : (trace ra p os)[k]? = some (sentWith p o) := by
  subst hra
  rw [trace_eq]
  simp [hk]

def allRestored : Bool :=
  ["SendWithPriority", "CallWithPriority", "SendImportant", "CallImportant"].all fun m =>
    ErgoVerif.Gen.Override.sites.any fun s => s.method == m && s.restored

theorem C03_code_shape_overrides :
    allRestored = true ∧ ErgoVerif.Gen.Override.sites.all (fun s => s.restored) = true := by decide

/-- for the code as it is: every operation is sent with the configured priority / importance, overridden only by its
    own arguments, whatever the outcomes of the operations before it -/
theorem C03_override_one_operation (p : P) (os : List Op) (k : Nat) (o : Op) (hk : os[k]? = some o) :
    (trace allRestored p os)[k]? = some (sentWith p o) :=
  C03_override_one_operation_full _ C03_code_shape_overrides.1 p os k o hk

/-- restoring only when the inner operation succeeded: after a failed CallWithPriority(2) the next plain send of a
    normal-priority (0) process is sent with priority 2 -/
theorem C03_override_leaks_without_restore :
    trace false ⟨0, false⟩ [.withPriority 2 false, .plain true] = [(2, false), (2, false)] ∧
    trace true ⟨0, false⟩ [.withPriority 2 false, .plain true] = [(2, false), (0, false)] := by decide

end ErgoVerif.Props.C03Override

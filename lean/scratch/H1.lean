import ErgoVerif.Model.Handshake
open ErgoVerif.Handshake ErgoVerif.Generated
def cI : Cfg := { info := ⟨1, 100, 7, 0, 1⟩, cookie := .cookie 1 }
def cA : Cfg := { info := ⟨2, 200, 5, 4096, 1⟩, cookie := .cookie 1 }
def cB : Cfg := { info := ⟨2, 200, 5, 4096, 1⟩, cookie := .cookie 2 }
#eval (honest cI cA (.nonce 11) (.nonce 12) (.nonce 13)).resI
#eval (honest cI cA (.nonce 11) (.nonce 12) (.nonce 13)).resA
#eval (honest cI cA (.nonce 11) (.nonce 12) (.nonce 13)).toA
#eval (honest cI cA (.nonce 11) (.nonce 12) (.nonce 13)).toI
#eval (honest cI cB (.nonce 11) (.nonce 12) (.nonce 13)).resI
#eval (honest cI cB (.nonce 11) (.nonce 12) (.nonce 13)).resA
#eval (honestJoin cI cA (.nonce 11) (.nonce 12) (.nonce 13) [.nonce 13]).resA
#eval (honestJoin cI cA (.nonce 11) (.nonce 12) (.nonce 13) [.nonce 13]).resI
#eval (honestJoin cI cB (.nonce 11) (.nonce 12) (.nonce 13) [.nonce 13]).resI

import ErgoVerif.Lemmas.EdfReenc2
import ErgoVerif.Lemmas.EdfExcl
namespace ErgoVerif.Edf
open ErgoVerif.Generated.Edt

/-- keys pairwise different and hashable -/
def Pairs.Distinct : Pairs → Prop
  | .nil => True
  | .cons k _ ps => ps.hasKey k = false ∧ k.hashable = true ∧ Pairs.Distinct ps

theorem Pairs.hasKey_snoc : (acc : Pairs) → (k v k' : Val) → (acc.snoc k v).hasKey k' = (acc.hasKey k' || decide (k = k'))
  | .nil, k, v, k' => by simp [Pairs.snoc, Pairs.hasKey]
  | .cons a b ps, k, v, k' => by simp [Pairs.snoc, Pairs.hasKey, Pairs.hasKey_snoc ps k v k', Bool.or_assoc]

theorem Pairs.KeysOK_iff : (ps : Pairs) → (acc : Pairs) →
    (Pairs.KeysOK acc ps ↔ ((∀ k, ps.hasKey k = true → acc.hasKey k = false) ∧ Pairs.Distinct ps))
  | .nil, acc => by simp [Pairs.KeysOK, Pairs.Distinct, Pairs.hasKey]
  | .cons k v ps, acc => by
    simp only [Pairs.KeysOK, Pairs.Distinct, Pairs.hasKey, Pairs.KeysOK_iff ps (acc.snoc k v), Pairs.hasKey_snoc]
    constructor
    · rintro ⟨h1, h2, h3, h4⟩
      refine ⟨?_, ?_, h2, h4⟩
      · intro k' hk'
        simp at hk'
        rcases hk' with rfl | hk'
        · exact h1
        · have := h3 k' hk'; simp at this; exact this.1
      · cases hh : ps.hasKey k with
        | false => rfl
        | true => have := h3 k hh; simp at this
    · rintro ⟨h1, h2, h3, h4⟩
      refine ⟨h1 k (by simp), h3, ?_, h4⟩
      intro k' hk'
      simp
      refine ⟨h1 k' (by simp [hk']), ?_⟩
      intro he; subst he; rw [h2] at hk'; cases hk'

theorem Pairs.hasKey_insert : (ps : Pairs) → (k v k' : Val) → (ps.insert k v).hasKey k' = (ps.hasKey k' || decide (k = k'))
  | .nil, k, v, k' => by simp [Pairs.insert, Pairs.hasKey]
  | .cons a b ps, k, v, k' => by
    simp only [Pairs.insert]
    split
    · rename_i h; subst h
      simp only [Pairs.hasKey]
      by_cases hx : a = k' <;> simp [hx]
    · simp [Pairs.hasKey, Pairs.hasKey_insert ps k v k', Bool.or_assoc]

theorem Pairs.insert_distinct : (ps : Pairs) → (k v : Val) → k.hashable = true → Pairs.Distinct ps → Pairs.Distinct (ps.insert k v)
  | .nil, k, v, hk, _ => by simp [Pairs.insert, Pairs.Distinct, Pairs.hasKey, hk]
  | .cons a b ps, k, v, hk, hd => by
    simp only [Pairs.insert]
    split
    · exact hd
    · rename_i hne
      obtain ⟨h1, h2, h3⟩ := hd
      refine ⟨?_, h2, Pairs.insert_distinct ps k v hk h3⟩
      rw [Pairs.hasKey_insert, h1]
      simp
      intro he; exact hne he.symm
end ErgoVerif.Edf

/-
A failed application start, the late termination of a member it killed, and the next start (node/application.go).

  start #1 (fails):  CAS loaded→running · spawn member m, group.Store(m) · the next spawn fails · roll back:
                     (when the code has it, `rm`) group.Delete(m) · state := loaded · Kill(m) — m is busy, so it is
                     unregistered later, by its own goroutine
  m's termination:   application.terminate(m): group.LoadAndDelete(m) — not a member: return — · (mode rule: none,
                     the mode was reset) · if the group is empty: state := loaded (swap), Terminate callback
  start #2:          CAS loaded→running (needs `loaded`) · spawn member n, group.Store(n) · Start callback

Every access to the shared state is one step; start #2 can begin only after the roll-back has stored `loaded`.
-/
namespace ErgoVerif.AppStartRace

inductive S1 | store | fail | remove | setLoaded | kill | done deriving DecidableEq, Repr
inductive S2 | cas | store | callback | done deriving DecidableEq, Repr
inductive T | idle | delete | check | finish | done deriving DecidableEq, Repr   -- idle: m not killed yet

structure Cfg where
  running : Bool     -- application state (false = loaded)
  mIn : Bool         -- m is in the group
  nIn : Bool         -- n is in the group
  wasMember : Bool   -- terminate(m) found m in the group
  started : Bool     -- Start callback of run #2 ran
  termCb : Bool      -- a Terminate callback ran
  s1 : S1
  s2 : S2
  t : T
deriving DecidableEq, Repr

inductive Lbl | a | b | t deriving DecidableEq, Repr     -- a step of start #1, of start #2, of m's termination

/-- start #1 has made its CAS already (state running) and is about to store its first member -/
def init : Cfg := ⟨true, false, false, false, false, false, .store, .cas, .idle⟩

def step (rm : Bool) (c : Cfg) : Lbl → Option Cfg
  | .a => match c.s1 with
    | .store => some { c with mIn := true, s1 := .fail }
    | .fail => some { c with s1 := if rm then .remove else .setLoaded }
    | .remove => some { c with mIn := false, s1 := .setLoaded }
    | .setLoaded => some { c with running := false, s1 := .kill }
    | .kill => some { c with s1 := .done, t := .delete }
    | .done => none
  | .b => match c.s2 with
    | .cas => if c.running then none else some { c with running := true, s2 := .store }   -- ErrApplicationRunning otherwise: retried
    | .store => some { c with nIn := true, s2 := .callback }
    | .callback => some { c with started := true, s2 := .done }
    | .done => none
  | .t => match c.t with
    | .idle => none
    | .delete => some { c with wasMember := c.mIn, mIn := false, t := .check }
    | .check => if !c.wasMember then some { c with t := .done }                 -- not a member: return
                else if c.mIn || c.nIn then some { c with t := .done }          -- group not empty: wait for the last member
                else some { c with t := .finish }
    | .finish =>
      -- old := swap(state, loaded); if old == loaded return; … Terminate callback
      if c.running then some { c with running := false, termCb := true, t := .done } else some { c with t := .done }
    | .done => none

def run (rm : Bool) : Cfg → List Lbl → Option Cfg
  | c, [] => some c
  | c, l :: ls => match step rm c l with
    | none => none
    | some c' => run rm c' ls

end ErgoVerif.AppStartRace

import ErgoVerif.Drive.Util
import ErgoVerif.Model.TM
/-!
K2 line driver for the TargetManager model.

tokens   pid     `<node>.<id>.<creation>`
         target  `P<node>.<id>.<creation>` | `N<node>.<name>` | `A<node>.<id>.<creation>` |
                 `E<node>.<name>` | `O<node>` | `X<n>`
ops      al/rl/hl/am/rm/hm <pid> <target>   cc <pid>   ct <target>   cn <node>   gt <pid>   gc <target>
         nd <node>  (RouteNodeDown fan-out)   reset
answers  ok | exist | unknown | true | false | sorted `;`-separated lists (`-` when empty)
Map-derived lists are printed sorted (Go map iteration order is unspecified).
-/
namespace ErgoVerif.Drive.TM
open ErgoVerif.Drive ErgoVerif.TM

def nats? (s : String) : Option (List Nat) := (s.splitOn ".").mapM (·.toNat?)

def pid? (s : String) : Option Pid :=
  match nats? s with
  | some [n, i, c] => some ⟨n, i, c⟩
  | _ => none

def target? (s : String) : Option Target :=
  match s.toList with
  | [] => none
  | c :: rest =>
    match c, nats? (String.ofList rest) with
    | 'P', some [n, i, cr] => some (.pid ⟨n, i, cr⟩)
    | 'N', some [n, nm] => some (.name n nm)
    | 'A', some [n, i, cr] => some (.alias n i cr)
    | 'E', some [n, nm] => some (.event n nm)
    | 'O', some [n] => some (.node n)
    | 'X', some [x] => some (.other x)
    | _, _ => none

def showPid (p : Pid) : String := s!"{p.node}.{p.id}.{p.creation}"
def showTarget : Target → String
  | .pid p => s!"P{showPid p}"
  | .name n nm => s!"N{n}.{nm}"
  | .alias n i c => s!"A{n}.{i}.{c}"
  | .event n nm => s!"E{n}.{nm}"
  | .node n => s!"O{n}"
  | .other x => s!"X{x}"

def sortStr (l : List String) : List String := l.mergeSort (fun a b => decide (a ≤ b))
def showList (l : List String) : String := if l.isEmpty then "-" else ";".intercalate (sortStr l)

def showErr : Option Err → String
  | none => "ok" | some .exist => "exist" | some .unknown => "unknown"

/-- link part and monitor part of a key list, rendered by `f` -/
def showLM (ks : List Key) (f : Key → String) : String :=
  s!"L={showList ((ks.filter (!·.monitor)).map f)} M={showList ((ks.filter (·.monitor)).map f)}"

def showOut (op : Op) : Out → String
  | .err e => showErr e
  | .bool b => if b then "true" else "false"
  | .pids ps => showList (ps.map showPid)
  | .keys ks => match op with
    | .cleanupConsumer _ | .targetsFor _ => showLM ks (fun k => showTarget k.target)
    | .cleanupTarget _ => showLM ks (fun k => showPid k.consumer)
    | _ => showLM ks (fun k => s!"{showTarget k.target}<{showPid k.consumer}")

def op? : List String → Option Op
  | ["al", c, t] => do some (.addLink (← pid? c) (← target? t))
  | ["rl", c, t] => do some (.removeLink (← pid? c) (← target? t))
  | ["hl", c, t] => do some (.hasLink (← pid? c) (← target? t))
  | ["am", c, t] => do some (.addMonitor (← pid? c) (← target? t))
  | ["rm", c, t] => do some (.removeMonitor (← pid? c) (← target? t))
  | ["hm", c, t] => do some (.hasMonitor (← pid? c) (← target? t))
  | ["cc", c] => do some (.cleanupConsumer (← pid? c))
  | ["ct", t] => do some (.cleanupTarget (← target? t))
  | ["cn", n] => do some (.cleanupNode (← n.toNat?))
  | ["gt", c] => do some (.targetsFor (← pid? c))
  | ["gc", t] => do some (.consumersFor (← target? t))
  | _ => none

def showNotif (x : Notif) : String :=
  s!"{if x.kind = .exit then "exit" else "down"}:{showTarget x.target}>{showPid x.to}"

def line (s : St) (l : String) : St × String :=
  match words l with
  | ["reset"] => (init, "ok")
  | ["nd", n] =>
    match n.toNat? with
    | some n => let r := routeNodeDown s n; (r.1, showList (r.2.map showNotif))
    | none => (s, "bad-op")
  | ws =>
    match op? ws with
    | some op => let r := step s op; (r.1, showOut op r.2)
    | none => (s, "bad-op")

def main (h : IO.FS.Stream) : IO Unit := loopState h line init

end ErgoVerif.Drive.TM

package main

import (
	"fmt"
	"go/ast"
	"strings"
)

// Generated/LinkRace.lean: for the local branch of every RouteLink*/RouteMonitor* (node/core.go): how many
// times the lookup table of the target kind is consulted (1 = check, then add; ≥2 = the target is looked up again
// after the relation was inserted), and whether unregisterProcess deletes the process from the table before it
// drains the relations (node/node.go).

func init() {
	generators = append(generators, generator{name: "LinkRace", run: genLinkRace, fallback: linkRaceFallback})
}

const linkRaceFallback = `namespace ErgoVerif.Gen.LinkRace
def lookups : List (String × Nat) := []
def recheckAfterAdd : Bool := false
def deleteBeforeDrain : Bool := false
def remoteRecheckAfterAdd : Bool := false
def connectionDeletedBeforeNodeDown : Bool := false
def drainOrder : List (String × Bool) := []
end ErgoVerif.Gen.LinkRace
`

func genLinkRace() (string, error) {
	core, err := parseFile("node/core.go")
	if err != nil {
		return "", err
	}
	table := map[string]string{"PID": "n.processes", "ProcessID": "n.names", "Alias": "n.aliases", "Event": "n.events"}
	var rows []string
	all := true
	for _, op := range []string{"Link", "Monitor"} {
		for _, kind := range []string{"PID", "ProcessID", "Alias", "Event"} {
			name := "Route" + op + kind
			fd := funcDecl(core, "node", name)
			if fd == nil {
				return "", fmt.Errorf("node.%s not found", name)
			}
			// the local branch: `if n.name == target.Node { … }`
			var local *ast.BlockStmt
			ast.Inspect(fd.Body, func(n ast.Node) bool {
				is, ok := n.(*ast.IfStmt)
				if !ok || local != nil {
					return local == nil
				}
				if be, ok := is.Cond.(*ast.BinaryExpr); ok {
					s := selName(be.X) + "==" + selName(be.Y)
					if s == "n.name==target.Node" || s == "target.Node==n.name" {
						local = is.Body
					}
				}
				return local == nil
			})
			if local == nil {
				return "", fmt.Errorf("node.%s: local branch not found", name)
			}
			loads, adds := 0, 0
			addPos, lastLoadPos := 0, 0
			pos := 0
			ast.Inspect(local, func(n ast.Node) bool {
				c, ok := n.(*ast.CallExpr)
				if !ok {
					return true
				}
				pos++
				fn := selName(c.Fun)
				if fn == table[kind]+".Load" {
					loads++
					lastLoadPos = pos
				}
				if strings.HasPrefix(fn, "n.targetManager.Add") {
					adds++
					addPos = pos
				}
				return true
			})
			if loads == 0 || adds == 0 {
				return "", fmt.Errorf("node.%s: lookup or relation insert not found in the local branch", name)
			}
			re := loads >= 2 && lastLoadPos > addPos
			if !re {
				all = false
			}
			rows = append(rows, fmt.Sprintf("  (\"%s\", %d)", name, loads))
		}
	}
	nf, err := parseFile("node/node.go")
	if err != nil {
		return "", err
	}
	up := funcDecl(nf, "node", "unregisterProcess")
	if up == nil {
		return "", fmt.Errorf("node.unregisterProcess not found")
	}
	delPos, drainPos, pos := 0, 0, 0
	ast.Inspect(up.Body, func(n ast.Node) bool {
		c, ok := n.(*ast.CallExpr)
		if !ok {
			return true
		}
		pos++
		fn := selName(c.Fun)
		if fn == "n.processes.Delete" && delPos == 0 {
			delPos = pos
		}
		if fn == "n.RouteTerminatePID" && drainPos == 0 {
			drainPos = pos
		}
		return true
	})
	if delPos == 0 || drainPos == 0 {
		return "", fmt.Errorf("unregisterProcess: table delete / RouteTerminatePID not found")
	}
	var sb strings.Builder
	sb.WriteString("namespace ErgoVerif.Gen.LinkRace\n/-- (function, number of lookups of the target's table in the local branch) -/\ndef lookups : List (String × Nat) := [\n")
	sb.WriteString(strings.Join(rows, ",\n") + "]\n")
	fmt.Fprintf(&sb, "/-- every RouteLink*/RouteMonitor* looks the target up again after inserting the relation -/\ndef recheckAfterAdd : Bool := %s\n", leanBool(all))
	fmt.Fprintf(&sb, "/-- unregisterProcess removes the process from the table before it drains the relations on it -/\ndef deleteBeforeDrain : Bool := %s\n", leanBool(delPos < drainPos))
	// ---- remote branches: after the local `if n.name == target.Node {…}` block: the relation insert is followed by
	// a look at the connection table (n.network.Connection) compared with the connection the request went over
	remoteAll := true
	for _, op := range []string{"Link", "Monitor"} {
		for _, kind := range []string{"PID", "ProcessID", "Alias", "Event"} {
			name := "Route" + op + kind
			fd := funcDecl(core, "node", name)
			addPos, connPos, cmp := 0, 0, false
			for _, st := range fd.Body.List {
				if is, ok := st.(*ast.IfStmt); ok {
					if be, ok := is.Cond.(*ast.BinaryExpr); ok {
						x := selName(be.X) + "==" + selName(be.Y)
						if x == "n.name==target.Node" || x == "target.Node==n.name" {
							continue // the local branch
						}
					}
				}
				ast.Inspect(st, func(n ast.Node) bool {
					switch c := n.(type) {
					case *ast.CallExpr:
						fn := selName(c.Fun)
						if strings.HasPrefix(fn, "n.targetManager.Add") && addPos == 0 {
							addPos = int(c.Pos())
						}
						if fn == "n.network.Connection" && addPos != 0 && connPos == 0 {
							connPos = int(c.Pos())
						}
					case *ast.BinaryExpr:
						if c.Op.String() == "!=" && (selName(c.Y) == "connection" || selName(c.X) == "connection") && connPos != 0 {
							cmp = true
						}
					}
					return true
				})
			}
			if addPos == 0 {
				return "", fmt.Errorf("node.%s: relation insert not found in the remote branch", name)
			}
			if !(connPos > addPos && cmp) {
				remoteAll = false
			}
		}
	}
	// ---- unregisterConnection: the connection leaves the table before RouteNodeDown drains the relations
	nw, err := parseFile("node/network.go")
	if err != nil {
		return "", err
	}
	uc := funcDecl(nw, "network", "unregisterConnection")
	if uc == nil {
		return "", fmt.Errorf("network.unregisterConnection not found")
	}
	cdel, cdown := 0, 0
	ast.Inspect(uc.Body, func(n ast.Node) bool {
		if c, ok := n.(*ast.CallExpr); ok {
			switch selName(c.Fun) {
			case "n.connections.Delete":
				if cdel == 0 {
					cdel = int(c.Pos())
				}
			case "n.node.RouteNodeDown":
				if cdown == 0 {
					cdown = int(c.Pos())
				}
			}
		}
		return true
	})
	if cdel == 0 || cdown == 0 {
		return "", fmt.Errorf("unregisterConnection: connections.Delete / RouteNodeDown not found")
	}
	fmt.Fprintf(&sb, "/-- every RouteLink*/RouteMonitor* with a remote target looks at the connection table again after inserting the relation (and compares with the connection the request went over) -/\ndef remoteRecheckAfterAdd : Bool := %s\n", leanBool(remoteAll))
	fmt.Fprintf(&sb, "/-- unregisterConnection deletes the connection from the table before RouteNodeDown drains the relations -/\ndef connectionDeletedBeforeNodeDown : Bool := %s\n", leanBool(cdel < cdown))
	// ---- every way a target disappears: the table entry goes before the relations on it are drained
	order := func(fd *ast.FuncDecl, del string, drain string) (bool, error) {
		if fd == nil {
			return false, fmt.Errorf("function for %s / %s not found", del, drain)
		}
		d, r := 0, 0
		ast.Inspect(fd.Body, func(n ast.Node) bool {
			if c, ok := n.(*ast.CallExpr); ok {
				fn := selName(c.Fun)
				if (fn == del || strings.HasSuffix(fn, "."+del)) && d == 0 {
					d = int(c.Pos())
				}
				if (fn == drain || strings.HasSuffix(fn, "."+drain)) && r == 0 {
					r = int(c.Pos())
				}
			}
			return true
		})
		if d == 0 || r == 0 {
			return false, fmt.Errorf("%s: %s / %s not found", fd.Name.Name, del, drain)
		}
		return d < r, nil
	}
	pf, err := parseFile("node/process.go")
	if err != nil {
		return "", err
	}
	type site struct {
		name       string
		fd         *ast.FuncDecl
		del, drain string
	}
	sites := []site{
		{"unregisterProcess/pid", up, "processes.Delete", "RouteTerminatePID"},
		{"unregisterProcess/name", up, "names.Delete", "RouteTerminateProcessID"},
		{"unregisterProcess/alias", up, "aliases.Delete", "RouteTerminateAlias"},
		{"unregisterProcess/event", up, "events.Delete", "RouteTerminateEvent"},
		{"UnregisterName", funcDecl(nf, "node", "UnregisterName"), "names.LoadAndDelete", "RouteTerminateProcessID"},
		{"DeleteAlias", funcDecl(pf, "process", "DeleteAlias"), "unregisterAlias", "RouteTerminateAlias"},
		{"unregisterEvent", funcDecl(nf, "node", "unregisterEvent"), "events.Delete", "RouteTerminateEvent"},
	}
	var orows []string
	for _, st := range sites {
		ok, err := order(st.fd, st.del, st.drain)
		if err != nil {
			return "", err
		}
		orows = append(orows, fmt.Sprintf("  (\"%s\", %s)", st.name, leanBool(ok)))
	}
	sb.WriteString("/-- (site, the table entry is removed before the relations on the target are drained) -/\ndef drainOrder : List (String × Bool) := [\n" + strings.Join(orows, ",\n") + "]\n")
	sb.WriteString("end ErgoVerif.Gen.LinkRace\n")
	return sb.String(), nil
}

package main

import (
	"fmt"
	"strings"

	"ergo.services/ergo"
	"ergo.services/ergo/act"
	"ergo.services/ergo/gen"
	"ergo.services/ergo/node"
)

// K2 on the permission tables: the same operation history is applied to a real node (public
// gen.Network API) and to Model.Perm; after every operation the returned error and the lookup of
// every (name, peer) pair (verif export of getEnabledSpawn / isEnabledApplicationStart) are compared.
// Independently of the model, a history oracle written here decides "an enable covering the peer
// succeeded after the last disable covering it"; an allowed lookup that is not justified is a
// violation of the property itself.

func init() { c15parts = append(c15parts, runC15Perm) }

type permA struct{ act.Actor }
type permB struct{ act.Actor }
type permC struct{ act.Actor }

func factoryPermA() gen.ProcessBehavior { return &permA{} }
func factoryPermB() gen.ProcessBehavior { return &permB{} }
func factoryPermC() gen.ProcessBehavior { return &permC{} }

var permFactories = []gen.ProcessFactory{nil, factoryPermA, factoryPermB, factoryPermC}
var permFactoryType = map[string]int{"*main.permA": 1, "*main.permB": 2, "*main.permC": 3}

type permOp struct {
	Kind    string `json:"op"` // es ds ea da
	Name    int    `json:"name"`
	Factory int    `json:"factory,omitempty"`
	Nodes   []int  `json:"nodes"`
}

func (o permOp) line() string {
	ns := "-"
	if len(o.Nodes) > 0 {
		ss := make([]string, len(o.Nodes))
		for i, n := range o.Nodes {
			ss[i] = fmt.Sprint(n)
		}
		ns = strings.Join(ss, ",")
	}
	if o.Kind == "es" {
		return fmt.Sprintf("es %d %d %s", o.Name, o.Factory, ns)
	}
	return fmt.Sprintf("%s %d %s", o.Kind, o.Name, ns)
}

func permErrName(err error) string {
	switch {
	case err == nil:
		return "ok"
	case err == gen.ErrIncorrect:
		return "incorrect"
	case err == gen.ErrUnknown:
		return "unknown"
	case err == gen.ErrNameUnknown:
		return "nameunknown"
	case err == gen.ErrNotAllowed:
		return "notallowed"
	case strings.Contains(err.Error(), "associated with another process factory"):
		return "otherfactory"
	}
	return "other:" + err.Error()
}

func quietNode(name string, opts gen.NodeOptions) (gen.Node, error) {
	opts.Log.DefaultLogger.Disable = true
	opts.Log.Level = gen.LogLevelDisabled
	return ergo.StartNode(gen.Atom(name), opts)
}

func covers(nodes []int, p int) bool {
	if len(nodes) == 0 {
		return true
	}
	for _, n := range nodes {
		if n == p {
			return true
		}
	}
	return false
}

// genPermSeq: mostly-valid histories aimed at the case splits of the lookups: "empty map = any node",
// the last allowed node being disabled (D11 pattern), partial lists after an any-node enable,
// whole-entry deletion and re-creation, factory clashes and nil factories.
func genPermSeq(rng *Rng, maxLen int) []permOp {
	n := 1 + rng.Intn(maxLen)
	var seq []permOp
	nodes := func() []int {
		switch rng.Intn(8) {
		case 0, 1:
			return nil
		case 2, 3, 4:
			return []int{rng.Intn(4)}
		case 5:
			a := rng.Intn(4)
			return []int{a, a}
		default:
			k := 2 + rng.Intn(2)
			out := make([]int, k)
			for i := range out {
				out[i] = rng.Intn(4)
			}
			return out
		}
	}
	for len(seq) < n {
		name := rng.Intn(3)
		if rng.Chance(1, 6) && len(seq)+2 <= n {
			// the D11 pattern: enable exactly one node, then disable exactly that node
			p := rng.Intn(4)
			if rng.Bool() {
				seq = append(seq, permOp{"ea", name, 0, []int{p}}, permOp{"da", name, 0, []int{p}})
			} else {
				seq = append(seq, permOp{"es", name, 1 + rng.Intn(2), []int{p}}, permOp{"ds", name, 0, []int{p}})
			}
			continue
		}
		switch rng.Intn(10) {
		case 0, 1, 2:
			f := 1 + rng.Intn(2)
			if rng.Chance(1, 10) {
				f = rng.Intn(4) // nil or a third type
			}
			seq = append(seq, permOp{"es", name, f, nodes()})
		case 3, 4:
			seq = append(seq, permOp{"ds", name, 0, nodes()})
		case 5, 6, 7:
			seq = append(seq, permOp{"ea", name, 0, nodes()})
		default:
			seq = append(seq, permOp{"da", name, 0, nodes()})
		}
	}
	return seq
}

func runC15Perm(c *Ctx) {
	r := c.R
	nd, err := quietNode("verifperm@localhost", gen.NodeOptions{Network: gen.NetworkOptions{Mode: gen.NetworkModeDisabled}})
	if err != nil {
		r.Disagree("c15-perm-setup", "cannot start node: "+err.Error(), nil)
		return
	}
	defer nd.StopForce()
	nw := nd.Network()
	if nw == nil {
		r.Disagree("c15-perm-setup", "node.Network() is nil", nil)
		return
	}
	peerAtom := func(p int) gen.Atom { return gen.Atom(fmt.Sprintf("peer%d@host", p)) }

	nseq := c.N(1500, 40000)
	type seqRec struct {
		ops   []permOp
		lines []string
		impl  []string
	}
	var recs []seqRec
	var all []string
	known := map[string]bool{}
	replayD11 := []permOp{{"ea", 0, 0, []int{1}}, {"da", 0, 0, []int{1}}}
	for si := 0; si <= nseq; si++ {
		var ops []permOp
		if si == 0 {
			ops = replayD11 // fixed witness of D11, replayed on every run
		} else {
			ops = genPermSeq(c.Rng, 14)
		}
		nameAtom := func(n int) gen.Atom { return gen.Atom(fmt.Sprintf("s%d_n%d", si, n)) }
		rec := seqRec{ops: ops}
		rec.lines = append(rec.lines, "reset")
		rec.impl = append(rec.impl, "ok")
		// independent history oracle (newest last)
		type hist struct {
			op permOp
			ok bool
		}
		var h []hist
		justified := func(spawn bool, name, peer int) bool {
			for i := len(h) - 1; i >= 0; i-- {
				o := h[i]
				if o.op.Name != name || !covers(o.op.Nodes, peer) {
					continue
				}
				if spawn {
					if o.op.Kind == "ds" {
						return false
					}
					if o.op.Kind == "es" && o.ok {
						return true
					}
				} else {
					if o.op.Kind == "da" {
						return false
					}
					if o.op.Kind == "ea" && o.ok {
						return true
					}
				}
			}
			return false
		}
		hasEn, hasDis := map[string]bool{}, map[string]bool{}
		for oi, op := range ops {
			var atoms []gen.Atom
			for _, p := range op.Nodes {
				atoms = append(atoms, peerAtom(p))
			}
			var e error
			switch op.Kind {
			case "es":
				e = nw.EnableSpawn(nameAtom(op.Name), permFactories[op.Factory], atoms...)
				hasEn[fmt.Sprint("s", op.Name)] = true
			case "ds":
				e = nw.DisableSpawn(nameAtom(op.Name), atoms...)
				hasDis[fmt.Sprint("s", op.Name)] = true
			case "ea":
				e = nw.EnableApplicationStart(nameAtom(op.Name), atoms...)
				hasEn[fmt.Sprint("a", op.Name)] = true
			case "da":
				e = nw.DisableApplicationStart(nameAtom(op.Name), atoms...)
				hasDis[fmt.Sprint("a", op.Name)] = true
			}
			r.Count("perm.op." + op.Kind + "." + permErrName(e))
			h = append(h, hist{op, e == nil})
			rec.lines = append(rec.lines, op.line())
			rec.impl = append(rec.impl, permErrName(e))
			for name := 0; name < 3; name++ {
				for peer := 0; peer < 5; peer++ { // peer 4 never appears in any node list
					ft, e1 := node.VerifGetEnabledSpawn(nd, nameAtom(name), peerAtom(peer))
					js := justified(true, name, peer)
					fnum := 0
					if e1 == nil {
						fnum = permFactoryType[ft]
						r.Count("perm.lookup.spawn.allowed")
					} else {
						r.Count("perm.lookup.spawn." + permErrName(e1))
					}
					rec.lines = append(rec.lines, fmt.Sprintf("qs %d %d", name, peer))
					rec.impl = append(rec.impl, fmt.Sprintf("%s %d %d", permErrName(e1), fnum, b2i(js)))
					// the converse for the newest operation: a successful enable covering the peer, as the last operation
					// on that name, must open the lookup (C15_perm_enable_effective)
					if e1 != nil && op.Kind == "es" && e == nil && op.Name == name && covers(op.Nodes, peer) {
						sig := "C15/perm-enable-ineffective"
						if !known[sig] {
							known[sig] = true
							r.Violation(sig, fmt.Sprintf("EnableSpawn of name %d covering peer %d succeeded, the lookup still answers %v (after op %d)", name, peer, e1, oi),
								map[string]interface{}{"ops": ops[:oi+1], "name": name, "peer": peer})
						}
					}
					if e1 == nil && !js {
						sig := "C15/perm-spawn-overgrant"
						if !known[sig] {
							known[sig] = true
							r.Violation(sig, fmt.Sprintf("spawn of name %d allowed for peer %d although no enable covering it succeeded after the last covering disable (after op %d)", name, peer, oi),
								map[string]interface{}{"ops": ops[:oi+1], "name": name, "peer": peer})
						}
					}
					e2 := node.VerifIsEnabledApplicationStart(nd, nameAtom(name), peerAtom(peer))
					ja := justified(false, name, peer)
					if e2 == nil {
						r.Count("perm.lookup.app.allowed")
					} else {
						r.Count("perm.lookup.app." + permErrName(e2))
					}
					rec.lines = append(rec.lines, fmt.Sprintf("qa %d %d", name, peer))
					rec.impl = append(rec.impl, fmt.Sprintf("%s %d", permErrName(e2), b2i(ja)))
					if e2 != nil && op.Kind == "ea" && e == nil && op.Name == name && covers(op.Nodes, peer) {
						sig := "C15/perm-enable-ineffective"
						if !known[sig] {
							known[sig] = true
							r.Violation(sig, fmt.Sprintf("EnableApplicationStart of name %d covering peer %d succeeded, the lookup still answers %v (after op %d)", name, peer, e2, oi),
								map[string]interface{}{"ops": ops[:oi+1], "name": name, "peer": peer})
						}
					}
					if e2 == nil && !ja {
						sig := "C15/perm-appstart-overgrant"
						if !known[sig] {
							known[sig] = true
							r.Violation(sig, fmt.Sprintf("application start of name %d allowed for peer %d although no enable covering it happened after the last covering disable (after op %d)", name, peer, oi),
								map[string]interface{}{"ops": ops[:oi+1], "name": name, "peer": peer})
						}
					}
				}
			}
		}
		// clean the node's tables (names are per sequence anyway)
		for name := 0; name < 3; name++ {
			nw.DisableSpawn(nameAtom(name))
			nw.DisableApplicationStart(nameAtom(name))
		}
		nontriv := false
		for k := range hasEn {
			if hasDis[k] {
				nontriv = true
			}
		}
		var key strings.Builder
		for _, op := range ops {
			key.WriteString(op.line())
			key.WriteByte(';')
		}
		r.Case("perm:"+key.String(), nontriv)
		if si < 3 {
			r.Sample(map[string]interface{}{"part": "perm", "ops": ops})
		}
		recs = append(recs, rec)
		all = append(all, rec.lines...)
	}
	out, err := Model("perm", all)
	if err != nil {
		r.Disagree("c15-perm-model", err.Error(), nil)
		return
	}
	i := 0
	for _, rec := range recs {
		for j := range rec.lines {
			if out[i+j] != rec.impl[j] {
				// which op prefix
				nops := 0
				for _, l := range rec.lines[:j+1] {
					if !strings.HasPrefix(l, "q") && l != "reset" {
						nops++
					}
				}
				r.Disagree("c15-perm-k2", fmt.Sprintf("after %d ops, line %q: model %q, implementation %q", nops, rec.lines[j], out[i+j], rec.impl[j]),
					map[string]interface{}{"ops": rec.ops[:nops], "line": rec.lines[j]})
				return
			}
		}
		i += len(rec.lines)
	}
}

import ErgoVerif.Generated.Hs
/-
Symbolic model of the ergo handshake (net/handshake/start.go Start, accept.go Accept, join.go Join).

Strings are lists of colon-free *atoms* (a Go string is the atoms joined with ':'; the empty string
is the single atom `nonce 0`).  `fmt.Sprintf("%s:%s:%s", a, b, c)` is then the concatenation of the
atom lists, so a value that itself contains colons (an adversary-chosen salt, id, …) is inside the
model: this is what makes type-flaw replays (a digest computed at one site presented at another)
expressible.  SHA-256 + hex is the free constructor `hash` (injective, colon-free result).

Every digest the two sides compute or check is taken from Generated/Hs.lean (`Hs.sites`): which
protocol values are hashed, in which order, in which function/branch, and whether the result is
stored in a message field or compared with a received field.  A check that is absent from the
source is absent from the model (`checkOk` is then `true`).

Parties are deterministic functions from the list of messages received so far to the messages sent
and the final result, written in the order of the Go code.  TLS fingerprints (DigestCert) are not
modelled: the connection is a plain one (`getRemoteTLSFingerprint`/`getLocalTLSFingerprint` = nil).
-/
namespace ErgoVerif.Handshake
open ErgoVerif.Generated

mutual
inductive Atom
  | nonce (n : Nat)         -- a colon-free string: salts and ids from lib.RandomString, adversary strings; 0 = ""
  | cookie (c : Nat)        -- the secret number c
  | hash (args : Atoms)     -- fmt.Sprintf("%x", sha256(atoms joined with ':'))
  deriving DecidableEq, Repr
inductive Atoms
  | nil
  | cons (a : Atom) (as : Atoms)
  deriving DecidableEq, Repr
end

def Atoms.ofList : List Atom → Atoms
  | [] => .nil
  | a :: as => .cons a (Atoms.ofList as)

def Atoms.toList : Atoms → List Atom
  | .nil => []
  | .cons a as => a :: as.toList

/-- hex SHA-256 of the colon-joined atoms -/
def H (l : List Atom) : Atom := .hash (Atoms.ofList l)

mutual
/-- the nonce `x` occurs somewhere in the atom -/
def Atom.occurs (x : Nat) : Atom → Bool
  | .nonce n => n == x
  | .cookie _ => false
  | .hash as => as.occurs x
def Atoms.occurs (x : Nat) : Atoms → Bool
  | .nil => false
  | .cons a as => a.occurs x || as.occurs x
end

/-- a Go string: colon-free atoms joined with ':' -/
abbrev Field := List Atom

/-- "" -/
def emptyF : Field := [.nonce 0]

/-- what travels in MessageIntroduce besides the digest (names, versions … are numbers) -/
structure Info where
  name : Nat
  creation : Nat
  flags : Nat
  maxSize : Nat
  version : Nat
  deriving DecidableEq, Repr

inductive Msg
  | hello (salt digest : Field)
  | join (node : Nat) (connId salt digest : Field)
  | intro (info : Info) (digest : Field)
  | accept (id : Field) (poolSize : Nat) (digest : Field)
  | other                          -- any other decodable value (the type assertion fails)
  deriving DecidableEq, Repr

/-- node identity + gen.HandshakeOptions -/
structure Cfg where
  info : Info                      -- node.Name(), node.Creation(), options.Flags, options.MaxMessageSize, node.Version()
  cookie : Atom                    -- options.Cookie
  poolSize : Nat := 3

/-- gen.HandshakeResult (the fields the property talks about) -/
structure Result where
  connId : Field
  peer : Nat
  peerCreation : Nat
  peerFlags : Nat
  peerMaxSize : Nat
  peerVersion : Nat
  nodeFlags : Nat
  nodeMaxSize : Nat
  deriving DecidableEq, Repr

inductive Err
  | read                 -- readMessage failed: EOF / deadline / malformed bytes
  | malformed            -- decoded, but not the expected message type
  | digest               -- "incorrect digest"
  | sameName             -- "malformed handshake Introduce message (same name)"
  deriving DecidableEq, Repr

structure Out where
  sent : List Msg
  res : Except Err Result

/-- values a digest site can refer to -/
structure Env where
  ownSalt : Field := emptyF
  peerSalt : Field := emptyF
  ownDigest : Field := emptyF
  peerDigest : Field := emptyF
  connId : Field := emptyF
  cookie : Field

def Env.get (e : Env) : Hs.Role → Field
  | .ownSalt => e.ownSalt
  | .peerSalt => e.peerSalt
  | .ownDigest => e.ownDigest
  | .peerDigest => e.peerDigest
  | .connId => e.connId
  | .cookie => e.cookie

/-- the (non-TLS) digest site of a function/branch for a given use and message field -/
def site (fn : Hs.Fn) (ctx : Hs.Ctx) (use : Hs.Use) (field : Hs.Field) : Option Hs.Site :=
  Hs.sites.find? (fun s => s.fn == fn && s.ctx == ctx && s.use == use && s.field == field && !s.fingerprint)

/-- `fmt.Sprintf("%x", sha256(fmt.Sprintf("%s:…:%s", args…)))` -/
def digestOf (s : Hs.Site) (e : Env) : Field := [H (s.args.flatMap e.get)]

/-- digest stored into a message field; "" when the source has no such site -/
def setDigest (fn : Hs.Fn) (ctx : Hs.Ctx) (field : Hs.Field) (e : Env) : Field :=
  match site fn ctx .set field with
  | some s => digestOf s e
  | none => emptyF

/-- `if received != digest { return error }`; no check when the source has no such site -/
def checkOk (fn : Hs.Fn) (ctx : Hs.Ctx) (field : Hs.Field) (e : Env) (received : Field) : Bool :=
  match site fn ctx .cmp field with
  | some s => received == digestOf s e
  | none => true

def resultOf (connId : Field) (peer : Info) (own : Cfg) : Result :=
  ⟨connId, peer.name, peer.creation, peer.flags, peer.maxSize, peer.version, own.info.flags, own.info.maxSize⟩

/-- net/handshake/start.go Start; `salt` = lib.RandomString(64) -/
def start (cfg : Cfg) (salt : Atom) (inbox : List Msg) : Out :=
  let e0 : Env := { ownSalt := [salt], cookie := [cfg.cookie] }
  let d := setDigest .start .top .helloDigest e0
  let hello := Msg.hello [salt] d
  match inbox with
  | [] => ⟨[hello], .error .read⟩
  | .hello salt2 digest2 :: rest =>
    let e1 : Env := { e0 with ownDigest := d, peerSalt := salt2 }
    if !checkOk .start .top .helloDigest e1 digest2 then ⟨[hello], .error .digest⟩ else
    let intro := Msg.intro cfg.info (setDigest .start .top .introDigest e1)
    match rest with
    | [] => ⟨[hello, intro], .error .read⟩
    | .accept id _ _ :: rest2 =>
      match rest2 with
      | [] => ⟨[hello, intro], .error .read⟩
      | .intro info2 _ :: _ =>
        if info2.name = cfg.info.name then ⟨[hello, intro], .error .sameName⟩ else
        ⟨[hello, intro, .accept emptyF 0 emptyF], .ok (resultOf id info2 cfg)⟩
      | _ :: _ => ⟨[hello, intro], .error .malformed⟩
    | _ :: _ => ⟨[hello, intro], .error .malformed⟩
  | _ :: _ => ⟨[hello], .error .malformed⟩

/-- net/handshake/accept.go Accept; `salt` = lib.RandomString(64), `id` = lib.RandomString(32) -/
def accept (cfg : Cfg) (salt id : Atom) (inbox : List Msg) : Out :=
  match inbox with
  | [] => ⟨[], .error .read⟩
  | .hello saltI digestI :: rest =>
    let e0 : Env := { peerSalt := saltI, peerDigest := digestI, cookie := [cfg.cookie] }
    if !checkOk .accept .hello .helloDigest e0 digestI then ⟨[], .error .digest⟩ else
    let e1 : Env := { e0 with ownSalt := [salt] }
    let hello := Msg.hello [salt] (setDigest .accept .hello .helloDigest e1)
    match rest with
    | [] => ⟨[hello], .error .read⟩
    | .intro info dg :: rest2 =>
      if info.name = cfg.info.name then ⟨[hello], .error .sameName⟩ else
      let e2 : Env := { ownSalt := [salt], cookie := [cfg.cookie] }
      if !checkOk .accept .top .introDigest e2 dg then ⟨[hello], .error .digest⟩ else
      let acc := Msg.accept [id] cfg.poolSize emptyF
      let intro2 := Msg.intro cfg.info emptyF
      match rest2 with
      | [] => ⟨[hello, acc, intro2], .error .read⟩
      | .accept _ _ _ :: _ => ⟨[hello, acc, intro2], .ok (resultOf [id] info cfg)⟩
      | _ :: _ => ⟨[hello, acc, intro2], .error .malformed⟩
    | _ :: _ => ⟨[hello], .error .malformed⟩
  | .join node connId saltJ digestJ :: _ =>
    let e : Env := { connId := connId, peerSalt := saltJ, peerDigest := digestJ, cookie := [cfg.cookie] }
    if !checkOk .accept .join .joinDigest e digestJ then ⟨[], .error .digest⟩ else
    -- result.Peer = m.Node, result.ConnectionID = m.ConnectionID, everything else zero
    ⟨[.accept emptyF 0 (setDigest .accept .join .acceptDigest e)],
      .ok ⟨connId, node, 0, 0, 0, 0, 0, 0⟩⟩
  | _ :: _ => ⟨[], .error .malformed⟩

/-- net/handshake/join.go Join (returns only an error or nil: the result carries the id it joined) -/
def join (cfg : Cfg) (salt : Atom) (id : Field) (inbox : List Msg) : Out :=
  let e0 : Env := { connId := id, ownSalt := [salt], cookie := [cfg.cookie] }
  let d := setDigest .join .top .joinDigest e0
  let m := Msg.join cfg.info.name id [salt] d
  match inbox with
  | [] => ⟨[m], .error .read⟩
  | .accept _ _ dg :: _ =>
    let e1 : Env := { e0 with ownDigest := d }
    if !checkOk .join .top .acceptDigest e1 dg then ⟨[m], .error .digest⟩ else
    ⟨[m], .ok ⟨id, 0, 0, 0, 0, 0, 0, 0⟩⟩
  | _ :: _ => ⟨[m], .error .malformed⟩

/-- the honest network: everything one side has sent is delivered to the other, in order.
    `round (inI, inA)` lets both sides run on what they have received so far. -/
def round (cI cA : Cfg) (sI sA idA : Atom) (p : List Msg × List Msg) : List Msg × List Msg :=
  ((accept cA sA idA p.2).sent, (start cI sI p.1).sent)

def deliver (cI cA : Cfg) (sI sA idA : Atom) : Nat → List Msg × List Msg
  | 0 => ([], [])
  | n + 1 => round cI cA sI sA idA (deliver cI cA sI sA idA n)

structure Session where
  toI : List Msg        -- everything the acceptor sent
  toA : List Msg        -- everything the initiator sent
  resI : Except Err Result
  resA : Except Err Result

/-- a complete honest main handshake (five messages = five rounds; further rounds change nothing) -/
def honest (cI cA : Cfg) (sI sA idA : Atom) : Session :=
  let p := deliver cI cA sI sA idA 5
  ⟨p.1, p.2, (start cI sI p.1).res, (accept cA sA idA p.2).res⟩

/-- an honest join of an additional link to connection `id` -/
def honestJoin (cJ cA : Cfg) (sJ sA idA : Atom) (id : Field) : Session :=
  let m := (join cJ sJ id []).sent
  let a := accept cA sA idA m
  ⟨a.sent, m, (join cJ sJ id a.sent).res, a.res⟩

def isOk {α : Type} : Except Err α → Bool
  | .ok _ => true
  | .error _ => false

/- ------------------------------------------------------------------------------------------
   adversary
   ------------------------------------------------------------------------------------------ -/

/-- what an adversary can build from a knowledge set `K`: anything in `K`, strings of its own
    (`adv n`), and the hash of any list of atoms it can build.  The cookie is not a string of its own. -/
inductive Derivable (K : Atom → Prop) (adv : Nat → Prop) : Atom → Prop
  | ax {t} : K t → Derivable K adv t
  | own {n} : adv n → Derivable K adv (.nonce n)
  | hash {l} : (∀ t ∈ l, Derivable K adv t) → Derivable K adv (H l)

def DerivF (K : Atom → Prop) (adv : Nat → Prop) (f : Field) : Prop := ∀ a ∈ f, Derivable K adv a

/-- every string field of the message can be built (numbers and names are public) -/
def DerivM (K : Atom → Prop) (adv : Nat → Prop) : Msg → Prop
  | .hello s d => DerivF K adv s ∧ DerivF K adv d
  | .join _ c s d => DerivF K adv c ∧ DerivF K adv s ∧ DerivF K adv d
  | .intro _ d => DerivF K adv d
  | .accept i _ d => DerivF K adv i ∧ DerivF K adv d
  | .other => True

/-- the atoms of a message's string fields (what an eavesdropper learns) -/
def Msg.atoms : Msg → List Atom
  | .hello s d => s ++ d
  | .join _ c s d => c ++ s ++ d
  | .intro _ d => d
  | .accept i _ d => i ++ d
  | .other => []

def Session.atoms (s : Session) : List Atom := (s.toI ++ s.toA).flatMap Msg.atoms

end ErgoVerif.Handshake

/-
Local send decision of node/core.go RouteSendPID / RouteSendProcessID / RouteSendAlias:
alive check, push into the bounded mailbox, and on a refused push the fallback re-route
(`MessageFallback{PID, Tag, Message}` sent to the fallback process by name), plus the delayed send
(`SendAfter` = time.AfterFunc(...).Stop) as a three-state timer.
-/
namespace ErgoVerif.Fallback

structure Target where
  pid : Nat
  name : String
  alive : Bool
  full : Bool              -- the push into the selected queue is refused (limit reached)
  fbEnable : Bool
  fbName : String
  fbTag : String

inductive Outcome (μ : Type)
  | delivered (m : μ)                                     -- pushed into the target's mailbox, nil returned
  | errTerminated                                         -- gen.ErrProcessTerminated
  | errFull                                               -- gen.ErrProcessMailboxFull
  | fallback (toName : String) (pid : Nat) (tag : String) (m : μ)   -- re-routed: result of RouteSendProcessID to the fallback
deriving Repr, DecidableEq

/-- mirror of the local branch after the table lookup succeeded -/
def routeSend {μ : Type} (t : Target) (m : μ) : Outcome μ :=
  if !t.alive then .errTerminated
  else if !t.full then .delivered m
  else if !t.fbEnable then .errFull
  else if t.fbName = t.name then .errFull
  else .fallback t.fbName t.pid t.fbTag m

/-- delayed send: time.AfterFunc timer. `cancel` is timer.Stop: true iff it prevented the call. -/
inductive TState | armed | fired | stopped
deriving DecidableEq, Repr

structure Timer where
  st : TState
  sent : Nat                 -- how many times the routed send ran
  cancelResults : List Bool  -- what each CancelFunc call returned, most recent first

inductive TOp | fire | cancel
deriving DecidableEq, Repr

def Timer.init : Timer := ⟨.armed, 0, []⟩

def Timer.step (t : Timer) : TOp → Timer
  | .fire => if t.st = .armed then { t with st := .fired, sent := t.sent + 1 } else t
  | .cancel => if t.st = .armed then { t with st := .stopped, cancelResults := true :: t.cancelResults }
               else { t with cancelResults := false :: t.cancelResults }

end ErgoVerif.Fallback

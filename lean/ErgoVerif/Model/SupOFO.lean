import ErgoVerif.Model.SupCommon
/-
Field-by-field mirror of `supOFO` (act/supervisor_ofo.go), one-for-one supervisor.
Every method returns the (possibly partially) updated state and a `Res`.
`childTerminated` takes the wall-clock reading `now` that `supCheckRestartIntensity` would take.
-/
namespace ErgoVerif.Sup

structure OFO where
  spec : List ChildSpec := []
  restart : Restart := {}
  restarts : List Int := []
  autoshutdown : Bool := false
  mode : Nat := 0                 -- 0 normal, 1 starting
  shutdown : Bool := false
  shutdownReason : Option Reason := none
  wait : List Nat := []
  i : Nat := 0
  deriving Repr, Inhabited

namespace OFO

/-- supOFO.init -/
def init (s : OFO) (sp : SupSpec) : OFO × Res :=
  let specs := s.spec ++ mkSpecs true s.i sp.children
  let s1 := { s with restart := sp.restart, spec := specs, i := s.i + sp.children.length }
  match specs with
  | [] => (s1, .panic)                        -- s.spec[0]: index out of range
  | c0 :: _ =>
    ({ s1 with mode := 1, autoshutdown := !sp.disableAutoShutdown }, .ok { act := .start, spec := c0 })

/-- supOFO.childAddSpec -/
def childAddSpec (s : OFO) (name : Nat) (sig : Bool) : OFO × Res :=
  if s.mode ≠ 0 ∨ s.shutdown = true then (s, .err .strategyActive)
  else if !validName name then (s, .err .invalid)
  else if (findName name s.spec).isSome then (s, .err .duplicate)
  else
    let cs : ChildSpec := { name := name, significant := sig, register := true, i := s.i }
    ({ s with i := s.i + 1, spec := s.spec ++ [cs] }, .ok { act := .start, spec := cs })

/-- supOFO.childSpec (Supervisor.StartChild) -/
def childSpec (s : OFO) (name : Nat) : OFO × Res :=
  if s.mode ≠ 0 ∨ s.shutdown = true then (s, .err .strategyActive)
  else match findName name s.spec with
    | none => (s, .err .unknown)
    | some c =>
      if c.disabled then (s, .err .disabled)
      else if c.pid = 0 then (s, .ok { act := .start, spec := c })
      else (s, .err .running)

/-- supOFO.childStarted -/
def childStarted (s : OFO) (cs : ChildSpec) (pid : Nat) : OFO × Res :=
  match s.spec[cs.i]? with
  | none => (s, .panic)                       -- index out of range
  | some sp =>
    if cs.name ≠ sp.name then (s, .panic)     -- panic(gen.ErrInternal)
    else
      let s1 := { s with spec := s.spec.set cs.i { sp with args := cs.args, pid := pid } }
      if s1.mode ≠ 1 then (s1, .ok {})
      else if cs.i = s1.spec.length - 1 then ({ s1 with mode := 0 }, .ok {})
      else match findStart (cs.i + 1) 0 s1.spec with
        | some (k, c) => (s1, .ok { act := .start, spec := { c with i := k } })
        | none => (s1, .ok {})

/-- the "significant child / auto shutdown" tail shared by the disabled, Temporary and quiet-Transient branches -/
def stopAll (s : OFO) (sc : Scan) (reason : Reason) : OFO × Res :=
  if sc.running.length = 0 then (s, .ok { act := .terminate, reason := some reason })
  else ({ s with wait := mkSet sc.running, shutdown := true, shutdownReason := some reason },
        .ok { act := .terminateChildren, terminate := sc.running, reason := some reason })

def autoShutdown (s : OFO) (sc : Scan) (reason : Reason) : OFO × Res :=
  if sc.running.length = 0 ∧ s.autoshutdown then (s, .ok { act := .terminate, reason := some reason })
  else (s, .ok {})

/-- "check for restart intensity": restart the child or give up -/
def intensityStep (s : OFO) (sc : Scan) (spec : ChildSpec) (now : Int) : OFO × Res :=
  let chk := Window.check s.restarts now s.restart.periodMs s.restart.intensity
  let s := { s with restarts := chk.1 }
  if chk.2 = false then (s, .ok { act := .start, spec := spec })
  else
    ({ s with wait := mkSet sc.running, shutdown := true, shutdownReason := some .restartsExceeded },
     .ok { act := .terminateChildren, terminate := runningPids s.spec, reason := some .restartsExceeded })

/-- the branches that do not restart: significant child / auto shutdown / nothing -/
def quietStep (s : OFO) (sc : Scan) (spec : ChildSpec) (reason : Reason) : OFO × Res :=
  if spec.significant then stopAll s sc reason else autoShutdown s sc reason

/-- supOFO.childTerminated -/
def childTerminated (s0 : OFO) (name pid : Nat) (reason : Reason) (now : Int) : OFO × Res :=
  let s := { s0 with wait := sdel pid s0.wait }
  if s.shutdown then
    if s.wait.length > 0 then (s, .ok { act := .terminateChildren })
    else (s, .ok { act := .terminate, reason := s.shutdownReason })
  else
    let sc := scan name pid 0 s.spec
    let s := { s with spec := sc.spec }
    match sc.found with
    | none => stopAll s sc reason               -- exit from a non-child
    | some (_, spec) =>
      if spec.disabled then autoShutdown s sc reason
      else
        match s.restart.strategy with
        | .temporary => quietStep s sc spec reason
        | .transient => if reason.quiet then quietStep s sc spec reason else intensityStep s sc spec now
        | .permanent => intensityStep s sc spec now

/-- supOFO.childEnable -/
def childEnable (s : OFO) (name : Nat) : OFO × Res :=
  if s.shutdown then (s, .err .strategyActive) else
  match findName name s.spec with
  | none => (s, .err .unknown)
  | some c =>
    if c.disabled = false then (s, .ok {})
    else
      let c' := { c with disabled := false }
      ({ s with spec := updName name (fun _ => c') s.spec }, .ok { act := .start, spec := c' })

/-- supOFO.childDisable -/
def childDisable (s : OFO) (name : Nat) : OFO × Res :=
  match findName name s.spec with
  | none => (s, .err .unknown)
  | some c =>
    if c.disabled then (s, .ok {})
    else if c.pid = 0 then ({ s with spec := updName name (fun c => { c with disabled := true }) s.spec }, .ok {})
    else
      ({ s with spec := updName name (fun c => { c with disabled := true }) s.spec },
       .ok { act := .terminateChildren, terminate := [c.pid], reason := some .shutdown })

end OFO
end ErgoVerif.Sup

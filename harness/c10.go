package main

// C10 — no orphans. K4 fault enumeration on real supervision trees: random trees (depth ≤ 3) of act.Supervisor
// (one-for-one / all-for-one / rest-for-one / simple-one-for-one × strategies), act.Pool and plain actors that spawn
// linked children; every process logs its spawn (with its parent) and its termination. One to three faults (Kill,
// exit signal, crash of the behaviour) hit random live processes at random moments — also microseconds apart, so that
// a fault lands during start-up, during a restart or during a shutdown — then the root's owner is taken down in
// some runs. After quiescence: (oracle) no live process has a dead owner; (model) the logged spawn/termination
// events, causally ordered, are replayed through Model/Tree.lean and the live set must agree.
// Applications: graceful ApplicationStop / node stop return only when every process under them is gone.

import (
	"encoding/json"
	"errors"
	"fmt"
	"sort"
	"strings"
	"sync"
	"sync/atomic"
	"time"

	"ergo.services/ergo/act"
	"ergo.services/ergo/gen"
)

func init() { props["C10"] = runC10 }

type c10event struct {
	seq    int64
	kind   string // spawn | term
	pid    gen.PID
	parent gen.PID
	reason error
	what   string
}

type c10log struct {
	mu     sync.Mutex
	seq    int64
	events []c10event
	killed map[gen.PID]bool
	early  []string // supervisors that reached Terminate (graceful reason) while a child of theirs was still registered
}

func (l *c10log) kill(n gen.Node, p gen.PID) {
	l.mu.Lock()
	if l.killed == nil {
		l.killed = map[gen.PID]bool{}
	}
	l.killed[p] = true
	l.mu.Unlock()
	n.Kill(p)
}
func (l *c10log) wasKilled(p gen.PID) bool { l.mu.Lock(); defer l.mu.Unlock(); return l.killed[p] }
func (l *c10log) addEarly(s string) { l.mu.Lock(); l.early = append(l.early, s); l.mu.Unlock() }
func (l *c10log) earlyList() []string {
	l.mu.Lock()
	defer l.mu.Unlock()
	return append([]string(nil), l.early...)
}

func (l *c10log) add(e c10event) {
	e.seq = atomic.AddInt64(&l.seq, 1)
	l.mu.Lock()
	l.events = append(l.events, e)
	l.mu.Unlock()
}

func (l *c10log) snapshot() []c10event {
	l.mu.Lock()
	defer l.mu.Unlock()
	return append([]c10event(nil), l.events...)
}

type c10spec struct {
	Kind     string     `json:"kind"` // leaf | parent | sup | pool
	SupType  int        `json:"sup_type,omitempty"`
	Strategy int        `json:"strategy,omitempty"`
	Keep     bool       `json:"keep_order,omitempty"`
	Children []*c10spec `json:"children,omitempty"`
}

func genC10Spec(rng *Rng, depth int) *c10spec {
	if depth == 0 || rng.Chance(1, 4) {
		return &c10spec{Kind: "leaf"}
	}
	s := &c10spec{}
	switch rng.Intn(10) {
	case 0, 1, 2, 3, 4, 5:
		s.Kind = "sup"
		s.SupType = rng.Intn(3) // OFO, AFO, RFO
		s.Strategy = rng.Intn(3)
		s.Keep = rng.Bool()
	case 6, 7:
		s.Kind = "pool"
	default:
		s.Kind = "parent"
	}
	n := 1 + rng.Intn(3)
	if s.Kind == "pool" {
		s.Children = []*c10spec{{Kind: "leaf"}}
		return s
	}
	for i := 0; i < n; i++ {
		s.Children = append(s.Children, genC10Spec(rng, depth-1))
	}
	return s
}

type c10crash struct{}
type c10ping struct{}
type c10block struct {
	entered chan struct{}
	gate    chan struct{}
}

// ---- behaviours --------------------------------------------------------------------------------------

type c10leaf struct {
	act.Actor
	l    *c10log
	spec *c10spec
}

func (a *c10leaf) Init(args ...any) error {
	if a.spec.Kind == "failleaf" {
		return errors.New("init-fails")
	}
	a.l.add(c10event{kind: "spawn", pid: a.PID(), parent: a.Parent(), what: a.spec.Kind})
	if a.spec.Kind == "parent" {
		for _, ch := range a.spec.Children {
			ch := ch
			if _, err := a.Spawn(c10factory(a.l, ch), gen.ProcessOptions{LinkParent: true}); err != nil {
				return err
			}
		}
	}
	return nil
}
func (a *c10leaf) HandleMessage(from gen.PID, m any) error {
	if _, ok := m.(c10crash); ok {
		return errors.New("crash")
	}
	if b, ok := m.(c10block); ok {
		close(b.entered)
		<-b.gate
	}
	return nil
}
func (a *c10leaf) Terminate(reason error) {
	a.l.add(c10event{kind: "term", pid: a.PID(), reason: reason})
}

type c10sup struct {
	act.Supervisor
	l    *c10log
	spec *c10spec
}

func (s *c10sup) Init(args ...any) (act.SupervisorSpec, error) {
	s.l.add(c10event{kind: "spawn", pid: s.PID(), parent: s.Parent(), what: "sup"})
	sp := act.SupervisorSpec{}
	sp.Type = []act.SupervisorType{act.SupervisorTypeOneForOne, act.SupervisorTypeAllForOne, act.SupervisorTypeRestForOne}[s.spec.SupType]
	sp.Restart.Strategy = []act.SupervisorStrategy{act.SupervisorStrategyTransient, act.SupervisorStrategyTemporary, act.SupervisorStrategyPermanent}[s.spec.Strategy]
	sp.Restart.KeepOrder = s.spec.Keep
	sp.Restart.Intensity = 3
	sp.Restart.Period = 5
	for i, ch := range s.spec.Children {
		sp.Children = append(sp.Children, act.SupervisorChildSpec{
			Name:    gen.Atom(fmt.Sprintf("c%d_%d", s.PID().ID, i)),
			Factory: c10factory(s.l, ch),
		})
	}
	return sp, nil
}
func (s *c10sup) HandleMessage(from gen.PID, m any) error {
	if _, ok := m.(c10crash); ok {
		return errors.New("crash")
	}
	return nil
}
func (s *c10sup) Terminate(reason error) {
	// a supervisor that terminates on its own account (shutdown request, restart intensity exceeded, strategy
	// exhausted) has waited for its children: none of them is registered any more. A killed or crashed supervisor
	// takes them down through the parent link afterwards.
	// (a killed supervisor can still be inside a callback and end with another reason, e.g. "not allowed" from Spawn)
	if reason != gen.TerminateReasonKill && reason != gen.TerminateReasonPanic && reason != nil && reason.Error() != "crash" && !s.l.wasKilled(s.PID()) {
		for _, e := range s.l.snapshot() {
			if e.kind == "spawn" && e.parent == s.PID() {
				if _, err := s.Node().ProcessInfo(e.pid); err == nil {
					s.l.addEarly(fmt.Sprintf("supervisor %s terminated (%v) while its child %s was still registered", s.PID(), reason, e.pid))
				}
			}
		}
	}
	s.l.add(c10event{kind: "term", pid: s.PID(), reason: reason})
}

type c10poolB struct {
	act.Pool
	l    *c10log
	spec *c10spec
}

func (p *c10poolB) Init(args ...any) (act.PoolOptions, error) {
	p.l.add(c10event{kind: "spawn", pid: p.PID(), parent: p.Parent(), what: "pool"})
	return act.PoolOptions{PoolSize: 2, WorkerFactory: c10factory(p.l, &c10spec{Kind: "leaf"})}, nil
}
func (p *c10poolB) Terminate(reason error) {
	p.l.add(c10event{kind: "term", pid: p.PID(), reason: reason})
}

func c10factory(l *c10log, spec *c10spec) gen.ProcessFactory {
	return func() gen.ProcessBehavior {
		switch spec.Kind {
		case "sup":
			return &c10sup{l: l, spec: spec}
		case "pool":
			return &c10poolB{l: l, spec: spec}
		}
		return &c10leaf{l: l, spec: spec}
	}
}

// ---- runner ------------------------------------------------------------------------------------------

func c10settle(k *K4, l *c10log) bool {
	// quiescent when no new events for a while and no logged live process has queued messages / is running
	last := int64(-1)
	calm := 0
	deadline := time.Now().Add(6 * time.Second)
	for time.Now().Before(deadline) {
		cur := atomic.LoadInt64(&l.seq)
		busy := false
		if cur == last {
			alive := map[gen.PID]bool{}
			for _, e := range l.snapshot() {
				if e.kind == "spawn" {
					alive[e.pid] = true
				} else {
					delete(alive, e.pid)
				}
			}
			for p := range alive {
				info, err := k.Node.ProcessInfo(p)
				if err != nil {
					continue
				}
				q := info.MailboxQueues
				if q.Main+q.System+q.Urgent > 0 || info.State == gen.ProcessStateRunning || info.State == gen.ProcessStateWaitResponse {
					busy = true
					break
				}
			}
		} else {
			busy = true
		}
		last = cur
		if !busy {
			calm++
			if calm >= 4 {
				return true
			}
		} else {
			calm = 0
		}
		time.Sleep(400 * time.Microsecond)
	}
	return false
}

func runC10(c *Ctx) {
	r := c.R
	defer c10failedStart(c)
	r.Rule = "fault enumeration on random ownership trees (depth ≤ 3; supervisors of three types × three strategies × KeepOrder, pools, plain parents): 1-3 faults {Kill, exit signal, behaviour crash} on random live processes, spaced 0 / 50 µs / 1 ms apart (start-up, restart and shutdown windows), optional take-down of the root; " +
		"after quiescence orphan oracle + replay of the causally ordered spawn/termination log through Model/Tree; application graceful stop; non-trivial = tree with ≥ 2 levels and a fault on an inner process; distinct by tree+faults"
	k, err := NewK4("c10n")
	if err != nil {
		r.Disagree("c10.node", err.Error(), nil)
		return
	}
	defer k.Stop()
	n := c.N(300, 8000)
	for it := 0; it < n; it++ {
		l := &c10log{}
		spec := genC10Spec(c.Rng, 3)
		if spec.Kind == "leaf" {
			spec = &c10spec{Kind: "parent", Children: []*c10spec{{Kind: "leaf"}, genC10Spec(c.Rng, 2)}}
		}
		root, err := k.Node.Spawn(c10factory(l, spec), gen.ProcessOptions{})
		if err != nil {
			r.Count("inconclusive:spawn")
			continue
		}
		c10settle(k, l)
		nf := 1 + c.Rng.Intn(3)
		var faults []string
		inner := false
		for f := 0; f < nf; f++ {
			// choose a live logged process
			alive := []gen.PID{}
			isParent := map[gen.PID]bool{}
			seen := map[gen.PID]bool{}
			for _, e := range l.snapshot() {
				if e.kind == "spawn" {
					seen[e.pid] = true
					isParent[e.parent] = true
				} else {
					delete(seen, e.pid)
				}
			}
			for p := range seen {
				alive = append(alive, p)
			}
			if len(alive) == 0 {
				break
			}
			sort.Slice(alive, func(i, j int) bool { return alive[i].ID < alive[j].ID })
			victim := alive[c.Rng.Intn(len(alive))]
			if isParent[victim] && victim != root {
				inner = true
			}
			kind := c.Rng.Intn(4)
			switch kind {
			case 0:
				l.kill(k.Node, victim)
			case 1:
				k.Node.SendExit(victim, errors.New("fault-exit"))
			case 2:
				k.Node.Send(victim, c10crash{})
			case 3:
				// a slow process: busy in a callback for 0.3-3 ms, whatever reaches it meanwhile has to wait
				b := c10block{entered: make(chan struct{}), gate: make(chan struct{})}
				k.Node.Send(victim, b)
				d := time.Duration(300+c.Rng.Intn(2700)) * time.Microsecond
				time.AfterFunc(d, func() { close(b.gate) })
			}
			faults = append(faults, fmt.Sprintf("%s@%d", []string{"kill", "exit", "crash", "slow"}[kind], victim.ID-root.ID))
			if c.Rng.Chance(1, 2) {
				// traffic through every live pool: a pool replaces a dead worker when a message reaches its slot
				for _, e := range l.snapshot() {
					if e.kind == "spawn" && e.what == "pool" && seen[e.pid] {
						for i := 0; i < 4; i++ {
							k.Node.Send(e.pid, c10ping{})
						}
					}
				}
				faults = append(faults, "pool-traffic")
				if c.Rng.Bool() {
					c10settle(k, l)
				}
			}
			switch c.Rng.Intn(4) {
			case 0:
			case 1:
				time.Sleep(50 * time.Microsecond)
			case 2:
				time.Sleep(time.Millisecond)
			default:
				c10settle(k, l)
			}
		}
		takeDown := c.Rng.Chance(1, 2)
		if takeDown {
			if c.Rng.Bool() {
				l.kill(k.Node, root)
				faults = append(faults, "kill@root")
			} else {
				k.Node.SendExit(root, gen.TerminateReasonShutdown)
				faults = append(faults, "shutdown@root")
			}
		}
		settled := c10settle(k, l)
		if !settled {
			r.Count("inconclusive:not-quiescent")
		}
		// the Terminate callback of a killed process runs in a goroutine of its own, after the process has left the
		// table: give every process that is gone the time to log its termination
		logComplete := waitUntil(2*time.Second, func() bool {
			termed := map[gen.PID]bool{}
			es := l.snapshot()
			for _, e := range es {
				if e.kind == "term" {
					termed[e.pid] = true
				}
			}
			for _, e := range es {
				if e.kind == "spawn" && !termed[e.pid] {
					if _, err := k.Node.ProcessInfo(e.pid); err != nil {
						return false
					}
				}
			}
			return true
		})
		evs := l.snapshot()
		sort.Slice(evs, func(i, j int) bool { return evs[i].seq < evs[j].seq })
		// ---- orphan oracle -------------------------------------------------------------------
		parentOf := map[gen.PID]gen.PID{}
		for _, e := range evs {
			if e.kind == "spawn" {
				parentOf[e.pid] = e.parent
			}
		}
		liveNow := func(p gen.PID) bool { _, err := k.Node.ProcessInfo(p); return err == nil }
		rp := map[string]interface{}{"tree": spec, "faults": faults}
		if settled {
			for p := range parentOf {
				if !liveNow(p) {
					continue
				}
				for a := parentOf[p]; ; a = parentOf[a] {
					if _, logged := parentOf[a]; !logged && a != root {
						break // reached the harness / node core
					}
					if !liveNow(a) {
						r.Violation("C10/orphan", fmt.Sprintf("process %d is alive although its owner %d is gone (offsets from the root pid)", p.ID-root.ID, a.ID-root.ID), rp)
						break
					}
					if a == root {
						break
					}
				}
			}
			for _, e := range l.earlyList() {
				r.Violation("C10/terminated-before-children", e, rp)
			}
			if takeDown && liveNow(root) == false {
				for p := range parentOf {
					if liveNow(p) {
						r.Violation("C10/survivor", fmt.Sprintf("the root is gone but process %d under it is still alive", p.ID-root.ID), rp)
						break
					}
				}
			}
		}
		// ---- model replay: causally ordered events -------------------------------------------------
		idx := map[gen.PID]int{}
		lines := []string{"reset"}
		dead := map[gen.PID]bool{}
		deferred := map[gen.PID][]gen.PID{} // parent -> children whose exit-by-parent was logged before the parent's death
		var emit func(p gen.PID, byParent bool)
		emit = func(p gen.PID, byParent bool) {
			if byParent {
				lines = append(lines, fmt.Sprintf("exit %d", idx[p]))
			} else {
				lines = append(lines, fmt.Sprintf("die %d", idx[p]))
			}
			dead[p] = true
			for _, ch := range deferred[p] {
				emit(ch, true)
			}
			delete(deferred, p)
		}
		okReplay := true
		for _, e := range evs {
			if e.kind == "spawn" {
				idx[e.pid] = len(idx)
				if _, known := idx[e.parent]; known && e.parent != e.pid {
					if dead[e.parent] {
						okReplay = false // a process was spawned by a parent already logged dead: cannot be ordered
					}
					lines = append(lines, fmt.Sprintf("spawn %d", idx[e.parent]))
				} else {
					lines = append(lines, "root")
				}
				continue
			}
			par, hasPar := parentOf[e.pid]
			_, parLogged := idx[par]
			byParent := false
			if hasPar && parLogged && e.reason != nil {
				// an exit signal from the parent: act.Actor wraps it as "<pid>: reason"
				byParent = strings.HasPrefix(e.reason.Error(), par.String()+":")
			}
			if byParent && !dead[par] {
				deferred[par] = append(deferred[par], e.pid)
				continue
			}
			emit(e.pid, byParent)
		}
		if settled && okReplay && logComplete && len(deferred) == 0 {
			outs, err := Model("tree", lines)
			if err != nil {
				r.Disagree("tree.driver", err.Error(), nil)
				return
			}
			final := outs[len(outs)-1]
			var want []int
			for p, i := range idx {
				if liveNow(p) {
					want = append(want, i)
				}
			}
			sort.Ints(want)
			if !strings.HasPrefix(final, "alive="+natListOrdered(want)+" ") {
				r.Disagree("K4 Model.Tree ~ supervision tree after faults", fmt.Sprintf("model %q, implementation alive=%s", final, natListOrdered(want)),
					map[string]interface{}{"tree": spec, "faults": faults, "events": lines})
			} else if !strings.HasSuffix(final, "pending=-") {
				r.Disagree("K4 Model.Tree quiescence", fmt.Sprintf("the node is quiescent but the model still has pending exits: %q", final), map[string]interface{}{"tree": spec, "faults": faults, "events": lines})
			}
			r.Count("replayed")
		} else if settled {
			r.Count("replay-skipped")
		}
		depth2 := false
		for _, ch := range spec.Children {
			if len(ch.Children) > 0 {
				depth2 = true
			}
		}
		r.Case(fmt.Sprintf("%v|%v", specString(spec), faults), depth2 && inner)
		if it < 2 {
			r.Sample(map[string]interface{}{"tree": specString(spec), "faults": faults, "events": len(evs)})
		}
		// clean up
		k.Node.Kill(root)
		for p := range parentOf {
			if liveNow(p) {
				k.Node.Kill(p)
			}
		}
		c10settle(k, l)
	}
	c10window(c, k)
	c10apps(c, k)
}

// c10window: a shutdown request that reaches a supervisor while a restart is in progress and one child is slow.
// Directed family over supervisor type x strategy x crashed child x slow child x kind of take-down; the supervisor
// must not reach Terminate before every child is gone, and nothing survives.
func c10window(c *Ctx, k *K4) {
	r := c.R
	rounds := c.N(1, 6)
	for round := 0; round < rounds; round++ {
		for supType := 0; supType < 3; supType++ {
			for strategy := 0; strategy < 3; strategy++ {
				for crashed := 0; crashed < 3; crashed++ {
					for slow := 0; slow < 3; slow++ {
						if slow == crashed {
							continue
						}
						l := &c10log{}
						spec := &c10spec{Kind: "sup", SupType: supType, Strategy: strategy, Keep: round%2 == 1,
							Children: []*c10spec{{Kind: "leaf"}, {Kind: "leaf"}, {Kind: "leaf"}}}
						root, err := k.Node.Spawn(c10factory(l, spec), gen.ProcessOptions{})
						if err != nil {
							r.Count("inconclusive:spawn")
							continue
						}
						c10settle(k, l)
						var kids []gen.PID
						for _, e := range l.snapshot() {
							if e.kind == "spawn" && e.parent == root {
								kids = append(kids, e.pid)
							}
						}
						if len(kids) != 3 {
							k.Node.Kill(root)
							c10settle(k, l)
							continue
						}
						b := c10block{entered: make(chan struct{}), gate: make(chan struct{})}
						k.Node.Send(kids[slow], b)
						select {
						case <-b.entered:
						case <-time.After(time.Second):
						}
						how := (round + crashed + slow) % 2
						if how == 0 {
							k.Node.Kill(kids[crashed])
						} else {
							k.Node.Send(kids[crashed], c10crash{})
						}
						// let the supervisor see the termination and start its strategy, then ask it to shut down
						waitUntil(time.Second, func() bool { _, e := k.Node.ProcessInfo(kids[crashed]); return e != nil })
						time.Sleep(time.Duration(100+c.Rng.Intn(400)) * time.Microsecond)
						k.Node.SendExit(root, gen.TerminateReasonShutdown)
						time.Sleep(2 * time.Millisecond)
						close(b.gate)
						settled := c10settle(k, l)
						rp := map[string]interface{}{"sup_type": supType, "strategy": strategy, "crashed": crashed, "slow": slow, "how": how}
						for _, e := range l.earlyList() {
							r.Violation("C10/terminated-before-children", e, rp)
						}
						if settled {
							if _, e := k.Node.ProcessInfo(root); e != nil {
								for _, ev := range l.snapshot() {
									if ev.kind == "spawn" {
										if _, e := k.Node.ProcessInfo(ev.pid); e == nil {
											r.Violation("C10/survivor", fmt.Sprintf("the supervisor is gone but process %s started under it is still alive", ev.pid), rp)
											break
										}
									}
								}
							}
						}
						r.Case(fmt.Sprintf("window/%d/%d/%d/%d/%d", supType, strategy, crashed, slow, how), true)
						r.Count("window")
						k.Node.Kill(root)
						for _, ev := range l.snapshot() {
							if ev.kind == "spawn" {
								k.Node.Kill(ev.pid)
							}
						}
						c10settle(k, l)
					}
				}
			}
		}
	}
}

func specString(s *c10spec) string {
	if len(s.Children) == 0 {
		return s.Kind
	}
	var cs []string
	for _, c := range s.Children {
		cs = append(cs, specString(c))
	}
	extra := ""
	if s.Kind == "sup" {
		extra = fmt.Sprintf("%d%d%v", s.SupType, s.Strategy, s.Keep)
	}
	return s.Kind + extra + "(" + strings.Join(cs, ",") + ")"
}

// c10apps: graceful application stop returns success only after every process under the application is gone.
type c10app struct {
	name gen.Atom
	l    *c10log
	spec []*c10spec
}

func (a *c10app) Load(node gen.Node, args ...any) (gen.ApplicationSpec, error) {
	s := gen.ApplicationSpec{Name: a.name, Mode: gen.ApplicationModeTemporary}
	for i, sp := range a.spec {
		s.Group = append(s.Group, gen.ApplicationMemberSpec{Name: gen.Atom(fmt.Sprintf("%s_%d", a.name, i)), Factory: c10factory(a.l, sp)})
	}
	return s, nil
}
func (a *c10app) Start(mode gen.ApplicationMode) {}
func (a *c10app) Terminate(reason error)         {}

func c10apps(c *Ctx, k *K4) {
	r := c.R
	n := c.N(15, 300)
	for it := 0; it < n; it++ {
		l := &c10log{}
		app := &c10app{name: k.NextName("c10app"), l: l}
		for i := 0; i < 1+c.Rng.Intn(3); i++ {
			app.spec = append(app.spec, genC10Spec(c.Rng, 2))
		}
		if _, err := k.Node.ApplicationLoad(app); err != nil {
			continue
		}
		if err := k.Node.ApplicationStart(app.name, gen.ApplicationOptions{}); err != nil {
			continue
		}
		c10settle(k, l)
		// optional fault first
		if c.Rng.Bool() {
			evs := l.snapshot()
			if len(evs) > 0 {
				k.Node.Kill(evs[c.Rng.Intn(len(evs))].pid)
			}
			if c.Rng.Bool() {
				time.Sleep(100 * time.Microsecond)
			}
		}
		err, hung := c17call(func() error { return k.Node.ApplicationStop(app.name) })
		if hung {
			r.Violation("C10/app-stop-hangs", "ApplicationStop did not return within 8 s", map[string]interface{}{"members": len(app.spec)})
			return
		}
		left := 0
		seen := map[gen.PID]bool{}
		for _, e := range l.snapshot() {
			if e.kind == "spawn" {
				seen[e.pid] = true
			} else {
				delete(seen, e.pid)
			}
		}
		// the stop call has returned: count what is still registered right now (no settling first)
		var members, descendants int
		for p := range seen {
			if pi, e := k.Node.ProcessInfo(p); e == nil {
				left++
				if pi.Application == app.name && pi.Parent == k.Node.PID() {
					members++
				} else {
					descendants++
				}
			}
		}
		if err == nil && members > 0 {
			r.Violation("C10/app-stop-early", fmt.Sprintf("ApplicationStop returned success while %d member(s) of the application were still registered", members), map[string]interface{}{"members": len(app.spec)})
		}
		c10settle(k, l)
		leftAfter := 0
		for p := range seen {
			if _, e := k.Node.ProcessInfo(p); e == nil {
				leftAfter++
			}
		}
		if err == nil && leftAfter > 0 {
			r.Violation("C10/app-survivor", fmt.Sprintf("after a successful ApplicationStop and quiescence %d process(es) started under the application are still alive", leftAfter), map[string]interface{}{"members": len(app.spec)})
		}
		r.Case(fmt.Sprintf("app/%d/%v", it, err), true)
		r.Count("apps")
		_ = descendants
		k.Node.ApplicationStopForce(app.name)
		k.Node.ApplicationUnload(app.name)
	}
}

// c10failedStart: the fault point "during start-up". Somewhere inside a random tree the start of a child fails (its
// Init returns an error) after earlier siblings — whole subtrees — have been started. The owner's own start then
// fails, and so does every start above it, up to the root: node.Spawn returns the error. Nothing that was started on
// the way may keep running.
func c10failedStart(c *Ctx) {
	r := c.R
	k, err := NewK4("c10f")
	if err != nil {
		r.Disagree("c10.node", err.Error(), nil)
		return
	}
	defer k.Stop()
	n := c.N(60, 2000)
	for it := 0; it < n; it++ {
		l := &c10log{}
		var spec *c10spec
		var inner []*c10spec
		for try := 0; try < 20 && len(inner) == 0; try++ {
			spec = genC10Spec(c.Rng, 3)
			var walk func(s *c10spec)
			walk = func(s *c10spec) {
				if (s.Kind == "sup" || s.Kind == "parent") && len(s.Children) > 0 {
					inner = append(inner, s)
				}
				if s.Kind != "pool" {
					for _, ch := range s.Children {
						walk(ch)
					}
				}
			}
			walk(spec)
		}
		if len(inner) == 0 {
			continue
		}
		at := inner[c.Rng.Intn(len(inner))]
		pos := 1 + c.Rng.Intn(len(at.Children))
		at.Children = append(at.Children[:pos:pos], append([]*c10spec{{Kind: "failleaf"}}, at.Children[pos:]...)...)
		_, err := k.Node.Spawn(c10factory(l, spec), gen.ProcessOptions{})
		if err == nil {
			r.Count("failed-start.inconclusive-started")
			continue
		}
		c10settle(k, l)
		var started []gen.PID
		for _, e := range l.snapshot() {
			if e.kind == "spawn" {
				started = append(started, e.pid)
			}
		}
		// the exit signals are on their way: wait for the processes to go, the verdict is about what stays
		waitUntil(5*time.Second, func() bool {
			for _, p := range started {
				if _, e := k.Node.ProcessInfo(p); e == nil {
					return false
				}
			}
			return true
		})
		left := 0
		var first gen.PID
		for _, p := range started {
			if _, e := k.Node.ProcessInfo(p); e == nil {
				if left == 0 {
					first = p
				}
				left++
			}
		}
		b, _ := json.Marshal(spec)
		r.Case("failed-start/"+string(b), len(started) > 1)
		r.Count("failed-start.trees")
		r.CountN("failed-start.processes-started-before-the-failure", len(started))
		if left > 0 {
			r.Violation("C10/orphan-after-failed-start", fmt.Sprintf("the start of the tree failed (%v) after %d processes had been started; %d of them are still running 5 s later (first %s)", err, len(started), left, first),
				map[string]interface{}{"tree": spec, "how": "node.Spawn of the root; the child marked failleaf returns an error from Init"})
			for _, p := range started {
				k.Node.Kill(p)
			}
		}
	}
}

/-
Model of the frame builders and of the header part of the receive cases, driven by the layout
tables extracted from the source (Generated/Proto.lean):

  net/proto/connection.go  SendPID … CallAlias, SendTerminate*, sendAny   (writers: `buf.Allocate(n)`,
        `buf.B[i] = x`, `buf.B[16] |= 128`, `binary.BigEndian.PutUintN(buf.B[a:b], x)`, `copy(buf.B[a:], bname)`,
        then the EDF payload appended)
  net/proto/connection.go  handleRecvQueue, `switch buf.B[7]`             (readers: `buf.Len() < guard`,
        `binary.BigEndian.UintN(buf.B[a:b])`, `buf.B[i] & mask`, name slice, `edf.Decode(buf.B[off:])`)

`encode` executes a kind's write table, `parse` its read table; nothing about a particular frame
kind is written down here — offsets, widths, names, guards all come from `Generated.Proto.kinds`.
Core Lean only; no proofs here.
-/
import ErgoVerif.Generated.Proto
namespace ErgoVerif.Frame
open ErgoVerif.Generated.Proto

abbrev Bytes := List UInt8

/-- `binary.BigEndian.PutUintN` / `byte(x)`: the low `w` bytes of `n`, most significant first -/
def beBytes : Nat → Nat → Bytes
  | 0, _ => []
  | w+1, n => UInt8.ofNat (n / 256 ^ w) :: beBytes w n

/-- `binary.BigEndian.UintN` -/
def beVal (bs : Bytes) : Nat := bs.foldl (fun acc b => acc * 256 + b.toNat) 0

/-- `copy(b[off:], bs)` for a destination that is long enough -/
def put (b : Bytes) (off : Nat) (bs : Bytes) : Bytes :=
  b.take off ++ bs ++ b.drop (off + bs.length)

/-- `b[off] |= m` -/
def orAt (b : Bytes) (off : Nat) (m : Nat) : Bytes :=
  match b[off]? with
  | none => b
  | some x => put b off [UInt8.ofNat (x.toNat ||| m)]

/-- values of the named header fields (from.ID, to.ID, options.Priority, options.Ref.ID[0], …) -/
abbrev Vals := String → Nat

/-- what a writer is asked to send -/
structure Msg where
  vals      : Vals
  important : Bool      -- options.ImportantDelivery
  name      : Bytes     -- inline name (bname); ignored by kinds without one
  payload   : Bytes     -- EDF encoding of the message / reason

/-- is a conditional write performed?  "" = always, "important" = options.ImportantDelivery,
    "switch" = the error-code byte of SendResponseError (exactly one of the switch arms runs) -/
def condOn (m : Msg) (c : String) : Bool :=
  c = "" || (c = "important" && m.important) || c = "switch"

/-- value written for a field name: the fixed ones come from the frame itself -/
def fieldVal (k : Kind) (m : Msg) (total : Nat) (n : String) : Nat :=
  if n = "magic" then protoMagic
  else if n = "version" then protoVersion
  else if n = "len" then total
  else if n = "type" then k.typ
  else if n = "name.len" then m.name.length
  else m.vals n

/-- one header write of the table -/
def applyWrite (k : Kind) (m : Msg) (total : Nat) (b : Bytes) (f : Fld) : Bytes :=
  if !condOn m f.cond then b
  else if f.mask ≠ 0 then orAt b f.off f.mask
  else if f.width = 0 then put b f.off m.name
  else put b f.off (beBytes f.width (fieldVal k m total f.name))

/-- length of the header part: `buf.Allocate(alloc [+ len(bname)])` -/
def hdrLen (k : Kind) (m : Msg) : Nat := k.alloc + (if k.inlineName then m.name.length else 0)

/-- the frame a writer method produces (before send(): no compression envelope) -/
def encode (k : Kind) (m : Msg) : Bytes :=
  let total := hdrLen k m + m.payload.length
  let hdr := k.writes.foldl (applyWrite k m total) (List.replicate (hdrLen k m) 0)
  hdr ++ m.payload

/-- one header read of the table: the value the receive case extracts -/
def readFld (b : Bytes) (f : Fld) : Nat :=
  let x := beVal ((b.drop f.off).take f.width)
  if f.mask = 0 then x else x &&& f.mask

/-- what a receive case hands to the Route* call -/
structure Parsed where
  fields  : List (String × Nat)   -- (destination, value) for every fixed-width read of the table
  name    : Bytes
  payload : Bytes
deriving Repr, DecidableEq

/-- outcome of a receive case on one frame (Go's partial operations explicit) -/
inductive HRes
  | ok (p : Parsed)
  | dropped            -- "malformed message (too small …)": logged, frame ignored
  | recovered          -- index/slice panic inside handleRecvQueue: recovered there, connection terminated
deriving Repr, DecidableEq

/-- the header part of a receive case.  Reads of fixed fields beyond the frame length do not
    panic in Go as long as they stay inside the buffer's capacity (≥ 4096) — they return stale
    bytes; the slice `buf.B[off:]` with `off > len` and the index `buf.B[i]` with `i ≥ len` do panic. -/
def parse (k : Kind) (f : Bytes) : HRes :=
  if f.length < k.guard then .dropped
  else if k.guard2 ≠ 0 ∧ f.length < k.guard2 then .dropped
  else
    let fixed := k.reads.filter (fun r => r.width ≠ 0)
    if k.payloadName then
      -- l := int(buf.B[guardName-1]); if buf.Len() < guardName+l {drop}; name = buf.B[g : g+l]; data = buf.B[g+l:]
      match f[k.guardName - 1]? with
      | none => .recovered
      | some lb =>
        let l := lb.toNat
        if f.length < k.guardName + l then .dropped
        else .ok ⟨fixed.map (fun r => (r.name, readFld f r)), (f.drop k.guardName).take l, f.drop (k.guardName + l)⟩
    else if f.length < k.payloadOff then .recovered
    else .ok ⟨fixed.map (fun r => (r.name, readFld f r)), [], f.drop k.payloadOff⟩

/-- the frame kind with a given message-type byte -/
def kindOf (t : Nat) : Option Kind := kinds.find? (fun k => k.typ = t)

/-- kinds that have both a writer method and a receive case with header fields -/
def wireKinds : List Kind := kinds.filter (fun k => k.writer ≠ "" && k.recv)

/-! ### layout agreement (decidable, evaluated over the generated tables) -/

def fstop (f : Fld) : Nat := f.off + f.width

/-- plain (unmasked, fixed-width) writes -/
def plainWrites (k : Kind) : List Fld := k.writes.filter (fun w => w.mask = 0 && w.width ≠ 0)

def disjoint (a b : Fld) : Bool := fstop a ≤ b.off || fstop b ≤ a.off

/-- pairwise disjointness of a list of fields, except that the arms of a `switch` may write the same place -/
def pairwiseDisjoint : List Fld → Bool
  | [] => true
  | a :: rest => rest.all (fun b => disjoint a b ||
                     (a.cond = "switch" && b.cond = "switch" && a.off = b.off && a.width = b.width && a.name = b.name))
                 && pairwiseDisjoint rest

/-- a read is matched by a write of the same field at the same place -/
def readMatched (k : Kind) (r : Fld) : Bool :=
  if r.width = 0 then k.writes.any (fun w => w.width = 0 && w.off = r.off && r.name = "name" && w.name = "name")
  else if r.mask = 0 then
    r.name ≠ "important" &&    -- `active`/`expected` treat that name as the flag
    (plainWrites k).any (fun w => w.name = r.name && w.off = r.off && w.width = r.width) &&
    k.writes.all (fun w => w.mask = 0 || disjoint r ⟨"", w.off, 1, 0, ""⟩)   -- no flag is OR-ed into it
  else if r.name = "important" then
    r.width = 1 && r.mask < 256 &&
    k.writes.any (fun w => w.mask = r.mask && w.off = r.off && w.cond = "important") &&
    -- any other flag OR-ed into that byte has a disjoint mask
    k.writes.all (fun w => w.mask = 0 || w.off ≠ r.off || (w.mask = r.mask && w.cond = "important") || w.mask &&& r.mask = 0) &&
    -- the flag is OR-ed in after the byte has been written: no plain write touches that byte from the flag write on
    (k.writes.dropWhile (fun w => !(w.mask = r.mask && w.off = r.off && w.cond = "important"))).all
      (fun p => p.mask ≠ 0 || p.width = 0 || disjoint p ⟨"", r.off, 1, 0, ""⟩)
  else
    -- masked read of a plain field (priority & 3): the only other write at that place is the flag with a disjoint mask
    (plainWrites k).any (fun w => w.name = r.name && w.off = r.off && w.width = 1 && r.width = 1) &&
    k.writes.all (fun w => w.mask = 0 || (w.off = r.off → w.mask &&& r.mask = 0))

/-- the layout conditions under which `parse k (encode k m)` returns what was sent -/
def LayoutOK (k : Kind) : Bool :=
  pairwiseDisjoint (plainWrites k) &&
  (plainWrites k).all (fun w => fstop w ≤ k.alloc) &&
  k.writes.all (fun w => w.mask = 0 || (w.off < k.alloc &&
      -- a flag is OR-ed into a byte written before it, and only into one-byte plain fields
      (plainWrites k).all (fun p => disjoint p ⟨"", w.off, 1, 0, ""⟩ || (p.off = w.off && p.width = 1)))) &&
  k.reads.all (readMatched k) &&
  -- the name bytes are only written by kinds with an inline name, right behind the fixed part
  k.writes.all (fun w => w.width ≠ 0 || w.mask ≠ 0 || (k.inlineName && w.off = k.alloc)) &&
  k.payloadOff = k.alloc &&
  k.payloadName = k.inlineName &&
  (if k.inlineName then
     k.guardName = k.alloc &&
     k.writes.any (fun w => w.name = "name.len" && w.off + 1 = k.alloc && w.width = 1 && w.mask = 0 && w.cond = "") &&
     k.writes.any (fun w => w.name = "name" && w.off = k.alloc && w.width = 0 && w.mask = 0 && w.cond = "") &&
     k.reads.any (fun r => r.name = "name.len" && r.off + 1 = k.alloc && r.width = 1 && r.mask = 0)
   else k.guardName = 0) &&
  k.guard2 ≤ k.alloc + 1 &&
  k.writes.any (fun w => w.name = "type" && w.off = 7 && w.width = 1) &&
  k.writes.any (fun w => w.name = "len" && w.off = 2 && w.width = 4) &&
  k.writes.any (fun w => w.name = "magic" && w.off = 0 && w.width = 1) &&
  k.writes.any (fun w => w.name = "version" && w.off = 1 && w.width = 1)

/-- shortest inline name for which a frame of this kind with a one-byte payload passes the
    first length guard of its receive case (0 for all kinds but one, see Props/C12) -/
def minName (k : Kind) : Nat := k.guard - (k.alloc + 1)

/-- a message a writer can be asked to send: every field value fits its width, the priority is
    one of the defined ones (the writer just casts it: `byte(options.Priority)`), the name fits one length byte -/
def Msg.fits (k : Kind) (m : Msg) : Prop :=
  (∀ w ∈ plainWrites k, fieldVal k m (hdrLen k m + m.payload.length) w.name < 256 ^ w.width) ∧
  (∀ w ∈ k.writes, w.mask ≠ 0 → ∀ p ∈ plainWrites k, p.off = w.off →
      fieldVal k m (hdrLen k m + m.payload.length) p.name &&& w.mask = 0) ∧
  m.name.length < 256 ∧ 1 ≤ m.payload.length ∧
  k.guard ≤ hdrLen k m + m.payload.length      -- the frame passes the first length guard (see `minName`)

/-- the value the reader should obtain for a read entry -/
def expected (k : Kind) (m : Msg) (r : Fld) : Nat :=
  let v := fieldVal k m (hdrLen k m + m.payload.length) r.name
  if r.mask = 0 then v
  else if r.name = "important" then (if m.important then r.mask else 0)
  else v &&& r.mask

/-- is the place a read looks at actually written for this message?  (A conditional write that is
    skipped leaves whatever the pooled buffer contained: `Allocate` does not clear.)  The important
    flag itself is always meaningful: it must read as "not set" for an ordinary message. -/
def active (k : Kind) (m : Msg) (r : Fld) : Bool :=
  r.name = "important" ||
  (plainWrites k).any (fun w => w.name = r.name && w.off = r.off && w.width = r.width && condOn m w.cond)

/-- the (destination, value) pairs the receive case must come up with -/
def expectedFields (k : Kind) (m : Msg) : List (String × Nat) :=
  ((k.reads.filter (fun r => r.width ≠ 0)).filter (active k m)).map (fun r => (r.name, expected k m r))

end ErgoVerif.Frame

import ErgoVerif.Lemmas.Mailbox
import ErgoVerif.Lemmas.Mpsc
import ErgoVerif.Generated.Prio
/-!
# C03 — mailbox ordering: per-sender FIFO within a priority, strict priority classes

`Model/Mailbox.lean`: four FIFO queues, `pick` = one round of the dequeue loop of ProcessRun.
`Model/Mpsc.lean`: the lock-free queue (total order of pushes = order of the head swaps).
`Generated/Prio.lean`: priority → queue of every delivery function, queue of exit/inspect, priority of down
notifications, polling order of every behaviour — regenerated from the source on every run.
-/
namespace ErgoVerif.Props.C03
open ErgoVerif ErgoVerif.Mailbox

/-- **Same queue for the same priority, whichever addressing mode**: every local delivery function (send / call by
pid, name, alias; events; self-send; Forward) maps Normal→Main, High→System, Max→Urgent; exit signals and inspect
requests go to Urgent; down notifications are sent with High priority (→ System); every behaviour polls
Urgent, System, Main, Log in this order. -/
theorem C03_same_queue :
    (∀ e ∈ Gen.Prio.prioMaps, e.2 = (queueOfPrio 0, queueOfPrio 1, queueOfPrio 2)) ∧
    Gen.Prio.prioMaps.length = 9 ∧
    (∀ e ∈ Gen.Prio.directPush, e.2 = 0) ∧ Gen.Prio.directPush.length = 2 ∧
    (∀ p ∈ Gen.Prio.downPriority, queueOfPrio p = 1) ∧ Gen.Prio.downPriority.length = 5 ∧
    (∀ e ∈ Gen.Prio.pollOrder, e.2 = [0, 1, 2, 3]) ∧ Gen.Prio.pollOrder.length = 4 := by decide

/-- **Strict priority classes.** Whenever a process picks its next message it takes the oldest message (head of
the FIFO) of the first non-empty queue in polling order: every queue polled earlier is empty at that moment. -/
theorem C03_pick (mb : MB) (m : Msg) (mb' : MB) (h : pick mb [0, 1, 2, 3] = some (m, mb')) :
    ∃ k rest, k ∈ [0, 1, 2, 3] ∧ mb.q k = m :: rest ∧ (∀ j, j < k → mb.q j = []) ∧
      mb'.q k = rest ∧ ∀ j, j ≠ k → mb'.q j = mb.q j := by
  obtain ⟨pre, k, post, rest, ho, hpre, hk, hk', hoth⟩ := pick_spec mb _ m mb' h
  refine ⟨k, rest, by rw [ho]; simp, hk, ?_, hk', hoth⟩
  intro j hj
  apply hpre
  -- the queues before k in [0,1,2,3] are exactly those with a smaller code
  have hlen : pre.length ≤ 3 := by
    have := congrArg List.length ho; simp at this; omega
  match pre, ho with
  | [], ho => simp at ho; omega
  | [a], ho => simp at ho; obtain ⟨rfl, rfl, _⟩ := ho; simp; omega
  | [a, b], ho => simp at ho; obtain ⟨rfl, rfl, rfl, _⟩ := ho; simp; omega
  | [a, b, c], ho => simp at ho; obtain ⟨rfl, rfl, rfl, rfl, _⟩ := ho; simp; omega
  | _ :: _ :: _ :: _ :: _, _ => simp at hlen

/-- and it refuses to pick only when all four queues are empty -/
theorem C03_pick_none (mb : MB) (h : pick mb [0, 1, 2, 3] = none) : ∀ k, k < 4 → mb.q k = [] := by
  intro k hk
  apply pick_none mb _ h
  simp; omega

/-- **Per-sender FIFO within a priority.** For every interleaving of pushes (by any senders, any priorities) and
picks: the messages handled so far that one sender sent into one queue are a prefix, in sending order, of what
that sender sent into that queue — whichever addressing mode was used (C03_same_queue). -/
theorem C03_fifo (ops : List Op) (sender k : Nat) :
    let s := runOps [0, 1, 2, 3] St.init ops
    (s.handled.filter (fun m => m.sender = sender ∧ m.queue = k)) <+:
      (s.pushed.filter (fun m => m.sender = sender ∧ m.queue = k)) := by
  intro s
  have hq := (run_inv [0, 1, 2, 3] ops St.init wf_init qinv_init).2 k
  have hpre : s.handled.filter (fun m => m.queue = k) <+: s.pushed.filter (fun m => m.queue = k) :=
    ⟨_, hq⟩
  have := hpre.filter (fun m => decide (m.sender = sender))
  simpa [List.filter_filter, and_comm] using this

/-- nothing is handled twice or invented: handled-from-k plus still-queued-in-k is exactly pushed-into-k -/
theorem C03_conservation (ops : List Op) (k : Nat) :
    let s := runOps [0, 1, 2, 3] St.init ops
    s.handled.filter (fun m => m.queue = k) ++ s.mb.q k = s.pushed.filter (fun m => m.queue = k) :=
  (run_inv [0, 1, 2, 3] ops St.init wf_init qinv_init).2 k

open ErgoVerif.Mpsc in
/-- **Pushes of one producer keep program order** (lib/mpsc.go): in the total order fixed by the atomic head swaps
the items of one producer appear with increasing sequence numbers, for every interleaving of swaps, links and pops;
and the single consumer pops a prefix of that order. -/
theorem C03_program_order (limit : Option Nat) (ops : List Mpsc.Op) (q : Q) (got : List Item)
    (hr : runQ (Q.init limit) ops = some (q, got)) :
    got <+: q.order ∧
    ∀ i j (hi : i < q.cells.length) (hj : j < q.cells.length), i < j →
      q.cells[i].item.producer = q.cells[j].item.producer → q.cells[i].item.seq < q.cells[j].item.seq := by
  obtain ⟨hinv, hrec, _⟩ := runQ_spec ops (Q.init limit) q got (qinv_init limit) hr
  have hgot : got = q.received := by rw [hrec]; simp [Q.received, Q.init]
  exact ⟨hgot ▸ received_prefix q, hinv.sorted⟩

/-- non-vacuity: a mixed history; max-priority overtakes, same-priority keeps order -/
example :
    let m (s p n : Nat) : Msg := ⟨s, p, queueOfPrio p, n⟩
    (runOps [0, 1, 2, 3] St.init
      [.push (m 1 0 0), .push (m 1 0 1), .push (m 2 2 0), .push (m 1 1 0), .pick, .pick, .pick, .pick]).handled.map
      (fun x => (x.sender, x.prio, x.seq)) = [(2, 2, 0), (1, 1, 0), (1, 0, 0), (1, 0, 1)] := by decide

end ErgoVerif.Props.C03

import ErgoVerif.Model.Window
/-
Shared vocabulary of the three supervisor state-machine models
(act/supervisor.go: supChildSpec, supAction, supActionType, the Err* values).

* pids are `Nat` (0 = the empty `gen.PID{}`), spec names are `Nat` (0 = the empty atom ""),
* termination reasons are a small inductive; `Option Reason` is a Go `error` (none = nil),
* `Args` is abstracted to one `Nat` (0 = no args),
* a Go `map[gen.PID]bool` used as a set is a duplicate-free `List Nat` (order irrelevant; the driver
  prints it sorted), `delete` = `sdel`, `m[k] = true` = `sins`.
-/
namespace ErgoVerif.Sup

inductive Reason where
  | normal | shutdown | kill | panic | other (n : Nat) | restartsExceeded
  deriving DecidableEq, Repr, Inhabited

/-- `reason == gen.TerminateReasonNormal || reason == gen.TerminateReasonShutdown` -/
def Reason.quiet : Reason → Bool
  | .normal => true
  | .shutdown => true
  | _ => false

/-- act.SupervisorStrategy: Transient = 0, Temporary = 1, Permanent = 2 -/
inductive Strategy where
  | transient | temporary | permanent
  deriving DecidableEq, Repr, Inhabited

/-- act.SupervisorRestart (Period already multiplied by 1000, as `supCheckRestartIntensity` does) -/
structure Restart where
  strategy : Strategy := .transient
  intensity : Nat := 5
  periodMs : Int := 5000
  keepOrder : Bool := false
  deriving Repr, Inhabited

/-- act.supChildSpec (with the embedded SupervisorChildSpec reduced to Name, Significant, Args) -/
structure ChildSpec where
  name : Nat := 0
  significant : Bool := false
  register : Bool := false
  disabled : Bool := false
  i : Nat := 0
  pid : Nat := 0
  args : Nat := 0
  deriving DecidableEq, Repr, Inhabited

/-- act.supActionType (supActionTerminateChildrenStrategy = 3 is never produced by the code) -/
inductive Do where
  | nothing | start | terminateChildren | terminate
  deriving DecidableEq, Repr, Inhabited

/-- act.supAction -/
structure Action where
  act : Do := .nothing
  spec : ChildSpec := {}
  terminate : List Nat := []
  reason : Option Reason := none
  deriving DecidableEq, Repr, Inhabited

inductive Err where
  | strategyActive | duplicate | disabled | running | unknown | invalid | shuttingDown
  deriving DecidableEq, Repr, Inhabited

/-- result of one method of `supBehavior`: an action, an error, or a Go panic -/
inductive Res where
  | ok (a : Action)
  | err (e : Err)
  | panic
  deriving DecidableEq, Repr, Inhabited

/-- what `SupervisorSpec` contributes to `init` -/
structure SupSpec where
  children : List (Nat × Bool) := []     -- (Name, Significant)
  rest : Bool := false                    -- Type == SupervisorTypeRestForOne
  restart : Restart := {}
  disableAutoShutdown : Bool := false
  deriving Repr, Inhabited

/-! ### sets of pids (Go maps used as sets) -/

def sdel (p : Nat) (l : List Nat) : List Nat := l.filter (· ≠ p)
def sins (p : Nat) (l : List Nat) : List Nat := if p ∈ l then l else p :: l
def mkSet (l : List Nat) : List Nat := l.foldr sins []

/-! ### the spec slice -/

/-- the `for _, c := range spec.Children { cs.i = s.i; s.i++; append }` loop -/
def mkSpecs (reg : Bool) : Nat → List (Nat × Bool) → List ChildSpec
  | _, [] => []
  | k, (n, sg) :: r => { name := n, significant := sg, register := reg, i := k } :: mkSpecs reg (k + 1) r

/-- `validateChildSpec`: the name must not be empty (the factory is supplied by the export) -/
def validName (n : Nat) : Bool := n != 0

/-- first spec with the given name (`for _, cs := range s.spec { if cs.Name != name {continue} ...`) -/
def findName (n : Nat) : List ChildSpec → Option ChildSpec
  | [] => none
  | c :: r => if c.name = n then some c else findName n r

/-- apply `f` to the first spec with the given name -/
def updName (n : Nat) (f : ChildSpec → ChildSpec) : List ChildSpec → List ChildSpec
  | [] => []
  | c :: r => if c.name = n then f c :: r else c :: updName n f r

/-- OFO/ARFO `childStarted`: `for i := cs.i+1; i < len(s.spec); i++` — first spec at index ≥ `from`
that is neither running nor disabled; the list passed is the whole slice, `k` the index of its head -/
def findStart (frm : Nat) : Nat → List ChildSpec → Option (Nat × ChildSpec)
  | _, [] => none
  | k, c :: r =>
    if k < frm then findStart frm (k + 1) r
    else if c.pid ≠ 0 then findStart frm (k + 1) r
    else if c.disabled then findStart frm (k + 1) r
    else some (k, c)

/-- result of the `for _, cs := range s.spec` loop at the head of OFO/ARFO `childTerminated` -/
structure Scan where
  spec : List ChildSpec := []
  found : Option (Nat × ChildSpec) := none   -- (specI, *spec) of the LAST match, pid already cleared
  running : List Nat := []                    -- runningChildren, in spec order
  deriving Repr, Inhabited

def scan (name pid : Nat) : Nat → List ChildSpec → Scan
  | _, [] => {}
  | k, c :: cs =>
    let r := scan name pid (k + 1) cs
    if c.name = name ∨ c.pid = pid then
      let c' := { c with pid := 0 }
      { spec := c' :: r.spec, found := match r.found with | some x => some x | none => some (k, c'), running := r.running }
    else if c.pid = 0 then { r with spec := c :: r.spec }
    else { spec := c :: r.spec, found := r.found, running := c.pid :: r.running }

/-- pids of all specs that have one, in spec order -/
def runningPids (l : List ChildSpec) : List Nat := (l.filter (·.pid ≠ 0)).map (·.pid)

end ErgoVerif.Sup

import ErgoVerif.Model.AppDeps
/-!
# C17 — dependencies are started first

Theorems about `Model/AppDeps.lean` (the recursion of node.ApplicationStart over `Depends.Applications`).
-/
namespace ErgoVerif.Props.C17Deps
open ErgoVerif ErgoVerif.AppDeps

/-- what one call may do to the state: nothing stops, the callback log only grows -/
def Grows (st st' : St) : Prop := (∀ x, x ∈ st.running → x ∈ st'.running) ∧ ∃ suf, st'.order = st.order ++ suf

theorem Grows.refl (st : St) : Grows st st := ⟨fun _ h => h, [], by simp⟩
theorem Grows.trans {a b c : St} (h1 : Grows a b) (h2 : Grows b c) : Grows a c := by
  obtain ⟨m1, s1, e1⟩ := h1
  obtain ⟨m2, s2, e2⟩ := h2
  exact ⟨fun x h => m2 x (m1 x h), s1 ++ s2, by rw [e2, e1, List.append_assoc]⟩

/-- specification of a start function: used for the recursive call inside the loop -/
def GoodStart (f : St → Nat → St × Res) : Prop :=
  ∀ st a, Grows st (f st a).1 ∧ (((f st a).2 = .ok ∨ (f st a).2 = .running) → a ∈ (f st a).1.running)

theorem startDeps_spec (f : St → Nat → St × Res) (hf : GoodStart f) : ∀ (ds : List Nat) (st : St),
    Grows st (startDeps f st ds).1 ∧ ((startDeps f st ds).2 = true → ∀ d ∈ ds, d ∈ (startDeps f st ds).1.running) := by
  intro ds
  induction ds with
  | nil => intro st; exact ⟨Grows.refl st, by intro _ d hd; cases hd⟩
  | cons d ds ih =>
    intro st
    simp only [startDeps]
    obtain ⟨hg, hin⟩ := hf st d
    split
    · rename_i hok
      obtain ⟨hg2, hall⟩ := ih (f st d).1
      refine ⟨hg.trans hg2, ?_⟩
      intro hres x hx
      rcases List.mem_cons.mp hx with rfl | hx'
      · exact hg2.1 _ (hin hok)
      · exact hall hres x hx'
    · exact ⟨hg, by intro h; cases h⟩

theorem startOwn_spec (sp : Spec) (st : St) (a : Nat) :
    Grows st (startOwn sp st a).1 ∧
    (((startOwn sp st a).2 = .ok ∨ (startOwn sp st a).2 = .running) → a ∈ (startOwn sp st a).1.running) ∧
    ((startOwn sp st a).2 = .ok → a ∉ st.running ∧ (startOwn sp st a).1.order = st.order ++ [a]) ∧
    ((startOwn sp st a).2 ≠ .ok → (startOwn sp st a).1 = st) := by
  unfold startOwn
  split
  · rename_i h
    exact ⟨Grows.refl st, fun _ => h, by intro h'; simp at h', fun _ => rfl⟩
  · split
    · exact ⟨Grows.refl st, by intro h'; simp at h', by intro h'; simp at h', fun _ => rfl⟩
    · rename_i hn _
      exact ⟨⟨fun x h => List.mem_cons_of_mem _ h, [a], rfl⟩, fun _ => by simp, fun _ => ⟨hn, rfl⟩, fun h => absurd rfl h⟩

theorem start_good (sp : Spec) : ∀ fuel, GoodStart (start sp fuel) := by
  intro fuel
  induction fuel with
  | zero => intro st a; exact ⟨Grows.refl st, by intro h; rcases h with h | h <;> cases h⟩
  | succ n ih =>
    intro st a
    simp only [start]
    split
    · exact ⟨Grows.refl st, by intro h; rcases h with h | h <;> cases h⟩
    · obtain ⟨hg, _⟩ := startDeps_spec (start sp n) ih (sp.depsOf a) st
      split
      · obtain ⟨hg2, hin, _, _⟩ := startOwn_spec sp (startDeps (start sp n) st (sp.depsOf a)).1 a
        exact ⟨hg.trans hg2, hin⟩
      · exact ⟨hg, by intro h; rcases h with h | h <;> cases h⟩

/-- **Dependencies first.** Whenever ApplicationStart reports success (or "already running"), every application the
started one depends on is running, it is running itself, nothing that was running has stopped — for every
dependency graph, every set of applications running before and every set of failing ones. -/
theorem C17_deps_running (sp : Spec) (fuel : Nat) (st : St) (a : Nat) :
    let r := start sp fuel st a
    (r.2 = .ok ∨ r.2 = .running) →
    a ∈ r.1.running ∧ (∀ d ∈ sp.depsOf a, d ∈ r.1.running) ∧ (∀ x ∈ st.running, x ∈ r.1.running) := by
  intro r hr
  have hgood := start_good sp fuel st a
  refine ⟨hgood.2 hr, ?_, fun x hx => hgood.1.1 x hx⟩
  cases fuel with
  | zero => rcases hr with h | h <;> cases h
  | succ n =>
    simp only [r, start] at hr ⊢
    split at hr
    · rcases hr with h | h <;> cases h
    · split at hr
      · rename_i _ hd
        rw [if_neg (by assumption), if_pos hd]
        obtain ⟨_, hall⟩ := startDeps_spec (start sp n) (start_good sp n) (sp.depsOf a) st
        obtain ⟨hg2, _, _, _⟩ := startOwn_spec sp (startDeps (start sp n) st (sp.depsOf a)).1 a
        intro d hd'
        exact hg2.1 _ (hall hd d hd')
      · rcases hr with h | h <;> cases h

/-- **Order of the Start callbacks.** On success the application's own Start callback is the last one of the call:
every dependency started by this call had its callback before. -/
theorem C17_deps_order (sp : Spec) (fuel : Nat) (st : St) (a : Nat) :
    let r := start sp fuel st a
    r.2 = .ok → ∃ mid, r.1.order = st.order ++ mid ++ [a] ∧ a ∉ st.running := by
  intro r hr
  cases fuel with
  | zero => cases hr
  | succ n =>
    simp only [r, start] at hr ⊢
    split at hr
    · cases hr
    · split at hr
      · rename_i _ hd
        rw [if_neg (by assumption), if_pos hd]
        obtain ⟨hg, _⟩ := startDeps_spec (start sp n) (start_good sp n) (sp.depsOf a) st
        obtain ⟨_, _, hok, _⟩ := startOwn_spec sp (startDeps (start sp n) st (sp.depsOf a)).1 a
        obtain ⟨hn, ho⟩ := hok hr
        obtain ⟨mid, hmid⟩ := hg.2
        exact ⟨mid, by rw [ho, hmid], fun h => hn (hg.1 _ h)⟩
      · cases hr

/-- **A failed start does not start the application**: when the call reports anything but success (unknown or failing
dependency, its own start failing, already running), the application's own start changed nothing — the state is
exactly what the loop over the dependencies left, and its Start callback did not run after that loop. -/
theorem C17_deps_failure (sp : Spec) (n : Nat) (st : St) (a : Nat) :
    let r := start sp (n + 1) st a
    r.2 ≠ .ok → sp.isLoaded a = true → r.1 = (startDeps (start sp n) st (sp.depsOf a)).1 := by
  intro r hr hl
  simp only [r, start, hl] at hr ⊢
  simp only [Bool.not_true, Bool.false_eq_true, if_false] at hr ⊢
  split
  · rename_i hd
    rw [if_pos hd] at hr
    exact (startOwn_spec sp _ a).2.2.2 hr
  · rfl

/-- an application that is not loaded is refused and nothing happens -/
theorem C17_deps_unknown (sp : Spec) (n : Nat) (st : St) (a : Nat) (h : sp.isLoaded a = false) :
    start sp (n + 1) st a = (st, .unknown) := by
  simp [start, h]

/-- non-vacuity: the diamond `web → [db, cache]`, `cache → [db]`, db already running: one call starts cache, then web -/
example :
    let sp : Spec := { loaded := [true, true, true], deps := [[], [0], [0, 1]], fails := [false, false, false] }
    let r := start sp 4 { running := [0], order := [0] } 2
    r.2 = .ok ∧ r.1.order = [0, 1, 2] ∧ r.1.running = [2, 1, 0] := by decide

/-- a failing dependency aborts with `depends` and the application's own Start never runs -/
example :
    let sp : Spec := { loaded := [true, true, true], deps := [[], [0], [0, 1]], fails := [false, true, false] }
    let r := start sp 4 { running := [], order := [] } 2
    r.2 = .depends ∧ r.1.order = [0] := by decide

end ErgoVerif.Props.C17Deps

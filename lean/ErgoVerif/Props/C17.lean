import ErgoVerif.Model.App
import ErgoVerif.Generated.App
/-!
# C17 — application lifecycle and start modes

`Model/App.lean` mirrors node/application.go at call granularity. `rr` (= `Gen.App.startResetsReason`,
regenerated from the source) says whether `start` clears the reason left by the previous run.
-/
namespace ErgoVerif.Props.C17
open ErgoVerif.App

abbrev rr : Bool := Gen.App.startResetsReason

def Inv (a : App) : Prop :=
  (a.state = .loaded → a.group = []) ∧
  (∀ e ∈ a.termCbs, 1 ≤ e.1 ∧ e.1 ≤ a.run) ∧
  (a.state ≠ .loaded → ∀ e ∈ a.termCbs, e.1 < a.run) ∧
  (a.termCbs.map (·.1)).Nodup ∧
  a.startCbs = (List.range a.run).map (· + 1) ∧
  (a.state ≠ .loaded → a.run ≥ 1)

theorem inv_init : Inv App.init := by simp [Inv, App.init]

theorem afterRule_fields (a : App) (r : Reason) :
    (afterRule a r).termCbs = a.termCbs ∧ (afterRule a r).run = a.run ∧ (afterRule a r).startCbs = a.startCbs ∧
    (afterRule a r).group = a.group ∧ (a.state ≠ .loaded → (afterRule a r).state ≠ .loaded) := by
  unfold afterRule
  split
  · split <;> simp
  · simp

theorem finish_inv (a : App) (h2 : ∀ e ∈ a.termCbs, 1 ≤ e.1 ∧ e.1 ≤ a.run)
    (h3 : ∀ e ∈ a.termCbs, e.1 < a.run) (h4 : (a.termCbs.map (·.1)).Nodup)
    (h5 : a.startCbs = (List.range a.run).map (· + 1)) (h6 : a.run ≥ 1) (hnl : a.state ≠ .loaded) : Inv (finish a) := by
  by_cases hg : a.group ≠ []
  · have e : finish a = a := by unfold finish; rw [if_pos hg]
    rw [e]
    exact ⟨fun hl => absurd hl hnl, h2, fun _ => h3, h4, h5, fun _ => h6⟩
  · have hge : a.group = [] := by simpa using hg
    have e : finish a = { a with state := .loaded, reason := some (a.reason.getD Reason.normal),
                                 termCbs := a.termCbs ++ [(a.run, (a.reason.getD Reason.normal))] } := by
      unfold finish; rw [if_neg hg]; simp only [hnl, if_false]
    rw [e]
    refine ⟨fun _ => hge, ?_, fun hc => absurd rfl hc, ?_, h5, fun hc => absurd rfl hc⟩
    · intro e he
      simp only [List.mem_append, List.mem_singleton] at he
      rcases he with he | rfl
      · exact h2 e he
      · exact ⟨h6, Nat.le_refl _⟩
    · simp only [List.map_append, List.map_cons, List.map_nil]
      rw [List.nodup_append]
      refine ⟨h4, by simp, ?_⟩
      intro x hx y hy
      simp at hy; subst hy
      simp at hx
      obtain ⟨rr', hmem⟩ := hx
      have := h3 _ hmem
      simp at this
      omega

theorem terminate_inv (a : App) (i : Nat) (r : Reason) (h : Inv a) : Inv (terminate a i r) := by
  obtain ⟨h1, h2, h3, h4, h5, h6⟩ := h
  unfold terminate
  split
  · exact ⟨h1, h2, h3, h4, h5, h6⟩
  · rename_i hin
    have hin' : i ∈ a.group := by simpa using hin
    have hnl : a.state ≠ .loaded := by intro hl; rw [h1 hl] at hin'; simp at hin'
    obtain ⟨et, er, es, _, est⟩ := afterRule_fields { a with group := a.group.erase i } r
    simp only at et er es est
    apply finish_inv
    · rw [et, er]; exact h2
    · rw [et, er]; exact h3 hnl
    · rw [et]; exact h4
    · rw [es, er]; exact h5
    · rw [er]; exact h6 hnl
    · exact est hnl

theorem step_inv (b : Bool) (a : App) (o : Op) (h : Inv a) : Inv (step b a o).1 := by
  cases o with
  | memberExit i r => exact terminate_inv a i r h
  | stop force =>
    obtain ⟨h1, h2, h3, h4, h5, h6⟩ := h
    simp only [step]
    cases hs : a.state with
    | loaded => simp only; exact ⟨h1, h2, h3, h4, h5, h6⟩
    | stopping =>
      simp only
      split
      · exact ⟨by simp, h2, fun _ => h3 (by simp [hs]), h4, h5, fun _ => h6 (by simp [hs])⟩
      · exact ⟨h1, h2, h3, h4, h5, h6⟩
    | running =>
      simp only
      exact ⟨by simp, h2, fun _ => h3 (by simp [hs]), h4, h5, fun _ => h6 (by simp [hs])⟩
  | start mode n failAt =>
    obtain ⟨h1, h2, h3, h4, h5, h6⟩ := h
    simp only [step]
    cases hs : a.state with
    | running => simp only; exact ⟨h1, h2, h3, h4, h5, h6⟩
    | stopping => simp only; exact ⟨h1, h2, h3, h4, h5, h6⟩
    | loaded =>
      simp only
      have hst : Inv (started b a mode n) := by
        refine ⟨by simp [started], ?_, ?_, h4, ?_, by simp [started]⟩
        · intro e he; have := h2 e he; simp only [started]; omega
        · intro _ e he; have := h2 e he; simp only [started]; omega
        · simp only [started]; rw [h5, List.range_succ]; simp
      cases failAt with
      | none => exact hst
      | some k =>
        simp only
        split
        · exact ⟨by simp, h2, by simp, h4, h5, by simp⟩
        · exact hst

theorem run_inv (b : Bool) : ∀ (ops : List Op) (a : App), Inv a → Inv (runOps b a ops) := by
  intro ops
  induction ops with
  | nil => intro a h; exact h
  | cons o os ih => intro a h; exact ih _ (step_inv b a o h)

/-- **Callbacks once per run.** For every history of starts, member terminations and stop requests: Start is invoked
exactly once per successful start (run k ↔ k-th Start), Terminate at most once per run, never for a run that was not
started, and never while the application is still running or stopping. -/
theorem C17_callbacks_once (ops : List Op) :
    let a := runOps rr App.init ops
    (a.termCbs.map (·.1)).Nodup ∧ (∀ e ∈ a.termCbs, 1 ≤ e.1 ∧ e.1 ≤ a.run) ∧
    a.startCbs = (List.range a.run).map (· + 1) ∧
    (a.state ≠ .loaded → ∀ e ∈ a.termCbs, e.1 < a.run) := by
  intro a
  have h := run_inv rr ops App.init inv_init
  exact ⟨h.2.2.2.1, h.2.1, h.2.2.2.2.1, h.2.2.1⟩

/-- **Stopped means everything is down**: the state is back to `loaded` (the only state in which a stop request
reports success) only in configurations with no live member. -/
theorem C17_loaded_no_members (ops : List Op) :
    let a := runOps rr App.init ops
    a.state = .loaded → a.group = [] :=
  fun h => (run_inv rr ops App.init inv_init).1 h

theorem C17_stop_success (ops : List Op) (force : Bool) :
    let a := runOps rr App.init ops
    (step rr a (.stop force)).2 = .ok → a.state = .loaded ∧ a.group = [] := by
  intro a h
  have hi := run_inv rr ops App.init inv_init
  simp only [step] at h
  cases hs : a.state with
  | loaded => exact ⟨rfl, hi.1 hs⟩
  | running => simp [hs] at h
  | stopping => simp [hs] at h; split at h <;> simp at h

/-- **The mode rule.** A member termination in a running application starts the stop exactly under the mode's rule:
Permanent — always; Transient — iff the reason is abnormal; Temporary — never (it only ends when the last member is
gone). When it starts the stop, every remaining member is sent a shutdown and the cause is recorded. -/
theorem C17_mode_rule (a : App) (i : Nat) (r : Reason) (hrun : a.state = .running) (hin : i ∈ a.group)
    (hmore : a.group.erase i ≠ []) :
    let a' := terminate a i r
    let rule := modeRule a.mode r
    (rule = true → a'.state = .stopping ∧ a'.reason = some r ∧ a'.exitsSent = a.exitsSent ++ a.group.erase i) ∧
    (rule = false → a'.state = .running ∧ a'.reason = a.reason ∧ a'.exitsSent = a.exitsSent) ∧
    a'.group = a.group.erase i ∧ a'.termCbs = a.termCbs := by
  intro a' rule
  have hin' : ¬ (i ∉ a.group) := by simpa using hin
  simp only [a', terminate, hin', if_false]
  cases hm : modeRule a.mode r <;> simp_all [rule, afterRule, finish]

/-- **Last member gone.** When the last member terminates the application returns to `loaded` and Terminate is
invoked with the recorded cause, or `normal` when there is none. -/
theorem C17_last_member (a : App) (i : Nat) (r : Reason) (hnl : a.state ≠ .loaded) (hg : a.group = [i]) :
    let a' := terminate a i r
    a'.state = .loaded ∧ a'.group = [] ∧ ∃ rsn, a'.termCbs = a.termCbs ++ [(a.run, rsn)] := by
  intro a'
  simp only [a', terminate, hg]
  cases hm : modeRule a.mode r <;> cases hs : a.state <;> simp_all [afterRule, finish]

/-- a failed start leaves nothing behind: state `loaded`, no member, no Start callback -/
theorem C17_failed_start (a : App) (mode : Mode) (n k : Nat) (hl : a.state = .loaded) (hk : k < n) :
    let r := step rr a (.start mode n (some k))
    r.2 = .errSpawn ∧ r.1.state = .loaded ∧ r.1.group = [] ∧ r.1.startCbs = a.startCbs ∧ r.1.termCbs = a.termCbs := by
  simp [step, hl, hk]

/-- the full statement about the reason: a Temporary application whose members all end normally is terminated
with reason `normal`, whatever happened in earlier runs -/
def C17_reason_full (b : Bool) : Prop :=
  ∀ (ops : List Op) (n : Nat),
    let a := runOps b App.init ops
    a.state = .loaded → n ≥ 1 →
    let a' := runOps b (step b a (.start .temporary n none)).1 ((List.range n).map fun i => Op.memberExit i .normal)
    a'.termCbs.getLast? = some (a.run + 1, .normal)

/-- a Temporary application without recorded cause whose members all end normally: Terminate(normal), once -/
theorem temporary_all_normal (b : Bool) : ∀ (l : List Nat) (a : App), l ≠ [] → l.Nodup → a.group = l → a.state = .running →
    a.mode = .temporary → a.reason = none →
    (runOps b a (l.map fun i => Op.memberExit i .normal)).termCbs = a.termCbs ++ [(a.run, .normal)] := by
  intro l
  induction l with
  | nil => intro a h; exact absurd rfl h
  | cons i rest ih =>
    intro a _ hnd hg hs hm hr
    have hin : ¬ (i ∉ a.group) := by rw [hg]; simp
    have herase : a.group.erase i = rest := by rw [hg]; simp
    simp only [List.map_cons, runOps, step, terminate, hin, if_false, herase]
    have hrule : afterRule { a with group := rest } .normal = { a with group := rest } := by
      simp [afterRule, modeRule, hm]
    rw [hrule]
    by_cases hre : rest = []
    · subst hre
      simp [finish, hs, hr, runOps]
    · have hfin : finish { a with group := rest } = { a with group := rest } := by
        unfold finish; rw [if_pos (by simpa using hre)]
      rw [hfin]
      have := ih { a with group := rest } hre (List.nodup_cons.mp hnd).2 rfl hs hm hr
      simpa using this

/-- **Reason of a run.** With the reset in `start` (the code as it is now): a Temporary application whose members
all end normally is terminated with `normal`, whatever earlier runs ended with. -/
theorem C17_reason : C17_reason_full rr := by
  have hrr : rr = true := by decide
  rw [hrr]
  intro ops n a hl hn a'
  have hst : (step true a (.start .temporary n none)).1 = started true a .temporary n := by
    simp [step, hl]
  have := temporary_all_normal true (List.range n) (started true a .temporary n)
    (by intro h; have := congrArg List.length h; simp at this; omega) List.nodup_range rfl rfl rfl rfl
  show (runOps true (step true a (.start .temporary n none)).1 _).termCbs.getLast? = _
  rw [hst, this]
  simp [started]

/-- without the reset in `start` the previous run's reason is handed to the next run's Terminate (defect D6) -/
theorem C17_D6_before_fix : ¬ C17_reason_full false := by
  intro h
  have := h [.start .transient 1 none, .memberExit 0 (.crash 7)] 1 rfl (by decide)
  revert this; decide

/-- non-vacuity: permanent application, second member crashes, the first is shut down, Terminate(crash) once -/
example : (runOps true App.init [.start .permanent 2 none, .memberExit 1 (.crash 3), .memberExit 0 .shutdown]).termCbs
    = [(1, .crash 3)] := by decide

end ErgoVerif.Props.C17

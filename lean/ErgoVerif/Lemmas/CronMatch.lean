/-
The mask matcher (IsRunAt on compiled masks) agrees with the denotational matcher,
field by field and for a whole spec.
-/
import ErgoVerif.Lemmas.CronMask
namespace ErgoVerif.Cron
open ErgoVerif.Generated.Cron

/-! ### decoding one mask -/

theorem daysIn_le (y m : Nat) : daysIn y m ≤ 31 := by
  unfold daysIn
  split
  · split <;> omega
  · split <;> omega

theorem Kind.value_lt (k : Kind) (c : Civil) (hc : c.wf) : k.value c < 60 := by
  obtain ⟨h1, h2, h3, h4, h5, h6, h7⟩ := hc
  have := daysIn_le c.year c.month
  cases k <;> simp only [Kind.value, Civil.cronWd, Civil.dim] at * <;> (try split) <;> omega

/-- a mask carrying the type of field k tests the bit of k's civil value -/
theorem maskIsRunAt_bits (k : Kind) (cm : Nat) (c : Civil) (h : maskType cm = k.mask) :
    maskIsRunAt cm c = cm.testBit (k.value c) := by
  unfold maskIsRunAt
  simp only [h, bitSet_eq_testBit]
  cases k <;> simp [Kind.mask, Kind.desc, Kind.value, cronFieldMin, cronFieldHour, cronFieldDay, cronFieldMonth,
    cronFieldWeekDay, cronMaskTypeMin, cronMaskTypeHour, cronMaskTypeDay, cronMaskTypeMonth, cronMaskTypeWeekDay]

def Kind.isAnd : Kind → Bool
  | .minute | .hour | .month => true
  | _ => false

theorem isAndType_of_type (k : Kind) (cm : Nat) (h : maskType cm = k.mask) : isAndType cm = k.isAnd := by
  unfold isAndType
  simp only [h]
  cases k <;> simp [Kind.mask, Kind.desc, Kind.isAnd, cronFieldMin, cronFieldHour, cronFieldDay, cronFieldMonth,
    cronFieldWeekDay, cronMaskTypeMin, cronMaskTypeHour, cronMaskTypeMonth]

theorem maskKnown_of_type (k : Kind) (cm : Nat) (h : maskType cm = k.mask) : maskKnown cm = true := by
  unfold maskKnown
  simp only [h]
  cases k <;> simp [Kind.mask, Kind.desc, cronFieldMin, cronFieldHour, cronFieldDay, cronFieldMonth,
    cronFieldWeekDay, cronMaskTypeMin, cronMaskTypeHour, cronMaskTypeDay, cronMaskTypeMonth, cronMaskTypeWeekDay]

/-- decoding `cronMaskTypeLastDW | w` -/
theorem lastDW_decode : ∀ w, w < 8 →
    maskType (cronMaskTypeLastDW ||| w) = cronMaskTypeLastDW ∧ (cronMaskTypeLastDW ||| w) &&& 15 = w := by decide

/-- decoding `cronMaskTypeNDW | w<<8 | n` -/
theorem ndw_decode : ∀ w, w < 8 → ∀ n, n < 8 →
    maskType (cronMaskTypeNDW ||| (w <<< 8) ||| n) = cronMaskTypeNDW ∧
    ((cronMaskTypeNDW ||| (w <<< 8) ||| n) >>> 8) &&& 255 = w ∧
    (cronMaskTypeNDW ||| (w <<< 8) ||| n) &&& 255 = n := by decide

theorem monthPlus7_ne (c : Civil) : (c.month != c.goMonthPlus7) = decide (c.dom + 7 > c.dim) := by
  unfold Civil.goMonthPlus7
  by_cases h : c.dom + 7 > c.dim
  · simp only [h, if_true, decide_true]
    split <;> simp <;> omega
  · simp [h]

/-- the special mask of a valid day/weekday option evaluates to the option's denotation, is known and is not an AND-type -/
theorem special_denote (k : Kind) (it : Item) (hv : it.valid k = true) (c : Civil) (m : Nat)
    (hm : it.specialMask k = some m) :
    maskIsRunAt m c = it.denote k c ∧ isAndType m = false ∧ maskKnown m = true ∧ m < 2 ^ 64 := by
  cases it with
  | num n => simp [Item.specialMask] at hm
  | range a b => simp [Item.specialMask] at hm
  | rangeStep a b s => simp [Item.specialMask] at hm
  | starStep s => simp [Item.specialMask] at hm
  | last =>
    simp only [Item.specialMask, Option.some.injEq] at hm
    subst hm
    refine ⟨?_, by decide, by decide, by decide⟩
    have ht : maskType cronMaskTypeLastDM = cronMaskTypeLastDM := by decide
    unfold maskIsRunAt
    simp only [ht]
    simp [cronMaskTypeLastDM, cronMaskTypeMin, cronMaskTypeHour, cronMaskTypeDay, cronMaskTypeMonth, cronMaskTypeWeekDay,
      Item.denote, Civil.goLastDay]
    by_cases h : c.dom = c.dim
    · simp [h]
    · have : ¬ c.dim = c.dom := fun e => h e.symm
      simp [h, this]
  | lastW w =>
    simp only [Item.valid, Bool.and_eq_true, decide_eq_true_eq] at hv
    obtain ⟨⟨hk, h1⟩, h2⟩ := hv
    subst hk
    simp only [Item.specialMask, reduceCtorEq, if_false, Option.some.injEq] at hm
    subst hm
    obtain ⟨ht, hw⟩ := lastDW_decode w (by omega)
    refine ⟨?_, ?_, ?_, ?_⟩
    · unfold maskIsRunAt
      simp only [ht, hw, monthPlus7_ne]
      simp [cronMaskTypeLastDW, cronMaskTypeMin, cronMaskTypeHour, cronMaskTypeDay, cronMaskTypeMonth,
        cronMaskTypeWeekDay, cronMaskTypeLastDM, Item.denote]
      by_cases hw' : w = c.cronWd
      · simp [hw']
      · have : ¬ c.cronWd = w := fun h => hw' h.symm
        simp [hw', this]
    · unfold isAndType; simp only [ht]; decide
    · unfold maskKnown; simp only [ht]; decide
    · have : ∀ w, w < 8 → cronMaskTypeLastDW ||| w < 2 ^ 64 := by decide
      exact this w (by omega)
  | nth w n =>
    simp only [Item.valid, Bool.and_eq_true, decide_eq_true_eq] at hv
    obtain ⟨⟨⟨⟨hk, h1⟩, h2⟩, h3⟩, h4⟩ := hv
    subst hk
    simp only [Item.specialMask, Option.some.injEq] at hm
    subst hm
    obtain ⟨ht, hw, hn⟩ := ndw_decode w (by omega) n (by omega)
    refine ⟨?_, ?_, ?_, ?_⟩
    · unfold maskIsRunAt
      simp only [ht, hw, hn]
      simp [cronMaskTypeNDW, cronMaskTypeLastDW, cronMaskTypeMin, cronMaskTypeHour, cronMaskTypeDay, cronMaskTypeMonth,
        cronMaskTypeWeekDay, cronMaskTypeLastDM, Item.denote]
      by_cases hw' : w = c.cronWd
      · by_cases hx : (c.dom - 1) / 7 + 1 = n <;> simp [hw', hx]
      · have : ¬ c.cronWd = w := fun h => hw' h.symm
        simp [hw', this]
    · unfold isAndType; simp only [ht]; decide
    · unfold maskKnown; simp only [ht]; decide
    · have : ∀ w, w < 8 → ∀ n, n < 8 → cronMaskTypeNDW ||| (w <<< 8) ||| n < 2 ^ 64 := by decide
      exact this w (by omega) n (by omega)

/-- an option denotes its numeric part or its special part -/
theorem item_denote_split (k : Kind) (it : Item) (hv : it.valid k = true) (c : Civil) :
    it.denote k c = (it.numDenote k (k.value c) ||
      match it.specialMask k with
      | some m => maskIsRunAt m c
      | none => false) := by
  cases h : it.specialMask k with
  | some m =>
    have := (special_denote k it hv c m h).1
    simp only [this]
    cases it <;> simp [Item.specialMask] at h <;> simp [Item.numDenote]
  | none =>
    cases it <;> simp [Item.specialMask] at h <;> simp [Item.numDenote, Item.denote, Bool.and_assoc]
    -- lastW with k = day is excluded by validity
    all_goals (simp [Item.valid] at hv)
    all_goals (split at h <;> simp at h)

theorem any_split (k : Kind) (items : List Item) (hv : ∀ it ∈ items, it.valid k = true) (c : Civil) :
    items.any (Item.denote k c) =
      (items.any (Item.numDenote k (k.value c)) || (items.filterMap (Item.specialMask k)).any (maskIsRunAt · c)) := by
  induction items with
  | nil => simp
  | cons it rest ih =>
    simp only [List.any_cons]
    rw [ih (fun i hi => hv i (List.mem_cons_of_mem _ hi)), item_denote_split k it (hv it List.mem_cons_self) c]
    cases h : it.specialMask k with
    | none => simp [List.filterMap_cons, h, Bool.or_assoc]
    | some m =>
      simp only [List.filterMap_cons, h, List.any_cons]
      cases it.numDenote k (k.value c) <;> cases maskIsRunAt m c <;> simp

/-! ### the loop of cronMaskList.IsRunAt -/

theorem listLoop_and_cons (c : Civil) (m : Nat) (rest : List Nat) (run : Bool) (h : isAndType m = true) :
    listLoop c (m :: rest) run = (maskIsRunAt m c && listLoop c rest run) := by
  simp only [listLoop, h, if_true]
  cases maskIsRunAt m c <;> simp

theorem listLoop_or_false (c : Civil) (l : List Nat) (h : ∀ m ∈ l, isAndType m = false) :
    listLoop c l false = l.any (maskIsRunAt · c) := by
  induction l with
  | nil => simp [listLoop]
  | cons m rest ih =>
    have hm := h m List.mem_cons_self
    simp only [listLoop, hm, Bool.false_eq_true, if_false, List.any_cons]
    cases hr : maskIsRunAt m c
    · simp only [Bool.false_eq_true, if_false, Bool.false_or]
      exact ih (fun x hx => h x (List.mem_cons_of_mem _ hx))
    · simp

theorem listIsRunAt_or (c : Civil) (l : List Nat) (hne : l ≠ []) (h : ∀ m ∈ l, isAndType m = false) :
    listIsRunAt l c = l.any (maskIsRunAt · c) := by
  cases l with
  | nil => exact absurd rfl hne
  | cons m rest =>
    have hm := h m List.mem_cons_self
    simp only [listIsRunAt, listLoop, hm, Bool.false_eq_true, if_false, List.any_cons]
    cases hr : maskIsRunAt m c
    · simp only [Bool.false_eq_true, if_false, Bool.false_or]
      exact listLoop_or_false c rest (fun x hx => h x (List.mem_cons_of_mem _ hx))
    · simp

/-! ### one compiled field -/

section field
variable (k : Kind) (items : List Item) (hv : ∀ it ∈ items, it.valid k = true)
include hv

theorem acc_bits_testBit (v : Nat) :
    (items.foldl (compileItem k) ⟨k.mask, []⟩).bits.testBit v = (k.mask.testBit v || items.any (Item.numDenote k v)) :=
  fold_bits k items hv ⟨k.mask, []⟩ v

theorem acc_bits_type : maskType (items.foldl (compileItem k) ⟨k.mask, []⟩).bits = k.mask := by
  have hc : maskType (items.foldl (compileItem k) ⟨k.mask, []⟩).bits = maskType k.mask := by
    apply maskType_congr
    intro v hv60
    rw [acc_bits_testBit k items hv v]
    have : items.any (Item.numDenote k v) = false := by
      rw [List.any_eq_false]
      intro it hit
      simp [numDenote_high k it (hv it hit) hv60]
    simp [this]
  rw [hc, k.maskType_mask]
/-- "the first element has an empty mask" exactly when no option was numeric -/
theorem acc_bits_empty_iff :
    (items.foldl (compileItem k) ⟨k.mask, []⟩).bits = k.mask &&& cronMaskType ↔ items.all (fun it => !it.isNumeric) = true := by
  have hm : k.mask &&& cronMaskType = k.mask := k.maskType_mask
  rw [hm]
  constructor
  · intro h
    rw [List.all_eq_true]
    intro it hit
    cases hn : it.isNumeric with
    | false => rfl
    | true =>
      exfalso
      obtain ⟨v, hv60, hd⟩ := numDenote_first k it (hv it hit) hn
      have h1 := acc_bits_testBit k items hv v
      rw [h, k.mask_testBit_low hv60] at h1
      have : items.any (Item.numDenote k v) = true := List.any_eq_true.mpr ⟨it, hit, hd⟩
      simp [this] at h1
  · intro h
    apply Nat.eq_of_testBit_eq
    intro v
    rw [acc_bits_testBit k items hv v]
    have : items.any (Item.numDenote k v) = false := by
      rw [List.any_eq_false]
      intro it hit
      have hn := List.all_eq_true.mp h it hit
      cases it <;> simp [Item.isNumeric] at hn <;> simp [Item.numDenote]
    simp [this]

omit hv in
theorem acc_special :
    (items.foldl (compileItem k) ⟨k.mask, []⟩).special = items.filterMap (Item.specialMask k) := by
  rw [fold_special]; simp

end field

/-- a valid special option has a special mask; a numeric one has none -/
theorem specialMask_isSome (k : Kind) (it : Item) (hn : it.isNumeric = false) : (it.specialMask k).isSome = true := by
  cases it <;> simp [Item.isNumeric] at hn <;> simp [Item.specialMask]
  split <;> simp

theorem compileField_list_ne_nil (k : Kind) (items : List Item) (hv : ∀ it ∈ items, it.valid k = true)
    (hne : items ≠ []) : compileField k (.list items) ≠ [] := by
  simp only [compileField]
  split
  · rename_i h
    have hall := (acc_bits_empty_iff k items hv).mp h
    rw [acc_special k items]
    cases items with
    | nil => exact absurd rfl hne
    | cons it rest =>
      have hn : it.isNumeric = false := by
        have := List.all_eq_true.mp hall it List.mem_cons_self
        simpa using this
      have := specialMask_isSome k it hn
      cases h2 : it.specialMask k with
      | some m => simp [List.filterMap_cons, h2]
      | none => simp [h2] at this
  · simp

end ErgoVerif.Cron

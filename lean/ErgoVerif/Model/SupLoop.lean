import ErgoVerif.Common
import ErgoVerif.Model.SupOFO
import ErgoVerif.Model.SupARFO
import ErgoVerif.Model.SupSOFO
/-
The glue of act.Supervisor around a `supBehavior` (act/supervisor.go): `handleAction` and the
`gen.MessageExitPID` / foreign-exit dispatch of `ProcessRun`, the management calls
StartChild/AddChild/EnableChild/DisableChild — closed with an environment in which

* any running child may die at any moment with any reason (`die`); its exit message is handled
  later, in any order relative to other children's exits (`deliver`);
* a spawn may fail (`bits`: outcome of the successive spawns of one callback, missing = success) and
  MUST fail when the spec registers a name that a running process still holds (SpawnRegister);
* an exit from a process that is not a child may arrive (`foreign`), and the user's callbacks may
  issue management calls at any time while the supervisor runs.

Ghost components (`alive`, `inflight`, `exitsSent`, `noticed`) exist only to state the theorems.
Not modelled: HandleChildStart/HandleChildTerminate notifications, inspection, user messages.
-/
namespace ErgoVerif.Sup

/-- act.supBehavior -/
structure Machine (σ : Type) where
  childStarted : σ → ChildSpec → Nat → σ × Res
  childTerminated : σ → Nat → Nat → Reason → Int → σ × Res
  childSpec : σ → Nat → σ × Res
  childAddSpec : σ → Nat → Bool → σ × Res
  childEnable : σ → Nat → σ × Res
  childDisable : σ → Nat → σ × Res

def ofoMachine : Machine OFO :=
  ⟨OFO.childStarted, OFO.childTerminated, OFO.childSpec, OFO.childAddSpec, OFO.childEnable, OFO.childDisable⟩
def arfoMachine : Machine ARFO :=
  ⟨ARFO.childStarted, ARFO.childTerminated, ARFO.childSpec, ARFO.childAddSpec, ARFO.childEnable, ARFO.childDisable⟩
def sofoMachine : Machine SOFO :=
  ⟨SOFO.childStarted, SOFO.childTerminated, SOFO.childSpec, SOFO.childAddSpec, SOFO.childEnable, SOFO.childDisable⟩

inductive Status where
  | running
  | terminated (r : Reason)     -- ProcessRun returned this reason
  | spawnFailed                 -- ProcessRun returned the error of Spawn/SpawnRegister
  | panicked                    -- a panic in the state machine (recovered by ProcessRun into a shutdown with reason panic)
  | stuck                       -- handleAction did not finish within the fuel (proved unreachable)
  deriving DecidableEq, Repr, Inhabited

structure Loop (σ : Type) where
  m : σ
  kids : List (Nat × Nat) := []              -- Supervisor.children : pid ↦ spec name
  alive : List (Nat × Nat) := []             -- ghost: running child processes (pid, name)
  inflight : List (Nat × Reason) := []       -- ghost: dead children whose exit message is not handled yet
  exitsSent : List (Nat × Option Reason) := []  -- ghost: SendExit calls, newest first
  noticed : List Nat := []                   -- ghost: pids handed to childTerminated, newest first
  nextPid : Nat := 1
  status : Status := .running

/-- what `handleAction` returns to its caller -/
inductive HRes where
  | ret (e : Option Reason)     -- `return action.reason` / `return nil`
  | spawnErr
  | panic
  | outOfFuel
  deriving DecidableEq, Repr, Inhabited

def lookupKid (pid : Nat) : List (Nat × Nat) → Nat
  | [] => 0
  | (p, n) :: r => if p = pid then n else lookupKid pid r

/-- Supervisor.handleAction: the `for { switch action.do ... }` loop -/
def handleAction {σ : Type} (M : Machine σ) : Nat → List Bool → Loop σ → Action → Loop σ × HRes
  | 0, _, c, _ => (c, .outOfFuel)
  | fuel + 1, bits, c, a =>
    match a.act with
    | .nothing => (c, .ret none)
    | .start =>
      let taken := a.spec.register && c.alive.any (fun p => p.2 == a.spec.name)
      if taken || !(bits.headD true) then (c, .spawnErr)
      else
        let pid := c.nextPid
        let c := { c with nextPid := pid + 1, alive := (pid, a.spec.name) :: c.alive, kids := (pid, a.spec.name) :: c.kids }
        let r := M.childStarted c.m a.spec pid
        let c := { c with m := r.1 }
        match r.2 with
        | .ok a' => handleAction M fuel bits.tail c a'
        | .err _ => (c, .ret none)
        | .panic => (c, .panic)
    | .terminateChildren =>
      if a.terminate.isEmpty then (c, .ret a.reason)
      else ({ c with exitsSent := a.terminate.map (fun p => (p, a.reason)) ++ c.exitsSent }, .ret none)
    | .terminate => (c, .ret a.reason)

/-- how the caller of handleAction goes on: ProcessRun returns a non-nil error (termination);
a management call hands the error back to the user's callback -/
def finish {σ : Type} (fromApi : Bool) (r : Loop σ × HRes) : Loop σ :=
  match r.2 with
  | .ret none => r.1
  | .ret (some e) => if fromApi then r.1 else { r.1 with status := .terminated e }
  | .spawnErr => if fromApi then r.1 else { r.1 with status := .spawnFailed }
  | .panic => { r.1 with status := .panicked }
  | .outOfFuel => { r.1 with status := .stuck }

def afterCall {σ : Type} (M : Machine σ) (fuel : Nat) (fromApi : Bool) (bits : List Bool) (c : Loop σ) (r : σ × Res) : Loop σ :=
  let c := { c with m := r.1 }
  match r.2 with
  | .ok a => finish fromApi (handleAction M fuel bits c a)
  | .err _ => c
  | .panic => { c with status := .panicked }

inductive Label where
  | die (pid : Nat) (r : Reason)
  | deliver (pid : Nat) (now : Int) (bits : List Bool)
  | foreign (r : Reason) (now : Int) (bits : List Bool)
  | startChild (name args : Nat) (bits : List Bool)
  | addChild (name : Nat) (sig : Bool) (bits : List Bool)
  | enable (name : Nat) (bits : List Bool)
  | disable (name : Nat)
  deriving Repr

def lookupReason (pid : Nat) : List (Nat × Reason) → Option Reason
  | [] => none
  | (p, r) :: t => if p = pid then some r else lookupReason pid t

/-- one step of the closed system (`fuel` bounds the handleAction loop; see `fuelFor`) -/
def step {σ : Type} (M : Machine σ) (fuel : Nat) (c : Loop σ) : Label → Option (Loop σ)
  | .die pid r =>
    if c.status ≠ .running then none
    else if c.alive.any (fun p => p.1 == pid) then
      some { c with alive := c.alive.filter (fun p => p.1 ≠ pid), inflight := c.inflight ++ [(pid, r)] }
    else none
  | .deliver pid now bits =>
    if c.status ≠ .running then none
    else match lookupReason pid c.inflight with
      | none => none
      | some r =>
        -- `name, found := s.children[exit.PID]; delete(s.children, exit.PID); s.sup.childTerminated(name, exit.PID, exit.Reason)`
        let name := lookupKid pid c.kids
        let c := { c with inflight := c.inflight.filter (fun p => p.1 ≠ pid), kids := c.kids.filter (fun p => p.1 ≠ pid),
                          noticed := pid :: c.noticed }
        some (afterCall M fuel false bits c (M.childTerminated c.m name pid r now))
  | .foreign r now bits =>
    if c.status ≠ .running then none
    else
      -- an exit from a process that is not a child (or the supervisor's own reason): the pid is fresh, the name empty
      let pid := c.nextPid
      let c := { c with nextPid := pid + 1 }
      some (afterCall M fuel false bits c (M.childTerminated c.m 0 pid r now))
  | .startChild name args bits =>
    if c.status ≠ .running then none
    else
      let r := M.childSpec c.m name
      let r := match r.2 with
        | .ok a => (r.1, Res.ok (if args > 0 then { a with spec := { a.spec with args := args } } else a))
        | _ => r
      some (afterCall M fuel true bits c r)
  | .addChild name sig bits =>
    if c.status ≠ .running then none else some (afterCall M fuel true bits c (M.childAddSpec c.m name sig))
  | .enable name bits =>
    if c.status ≠ .running then none else some (afterCall M fuel true bits c (M.childEnable c.m name))
  | .disable name =>
    if c.status ≠ .running then none else some (afterCall M fuel true [] c (M.childDisable c.m name))

/-- ProcessInit: `s.sup.init(spec)` then `handleAction` with every spawn succeeding (a failing spawn makes
the supervisor's own start fail: there is no supervisor then) -/
def boot {σ : Type} (M : Machine σ) (fuel : Nat) (r : σ × Res) : Loop σ :=
  afterCall M fuel false [] { m := r.1 } r


/-! ### the three closed systems.  The fuel is larger than the number of specs, which bounds the number of
spawns one `handleAction` can perform. -/

def ofoStep (c : Loop OFO) (l : Label) : Option (Loop OFO) := step ofoMachine (c.m.spec.length + 3) c l
def ofoBoot (sp : SupSpec) : Loop OFO := boot ofoMachine (sp.children.length + 3) (OFO.init {} sp)
def arfoStep (c : Loop ARFO) (l : Label) : Option (Loop ARFO) := step arfoMachine (c.m.spec.length + 3) c l
def arfoBoot (sp : SupSpec) : Loop ARFO := boot arfoMachine (sp.children.length + 3) (ARFO.init {} sp)
def sofoStep (c : Loop SOFO) (l : Label) : Option (Loop SOFO) := step sofoMachine 3 c l
def sofoBoot (sp : SupSpec) : Loop SOFO := boot sofoMachine 3 (SOFO.init {} sp)

/-- what ProcessInit validates: at least one child, no empty and no duplicate names -/
def ValidSpec (sp : SupSpec) : Prop :=
  sp.children ≠ [] ∧ (sp.children.map (·.1)).Nodup ∧ ∀ n ∈ sp.children.map (·.1), n ≠ 0

/-- no label of the history makes a spawn fail -/
def noSpawnFailure : Label → Bool
  | .deliver _ _ bits => bits.all id
  | .foreign _ _ bits => bits.all id
  | .startChild _ _ bits => bits.all id
  | .addChild _ _ bits => bits.all id
  | .enable _ bits => bits.all id
  | _ => true

/-- nobody is being stopped and no exit is waiting to be handled -/
def quiescent {σ : Type} (c : Loop σ) : Bool :=
  decide (c.status = .running) && c.inflight.isEmpty &&
    c.exitsSent.all (fun e => !(c.alive.any (fun a => a.1 == e.1)))

end ErgoVerif.Sup

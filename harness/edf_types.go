package main

// EDF block (C11, EDF part of C16): Go types the harness declares and registers with net/edf, the
// registry table mirrored to the Lean model (`reg <ty>` lines), sentinel errors, the canonical text of
// types and values (the syntax of lean/ErgoVerif/Drive/Edf.lean), option configurations.

import (
	"encoding/binary"
	"encoding/hex"
	"errors"
	"fmt"
	"io"
	"math"
	"reflect"
	"sort"
	"strconv"
	"strings"
	"sync"
	"time"
	"unsafe"

	"ergo.services/ergo/gen"
	"ergo.services/ergo/lib"
	"ergo.services/ergo/net/edf"
	"ergo.services/ergo/net/handshake"
)

// ---------------------------------------------------------------------------
// declared types
// ---------------------------------------------------------------------------

type NBool bool
type NInt int
type NI8 int8
type NU16 uint16
type NU64 uint64
type NF32 float32
type NF64 float64
type NStr string

type NSliceI16 []int16
type NSliceStr []string
type NBytes []byte // a named slice of uint8: the registered slice path, not edtBinary
type NArrU8 [4]uint8
type NArr0 [0]int32
type NMapSI map[string]int32
type NMapAX map[gen.Atom]any

// Marsh: edf.Marshaler (value receiver) / edf.Unmarshaler (pointer receiver)
type Marsh struct{ P []byte }

func (m Marsh) MarshalEDF(w io.Writer) error {
	_, err := w.Write(m.P)
	return err
}
func (m *Marsh) UnmarshalEDF(b []byte) error {
	m.P = append([]byte{}, b...)
	return nil
}

// BMarsh: encoding.BinaryMarshaler / BinaryUnmarshaler
type BMarsh struct{ P []byte }

func (m BMarsh) MarshalBinary() ([]byte, error) { return m.P, nil }
func (m *BMarsh) UnmarshalBinary(b []byte) error {
	m.P = append([]byte{}, b...)
	return nil
}

type SEmpty struct{}

type SPrim struct {
	B   bool
	I   int
	I8  int8
	I16 int16
	I32 int32
	I64 int64
	U   uint
	U8  uint8
	U16 uint16
	U32 uint32
	U64 uint64
	F32 float32
	F64 float64
	S   string
	Y   []byte
	A   gen.Atom
	P   gen.PID
	D   gen.ProcessID
	Q   gen.Ref
	L   gen.Alias
	E   gen.Event
	T   time.Time
	Er  error
	X   any
}

type SNest struct {
	I32s  []int32
	SS    [][]string
	A3    [3]uint16
	MSI   map[string]int64
	MAX   map[gen.Atom]any
	Prim  SPrim
	Empty SEmpty // deliberately not in last position
	XS    []any
	Prims []SPrim
	MNP   map[NInt]SPrim
	NB    NBool
	NI    NInt
	N8    NI8
	N16   NU16
	N64   NU64
	NF3   NF32
	NF6   NF64
	NS    NStr
	NSl   NSliceI16
	NSS   NSliceStr
	NBy   NBytes
	NA    NArrU8
	NA0   NArr0
	NM    NMapSI
	NMX   NMapAX
	M     Marsh
	BM    BMarsh
	Last  int8
}

// hErr: an error of a type edf knows nothing about (travels as text in error-typed positions)
type hErr struct{ s string }

func (e *hErr) Error() string { return e.s }

// ---------------------------------------------------------------------------
// well-known reflect types
// ---------------------------------------------------------------------------

var (
	tBool      = reflect.TypeOf(true)
	tInt       = reflect.TypeOf(int(0))
	tInt8      = reflect.TypeOf(int8(0))
	tInt16     = reflect.TypeOf(int16(0))
	tInt32     = reflect.TypeOf(int32(0))
	tInt64     = reflect.TypeOf(int64(0))
	tUint      = reflect.TypeOf(uint(0))
	tUint8     = reflect.TypeOf(uint8(0))
	tUint16    = reflect.TypeOf(uint16(0))
	tUint32    = reflect.TypeOf(uint32(0))
	tUint64    = reflect.TypeOf(uint64(0))
	tFloat32   = reflect.TypeOf(float32(0))
	tFloat64   = reflect.TypeOf(float64(0))
	tString    = reflect.TypeOf("")
	tBytes     = reflect.TypeOf([]byte(nil))
	tAtom      = reflect.TypeOf(gen.Atom(""))
	tPID       = reflect.TypeOf(gen.PID{})
	tProcessID = reflect.TypeOf(gen.ProcessID{})
	tRef       = reflect.TypeOf(gen.Ref{})
	tAlias     = reflect.TypeOf(gen.Alias{})
	tEvent     = reflect.TypeOf(gen.Event{})
	tTime      = reflect.TypeOf(time.Time{})
	tAny       = reflect.TypeOf((*any)(nil)).Elem()
	tErr       = reflect.TypeOf((*error)(nil)).Elem()
)

var edfLeafText = map[reflect.Type]string{
	tBool: "b", tInt: "ii", tInt8: "i1", tInt16: "i2", tInt32: "i4", tInt64: "i8",
	tUint: "uu", tUint8: "u1", tUint16: "u2", tUint32: "u4", tUint64: "u8",
	tFloat32: "f4", tFloat64: "f8", tString: "s", tBytes: "y", tAtom: "a",
	tPID: "P", tRef: "Q", tAlias: "L", tProcessID: "D", tEvent: "E", tTime: "t", tErr: "e", tAny: "x",
}

// ---------------------------------------------------------------------------
// registry table
// ---------------------------------------------------------------------------

type edfRegEntry struct {
	T    reflect.Type
	Name string // "#main/NInt"
	Ty   string // text of the type in the model's syntax
	Kind byte   // 'N' named, 'R' struct, 'Z' marshaler
}

var (
	edfRegs     []*edfRegEntry
	edfRegByT   = map[reflect.Type]*edfRegEntry{}
	edfRegOnce  sync.Once
	edfRegNames []string

	tMarsh  = reflect.TypeOf(Marsh{})
	tBMarsh = reflect.TypeOf(BMarsh{})
	tSEmpty = reflect.TypeOf(SEmpty{})
	tSPrim  = reflect.TypeOf(SPrim{})
	tSNest  = reflect.TypeOf(SNest{})
	tNArr0  = reflect.TypeOf(NArr0{})
	tNMapSI = reflect.TypeOf(NMapSI(nil))
	tNMapAX = reflect.TypeOf(NMapAX(nil))
)

// sentinels: errors whose identity matters (G<k> in the text)
var (
	vsRegA    = errors.New("verif sentinel %A (registered)")
	vsRegB    = errors.New("verif sentinel 100% B")
	vsOwn     = errors.New("verif sentinel own-id")            // never registered with edf; own id in some configurations
	vsLowID   = errors.New("verif sentinel low-id %d")         // cached under an id <= 32767: must travel as text
	vsTwin    = errors.New("verif sentinel %A (registered)")   // same text as vsRegA, never cached
	// gen.ErrIncorrect is the first error edf's init registers: it owns the first ErrCache id (32768)
	sentinels = []error{gen.ErrTimeout, gen.ErrProcessUnknown, gen.TerminateReasonNormal, gen.TerminateReasonKill, vsRegA, vsRegB, vsOwn, vsLowID, vsTwin, gen.ErrIncorrect}
)

const (
	sentOwnIdx   = 6
	sentLowIdx   = 7
	sentTwinIdx  = 8
	sentOwnID    = 65534 // largest id that is not the nil marker
	sentLowIDVal = 300
)

func sentinelIndex(e error) int {
	for k, s := range sentinels {
		if s == e {
			return k
		}
	}
	return -1
}

// atom pool: atoms the caches / mappings talk about
var edfAtomPool = []gen.Atom{
	"node1@localhost", "node2@localhost", "verif_reg_a", "verif_reg_b", "verif_reg_c", "x", "", "proc", "ev",
	gen.Atom(strings.Repeat("L", 255)), "mapped_src", "mapped_dst", "ключ",
}

// what the boundary-id configurations give the ids 256/257/65535, 4096/4097/65535 to
var edfBoundaryAtoms = []gen.Atom{"node1@localhost", "node2@localhost", "proc"}
var edfBoundaryTypes = []reflect.Type{reflect.TypeOf(SPrim{}), reflect.TypeOf(NInt(0)), reflect.TypeOf(NSliceStr(nil))}
var edfBoundarySentinels = []error{gen.ErrIncorrect, gen.ErrTimeout, vsOwn} // ids 32768, 32769 (edf's own), 65534

// atoms registered with edf.RegisterAtom (global ids from edf.GetAtomCache)
var edfRegisteredAtoms = []gen.Atom{"verif_reg_a", "verif_reg_b", "verif_reg_c"}

func hexName(s string) string { return hex.EncodeToString([]byte(s)) }

func edfRegister() {
	edfRegOnce.Do(func() {
		vals := []any{
			NBool(false), NInt(0), NI8(0), NU16(0), NU64(0), NF32(0), NF64(0), NStr(""),
			NSliceI16(nil), NSliceStr(nil), NBytes(nil), NArrU8{}, NArr0{}, NMapSI(nil), NMapAX(nil),
			Marsh{}, BMarsh{},
			SEmpty{}, SPrim{}, SNest{},
		}
		for _, v := range vals {
			if err := edf.RegisterTypeOf(v); err != nil && err != gen.ErrTaken {
				panic(fmt.Sprintf("edf.RegisterTypeOf(%T): %v", v, err))
			}
			t := reflect.TypeOf(v)
			name := fmt.Sprintf("#%s/%s", t.PkgPath(), t.Name())
			e := &edfRegEntry{T: t, Name: name}
			switch {
			case t == tMarsh || t == tBMarsh:
				e.Kind = 'Z'
				e.Ty = fmt.Sprintf("Z%s:%d", hexName(name), t.Size())
			case t.Kind() == reflect.Struct:
				e.Kind = 'R'
				fs := make([]string, t.NumField())
				for i := range fs {
					fs[i] = tyText(t.Field(i).Type)
				}
				e.Ty = "R" + hexName(name) + "(" + strings.Join(fs, ",") + ")"
			default:
				e.Kind = 'N'
				e.Ty = "N" + hexName(name) + "(" + underTyText(t) + ")"
			}
			edfRegs = append(edfRegs, e)
			edfRegByT[t] = e
			edfRegNames = append(edfRegNames, name)
		}
		for _, e := range []error{vsRegA, vsRegB} {
			if err := edf.RegisterError(e); err != nil && err != gen.ErrTaken {
				panic(err)
			}
		}
		for _, a := range edfRegisteredAtoms {
			if err := edf.RegisterAtom(a); err != nil && err != gen.ErrTaken {
				panic(err)
			}
		}
	})
}

// edfPreamble: what every driver process must be told first (registry, sentinel texts)
func edfPreamble() []string {
	edfRegister()
	var ls []string
	for _, e := range edfRegs {
		ls = append(ls, "reg "+e.Ty)
	}
	for k, s := range sentinels {
		ls = append(ls, fmt.Sprintf("sent %d %s", k, hexOrDash([]byte(s.Error()))))
	}
	return ls
}

func hexOrDash(b []byte) string {
	if len(b) == 0 {
		return "-"
	}
	return hex.EncodeToString(b)
}

// ---------------------------------------------------------------------------
// canonical text of types
// ---------------------------------------------------------------------------

// underTyText: structural text of the underlying type of a registered named type (a named []uint8 is S(u1), not y)
func underTyText(t reflect.Type) string {
	switch t.Kind() {
	case reflect.Bool:
		return "b"
	case reflect.Int:
		return "ii"
	case reflect.Int8:
		return "i1"
	case reflect.Int16:
		return "i2"
	case reflect.Int32:
		return "i4"
	case reflect.Int64:
		return "i8"
	case reflect.Uint:
		return "uu"
	case reflect.Uint8:
		return "u1"
	case reflect.Uint16:
		return "u2"
	case reflect.Uint32:
		return "u4"
	case reflect.Uint64:
		return "u8"
	case reflect.Float32:
		return "f4"
	case reflect.Float64:
		return "f8"
	case reflect.String:
		return "s"
	case reflect.Slice:
		return "S(" + tyText(t.Elem()) + ")"
	case reflect.Array:
		return "A" + strconv.Itoa(t.Len()) + "(" + tyText(t.Elem()) + ")"
	case reflect.Map:
		return "M(" + tyText(t.Key()) + "," + tyText(t.Elem()) + ")"
	}
	return "?" + t.String()
}

var tyTextCache sync.Map

func tyText(t reflect.Type) string {
	if e, ok := edfRegByT[t]; ok {
		return e.Ty
	}
	if s, ok := edfLeafText[t]; ok {
		return s
	}
	if s, ok := tyTextCache.Load(t); ok {
		return s.(string)
	}
	var s string
	switch t.Kind() {
	case reflect.Slice, reflect.Array, reflect.Map:
		if t.Name() != "" {
			s = "?" + t.String()
		} else {
			s = underTyText(t)
		}
	case reflect.Pointer:
		if t.Implements(tErr) {
			s = "e" // dynamic type of an error value (*errors.errorString, *fmt.wrapError, ...)
		} else {
			s = "?" + t.String()
		}
	default:
		s = "?" + t.String()
	}
	tyTextCache.Store(t, s)
	return s
}

// ---------------------------------------------------------------------------
// canonical text of values
// ---------------------------------------------------------------------------

// textMode: how a value is printed. The zero mode prints the value as it is.
type textMode struct {
	quiet32 bool                // float32 NaNs with the quiet bit set (what a float32 -> float64 -> float32 trip yields)
	errAs   func(error) string // optional: what an error is expected to come back as
}

func valText(v reflect.Value) string {
	var sb strings.Builder
	writeVal(&sb, v, textMode{})
	return sb.String()
}

func valTextMode(v reflect.Value, m textMode) string {
	var sb strings.Builder
	writeVal(&sb, v, m)
	return sb.String()
}

const hextable = "0123456789abcdef"

func writeHex(sb *strings.Builder, b []byte) {
	sb.Grow(2 * len(b))
	for _, c := range b {
		sb.WriteByte(hextable[c>>4])
		sb.WriteByte(hextable[c&15])
	}
}
func writeHexS(sb *strings.Builder, s string) {
	sb.Grow(2 * len(s))
	for i := 0; i < len(s); i++ {
		c := s[i]
		sb.WriteByte(hextable[c>>4])
		sb.WriteByte(hextable[c&15])
	}
}

func errText(e error, m textMode) string {
	if m.errAs != nil {
		return m.errAs(e)
	}
	if k := sentinelIndex(e); k >= 0 {
		return "G" + strconv.Itoa(k)
	}
	return "e" + hex.EncodeToString([]byte(e.Error()))
}

func f32bits(v reflect.Value) uint32 {
	// v.Float() converts through float64 and would quiet a signalling NaN: read the raw bits
	p := reflect.New(v.Type())
	p.Elem().Set(v)
	return *(*uint32)(p.UnsafePointer())
}

func writeNum(sb *strings.Builder, v reflect.Value, m textMode) {
	var buf [8]byte
	sb.WriteByte('#')
	switch v.Kind() {
	case reflect.Int8:
		buf[0] = byte(v.Int())
		writeHex(sb, buf[:1])
	case reflect.Int16:
		binary.BigEndian.PutUint16(buf[:], uint16(v.Int()))
		writeHex(sb, buf[:2])
	case reflect.Int32:
		binary.BigEndian.PutUint32(buf[:], uint32(v.Int()))
		writeHex(sb, buf[:4])
	case reflect.Int, reflect.Int64:
		binary.BigEndian.PutUint64(buf[:], uint64(v.Int()))
		writeHex(sb, buf[:8])
	case reflect.Uint8:
		buf[0] = byte(v.Uint())
		writeHex(sb, buf[:1])
	case reflect.Uint16:
		binary.BigEndian.PutUint16(buf[:], uint16(v.Uint()))
		writeHex(sb, buf[:2])
	case reflect.Uint32:
		binary.BigEndian.PutUint32(buf[:], uint32(v.Uint()))
		writeHex(sb, buf[:4])
	case reflect.Uint, reflect.Uint64:
		binary.BigEndian.PutUint64(buf[:], v.Uint())
		writeHex(sb, buf[:8])
	case reflect.Float32:
		bits := f32bits(v)
		if m.quiet32 && bits&0x7f800000 == 0x7f800000 && bits&0x007fffff != 0 {
			bits |= 0x00400000
		}
		binary.BigEndian.PutUint32(buf[:], bits)
		writeHex(sb, buf[:4])
	case reflect.Float64:
		binary.BigEndian.PutUint64(buf[:], math.Float64bits(v.Float()))
		writeHex(sb, buf[:8])
	default:
		sb.WriteString("?")
	}
}

func idRaw(creation int64, id [3]uint64) []byte {
	var b [32]byte
	binary.BigEndian.PutUint64(b[0:], uint64(creation))
	binary.BigEndian.PutUint64(b[8:], id[0])
	binary.BigEndian.PutUint64(b[16:], id[1])
	binary.BigEndian.PutUint64(b[24:], id[2])
	return b[:]
}

func writeVal(sb *strings.Builder, v reflect.Value, m textMode) {
	t := v.Type()
	if e, ok := edfRegByT[t]; ok {
		switch e.Kind {
		case 'Z':
			sb.WriteByte('o')
			writeHex(sb, v.Field(0).Bytes())
			return
		case 'R':
			sb.WriteByte('[')
			for i := 0; i < v.NumField(); i++ {
				if i > 0 {
					sb.WriteByte(',')
				}
				writeVal(sb, v.Field(i), m)
			}
			sb.WriteByte(']')
			return
		}
		writeByKind(sb, v, m)
		return
	}
	switch t {
	case tBytes:
		sb.WriteByte('y')
		writeHex(sb, v.Bytes())
		return
	case tAtom:
		sb.WriteByte('a')
		writeHexS(sb, v.String())
		return
	case tPID:
		p := v.Interface().(gen.PID)
		var b [16]byte
		binary.BigEndian.PutUint64(b[0:], p.ID)
		binary.BigEndian.PutUint64(b[8:], uint64(p.Creation))
		sb.WriteByte('p')
		writeHexS(sb, string(p.Node))
		sb.WriteByte('.')
		writeHex(sb, b[:])
		return
	case tRef:
		p := v.Interface().(gen.Ref)
		sb.WriteByte('p')
		writeHexS(sb, string(p.Node))
		sb.WriteByte('.')
		writeHex(sb, idRaw(p.Creation, p.ID))
		return
	case tAlias:
		p := v.Interface().(gen.Alias)
		sb.WriteByte('p')
		writeHexS(sb, string(p.Node))
		sb.WriteByte('.')
		writeHex(sb, idRaw(p.Creation, p.ID))
		return
	case tProcessID:
		p := v.Interface().(gen.ProcessID)
		sb.WriteByte('q')
		writeHexS(sb, string(p.Node))
		sb.WriteByte('.')
		writeHexS(sb, string(p.Name))
		return
	case tEvent:
		p := v.Interface().(gen.Event)
		sb.WriteByte('q')
		writeHexS(sb, string(p.Node))
		sb.WriteByte('.')
		writeHexS(sb, string(p.Name))
		return
	case tTime:
		b, err := v.Interface().(time.Time).MarshalBinary()
		if err != nil {
			sb.WriteString("t?" + hex.EncodeToString([]byte(err.Error())))
			return
		}
		sb.WriteByte('t')
		writeHex(sb, b)
		return
	}
	switch t.Kind() {
	case reflect.Interface:
		if v.IsNil() {
			sb.WriteByte('_')
			return
		}
		el := v.Elem()
		if t == tErr {
			sb.WriteString(errText(v.Interface().(error), m))
			return
		}
		// any
		if el.Kind() == reflect.Pointer && el.Type().Implements(tErr) {
			sb.WriteString("xe:")
			sb.WriteString(errText(el.Interface().(error), m))
			return
		}
		sb.WriteByte('x')
		sb.WriteString(tyText(el.Type()))
		sb.WriteByte(':')
		writeVal(sb, el, m)
		return
	case reflect.Pointer:
		if t.Implements(tErr) && !v.IsNil() {
			sb.WriteString(errText(v.Interface().(error), m))
			return
		}
		sb.WriteString("?ptr")
		return
	}
	writeByKind(sb, v, m)
}

func writeByKind(sb *strings.Builder, v reflect.Value, m textMode) {
	switch v.Kind() {
	case reflect.Bool:
		if v.Bool() {
			sb.WriteByte('T')
		} else {
			sb.WriteByte('F')
		}
	case reflect.Int, reflect.Int8, reflect.Int16, reflect.Int32, reflect.Int64,
		reflect.Uint, reflect.Uint8, reflect.Uint16, reflect.Uint32, reflect.Uint64,
		reflect.Float32, reflect.Float64:
		writeNum(sb, v, m)
	case reflect.String:
		sb.WriteByte('s')
		writeHexS(sb, v.String())
	case reflect.Slice:
		if v.IsNil() {
			sb.WriteByte('_')
			return
		}
		fallthrough
	case reflect.Array:
		sb.WriteByte('[')
		n := v.Len()
		if n > 0 && v.Type().Elem().Kind() == reflect.Uint8 && edfRegByT[v.Type().Elem()] == nil {
			// fast path for long byte-like lists
			for i := 0; i < n; i++ {
				if i > 0 {
					sb.WriteByte(',')
				}
				c := byte(v.Index(i).Uint())
				sb.WriteByte('#')
				sb.WriteByte(hextable[c>>4])
				sb.WriteByte(hextable[c&15])
			}
		} else {
			for i := 0; i < n; i++ {
				if i > 0 {
					sb.WriteByte(',')
				}
				writeVal(sb, v.Index(i), m)
			}
		}
		sb.WriteByte(']')
	case reflect.Map:
		if v.IsNil() {
			sb.WriteByte('_')
			return
		}
		type kv struct{ k, v string }
		es := make([]kv, 0, v.Len())
		it := v.MapRange()
		for it.Next() {
			es = append(es, kv{valTextMode(it.Key(), m), valTextMode(it.Value(), m)})
		}
		sort.Slice(es, func(i, j int) bool {
			if es[i].k != es[j].k {
				return es[i].k < es[j].k
			}
			return es[i].v < es[j].v
		})
		sb.WriteByte('{')
		for i, e := range es {
			if i > 0 {
				sb.WriteByte(',')
			}
			sb.WriteString(e.k)
			sb.WriteByte('=')
			sb.WriteString(e.v)
		}
		sb.WriteByte('}')
	default:
		sb.WriteString("?" + v.Type().String())
	}
}

// ---------------------------------------------------------------------------
// option configurations
// ---------------------------------------------------------------------------

type edfCfg struct {
	Name string
	// what is switched on
	Atom, Reg, Err, Cache, MapE, MapD bool
	RegHalf                          bool // only every second registered type is in the RegCache
	ErrForeign                       bool // the decoding side knows sentinel 1 only as a text error (no local equivalent)
	SentinelFault                    string // set when the negotiated decode cache does not hand back this process's own sentinels
	ErrRenumber                      bool // the peer numbers its registered errors differently (another registration order); the decode cache comes from the real handshake constructor
	NoDecCaches                      bool // hostile: ids arrive but the decoding side has no caches at all
	Boundary                         bool // hand-assigned cache ids at the boundaries (256/257/65535, 4096/4097/65535, 32768/32769/65534)

	Enc, Dec edf.Options
	// mirrors used by the harness' own reasoning
	atomE map[gen.Atom]uint16
	atomD map[uint16]gen.Atom
	amapE map[gen.Atom]gen.Atom
	amapD map[gen.Atom]gen.Atom
	regE  map[string]uint16
	regD  map[uint16]string
	errE  map[error]uint16
	errD  map[uint16]error

	Lines []string // model configuration lines (start with `clear`)
}

func (c *edfCfg) faithful() bool { return !c.MapE && !c.MapD && !c.NoDecCaches }

// expectedErr: what an error value is expected to come back as after encode+decode under this configuration
func (c *edfCfg) expectedErr(e error) string {
	if id, ok := c.errE[e]; ok && id > math.MaxInt16 {
		if d, ok := c.errD[id]; ok {
			return errText(d, textMode{})
		}
		return "?no-dec-entry"
	}
	return "e" + hex.EncodeToString([]byte(e.Error()))
}

func edfConfigs() []*edfCfg {
	edfRegister()
	specs := []*edfCfg{
		{Name: "off"},
		{Name: "atom", Atom: true},
		{Name: "reg", Reg: true},
		{Name: "err", Err: true},
		{Name: "cache", Cache: true},
		{Name: "all", Atom: true, Reg: true, Err: true, Cache: true},
		{Name: "all+maps", Atom: true, Reg: true, Err: true, Cache: true, MapE: true, MapD: true},
		{Name: "atom+reg", Atom: true, Reg: true},
		{Name: "reghalf+err+cache", Reg: true, RegHalf: true, Err: true, Cache: true},
		{Name: "all-foreignerr", Atom: true, Reg: true, Err: true, Cache: true, ErrForeign: true},
		{Name: "err-renumbered", Err: true, ErrRenumber: true},
		{Name: "all-err-renumbered", Atom: true, Reg: true, Err: true, Cache: true, ErrRenumber: true},
		{Name: "mapE", MapE: true, Cache: true},
		{Name: "atom+mapD", Atom: true, MapD: true},
		{Name: "boundary-ids", Atom: true, Reg: true, Err: true, Boundary: true},
		{Name: "boundary-ids+cache", Atom: true, Reg: true, Err: true, Cache: true, Boundary: true},
	}
	for _, c := range specs {
		c.build()
	}
	return specs
}

func (c *edfCfg) build() {
	c.atomE, c.atomD = map[gen.Atom]uint16{}, map[uint16]gen.Atom{}
	c.amapE, c.amapD = map[gen.Atom]gen.Atom{}, map[gen.Atom]gen.Atom{}
	c.regE, c.regD = map[string]uint16{}, map[uint16]string{}
	c.errE, c.errD = map[error]uint16{}, map[uint16]error{}
	c.Enc, c.Dec = edf.Options{}, edf.Options{}
	c.Lines = []string{"clear"}

	if c.Atom && c.Boundary {
		c.atomE[edfBoundaryAtoms[0]], c.atomE[edfBoundaryAtoms[1]], c.atomE[edfBoundaryAtoms[2]] = 256, 257, 65535
		next := uint16(258)
		for _, a := range edfAtomPool {
			if _, ok := c.atomE[a]; !ok && a != "mapped_dst" && a != "ключ" {
				c.atomE[a] = next
				next++
			}
		}
	}
	if c.Atom && !c.Boundary {
		// ids handed out by edf.RegisterAtom, plus an own assignment for the rest of the pool
		for id, a := range edf.GetAtomCache() {
			for _, ra := range edfRegisteredAtoms {
				if a == ra {
					c.atomE[a] = id
				}
			}
		}
		next := uint16(1000)
		for i, a := range edfAtomPool {
			if _, ok := c.atomE[a]; ok {
				continue
			}
			switch i {
			case 0:
				c.atomE[a] = 65535 // largest id
			case 1:
				c.atomE[a] = 256 + 4096 // somewhere in the middle
			case 5:
				c.atomE[a] = 255 // not a cache id: must travel inline
			case 7:
				c.atomE[a] = 7 // not a cache id either
			case 11, 12:
				// not cached
			default:
				c.atomE[a] = next
				next++
			}
		}
	}
	if c.Atom {
		for a, id := range c.atomE {
			c.atomD[id] = a
		}
		e, d := new(sync.Map), new(sync.Map)
		for a, id := range c.atomE {
			e.Store(a, id)
			d.Store(id, a)
		}
		c.Enc.AtomCache, c.Dec.AtomCache = e, d
		var le, ld []string
		for a, id := range c.atomE {
			le = append(le, fmt.Sprintf("%s=%d", hexName(string(a)), id))
			ld = append(ld, fmt.Sprintf("%d=%s", id, hexName(string(a))))
		}
		sort.Strings(le)
		sort.Strings(ld)
		c.Lines = append(c.Lines, "acache e "+strings.Join(le, ","), "acache d "+strings.Join(ld, ","))
	}
	if c.MapE {
		c.amapE = map[gen.Atom]gen.Atom{
			"mapped_src":      "mapped_dst",
			"node2@localhost": "node1@localhost", // onto a cached atom
			"x":               gen.Atom(strings.Repeat("m", 255)),
			"proc":            "",
		}
		m := new(sync.Map)
		var l []string
		for k, v := range c.amapE {
			m.Store(k, v)
			l = append(l, hexName(string(k))+"="+hexName(string(v)))
		}
		sort.Strings(l)
		c.Enc.AtomMapping = m
		c.Lines = append(c.Lines, "amap e "+strings.Join(l, ","))
	}
	if c.MapD {
		c.amapD = map[gen.Atom]gen.Atom{
			"mapped_dst":      "mapped_back",
			"node1@localhost": "node9@remote",
			"ev":              "x",
			"":                "was_empty",
		}
		m := new(sync.Map)
		var l []string
		for k, v := range c.amapD {
			m.Store(k, v)
			l = append(l, hexName(string(k))+"="+hexName(string(v)))
		}
		sort.Strings(l)
		c.Dec.AtomMapping = m
		c.Lines = append(c.Lines, "amap d "+strings.Join(l, ","))
	}
	if c.Reg {
		mine := map[string]bool{}
		for i, n := range edfRegNames {
			if c.RegHalf && i%2 == 1 {
				continue
			}
			mine[n] = true
		}
		var names []string
		if c.Boundary {
			// the caches are plain sync.Maps: ids assigned by hand, the first two and the last possible one included
			ids := map[reflect.Type]uint16{}
			ids[edfBoundaryTypes[0]], ids[edfBoundaryTypes[1]], ids[edfBoundaryTypes[2]] = 4096, 4097, 65535
			next := uint16(4098)
			for i, e := range edfRegs {
				if _, ok := ids[e.T]; !ok && i%3 != 0 {
					ids[e.T] = next
					next++
				}
			}
			enc := new(sync.Map)
			for t, id := range ids {
				n := edfRegByT[t].Name
				c.regE[n], c.regD[id] = id, n
				enc.Store(t, []byte{131, byte(id >> 8), byte(id)})
			}
			c.Enc.RegCache = enc
		} else {
			for id, n := range edf.GetRegCache() {
				if mine[n] {
					c.regE[n] = id
					c.regD[id] = n
					names = append(names, n)
				}
			}
			c.Enc.RegCache = edf.MakeEncodeRegTypeCache(names)
		}
		d := new(sync.Map)
		var le, ld []string
		for id, n := range c.regD {
			d.Store(id, n)
			le = append(le, fmt.Sprintf("%s=%d", hexName(n), id))
			ld = append(ld, fmt.Sprintf("%d=%s", id, hexName(n)))
		}
		c.Dec.RegCache = d
		sort.Strings(le)
		sort.Strings(ld)
		c.Lines = append(c.Lines, "rcache e "+strings.Join(le, ","), "rcache d "+strings.Join(ld, ","))
	}
	if c.Err {
		for id, e := range edf.GetErrCache() {
			c.errE[e] = id
			c.errD[id] = e
		}
		c.errE[vsOwn], c.errD[sentOwnID] = sentOwnID, vsOwn
		c.errE[vsLowID], c.errD[sentLowIDVal] = sentLowIDVal, vsLowID
		if c.ErrForeign {
			// makeDecodeErrCache keeps the remote's error value when no local error has that text
			id := c.errE[gen.ErrProcessUnknown]
			c.errD[id] = errors.New(gen.ErrProcessUnknown.Error())
		}
		if c.ErrRenumber {
			// the encoding peer registered the same errors in another order: its ids are shifted. What the decoding side
			// makes of the announced table (id -> an error VALUE that is not this process's sentinel, only its text) is
			// decided by the real constructor of the handshake: the local sentinel registered under the same text.
			local := edf.GetErrCache()
			remote := map[uint16]error{}
			c.errE, c.errD = map[error]uint16{}, map[uint16]error{}
			for id, er := range local {
				rid := id + 1000
				c.errE[er] = rid
				remote[rid] = errors.New(er.Error())
			}
			if dc := handshake.VerifMakeDecodeErrCache(local, remote); dc != nil {
				dc.Range(func(k, v any) bool {
					c.errD[k.(uint16)] = v.(error)
					return true
				})
			}
			// the property: an error registered on both sides comes back as THIS side's sentinel, whatever id the peer uses
			for id, er := range local {
				if got := c.errD[id+1000]; got != er {
					c.SentinelFault = fmt.Sprintf("the peer announces %q under id %d (this node registered it under %d): the decode cache built by the handshake maps that id to %T %p, not to the local sentinel %p", er.Error(), id+1000, id, got, got, er)
					break
				}
			}
		}
		e, d := new(sync.Map), new(sync.Map)
		var le, ld []string
		for er, id := range c.errE {
			e.Store(er, id)
			if k := sentinelIndex(er); k >= 0 {
				le = append(le, fmt.Sprintf("%d=%d", k, id))
			}
		}
		for id, er := range c.errD {
			d.Store(id, er)
			ld = append(ld, fmt.Sprintf("%d=%s", id, errText(er, textMode{})))
		}
		c.Enc.ErrCache, c.Dec.ErrCache = e, d
		sort.Strings(le)
		sort.Strings(ld)
		c.Lines = append(c.Lines, "ecache e "+strings.Join(le, ","), "ecache d "+strings.Join(ld, ","))
	}
	if c.Cache {
		c.Enc.Cache, c.Dec.Cache = new(sync.Map), new(sync.Map)
	}
	if c.NoDecCaches {
		c.Dec = edf.Options{}
		var keep []string
		for _, l := range c.Lines {
			f := strings.Fields(l)
			if len(f) >= 2 && f[1] == "d" {
				continue
			}
			keep = append(keep, l)
		}
		c.Lines = keep
		c.atomD, c.regD, c.errD, c.amapD = map[uint16]gen.Atom{}, map[uint16]string{}, map[uint16]error{}, map[gen.Atom]gen.Atom{}
	}
}

// ---------------------------------------------------------------------------
// Go side helpers
// ---------------------------------------------------------------------------

// goEncode: edf.Encode into a pooled buffer, result copied out
func goEncode(x any, o edf.Options) (out []byte, err error) {
	b := lib.TakeBuffer()
	defer lib.ReleaseBuffer(b)
	defer func() {
		if r := recover(); r != nil {
			err = fmt.Errorf("PANIC escaped edf.Encode: %v", r)
		}
	}()
	if err = edf.Encode(x, b, o); err != nil {
		return nil, err
	}
	return append([]byte(nil), b.B...), nil
}

// goDecode: edf.Decode under recover; escaped reports a panic that left edf.Decode
func goDecode(p []byte, o edf.Options) (v any, rest []byte, err error, escaped bool) {
	defer func() {
		if r := recover(); r != nil {
			err = fmt.Errorf("PANIC escaped edf.Decode: %v", r)
			escaped = true
		}
	}()
	v, rest, err = edf.Decode(p, o)
	return
}

// decText: the model's `dec` answer for a Go result
func decText(v any, rest []byte, err error) string {
	if err != nil {
		return "err"
	}
	if v == nil {
		return "ok nil " + hexOrDash(rest)
	}
	rv := reflect.ValueOf(v)
	return "ok " + tyText(rv.Type()) + " " + valText(rv) + " " + hexOrDash(rest)
}

var _ = unsafe.Sizeof(0)

// ---------------------------------------------------------------------------
// model driver, stateful use: preamble (+ configuration) in front of every chunk
// ---------------------------------------------------------------------------

// edfModel runs the query lines through `driver edf`, split into chunks of roughly equal byte size handled by
// `workers` processes; the preamble (registry, sentinels, configuration lines) precedes every chunk and must be
// answered with `ok` throughout. Returns one output line per query line.
func edfModel(preamble, lines []string, workers int) ([]string, error) {
	j := &edfJob{Cfg: preamble, Lines: lines}
	if err := edfModelJobs(nil, []*edfJob{j}, workers); err != nil {
		return nil, err
	}
	return j.Out, nil
}

type edfJob struct {
	Cfg   []string // configuration lines of this job (after the common preamble)
	Lines []string
	Out   []string
}

// edfModelJobs: several (configuration, queries) jobs over one pool of driver processes
func edfModelJobs(preamble []string, jobs []*edfJob, workers int) error {
	if workers < 1 {
		workers = 1
	}
	total := 0
	for _, j := range jobs {
		j.Out = make([]string, len(j.Lines))
		for _, l := range j.Lines {
			total += len(l) + 1
		}
	}
	target := total/(workers*3) + 1
	if target < 1<<16 {
		target = 1 << 16
	}
	type chunk struct {
		j      *edfJob
		lo, hi int
	}
	var chunks []chunk
	for _, j := range jobs {
		lo, sz := 0, 0
		for i, l := range j.Lines {
			sz += len(l) + 1
			if sz >= target {
				chunks = append(chunks, chunk{j, lo, i + 1})
				lo, sz = i+1, 0
			}
		}
		if lo < len(j.Lines) {
			chunks = append(chunks, chunk{j, lo, len(j.Lines)})
		}
	}
	sem := make(chan struct{}, workers)
	errs := make([]error, len(chunks))
	var wg sync.WaitGroup
	for ci, c := range chunks {
		wg.Add(1)
		sem <- struct{}{}
		go func(ci int, c chunk) {
			defer wg.Done()
			defer func() { <-sem }()
			in := make([]string, 0, len(preamble)+len(c.j.Cfg)+c.hi-c.lo)
			in = append(in, preamble...)
			in = append(in, c.j.Cfg...)
			in = append(in, c.j.Lines[c.lo:c.hi]...)
			out, err := Model("edf", in)
			if err != nil {
				errs[ci] = err
				return
			}
			np := len(preamble) + len(c.j.Cfg)
			for i := 0; i < np; i++ {
				if out[i] != "ok" {
					errs[ci] = fmt.Errorf("driver edf: configuration line %q answered %q", in[i], out[i])
					return
				}
			}
			copy(c.j.Out[c.lo:c.hi], out[np:])
		}(ci, c)
	}
	wg.Wait()
	for _, e := range errs {
		if e != nil {
			return e
		}
	}
	return nil
}

import ErgoVerif.Lemmas.Ref
import ErgoVerif.Model.Registry
/-!
# C06 — registry integrity: unique identities, complete release on termination

* identifiers: `Generated/Ref.lean` is node.MakeRef translated operator by operator; references, aliases and
  event tokens are all minted by it from one atomic counter.
* names: `Model/Registry.lean`, the RegisterName / spawn-with-name race on one name.
* release of link/monitor relations on termination: stated over the TargetManager model in `Props/C04.lean`
  (`C04_release`), checked on the real node by the C06 harness (names, aliases, events, relations as target and as
  requester).
-/
namespace ErgoVerif.Props.C06
open ErgoVerif

/-- **References never repeat.** `MakeRef` is injective in the counter value: two references (aliases, event
tokens) of one node incarnation are equal only if they were minted from the same counter value, i.e. no repetition
before the 64-bit counter itself wraps (2^64 calls). -/
theorem C06_makeRef_inj (a b : BitVec 64)
    (h0 : Gen.Ref.makeRef0 a = Gen.Ref.makeRef0 b) (h1 : Gen.Ref.makeRef1 a = Gen.Ref.makeRef1 b)
    (_h2 : Gen.Ref.makeRef2 a = Gen.Ref.makeRef2 b) : a = b := by
  unfold Gen.Ref.makeRef0 at h0
  unfold Gen.Ref.makeRef1 at h1
  rw [Ref.mask18] at h0
  exact Ref.split18_inj a b h0 h1

/-- the counter can be read back from the first two words -/
theorem C06_makeRef_recover (a : BitVec 64) :
    (Gen.Ref.makeRef1 a).toNat * 2^18 + (Gen.Ref.makeRef0 a).toNat = a.toNat ∧ (Gen.Ref.makeRef0 a).toNat < 2^18 := by
  unfold Gen.Ref.makeRef0 Gen.Ref.makeRef1
  rw [Ref.mask18]
  have := Ref.split18_recombine a
  omega

/-- The code before the repair of D1 (`ID[1] = id >> 46`): the reference repeats after 262144 calls. -/
theorem C06_D1_before_fix :
    ∃ a b : BitVec 64, a ≠ b ∧ (a &&& ((2#64 <<< 17) - 1#64), a >>> 46) = (b &&& ((2#64 <<< 17) - 1#64), b >>> 46) :=
  ⟨1#64, 262145#64, by decide, by decide⟩

open ErgoVerif.Registry in
/-- **A name belongs to at most one process.** In every reachable configuration of the registration race at most
one claimant holds (or is completing its hold on) the name, and it does so exactly when the name is in the table. -/
theorem C06_name_unique (c : Cfg) (h : Reach c) :
    c.c2 + c.ok ≤ 1 ∧ (c.held = true ↔ c.c2 + c.ok = 1) := by
  have hi := reach_inv h
  unfold Registry.Inv at hi
  cases hh : c.held <;> simp [hh] at hi ⊢ <;> omega

open ErgoVerif.Registry in
/-- **Racing claimants: exactly one succeeds.** When any number n ≥ 1 of processes race for a free name and nobody
unregisters it, then once all calls have returned exactly one returned nil, the others got ErrTaken, and the table
holds the name. -/
theorem C06_race_one_winner (c : Cfg) (h : Reach c) (hq : c.c0 = 0 ∧ c.c1 = 0 ∧ c.c2 = 0)
    (hn : c.n ≥ 1) (hr : c.released = 0) : c.okEver = 1 ∧ c.err = c.n - 1 ∧ c.held = true := by
  have hi := reach_inv h
  unfold Registry.Inv at hi
  cases hh : c.held <;> simp [hh] at hi ⊢ <;> omega

open ErgoVerif.Registry in
/-- after the holder is unregistered (or terminates) the name can be claimed again: a later claimant succeeds -/
theorem C06_name_reusable :
    ∃ c, Reach c ∧ c.released = 1 ∧ c.okEver = 2 ∧ c.held = true :=
  ⟨_, ⟨[.newClaim, .cas, .store, .assign, .unreg, .newClaim, .cas, .store, .assign], rfl⟩, by decide⟩

open ErgoVerif.Registry in
/-- non-vacuity: three racing claimants, one winner -/
example : ∃ c, Reach c ∧ c.n = 3 ∧ c.okEver = 1 ∧ c.err = 2 :=
  ⟨_, ⟨[.newClaim, .newClaim, .newClaim, .cas, .cas, .store, .cas, .store, .assign, .store], rfl⟩, by decide⟩

end ErgoVerif.Props.C06

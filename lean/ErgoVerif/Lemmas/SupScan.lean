import ErgoVerif.Model.SupCommon
/- the `for _, cs := range s.spec` loop at the head of OFO/ARFO childTerminated, characterised -/
namespace ErgoVerif.Sup

def hit (name pid : Nat) (c : ChildSpec) : Bool := c.name == name || c.pid == pid

/-- the slice after the loop: exactly the specs matching the exit (by name or pid) have their pid cleared -/
theorem scan_spec_eq (name pid : Nat) (k : Nat) (l : List ChildSpec) :
    (scan name pid k l).spec = l.map (fun c => if hit name pid c then { c with pid := 0 } else c) := by
  induction l generalizing k with
  | nil => simp [scan]
  | cons c t ih =>
    simp only [scan, List.map_cons]
    by_cases h : c.name = name ∨ c.pid = pid
    · have hh : hit name pid c = true := by simpa [hit] using h
      simp [h, hh, ih]
    · have hh : hit name pid c = false := by
        simp only [hit, Bool.or_eq_false_iff, beq_eq_false_iff_ne]
        exact ⟨fun e => h (Or.inl e), fun e => h (Or.inr e)⟩
      simp only [h, if_false, hh]
      split <;> simp [ih]

/-- runningChildren: the pids of the other specs that have one, in spec order -/
theorem scan_running_eq (name pid : Nat) (k : Nat) (l : List ChildSpec) :
    (scan name pid k l).running = (l.filter (fun c => !hit name pid c && c.pid != 0)).map (·.pid) := by
  induction l generalizing k with
  | nil => simp [scan]
  | cons c t ih =>
    simp only [scan]
    by_cases h : c.name = name ∨ c.pid = pid
    · have hh : hit name pid c = true := by simpa [hit] using h
      simp [h, hh, ih, List.filter]
    · have hh : hit name pid c = false := by
        simp only [hit, Bool.or_eq_false_iff, beq_eq_false_iff_ne]
        exact ⟨fun e => h (Or.inl e), fun e => h (Or.inr e)⟩
      simp only [h, if_false]
      by_cases hp : c.pid = 0
      · simp [hp, hh, ih, List.filter]
      · have hp' : (c.pid != 0) = true := by simpa using hp
        simp [hp, hp', hh, ih, List.filter]

/-- nothing matched: the slice is unchanged -/
theorem scan_found_none (name pid : Nat) (k : Nat) (l : List ChildSpec)
    (h : (scan name pid k l).found = none) : ∀ c ∈ l, hit name pid c = false := by
  induction l generalizing k with
  | nil => simp
  | cons c t ih =>
    simp only [scan] at h
    by_cases hm : c.name = name ∨ c.pid = pid
    · simp only [hm, if_true] at h
      split at h <;> simp at h
    · simp only [hm, if_false] at h
      have hh : hit name pid c = false := by
        simp only [hit, Bool.or_eq_false_iff, beq_eq_false_iff_ne]
        exact ⟨fun e => hm (Or.inl e), fun e => hm (Or.inr e)⟩
      have ht : (scan name pid (k + 1) t).found = none := by
        split at h <;> exact h
      intro x hx
      rcases List.mem_cons.mp hx with rfl | hx
      · exact hh
      · exact ih (k + 1) ht x hx

/-- something matched: the reported spec is a matching spec of the slice with its pid cleared, at the reported index -/
theorem scan_found_some (name pid : Nat) (k : Nat) (l : List ChildSpec) (j : Nat) (c : ChildSpec)
    (h : (scan name pid k l).found = some (j, c)) :
    k ≤ j ∧ ∃ c0, l[j - k]? = some c0 ∧ hit name pid c0 = true ∧ c = { c0 with pid := 0 } := by
  induction l generalizing k with
  | nil => simp [scan] at h
  | cons a t ih =>
    simp only [scan] at h
    by_cases hm : a.name = name ∨ a.pid = pid
    · simp only [hm, if_true] at h
      cases hf : (scan name pid (k + 1) t).found with
      | none =>
        simp only [hf] at h
        simp at h
        obtain ⟨rfl, rfl⟩ := h
        exact ⟨Nat.le_refl _, a, by simp, by simpa [hit] using hm, rfl⟩
      | some x =>
        simp only [hf] at h
        simp at h
        subst h
        have ⟨h1, c0, h2, h3, h4⟩ := ih (k + 1) hf
        refine ⟨by omega, c0, ?_, h3, h4⟩
        have : j - k = (j - (k + 1)) + 1 := by omega
        rw [this]; simpa using h2
    · simp only [hm, if_false] at h
      have ht : (scan name pid (k + 1) t).found = some (j, c) := by
        split at h <;> exact h
      have ⟨h1, c0, h2, h3, h4⟩ := ih (k + 1) ht
      refine ⟨by omega, c0, ?_, h3, h4⟩
      have : j - k = (j - (k + 1)) + 1 := by omega
      rw [this]; simpa using h2

end ErgoVerif.Sup

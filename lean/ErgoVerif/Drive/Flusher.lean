import ErgoVerif.Drive.Util
import ErgoVerif.Model.Flusher
namespace ErgoVerif.Drive.Flusher
open ErgoVerif ErgoVerif.Drive ErgoVerif.Flusher

structure D where
  cap : Nat
  ka : Option (List Nat)
  s : St

/-- byte i of the write that starts at `start` -/
def payload (start n : Nat) : List Nat := (List.range n).map (fun i => (start + i) % 251)

def chunkSig (c : List Nat) : String :=
  s!"{c.length}:{c.foldl (fun h b => (h * 31 + b + 1) % 1000003) 7}"

def showDelta (before after : St) : String :=
  let d := after.out.drop before.out.length
  let ds := if d.isEmpty then "-" else ",".intercalate (d.map chunkSig)
  s!"{ds} buf={after.buf.length} pending={if after.pending then 1 else 0} armed={if after.armed then 1 else 0}"

/-- `new <cap> <ka bytes|->` | `w <start> <n>` | `fire` | `stale` | `sent` -/
def line (d : D) (ln : String) : D × String :=
  match words ln with
  | ["new", c, k] =>
    match c.toNat?, parseNatList? k with
    | some c, some k => ({ cap := c, ka := if k.isEmpty then none else some k, s := init }, "ok")
    | _, _ => (d, "bad-op")
  | ["w", st, n] =>
    match st.toNat?, n.toNat? with
    | some st, some n =>
      let s' := step d.cap d.ka d.s (.write (payload st n))
      ({ d with s := s' }, "ok " ++ showDelta d.s s')
    | _, _ => (d, "bad-op")
  | ["fire"] => let s' := step d.cap d.ka d.s .fire; ({ d with s := s' }, "ok " ++ showDelta d.s s')
  | ["stale"] => let s' := step d.cap d.ka d.s .stale; ({ d with s := s' }, "ok " ++ showDelta d.s s')
  | ["sent"] => (d, s!"ok {chunkSig d.s.sent} log={chunkSig d.s.log.flatten}")
  | _ => (d, "bad-op")

def main (h : IO.FS.Stream) : IO Unit := loopState h line { cap := 4096, ka := none, s := init }
end ErgoVerif.Drive.Flusher

import ErgoVerif.Lemmas.Window
/-!
# C09 — restart intensity limit

`Window.check` mirrors `supCheckRestartIntensity`; `runImpl` folds it over a
supervisor's whole failure history (the lazily pruned list is the state),
`runSpec` is the rule of the property: give up at a failure iff more than
`intensity` failures, this one included, happened within the last period.
-/
namespace ErgoVerif.Props.C09
open ErgoVerif.Window

/-- For every period ≥ 0, every intensity and every monotone failure history the
implementation's verdicts are exactly the rule's verdicts: it gives up exactly at the
(Intensity+1)-th failure within the period, older failures do not count
(although they are pruned lazily), and at or below the limit it does not give up. -/
theorem C09_window (period : Int) (hp : 0 ≤ period) (k : Nat) (ts : List Int) (hs : Sorted ts) :
    (runImpl period k [] ts).2 = runSpec period k [] ts := by
  cases ts with
  | nil => simp [runImpl, runSpec]
  | cons t ts' =>
    exact runImpl_eq_runSpec hp k (t :: ts') [] [] t ⟨[], by simp, by simp, trivial, by simp⟩
      (by cases ts' with
          | nil => exact ⟨Int.le_refl _, trivial⟩
          | cons b r => exact ⟨Int.le_refl _, hs⟩)

/-- one step, stated on the retained list: the verdict is the window count -/
theorem C09_step (st : List Int) (now period : Int) (k : Nat)
    (hs : Sorted (st ++ [now])) (hn : ∀ x ∈ st, x ≤ now) :
    (check st now period k).2 = decide (inWindow (st ++ [now]) now period > k) :=
  check_spec st now period k hs hn

/-- at or below the limit: never exceeded -/
theorem C09_below_limit (period : Int) (hp : 0 ≤ period) (k : Nat) (pre st : List Int) (last t : Int)
    (hr : Rel period pre st last) (ht : last ≤ t) (hle : inWindow (pre ++ [t]) t period ≤ k) :
    (check st t period k).2 = false := by
  rw [(rel_step hp k hr ht).2]; simp; omega

/-- non-vacuity: a concrete history (intensity 2, period 5 s): three failures within 5 s exceed,
    a failure 6 s after the first two does not. -/
example : (runImpl 5000 2 [] [0, 1000, 2000]).2 = [false, false, true] := by decide
example : (runImpl 5000 2 [] [0, 1000, 6001, 6500, 6600]).2 = [false, false, false, false, true] := by decide
example : (runImpl 5000 2 [] [0, 1000, 6001]).2 = [false, false, false] := by decide
example : Sorted [0, 1000, 6001, 6500] := by simp [Sorted]

end ErgoVerif.Props.C09

import ErgoVerif.Props.C07
import ErgoVerif.Generated.WaitResp
/-!
# C07 — error responses are correlated like value responses

A reply reaches the caller through `RouteSendResponse` (a value) or `RouteSendResponseError` (an error made by the
callee, or a delivery error of an important request reported by the peer node); both sit in the same channel.
`stepE rf err` is `Call.step` with the order of the two tests in `waitResponse` as a parameter: `rf` (regenerated:
`Gen.WaitResp.refComparedFirst`) — the reference is compared before anything of the reply is looked at; otherwise an
error reply (`err rp`) is returned at once, whatever reference it carries.

* `C07_own_reply_err`           — for the code as it is, the statement of `C07_own_reply` for histories with error replies
* `C07_errors_first_returns_foreign` — the other order returns the late error reply of request 1 as the result of request 2
-/
namespace ErgoVerif.Props.C07Err
open ErgoVerif ErgoVerif.Call ErgoVerif.Props.C07

def stepE (rf : Bool) (err : Reply → Bool) (s : St) : Op → St
  | .recv =>
    match s.waiting, s.chan with
    | some r, rp :: rest =>
      if !rf && err rp then
        { s with waiting := none, chan := rest, consumed := rp :: s.consumed, returned := (r, .value rp.val) :: s.returned }
      else step s .recv
    | _, _ => s
  | o => step s o

def runOpsE (rf : Bool) (err : Reply → Bool) (ops : List Op) : St := ops.foldl (stepE rf err) St.init

theorem stepE_true (err : Reply → Bool) (s : St) (o : Op) : stepE true err s o = step s o := by
  cases o with
  | recv =>
    simp only [stepE]
    cases hw : s.waiting with
    | none => simp [step, hw]
    | some r =>
      cases hc : s.chan with
      | nil => simp [step, hw, hc]
      | cons rp rest => simp
  | call r => rfl
  | deliver rp => rfl
  | timeout => rfl

theorem runOpsE_true (err : Reply → Bool) (ops : List Op) : runOpsE true err ops = runOps ops := by
  unfold runOpsE runOps
  have : stepE true err = step := by funext s o; exact stepE_true err s o
  rw [this]

/-- the flag form -/
theorem C07_own_reply_err_full (rf : Bool) (hrf : rf = true) (err : Reply → Bool) (ops : List Op) (r : Ref) (v : Nat)
    (h : (r, Outcome.value v) ∈ (runOpsE rf err ops).returned) :
    (⟨r, v⟩ : Reply) ∈ (runOpsE rf err ops).delivered ∧ r ∈ (runOpsE rf err ops).issued := by
  subst hrf
  rw [runOpsE_true] at h ⊢
  exact C07_own_reply ops r v h

theorem C07_code_shape_wait : Gen.WaitResp.refComparedFirst = true ∧ 0 < Gen.WaitResp.responseCases := by decide

/-- for the code as it is: whichever replies are errors, a call returns only a reply that carries its own reference -/
theorem C07_own_reply_err (err : Reply → Bool) (ops : List Op) (r : Ref) (v : Nat)
    (h : (r, Outcome.value v) ∈ (runOpsE Gen.WaitResp.refComparedFirst err ops).returned) :
    (⟨r, v⟩ : Reply) ∈ (runOpsE Gen.WaitResp.refComparedFirst err ops).delivered ∧
    r ∈ (runOpsE Gen.WaitResp.refComparedFirst err ops).issued :=
  C07_own_reply_err_full _ C07_code_shape_wait.1 err ops r v h

/-- errors first: request 1 times out, its late ERROR reply arrives while request 2 waits and is returned for it -/
theorem C07_errors_first_returns_foreign :
    (runOpsE false (fun _ => true) [.call 1, .timeout, .call 2, .deliver ⟨1, 100⟩, .recv]).returned
      = [(2, .value 100), (1, .timeout)] ∧
    (runOpsE true (fun _ => true) [.call 1, .timeout, .call 2, .deliver ⟨1, 100⟩, .recv, .deliver ⟨2, 200⟩, .recv]).returned
      = [(2, .value 200), (1, .timeout)] := by decide

end ErgoVerif.Props.C07Err

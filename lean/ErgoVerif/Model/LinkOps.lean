import ErgoVerif.Model.TM
/-
Node-level link/monitor operations over the TargetManager model (node/core.go RouteLink*/RouteMonitor*/
RouteUnlink*/RouteDemonitor* local branches, RouteTerminatePID/ProcessID/Alias/Event, node/node.go
unregisterProcess / UnregisterName / unregisterEvent, node/process.go DeleteAlias).

Sequential granularity: every API call is one step. `live t` = the lookup table (processes / names / aliases /
events) contains the target. When a target goes away the relations on it are drained through the index
(`cleanupTarget`) and one exit (link) or down (monitor) is sent per drained relation.
The small-step model of the request-vs-termination race is `Race` below.
-/
namespace ErgoVerif.LinkOps
open ErgoVerif.TM

structure World where
  tm : TM.St
  live : Target → Bool
  sent : List Notif            -- every exit / down notification sent so far, in order

def World.init : World := ⟨TM.init, fun _ => false, []⟩

inductive Op
  | create (t : Target)                       -- spawn / RegisterName / CreateAlias / RegisterEvent
  | link (c : Pid) (t : Target)
  | unlink (c : Pid) (t : Target)
  | monitor (c : Pid) (t : Target)
  | demonitor (c : Pid) (t : Target)
  | gone (t : Target)                         -- UnregisterName / DeleteAlias / UnregisterEvent, or one leg of a termination
  | terminate (p : Pid) (owned : List Target) -- unregisterProcess: the pid, then its name, aliases, events; then CleanupConsumer

inductive Res
  | ok | errUnknown | errExist | errNoRel
  | notified (ns : List Notif)
deriving DecidableEq, Repr

def setLive (live : Target → Bool) (t : Target) (b : Bool) : Target → Bool := fun x => if x = t then b else live x

/-- a target disappears: table entry deleted, relations drained, one notification per relation -/
def goneStep (w : World) (t : Target) : World × List Notif :=
  let r := cleanupTarget w.tm t
  let ns := r.2.map notifOf
  (⟨r.1, setLive w.live t false, w.sent ++ ns⟩, ns)

def addRel (w : World) (k : Key) : World × Res :=
  if w.live k.target then
    let r := add w.tm k
    (⟨r.1, w.live, w.sent⟩, match r.2 with | none => .ok | some _ => .errExist)
  else (w, .errUnknown)

def delRel (w : World) (k : Key) : World × Res :=
  let r := remove w.tm k
  (⟨r.1, w.live, w.sent⟩, match r.2 with | none => .ok | some _ => .errNoRel)

def goneAll (w : World) : List Target → World × List Notif
  | [] => (w, [])
  | t :: ts =>
    let r := goneStep w t
    let r2 := goneAll r.1 ts
    (r2.1, r.2 ++ r2.2)

def step (w : World) : Op → World × Res
  | .create t => (⟨w.tm, setLive w.live t true, w.sent⟩, .ok)
  | .link c t => addRel w ⟨c, t, false⟩
  | .unlink c t => delRel w ⟨c, t, false⟩
  | .monitor c t => addRel w ⟨c, t, true⟩
  | .demonitor c t => delRel w ⟨c, t, true⟩
  | .gone t => let r := goneStep w t; (r.1, .notified r.2)
  | .terminate p owned =>
    let r := goneAll w (.pid p :: owned)
    let cc := cleanupConsumer r.1.tm p
    (⟨cc.1, r.1.live, r.1.sent⟩, .notified r.2)

def runOps (w : World) : List Op → World
  | [] => w
  | o :: os => runOps (step w o).1 os

/-! ### the request-vs-termination race, small step (one consumer, one target) -/

namespace Race

inductive LPc | check | add | recheck | doneOk | doneErr deriving DecidableEq, Repr
inductive TPc | delete | drain | done deriving DecidableEq, Repr

structure Cfg where
  inTable : Bool      -- the lookup table still has the target
  rel : Bool          -- the relation is in the target manager
  l : LPc             -- the requester (RouteLink*/RouteMonitor* local branch)
  t : TPc             -- the terminator (unregisterProcess: table delete, then drain + notify)
  notified : Bool
deriving DecidableEq, Repr

inductive Lbl | lStep | tStep deriving DecidableEq, Repr

def init : Cfg := ⟨true, false, .check, .delete, false⟩

/-- `recheck` = the code looks the target up again after inserting the relation and, if it vanished and the
    relation is still there (the drain did not take it), removes it and fails -/
def step (recheck : Bool) (c : Cfg) : Lbl → Option Cfg
  | .lStep => match c.l with
    | .check => if c.inTable then some { c with l := .add } else some { c with l := .doneErr }
    | .add => some { c with rel := true, l := if recheck then .recheck else .doneOk }
    | .recheck =>
      if c.inTable then some { c with l := .doneOk }
      else if c.rel then some { c with rel := false, l := .doneErr }   -- drain had not taken it: undo, report unknown
      else some { c with l := .doneOk }                                 -- drain took it: the requester was notified
    | _ => none
  | .tStep => match c.t with
    | .delete => some { c with inTable := false, t := .drain }
    | .drain => if c.rel then some { c with rel := false, notified := true, t := .done } else some { c with t := .done }
    | .done => none

def run (recheck : Bool) : Cfg → List Lbl → Option Cfg
  | c, [] => some c
  | c, l :: ls => match step recheck c l with
    | none => none
    | some c' => run recheck c' ls

end Race
end ErgoVerif.LinkOps

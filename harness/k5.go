package main

import (
	"encoding/binary"
	"fmt"
	"io"
	"net"
	"strings"
	"sync"
	"time"

	"ergo.services/ergo/gen"
	"ergo.services/ergo/lib"
	"ergo.services/ergo/net/edf"
	"ergo.services/ergo/net/handshake"
	"ergo.services/ergo/net/proto"
)

// K5 wire harness: two real `proto` connections joined by in-memory links whose delivery the
// harness controls frame by frame (per-link hold/release), a mock gen.Core that records Route* calls.

// ---- silent log --------------------------------------------------------------------------

type k5log struct {
	mu     sync.Mutex
	errors []string
}

func (*k5log) Level() gen.LogLevel         { return gen.LogLevelDisabled }
func (*k5log) SetLevel(gen.LogLevel) error { return nil }
func (*k5log) Logger() string              { return "" }
func (*k5log) SetLogger(string)            {}
func (*k5log) Fields() []gen.LogField      { return nil }
func (*k5log) AddFields(...gen.LogField)   {}
func (*k5log) DeleteFields(...string)      {}
func (*k5log) PushFields() int             { return 0 }
func (*k5log) PopFields() int              { return 0 }
func (*k5log) Trace(string, ...any)        {}
func (*k5log) Debug(string, ...any)        {}
func (*k5log) Info(string, ...any)         {}
func (*k5log) Warning(string, ...any)      {}
func (l *k5log) Error(f string, a ...any) {
	l.mu.Lock()
	l.errors = append(l.errors, fmt.Sprintf(f, a...))
	l.mu.Unlock()
}
func (l *k5log) Panic(f string, a ...any) { l.Error("PANIC "+f, a...) }

// k5notify is pinged whenever a link receives bytes, B consumes bytes or a core records a message
var k5notify = make(chan struct{}, 1)

func k5ping() {
	select {
	case k5notify <- struct{}{}:
	default:
	}
}

// k5wait blocks until the next ping (at most d)
func k5wait(d time.Duration) {
	t := time.NewTimer(d)
	select {
	case <-k5notify:
	case <-t.C:
	}
	t.Stop()
}

// ---- mock core ----------------------------------------------------------------------------

type k5routed struct {
	From, To uint64
	Kind     byte // 'P' pid, 'A' alias, 'N' name
	Name     string
	Seq      int64
}

type k5core struct {
	gen.Core
	name     gen.Atom
	creation int64
	mu       sync.Mutex
	cond     *sync.Cond
	got      []k5routed
	hold     map[int64]chan struct{} // messages whose worker is stalled before the mailbox push
	uniq     uint64
}

func newK5core(name string, creation int64) *k5core {
	c := &k5core{name: gen.Atom(name), creation: creation, hold: map[int64]chan struct{}{}}
	c.cond = sync.NewCond(&c.mu)
	return c
}

func (c *k5core) Name() gen.Atom                { return c.name }
func (c *k5core) Creation() int64               { return c.creation }
func (c *k5core) PID() gen.PID                  { return gen.PID{Node: c.name, ID: 1, Creation: c.creation} }
func (c *k5core) LogLevel() gen.LogLevel        { return gen.LogLevelDisabled }
func (c *k5core) Security() gen.SecurityOptions { return gen.SecurityOptions{} }
func (c *k5core) MakeRef() gen.Ref {
	c.mu.Lock()
	defer c.mu.Unlock()
	c.uniq++
	return gen.Ref{Node: c.name, Creation: c.creation, ID: [3]uint64{c.uniq, 7, 0}}
}
func (c *k5core) RouteNodeDown(gen.Atom, error) {}

func (c *k5core) record(from, to uint64, kind byte, m any, name ...string) error {
	seq, _ := k5seqOf(m)
	c.mu.Lock()
	ch := c.hold[seq]
	c.mu.Unlock()
	if ch != nil {
		<-ch // the queue worker is stalled here (before the message reaches the mailbox)
	}
	c.mu.Lock()
	nm := ""
	if len(name) > 0 {
		nm = name[0]
	}
	c.got = append(c.got, k5routed{from, to, kind, nm, seq})
	c.cond.Broadcast()
	c.mu.Unlock()
	k5ping()
	return nil
}
func (c *k5core) RouteSendPID(from gen.PID, to gen.PID, o gen.MessageOptions, m any) error {
	return c.record(from.ID, to.ID, 'P', m)
}
func (c *k5core) RouteSendAlias(from gen.PID, to gen.Alias, o gen.MessageOptions, m any) error {
	return c.record(from.ID, to.ID[1], 'A', m)
}
func (c *k5core) RouteSendProcessID(from gen.PID, to gen.ProcessID, o gen.MessageOptions, m any) error {
	return c.record(from.ID, 0, 'N', m, string(to.Name))
}

// holdSeq stalls the worker that will route message seq until the returned func is called.
func (c *k5core) holdSeq(seq int64) func() {
	ch := make(chan struct{})
	c.mu.Lock()
	c.hold[seq] = ch
	c.mu.Unlock()
	return func() { close(ch) }
}

func (c *k5core) count() int { c.mu.Lock(); defer c.mu.Unlock(); return len(c.got) }

// waitCount waits until n messages were routed; false on time-out.
func (c *k5core) waitCount(n int, d time.Duration) bool {
	deadline := time.Now().Add(d)
	c.mu.Lock()
	defer c.mu.Unlock()
	for len(c.got) < n {
		if time.Now().After(deadline) {
			return false
		}
		c.mu.Unlock()
		k5wait(2 * time.Millisecond)
		c.mu.Lock()
	}
	return true
}

func (c *k5core) snapshot() []k5routed {
	c.mu.Lock()
	defer c.mu.Unlock()
	return append([]k5routed(nil), c.got...)
}

// ---- gated link ----------------------------------------------------------------------------

type k5frame struct {
	Off, End int
	Order    byte
	Type     byte
	From, To uint64
	Seq      int64
	Z        bool   // the frame travelled compressed (protoMessageZ envelope); Order is the envelope's byte
	Inner    []byte // the unpacked original frame of a compressed one
}

// k5link carries bytes from A to B; B can read only what the harness released.
type k5link struct {
	id      int
	mu      sync.Mutex
	cond    *sync.Cond
	buf     []byte // everything A wrote
	read    int    // consumed by B
	avail   int    // released to B
	closedA bool   // A's end closed (A's serve() sees EOF)
	eofB    bool   // B sees EOF once it consumed everything released
	a, b    *k5end
}

type k5end struct {
	l    *k5link
	side byte
}

type k5addr string

func (a k5addr) Network() string { return "k5" }
func (a k5addr) String() string  { return string(a) }

func newK5link(id int) *k5link {
	l := &k5link{id: id}
	l.cond = sync.NewCond(&l.mu)
	l.a = &k5end{l, 'a'}
	l.b = &k5end{l, 'b'}
	return l
}

func (e *k5end) Write(p []byte) (int, error) {
	l := e.l
	l.mu.Lock()
	defer l.mu.Unlock()
	if e.side == 'b' {
		return len(p), nil // nothing travels B -> A in these scenarios; discard
	}
	if l.closedA {
		return 0, io.ErrClosedPipe
	}
	l.buf = append(l.buf, p...)
	l.cond.Broadcast()
	k5ping()
	return len(p), nil
}

func (e *k5end) Read(p []byte) (int, error) {
	l := e.l
	l.mu.Lock()
	defer l.mu.Unlock()
	if e.side == 'a' {
		for !l.closedA {
			l.cond.Wait()
		}
		return 0, io.EOF
	}
	for {
		end := l.avail
		if end > len(l.buf) {
			end = len(l.buf) // released beyond what has been written so far: everything written is readable
		}
		if l.read < end {
			n := copy(p, l.buf[l.read:end])
			l.read += n
			l.cond.Broadcast()
			k5ping()
			return n, nil
		}
		if l.eofB {
			return 0, io.EOF
		}
		l.cond.Wait()
	}
}

func (e *k5end) Close() error {
	l := e.l
	l.mu.Lock()
	if e.side == 'a' {
		l.closedA = true
	} else {
		l.eofB = true
	}
	l.cond.Broadcast()
	l.mu.Unlock()
	return nil
}
func (e *k5end) LocalAddr() net.Addr                { return k5addr(fmt.Sprintf("k5-%d%c", e.l.id, e.side)) }
func (e *k5end) RemoteAddr() net.Addr               { return k5addr(fmt.Sprintf("k5-%d%c-peer", e.l.id, e.side)) }
func (e *k5end) SetDeadline(t time.Time) error      { return nil }
func (e *k5end) SetReadDeadline(t time.Time) error  { return nil }
func (e *k5end) SetWriteDeadline(t time.Time) error { return nil }

// frames parses the complete frames A has written so far.
func (l *k5link) frames() []k5frame {
	l.mu.Lock()
	defer l.mu.Unlock()
	var fs []k5frame
	off := 0
	for len(l.buf)-off >= 8 {
		n := int(binary.BigEndian.Uint32(l.buf[off+2 : off+6]))
		if n < 8 || off+n > len(l.buf) {
			break
		}
		b := l.buf[off : off+n]
		f := k5frame{Off: off, End: off + n, Order: b[6], Type: b[7], Seq: -1}
		if b[7] == 200 && n > 9 { // protoMessageZ: unpack the original frame (9 byte envelope header)
			if in := k5unpack(b); len(in) >= 8 {
				f.Z, f.Inner, f.Type = true, in, in[7]
				b = in
			}
		}
		n0 := n
		n = len(b)
		if n >= 33 && b[7] == 101 { // protoMessagePID: from@8, to@25
			f.From = binary.BigEndian.Uint64(b[8:16])
			f.To = binary.BigEndian.Uint64(b[25:33])
		}
		if n >= 49 && b[7] == 104 { // protoMessageAlias: from@8, alias ID[0..2]@25; the wire byte derives from ID[1]
			f.From = binary.BigEndian.Uint64(b[8:16])
			f.To = binary.BigEndian.Uint64(b[33:41])
		}
		if n >= 26 && b[7] == 102 { // protoMessageName: from@8, name length@25
			f.From = binary.BigEndian.Uint64(b[8:16])
		}
		fs = append(fs, f)
		off += n0
	}
	return fs
}

// releaseTo lets B read up to byte offset `end`.
func (l *k5link) releaseTo(end int) {
	l.mu.Lock()
	if end > l.avail {
		l.avail = end
	}
	l.cond.Broadcast()
	l.mu.Unlock()
}

func (l *k5link) consumed() int { l.mu.Lock(); defer l.mu.Unlock(); return l.read }

// ---- a pair of connections -------------------------------------------------------------------

type k5pair struct {
	a, b     *k5core
	ca, cb   gen.Connection
	links    []*k5link
	log      *k5log
	poolSize int
}

const k5ConnID = "k5id"

func newK5pair(poolSize int, creationA, creationB int64) (*k5pair, error) {
	p := &k5pair{a: newK5core("a@k5", creationA), b: newK5core("b@k5", creationB), log: &k5log{}, poolSize: poolSize}
	mk := func(c *k5core, peer gen.Atom, peerCreation int64) (gen.Connection, error) {
		res := gen.HandshakeResult{
			ConnectionID: k5ConnID, Peer: peer, PeerCreation: peerCreation,
			PeerFlags: gen.DefaultNetworkFlags, NodeFlags: gen.DefaultNetworkFlags,
			Custom: handshake.ConnectionOptions{PoolSize: poolSize},
		}
		return proto.Create().NewConnection(c, res, p.log)
	}
	var err error
	if p.ca, err = mk(p.a, p.b.name, creationB); err != nil {
		return nil, err
	}
	if p.cb, err = mk(p.b, p.a.name, creationA); err != nil {
		return nil, err
	}
	return p, nil
}

// addLink creates a new gated link and joins it on both sides.
func (p *k5pair) addLink() (*k5link, error) {
	l := newK5link(len(p.links))
	if err := p.ca.Join(l.a, k5ConnID, nil, nil); err != nil {
		return nil, err
	}
	if err := p.cb.Join(l.b, k5ConnID, nil, nil); err != nil {
		return nil, err
	}
	p.links = append(p.links, l)
	return l, nil
}

// poolIDs maps the sender-side pool (real slice order) to harness link ids.
func (p *k5pair) poolIDs() []int {
	var ids []int
	for _, c := range proto.VerifPool(p.ca) {
		id := -1
		for _, l := range p.links {
			if c == net.Conn(l.a) {
				id = l.id
			}
		}
		ids = append(ids, id)
	}
	return ids
}

func (p *k5pair) close() {
	p.ca.Terminate(nil)
	p.cb.Terminate(nil)
	for _, l := range p.links {
		l.a.Close()
		l.b.Close()
	}
}

// totalFrames counts complete frames written by A over all links.
func (p *k5pair) totalFrames() int {
	n := 0
	for _, l := range p.links {
		n += len(l.frames())
	}
	return n
}

// waitFrames waits until A's flushers have written n complete frames.
func (p *k5pair) waitFrames(n int, d time.Duration) bool {
	deadline := time.Now().Add(d)
	for p.totalFrames() < n {
		if time.Now().After(deadline) {
			return false
		}
		k5wait(2 * time.Millisecond)
	}
	return true
}

// decodeSeq fills Seq of the frames by decoding the payload (int64) with the real EDF decoder.
func k5decodeSeq(l *k5link, fs []k5frame) {
	l.mu.Lock()
	defer l.mu.Unlock()
	for i := range fs {
		f := &fs[i]
		b := l.buf[f.Off:f.End]
		if f.Inner != nil {
			b = f.Inner
		}
		off := -1
		switch f.Type {
		case 101:
			off = 33
		case 104:
			off = 49
		case 102:
			if 26 <= len(b) {
				off = 26 + int(b[25])
			}
		}
		if off < 0 || off > len(b) {
			continue
		}
		v, _, err := edf.Decode(b[off:], edf.Options{})
		if err == nil {
			if s, ok := k5seqOf(v); ok {
				f.Seq = s
			}
		}
	}
}

// k5seqOf: the sequence number a harness payload carries: an int64, or (large, compressible messages) a
// string "<seq>:xxxx…".
func k5seqOf(m any) (int64, bool) {
	switch v := m.(type) {
	case int64:
		return v, true
	case string:
		var s int64
		if _, err := fmt.Sscanf(v, "%d:", &s); err == nil {
			return s, true
		}
	}
	return 0, false
}

// k5bigPayload is a payload above the compression threshold the harness uses (100 bytes).
func k5bigPayload(seq int64) string { return fmt.Sprintf("%d:", seq) + strings.Repeat("x", 300) }

// k5unpack returns the original frame inside a protoMessageZ envelope (nil when it does not unpack).
func k5unpack(b []byte) []byte {
	src := &lib.Buffer{B: append([]byte(nil), b...)}
	var dst *lib.Buffer
	var err error
	switch b[8] {
	case gen.CompressionTypeGZIP.ID():
		dst, err = lib.DecompressGZIP(src, 9)
	case gen.CompressionTypeLZW.ID():
		dst, err = lib.DecompressLZW(src, 9)
	case gen.CompressionTypeZLIB.ID():
		dst, err = lib.DecompressZLIB(src, 9)
	default:
		return nil
	}
	if err != nil || dst == nil {
		return nil
	}
	return append([]byte(nil), dst.B...)
}

import ErgoVerif.Lemmas.Handshake
/-! what each party requires to complete, the two replay theorems over an abstract knowledge set,
    and the knowledge set of an eavesdropper of earlier honest sessions -/
namespace ErgoVerif.Handshake
open ErgoVerif.Generated

/-- knowledge after hearing more atoms -/
def learn (K : Atom → Prop) (l : List Atom) : Atom → Prop := fun t => K t ∨ t ∈ l

/-- what the acceptor requires for the main handshake to complete -/
theorem accept_main_ok (cfg : Cfg) (s id : Atom) (saltI digestI : Field) (rest : List Msg)
    (h : isOk (accept cfg s id (.hello saltI digestI :: rest)).res = true) :
    digestI = [H (saltI ++ [cfg.cookie])] ∧
    ∃ info dg rest2, rest = .intro info dg :: rest2 ∧ dg = [H [s, cfg.cookie]] ∧ info.name ≠ cfg.info.name := by
  by_cases hd : digestI = [H (saltI ++ [cfg.cookie])]
  · refine ⟨hd, ?_⟩
    subst hd
    cases rest with
    | nil => simp [accept, isOk] at h
    | cons m rest2 =>
      cases m with
      | intro info dg =>
        by_cases hname : info.name = cfg.info.name
        · simp [accept, isOk, hname] at h
        · by_cases hdg : dg = [H [s, cfg.cookie]]
          · exact ⟨info, dg, rest2, rfl, hdg, hname⟩
          · simp [accept, isOk, hname, hdg] at h
      | hello _ _ => simp [accept, isOk] at h
      | join _ _ _ _ => simp [accept, isOk] at h
      | accept _ _ _ => simp [accept, isOk] at h
      | other => simp [accept, isOk] at h
  · simp [accept, isOk, hd] at h

theorem accept_first_sent (cfg : Cfg) (s id : Atom) (saltI : Field) :
    (accept cfg s id [.hello saltI [H (saltI ++ [cfg.cookie])]]).sent =
      [.hello [s] [H [s, H (saltI ++ [cfg.cookie]), cfg.cookie]]] := by
  simp [accept]

theorem acceptor_not_fooled (cfg : Cfg) (c : Nat) (hcfg : cfg.cookie = .cookie c)
    (K : Atom → Prop) (adv : Nat → Prop) (s : Nat) (id : Atom)
    (hk : ¬ K (.cookie c)) (hfresh : ∀ t, K t → t.occurs s = false)
    (saltI digestI : Field) (rest : List Msg)
    (hder : ∀ info dg, rest.head? = some (.intro info dg) →
      DerivF (learn K ((accept cfg (.nonce s) id [.hello saltI digestI]).sent.flatMap Msg.atoms)) adv dg) :
    isOk (accept cfg (.nonce s) id (.hello saltI digestI :: rest)).res = false := by
  cases hok : isOk (accept cfg (.nonce s) id (.hello saltI digestI :: rest)).res with
  | false => rfl
  | true =>
    exfalso
    obtain ⟨hd, info, dg, rest2, rfl, hdg, _⟩ := accept_main_ok _ _ _ _ _ _ hok
    subst hd hdg
    have h1 := hder info _ rfl (H [Atom.nonce s, cfg.cookie]) (by simp)
    rw [accept_first_sent, hcfg] at h1
    simp only [List.flatMap_cons, Msg.atoms, List.flatMap_nil, List.append_nil, List.cons_append,
      List.nil_append] at h1
    have hk' : ¬ learn K [Atom.nonce s, H [Atom.nonce s, H (saltI ++ [Atom.cookie c]), Atom.cookie c]] (.cookie c) := by
      intro h; rcases h with h | h
      · exact hk h
      · simp at h
    have h2 : Derivable _ adv (H ([Atom.nonce s] ++ [Atom.cookie c])) := h1
    rcases hash_cookie_known hk' h2 with h | h
    · have := hfresh _ h; simp at this
    · simp at h

/-- what the initiator requires -/
theorem start_ok (cfg : Cfg) (s : Atom) (inbox : List Msg)
    (h : isOk (start cfg s inbox).res = true) :
    ∃ salt2 d2 rest, inbox = .hello salt2 d2 :: rest ∧ d2 = [H (salt2 ++ [H [s, cfg.cookie], cfg.cookie])] := by
  cases inbox with
  | nil => simp [start, isOk] at h
  | cons m rest =>
    cases m with
    | hello salt2 d2 =>
      by_cases hd : d2 = [H (salt2 ++ [H [s, cfg.cookie], cfg.cookie])]
      · exact ⟨salt2, d2, rest, rfl, hd⟩
      · simp [start, isOk, hd] at h
    | intro _ _ => simp [start, isOk] at h
    | join _ _ _ _ => simp [start, isOk] at h
    | accept _ _ _ => simp [start, isOk] at h
    | other => simp [start, isOk] at h

theorem initiator_not_fooled (cfg : Cfg) (c : Nat) (hcfg : cfg.cookie = .cookie c)
    (K : Atom → Prop) (adv : Nat → Prop) (s : Nat)
    (hk : ¬ K (.cookie c)) (hfresh : ∀ t, K t → t.occurs s = false)
    (inbox : List Msg)
    (hder : ∀ salt2 d2, inbox.head? = some (.hello salt2 d2) →
      DerivF (learn K ((start cfg (.nonce s) []).sent.flatMap Msg.atoms)) adv d2) :
    isOk (start cfg (.nonce s) inbox).res = false := by
  cases hok : isOk (start cfg (.nonce s) inbox).res with
  | false => rfl
  | true =>
    exfalso
    obtain ⟨salt2, d2, rest, rfl, hd⟩ := start_ok _ _ _ hok
    subst hd
    have h1 := hder salt2 _ rfl _ (List.mem_singleton.mpr rfl)
    simp only [start, start_hello_digest, hcfg, List.flatMap_cons, Msg.atoms, List.flatMap_nil, List.append_nil,
      List.cons_append, List.nil_append] at h1
    have hk' : ¬ learn K [Atom.nonce s, H [Atom.nonce s, Atom.cookie c]] (.cookie c) := by
      intro h; rcases h with h | h
      · exact hk h
      · simp at h
    have h2 : Derivable (learn K [Atom.nonce s, H [Atom.nonce s, Atom.cookie c]]) adv
        (H ((salt2 ++ [H [Atom.nonce s, Atom.cookie c]]) ++ [Atom.cookie c])) := by
      simpa using h1
    rcases hash_cookie_known hk' h2 with h | h
    · have := hfresh _ h; simp at this
    · simp only [List.mem_cons, H_ne_nonce, H_inj, List.not_mem_nil, or_false, false_or] at h
      have := congrArg List.length h
      simp at this
      subst this
      simp at h

theorem honest_eq (cI cA : Cfg) (sI sA idA : Atom) (hc : cI.cookie = cA.cookie) (hn : cI.info.name ≠ cA.info.name) :
    honest cI cA sI sA idA =
      ⟨[.hello [sA] [H [sA, H [sI, cI.cookie], cI.cookie]], .accept [idA] cA.poolSize emptyF, .intro cA.info emptyF],
       [.hello [sI] [H [sI, cI.cookie]], .intro cI.info [H [sA, cI.cookie]], .accept emptyF 0 emptyF],
       .ok (resultOf [idA] cA.info cI), .ok (resultOf [idA] cI.info cA)⟩ := by
  have hn' : ¬ cA.info.name = cI.info.name := fun h => hn h.symm
  simp [honest, deliver, round, start, accept, hc, hn, hn']

theorem honest_ne (cI cA : Cfg) (sI sA idA : Atom) (hc : cI.cookie ≠ cA.cookie) :
    (honest cI cA sI sA idA).resA = .error .digest ∧ (honest cI cA sI sA idA).resI = .error .read := by
  simp [honest, deliver, round, start, accept, hc]


theorem honest_same_name (cI cA : Cfg) (sI sA idA : Atom) (hc : cI.cookie = cA.cookie)
    (hn : cI.info.name = cA.info.name) :
    (honest cI cA sI sA idA).resA = .error .sameName ∧ (honest cI cA sI sA idA).resI = .error .read := by
  simp [honest, deliver, round, start, accept, hc, hn]

/-- further rounds deliver nothing new -/
theorem deliver_stable (cI cA : Cfg) (sI sA idA : Atom) :
    deliver cI cA sI sA idA 6 = deliver cI cA sI sA idA 5 := by
  by_cases hc : cI.cookie = cA.cookie
  · by_cases hn : cI.info.name = cA.info.name
    · simp [deliver, round, start, accept, hc, hn]
    · have hn' : ¬ cA.info.name = cI.info.name := fun h => hn h.symm
      simp [deliver, round, start, accept, hc, hn, hn']
  · simp [deliver, round, start, accept, hc]

/-- what the Join initiator requires of the reply -/
theorem join_ok (cfg : Cfg) (s : Atom) (id : Field) (inbox : List Msg)
    (h : isOk (join cfg s id inbox).res = true) :
    ∃ i p dg rest, inbox = .accept i p dg :: rest ∧ dg = [H [H (id ++ [s, cfg.cookie]), cfg.cookie]] := by
  cases inbox with
  | nil => simp [join, isOk] at h
  | cons m rest =>
    cases m with
    | accept i p dg =>
      by_cases hd : dg = [H [H (id ++ [s, cfg.cookie]), cfg.cookie]]
      · exact ⟨i, p, dg, rest, rfl, hd⟩
      · simp [join, isOk, hd] at h
    | hello _ _ => simp [join, isOk] at h
    | intro _ _ => simp [join, isOk] at h
    | join _ _ _ _ => simp [join, isOk] at h
    | other => simp [join, isOk] at h

/-- a node adding a link to its connection cannot be answered by someone without the cookie: the reply
    digest covers the Join digest, which covers the initiator's fresh salt -/
theorem join_initiator_not_fooled (cfg : Cfg) (c : Nat) (hcfg : cfg.cookie = .cookie c)
    (K : Atom → Prop) (adv : Nat → Prop) (s idn : Nat)
    (hk : ¬ K (.cookie c)) (hfresh : ∀ t, K t → t.occurs s = false)
    (inbox : List Msg)
    (hder : ∀ i p dg, inbox.head? = some (.accept i p dg) →
      DerivF (learn K ((join cfg (.nonce s) [.nonce idn] []).sent.flatMap Msg.atoms)) adv dg) :
    isOk (join cfg (.nonce s) [.nonce idn] inbox).res = false := by
  cases hok : isOk (join cfg (.nonce s) [.nonce idn] inbox).res with
  | false => rfl
  | true =>
    exfalso
    obtain ⟨i, p, dg, rest, rfl, hd⟩ := join_ok _ _ _ _ hok
    subst hd
    have h1 := hder i p _ rfl _ (List.mem_singleton.mpr rfl)
    simp only [join, join_digest, hcfg, List.flatMap_cons, Msg.atoms, List.flatMap_nil, List.append_nil,
      List.cons_append, List.nil_append] at h1
    have hk' : ¬ learn K [Atom.nonce idn, Atom.nonce s, H [Atom.nonce idn, Atom.nonce s, Atom.cookie c]] (.cookie c) := by
      intro h; rcases h with h | h
      · exact hk h
      · simp at h
    have h2 : Derivable (learn K [Atom.nonce idn, Atom.nonce s, H [Atom.nonce idn, Atom.nonce s, Atom.cookie c]]) adv
        (H ([H [Atom.nonce idn, Atom.nonce s, Atom.cookie c]] ++ [Atom.cookie c])) := by
      simpa using h1
    rcases hash_cookie_known hk' h2 with h | h
    · have := hfresh _ h; simp at this
    · simp only [List.mem_cons, H_ne_nonce, H_inj, List.not_mem_nil, or_false, false_or] at h
      have := congrArg List.length h
      simp at this


/-- what the acceptor requires of a Join -/
theorem accept_join_ok (cfg : Cfg) (s id : Atom) (node : Nat) (cid sj dj : Field) (rest : List Msg) :
    isOk (accept cfg s id (.join node cid sj dj :: rest)).res = true ↔ dj = [H (cid ++ sj ++ [cfg.cookie])] := by
  by_cases hd : dj = [H (cid ++ sj ++ [cfg.cookie])]
  · simp [accept, isOk, hd]
  · have hd' : ¬ dj = [H (cid ++ (sj ++ [cfg.cookie]))] := by simpa using hd
    simp [accept, isOk, hd']

theorem accept_join_result (cfg : Cfg) (s id : Atom) (node : Nat) (cid sj : Field) (rest : List Msg) :
    (accept cfg s id (.join node cid sj [H (cid ++ sj ++ [cfg.cookie])] :: rest)).res =
      .ok ⟨cid, node, 0, 0, 0, 0, 0, 0⟩ := by
  simp [accept]

/-- earlier honest, successful sessions an eavesdropper has recorded -/
inductive Past
  | main (cI cA : Cfg) (sI sA idA : Nat)
  | join (cJ cA : Cfg) (sJ idn : Nat)          -- an additional link joined to connection id `idn`

def Past.session : Past → Session
  | .main cI cA sI sA idA => honest cI cA (.nonce sI) (.nonce sA) (.nonce idA)
  | .join cJ cA sJ idn => honestJoin cJ cA (.nonce sJ) (.nonce 0) (.nonce 0) [.nonce idn]

/-- the sessions used cookie `c` on both sides (and succeeded) -/
def Past.wf (c : Nat) : Past → Prop
  | .main cI cA _ _ _ => cI.cookie = .cookie c ∧ cA.cookie = .cookie c ∧ cI.info.name ≠ cA.info.name
  | .join cJ cA _ _ => cJ.cookie = .cookie c ∧ cA.cookie = .cookie c

def Past.nonces : Past → List Nat
  | .main _ _ sI sA idA => [sI, sA, idA]
  | .join _ _ sJ idn => [sJ, idn]

/-- everything that was on the wire in the recorded sessions -/
def Known (ps : List Past) : Atom → Prop := fun t => ∃ p ∈ ps, t ∈ p.session.atoms

theorem main_atoms (c : Nat) (cI cA : Cfg) (sI sA idA : Nat) (h : (Past.main cI cA sI sA idA).wf c) :
    (Past.main cI cA sI sA idA).session.atoms =
      [.nonce sA, H [.nonce sA, H [.nonce sI, .cookie c], .cookie c], .nonce idA, .nonce 0, .nonce 0,
       .nonce sI, H [.nonce sI, .cookie c], H [.nonce sA, .cookie c], .nonce 0, .nonce 0] := by
  obtain ⟨h1, h2, h3⟩ := h
  simp [Past.session, honest_eq _ _ _ _ _ (h1.trans h2.symm) h3, Session.atoms, Msg.atoms, emptyF, h1]

theorem join_atoms (c : Nat) (cJ cA : Cfg) (sJ idn : Nat) (h : (Past.join cJ cA sJ idn).wf c) :
    (Past.join cJ cA sJ idn).session.atoms =
      [.nonce 0, H [H [.nonce idn, .nonce sJ, .cookie c], .cookie c],
       .nonce idn, .nonce sJ, H [.nonce idn, .nonce sJ, .cookie c]] := by
  obtain ⟨h1, h2⟩ := h
  simp [Past.session, honestJoin, join, accept, Session.atoms, Msg.atoms, emptyF, h1, h2]

theorem known_no_cookie (c : Nat) (ps : List Past) (hwf : ∀ p ∈ ps, p.wf c) : ¬ Known ps (.cookie c) := by
  intro ⟨p, hp, hm⟩
  cases p with
  | main cI cA sI sA idA => rw [main_atoms c _ _ _ _ _ (hwf _ hp)] at hm; simp at hm
  | join cJ cA sJ idn => rw [join_atoms c _ _ _ _ (hwf _ hp)] at hm; simp at hm

theorem known_fresh (c : Nat) (ps : List Past) (hwf : ∀ p ∈ ps, p.wf c) (s : Nat) (hs0 : s ≠ 0)
    (hs : ∀ p ∈ ps, s ∉ p.nonces) : ∀ t, Known ps t → t.occurs s = false := by
  intro t ⟨p, hp, hm⟩
  have hsp := hs p hp
  cases p with
  | main cI cA sI sA idA =>
    rw [main_atoms c _ _ _ _ _ (hwf _ hp)] at hm
    simp only [Past.nonces, List.mem_cons, List.not_mem_nil, or_false, not_or] at hsp
    obtain ⟨h1, h2, h3⟩ := hsp
    have h1' : (sI == s) = false := by simpa using Ne.symm h1
    have h2' : (sA == s) = false := by simpa using Ne.symm h2
    have h3' : (idA == s) = false := by simpa using Ne.symm h3
    have h0' : (0 == s) = false := by simpa using Ne.symm hs0
    simp only [List.mem_cons, List.not_mem_nil, or_false] at hm
    rcases hm with rfl | rfl | rfl | rfl | rfl | rfl | rfl | rfl | rfl | rfl <;> simp [h1', h2', h3', h0']
  | join cJ cA sJ idn =>
    rw [join_atoms c _ _ _ _ (hwf _ hp)] at hm
    simp only [Past.nonces, List.mem_cons, List.not_mem_nil, or_false, not_or] at hsp
    obtain ⟨h1, h2⟩ := hsp
    have h1' : (sJ == s) = false := by simpa using Ne.symm h1
    have h2' : (idn == s) = false := by simpa using Ne.symm h2
    have h0' : (0 == s) = false := by simpa using Ne.symm hs0
    simp only [List.mem_cons, List.not_mem_nil, or_false] at hm
    rcases hm with rfl | rfl | rfl | rfl | rfl <;> simp [h1', h2', h0']

/-- D24, exactly: a Join that the acceptor accepts from someone who only knows recorded traffic carries
    the (id, salt) pair of a recorded Join, or — type flaw — the (acceptor salt, initiator digest) pair
    of a recorded MAIN handshake presented as (id, salt).  Nothing else. -/
theorem join_accepted_origin (c : Nat) (ps : List Past) (hwf : ∀ p ∈ ps, p.wf c) (adv : Nat → Prop)
    (cfg : Cfg) (hcfg : cfg.cookie = .cookie c) (s id : Atom) (node : Nat) (cid sj dj : Field)
    (hcid : cid ≠ []) (hsj : sj ≠ [])
    (hder : DerivF (Known ps) adv dj)
    (hok : isOk (accept cfg s id [.join node cid sj dj]).res = true) :
    (∃ cJ cA sJ idn, Past.join cJ cA sJ idn ∈ ps ∧ cid = [.nonce idn] ∧ sj = [.nonce sJ]) ∨
    (∃ cI cA sI sA idA, Past.main cI cA sI sA idA ∈ ps ∧ cid = [.nonce sA] ∧ sj = [H [.nonce sI, .cookie c]]) := by
  rw [accept_join_ok, hcfg] at hok
  subst hok
  have h1 := hder _ (List.mem_singleton.mpr rfl)
  have h2 := hash_cookie_known (known_no_cookie c ps hwf) h1
  obtain ⟨p, hp, hm⟩ := h2
  have hlen : 2 ≤ cid.length + sj.length := by
    have : 1 ≤ cid.length := List.length_pos_iff.mpr hcid
    have : 1 ≤ sj.length := List.length_pos_iff.mpr hsj
    omega
  have split2 : ∀ x y : Atom, cid ++ sj = [x, y] → cid = [x] ∧ sj = [y] := by
    intro x y h
    cases cid with
    | nil => exact absurd rfl hcid
    | cons a cid' =>
      cases cid' with
      | nil =>
        simp only [List.cons_append, List.nil_append, List.cons.injEq] at h
        exact ⟨by rw [h.1], h.2⟩
      | cons b cid'' =>
        cases sj with
        | nil => exact absurd rfl hsj
        | cons d sj' =>
          have := congrArg List.length h
          simp at this
  cases p with
  | main cI cA sI sA idA =>
    rw [main_atoms c _ _ _ _ _ (hwf _ hp)] at hm
    simp only [List.mem_cons, H_ne_nonce, H_inj, List.not_mem_nil, or_false, false_or] at hm
    right
    rcases hm with h | h | h
    · have h' : cid ++ sj = [Atom.nonce sA, H [Atom.nonce sI, Atom.cookie c]] := by
        have := List.append_inj_left' (by simpa using h : (cid ++ sj) ++ [Atom.cookie c] = [Atom.nonce sA, H [Atom.nonce sI, Atom.cookie c]] ++ [Atom.cookie c]) rfl
        exact this
      obtain ⟨e1, e2⟩ := split2 _ _ h'
      exact ⟨cI, cA, sI, sA, idA, hp, e1, e2⟩
    · have := congrArg List.length h
      simp at this; omega
    · have := congrArg List.length h
      simp at this; omega
  | join cJ cA sJ idn =>
    rw [join_atoms c _ _ _ _ (hwf _ hp)] at hm
    simp only [List.mem_cons, H_ne_nonce, H_inj, List.not_mem_nil, or_false, false_or] at hm
    left
    rcases hm with h | h
    · have := congrArg List.length h
      simp at this; omega
    · have h' : cid ++ sj = [Atom.nonce idn, Atom.nonce sJ] := by
        have := List.append_inj_left' (by simpa using h : (cid ++ sj) ++ [Atom.cookie c] = [Atom.nonce idn, Atom.nonce sJ] ++ [Atom.cookie c]) rfl
        exact this
      obtain ⟨e1, e2⟩ := split2 _ _ h'
      exact ⟨cJ, cA, sJ, idn, hp, e1, e2⟩

end ErgoVerif.Handshake

import ErgoVerif.Lemmas.ProcAll
import ErgoVerif.Lemmas.Mpsc
import ErgoVerif.Model.Fallback
import ErgoVerif.Generated.States
/-!
# C02 — local delivery: exactly once, no lost wake-up, truthful send result

Two layers: the counting model of the state-word protocol (`Model/Proc.lean`: every successful push is followed
by a wake-up attempt; the runner re-checks the mailbox after its CAS to sleep) and the identity-level model of the
lock-free queue (`Model/Mpsc.lean`); plus the fallback decision and the delayed-send timer (`Model/Fallback.lean`).
-/
namespace ErgoVerif.Props.C02
open ErgoVerif ErgoVerif.Proc

abbrev kz : Bool := Gen.States.killZombeeReturns
private theorem kz_true : kz = true := by decide

/-- **Conservation.** In every reachable configuration every accepted message (push succeeded, send returned
nil) is either handled or still in the mailbox: nothing is lost or duplicated by the protocol. -/
theorem C02_conservation (c : Cfg) (h : Reach kz c) : c.accepted = c.handled + c.mail := by
  rw [kz_true] at h
  have hi := (reach_inv h).1
  unfold Proc.Inv at hi
  omega

/-- **No lost wake-up.** In every reachable configuration in which no thread of the protocol can take a step
(all senders returned, the runner goroutine ended) and the process sleeps, the mailbox is empty: every accepted
message has been handled without any later traffic being needed to wake the process. -/
theorem C02_no_lost_wakeup (c : Cfg) (h : Reach kz c) (hq : c.quiescent) (hs : c.st = .sleep) :
    c.mail = 0 ∧ c.handled = c.accepted := by
  rw [kz_true] at h
  have hall := reach_inv h
  have hi := hall.1
  have hw := hall.2.1
  unfold Proc.Inv at hi
  unfold InvW at hw
  unfold Cfg.quiescent at hq
  have := hw.1 hs
  omega

/-- the same for the start-up window: a process can only be left quiescent in `init` if ProcessInit failed
(messages sent by name during a successful init are looked at by the `run()` that follows it) -/
theorem C02_init_window (c : Cfg) (h : Reach kz c) (hq : c.quiescent) (hs : c.st = .init) : c.initFailed = true := by
  rw [kz_true] at h
  have hw := (reach_inv h).2.1
  unfold InvW at hw
  unfold Cfg.quiescent at hq
  cases hf : c.initFailed with
  | true => rfl
  | false => have := hw.2 hs hf; omega

/-- somebody is always going to look: a sleeping process with mail has a pusher that has not yet made its wake-up
attempt, or a runner that has not yet made its re-check -/
theorem C02_someone_will_look (c : Cfg) (h : Reach kz c) (hs : c.st = .sleep) (hm : c.mail > 0) :
    c.s2 + c.w0 + c.r4 + c.r5 ≥ 1 := by
  rw [kz_true] at h
  exact ((reach_inv h).2.1).1 hs hm

open ErgoVerif.Mpsc in
/-- **Exactly once, identity level** (lib/mpsc.go). For every sequence of producer swaps, refusals, links and
consumer pops on a queue (bounded or not): the consumer's output is a prefix of the swap order, contains no item
twice, and never contains an item whose Push reported `false`. -/
theorem C02_queue_exactly_once (limit : Option Nat) (ops : List Op) (q : Q) (got : List Item)
    (hr : runQ (Q.init limit) ops = some (q, got)) :
    got <+: q.order ∧ got.Nodup ∧ ∀ it ∈ q.refused, it ∉ got := by
  obtain ⟨hinv, hrec, _⟩ := runQ_spec ops (Q.init limit) q got (qinv_init limit) hr
  have hgot : got = q.received := by rw [hrec]; simp [Q.received, Q.init]
  have hpre := received_prefix q
  rw [← hgot] at hpre
  refine ⟨hpre, (order_nodup hinv).sublist hpre.sublist, ?_⟩
  intro it hit hmem
  have hmem' : it ∈ q.order := hpre.subset hmem
  simp only [Q.order, List.mem_map] at hmem'
  obtain ⟨c, hc, rfl⟩ := hmem'
  exact hinv.disjoint c hc hit

open ErgoVerif.Fallback in
/-- **Fallback.** A message is re-routed to the fallback exactly when the target is alive, its mailbox refused
the push, a fallback is enabled and it is not the target itself; the re-routed message is wrapped with the original
recipient's pid, the configured tag and the unchanged payload. In every other refused case the sender gets an error. -/
theorem C02_fallback {μ : Type} (t : Target) (m : μ) :
    (∀ n p tg m', routeSend t m = .fallback n p tg m' →
        n = t.fbName ∧ p = t.pid ∧ tg = t.fbTag ∧ m' = m ∧ t.alive ∧ t.full ∧ t.fbEnable ∧ t.fbName ≠ t.name) ∧
    (routeSend t m = .delivered m ↔ (t.alive ∧ ¬ t.full)) ∧
    (∀ m', routeSend t m = .delivered m' → m' = m) := by
  unfold routeSend
  refine ⟨?_, ?_, ?_⟩
  · intro n p tg m' h
    cases ha : t.alive <;> cases hf : t.full <;> cases he : t.fbEnable <;> simp [ha, hf, he] at h ⊢
    by_cases hn : t.fbName = t.name
    · simp [hn] at h
    · simp [hn] at h; obtain ⟨rfl, rfl, rfl, rfl⟩ := h; exact ⟨rfl, rfl, rfl, rfl, hn⟩
  · cases ha : t.alive <;> cases hf : t.full <;> cases he : t.fbEnable <;> simp
    all_goals (by_cases hn : t.fbName = t.name <;> simp [hn])
  · intro m' h
    cases ha : t.alive <;> cases hf : t.full <;> cases he : t.fbEnable <;> simp [ha, hf, he] at h ⊢
    all_goals (first | exact h.symm | (by_cases hn : t.fbName = t.name <;> simp [hn] at h))

open ErgoVerif.Fallback in
/-- invariant of the timer automaton -/
private def TInv (t : Timer) : Prop :=
  (t.st = .armed → t.sent = 0 ∧ (t.cancelResults.filter (· = true)).length = 0) ∧
  (t.st = .stopped → t.sent = 0 ∧ (t.cancelResults.filter (· = true)).length = 1) ∧
  (t.st = .fired → t.sent = 1 ∧ (t.cancelResults.filter (· = true)).length = 0)

open ErgoVerif.Fallback in
private theorem tinv_run (ops : List TOp) (t : Timer) (h : TInv t) : TInv (ops.foldl Timer.step t) := by
  induction ops generalizing t with
  | nil => exact h
  | cons o os ih =>
    simp only [List.foldl_cons]
    apply ih
    obtain ⟨st, sent, cr⟩ := t
    unfold TInv at *
    cases o <;> cases st <;> simp_all [Timer.step]

open ErgoVerif.Fallback in
/-- **Delayed send.** For every interleaving of timer expiry and cancel calls: if some cancel returned true the
message is never sent (and only one cancel can return true); otherwise it is sent at most once, and exactly once
as soon as the timer fired. -/
theorem C02_delayed (ops : List TOp) (t : Timer) (ht : t = ops.foldl Timer.step Timer.init) :
    (true ∈ t.cancelResults → t.sent = 0 ∧ t.st = .stopped) ∧ t.sent ≤ 1 ∧ (t.st = .fired ↔ t.sent = 1) ∧
    (t.cancelResults.filter (· = true)).length ≤ 1 := by
  have h : TInv t := by rw [ht]; exact tinv_run ops Timer.init (by simp [TInv, Timer.init])
  obtain ⟨ha, hs, hf⟩ := h
  have hmem : true ∈ t.cancelResults → (t.cancelResults.filter (· = true)).length ≥ 1 := by
    intro hm
    have : true ∈ t.cancelResults.filter (· = true) := by simp [hm]
    exact List.length_pos_of_mem this
  cases hst : t.st
  · have := ha hst
    refine ⟨fun hc => by have := hmem hc; omega, by omega, by simp [this.1], by omega⟩
  · have := hf hst
    refine ⟨fun hc => by have := hmem hc; omega, by omega, by simp [this.1], by omega⟩
  · have := hs hst
    refine ⟨fun _ => ⟨this.1, rfl⟩, by omega, by simp [this.1], by omega⟩

/-- non-vacuity: a reachable quiescent sleeping configuration with three handled messages from racing senders -/
example : ∃ c, Reach true c ∧ c.quiescent ∧ c.st = .sleep ∧ c.handled = 2 :=
  ⟨_, ⟨[.initOk, .storeSleep, .runCas, .runGo, .start, .newSender, .aliveChk, .push, .retNil, .casSleep,
        .newSender, .aliveChk, .push, .link, .recheckEmpty, .link, .runCas, .runGo, .runCas, .start, .pop, .pop,
        .retNil, .casSleep, .recheckEmpty], rfl⟩, by decide⟩

end ErgoVerif.Props.C02

import ErgoVerif.Drive.Util
import ErgoVerif.Model.Envelope
namespace ErgoVerif.Drive.Envelope
open ErgoVerif.Drive ErgoVerif.Frame ErgoVerif.Envelope ErgoVerif.Generated.Proto

/-- `send <typ> <peerMax> <enable> <threshold> <plainFrameLen>` →
      `refused`  the writer / send() returns ErrTooLarge on the plain frame, nothing is written
      `plain`    the frame goes out as it is
      `z`        the frame is wrapped in a compression envelope (whether the envelope then passes the
                 size check depends on the compressor, which the model keeps abstract) -/
def line (s : String) : String :=
  match words s with
  | ["send", t, pm, en, th, fl] =>
    match t.toNat?, pm.toNat?, en.toNat?, th.toInt?, fl.toNat? with
    | some t, some pm, some en, some th, some fl =>
      match kindOf t with
      | none => "unknown"
      | some k =>
        let frame : List UInt8 := List.replicate fl 0
        let c : Comp := if k.compress then ⟨en ≠ 0, th, 102⟩ else ⟨false, 0, 0⟩
        if k.earlyMax && decide (pm > 0 ∧ fl > pm) then "refused"
        else if wantsZ c frame then "z"
        else match send ⟨fun _ b => b, fun _ b => some b⟩ pm c frame with
          | none => "refused"
          | some _ => "plain"
    | _, _, _, _, _ => "bad-op"
  | _ => "bad-op"

def main (h : IO.FS.Stream) : IO Unit := loopPure h line

end ErgoVerif.Drive.Envelope

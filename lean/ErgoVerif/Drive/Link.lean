import ErgoVerif.Drive.Util
import ErgoVerif.Model.Link
/-!
K5 line driver for the link model.

  init <pool ids a,b,c|-> <nq>       -> ok
  send <src> <dst> <keep 0|1>        -> link=<id> wire=<byte> seq=<n> | noconn
  deliver <link>                     -> q=<queue> | empty
  work <queue>                       -> <src>:<dst>:<seq> | empty
  release <link> <k>                 -> deliver k frames of the link, then let every queue worker run dry
                                        (queues in index order); prints the messages routed: src:dst:seq,...
  join <link> | drop <index> | redial <index> <link>   -> pool=<ids>
  byte <id>                          -> the order byte derived from an id
  nq <poolSize>                      -> number of receive queues NewConnection creates
-/
namespace ErgoVerif.Drive.Link
open ErgoVerif.Drive ErgoVerif.Link ErgoVerif.Gen.Arith

def showMsg (m : Msg) : String := s!"{m.src}:{m.dst}:{m.seq}"

/-- run the worker of queue q until the queue is empty (fuel = queue length) -/
def drainQueue (s : St) (q : Nat) : St := (List.range (s.queues q).length).foldl (fun s _ => step s (.work q)) s

def drainAll (s : St) : St := (List.range (s.nq + 1)).foldl drainQueue s

def line (s : St) (l : String) : St × String :=
  match words l with
  | ["init", pool, nq] =>
    match parseNatList? pool, nq.toNat? with
    | some p, some n => (init p n, "ok")
    | _, _ => (s, "bad-op")
  | ["send", a, b, k] =>
    match a.toNat?, b.toNat?, k.toNat? with
    | some a, some b, some k =>
      if s.pool.length = 0 then (s, "noconn") else
      let keep := k != 0
      let c := chooseLink s (orderOf a keep)
      (step s (.send a b keep), s!"link={c.1} wire={orderOf b keep} seq={s.sent.length}")
    | _, _, _ => (s, "bad-op")
  | ["deliver", l] =>
    match l.toNat? with
    | some l =>
      match s.links l with
      | [] => (s, "empty")
      | fr :: _ => (step s (.deliver l), s!"q={queueIndex fr.wire (s.recvN l + 1) s.nq}")
    | none => (s, "bad-op")
  | ["work", q] =>
    match q.toNat? with
    | some q =>
      match s.queues q with
      | [] => (s, "empty")
      | fr :: _ => (step s (.work q), showMsg fr.msg)
    | none => (s, "bad-op")
  | ["release", l, k] =>
    match l.toNat?, k.toNat? with
    | some l, some k =>
      let s1 := (List.range k).foldl (fun s _ => step s (.deliver l)) s
      let s2 := drainAll s1
      let new := s2.delivered.drop s.delivered.length
      (s2, if new.isEmpty then "-" else ",".intercalate (new.map showMsg))
    | _, _ => (s, "bad-op")
  | ["join", l] =>
    match l.toNat? with
    | some l => let s' := step s (.join l); (s', s!"pool={showNatList s'.pool}")
    | none => (s, "bad-op")
  | ["drop", i] =>
    match i.toNat? with
    | some i => let s' := step s (.drop i); (s', s!"pool={showNatList s'.pool}")
    | none => (s, "bad-op")
  | ["redial", i, l] =>
    match i.toNat?, l.toNat? with
    | some i, some l => let s' := step s (.redial i l); (s', s!"pool={showNatList s'.pool}")
    | _, _ => (s, "bad-op")
  | ["nq", p] =>
    match p.toNat? with
    | some p => (s, s!"{recvQueues p}")
    | none => (s, "bad-op")
  | ["byte", x] =>
    match x.toNat? with
    | some x => (s, s!"{orderByte x}")
    | none => (s, "bad-op")
  | _ => (s, "bad-op")

def main (h : IO.FS.Stream) : IO Unit := loopState h line (init [] 0)

end ErgoVerif.Drive.Link

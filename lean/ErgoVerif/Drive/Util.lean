/- line-protocol helpers for the model driver -/
namespace ErgoVerif.Drive

def words (s : String) : List String :=
  (s.trimAscii.toString.splitOn " ").filter (· ≠ "")

def parseInt? (s : String) : Option Int := s.toInt?
def parseNat? (s : String) : Option Nat := s.toNat?

/-- "a,b,c" or "-" for the empty list -/
def parseIntList? (s : String) : Option (List Int) :=
  if s = "-" then some [] else (s.splitOn ",").mapM (·.toInt?)

def parseNatList? (s : String) : Option (List Nat) :=
  if s = "-" then some [] else (s.splitOn ",").mapM (·.toNat?)

def showIntList (l : List Int) : String :=
  if l.isEmpty then "-" else ",".intercalate (l.map toString)

def showNatList (l : List Nat) : String :=
  if l.isEmpty then "-" else ",".intercalate (l.map toString)

def hexDigit? (c : Char) : Option Nat :=
  if '0' ≤ c ∧ c ≤ '9' then some (c.toNat - '0'.toNat)
  else if 'a' ≤ c ∧ c ≤ 'f' then some (c.toNat - 'a'.toNat + 10)
  else if 'A' ≤ c ∧ c ≤ 'F' then some (c.toNat - 'A'.toNat + 10)
  else none

/-- hex string to bytes ("-" = empty) -/
def parseHex? (s : String) : Option (List UInt8) :=
  if s = "-" then some [] else
  let rec go : List Char → List UInt8 → Option (List UInt8)
    | [], acc => some acc.reverse
    | [_], _ => none
    | a :: b :: r, acc => match hexDigit? a, hexDigit? b with
      | some x, some y => go r (UInt8.ofNat (x * 16 + y) :: acc)
      | _, _ => none
  go s.toList []

def hexChar (n : Nat) : Char :=
  if n < 10 then Char.ofNat ('0'.toNat + n) else Char.ofNat ('a'.toNat + n - 10)

def showHex (bs : List UInt8) : String :=
  if bs.isEmpty then "-" else
  String.ofList (bs.flatMap fun b => [hexChar (b.toNat / 16), hexChar (b.toNat % 16)])

/-- stateless model: map every input line to an output line -/
partial def loopPure (h : IO.FS.Stream) (f : String → String) : IO Unit := do
  let line ← h.getLine
  if line.isEmpty then return ()
  IO.println (f line)
  loopPure h f

/-- stateful model -/
partial def loopState {σ : Type} (h : IO.FS.Stream) (f : σ → String → σ × String) (s : σ) : IO Unit := do
  let line ← h.getLine
  if line.isEmpty then return ()
  let (s', out) := f s line
  IO.println out
  loopState h f s'

end ErgoVerif.Drive

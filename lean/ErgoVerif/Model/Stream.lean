/-
Model of the frame reassembly of a protocol link:
  net/proto/connection.go  (c *connection) read()   — cuts exactly one frame from the receive
                                                       buffer, carries the remainder over (`tail`)
  net/proto/connection.go  (c *connection) serve()  — the loop around read(): magic / version
                                                       check, order byte, push to a receive queue

Go's partial operations are explicit: the index expressions `buf.B[0]`, `buf.B[1]`, `buf.B[6]`
of serve() are `List.get?`-style look-ups and a missing byte is the outcome `crash` (serve() runs
in a goroutine without `recover`, so an index panic there kills the whole node).

The model is parameterised by the two numbers the code compares the length field with:
  `max`    = c.node_maxmessagesize  (0 = unlimited)
  `minLen` = the lower bound on the length field enforced by read() (`if l < 8 { return error }`),
             extracted from the source (`Generated.Proto.readMinLen`; 0 when the guard is absent —
             that was the code before the D12 fix).
Core Lean only; no proofs here.
-/
namespace ErgoVerif.Stream

abbrev Bytes := List UInt8

/-- why a link gets closed by the reader (all of these close only this link) -/
inductive Close
  | badLen       -- read(): length field below the header size        (D12 fix)
  | tooLong      -- read(): length field above node_maxmessagesize
  | tooLarge     -- lib.Buffer.ReadDataFrom: buffer longer than the read limit
  | badMagic     -- serve(): buf.B[0] != protoMagic
  | badVersion   -- serve(): buf.B[1] != protoVersion
  | crash        -- index out of range inside serve() (NOT confined to the link: unrecovered panic)
deriving Repr, DecidableEq

structure Cfg where
  max    : Nat
  minLen : Nat
  magic  : Nat
  version : Nat
deriving Repr

/-- `binary.BigEndian.Uint32(buf.B[2:6])`; only evaluated when at least 8 bytes are buffered -/
def lenField (b : Bytes) : Nat :=
  match b with
  | _ :: _ :: a :: b :: c :: d :: _ => ((a.toNat * 256 + b.toNat) * 256 + c.toNat) * 256 + d.toNat
  | _ => 0

/-- the checks serve() performs on a frame handed over by read(): `buf.B[0]`, `buf.B[1]`, `buf.B[6]`.
    `none` = accepted (pushed to a receive queue). -/
def serveCheck (cfg : Cfg) (f : Bytes) : Option Close :=
  match f[0]? with
  | none => some .crash
  | some m =>
    if m.toNat ≠ cfg.magic then some .badMagic else
    match f[1]? with
    | none => some .crash
    | some v =>
      if v.toNat ≠ cfg.version then some .badVersion else
      match f[6]? with
      | none => some .crash
      | some _ => none

/-- result of running the reader over the bytes buffered so far -/
inductive Res
  | more (frames : List Bytes) (rest : Bytes)       -- blocked in ReadDataFrom, `rest` buffered
  | closed (frames : List Bytes) (why : Close)
deriving Repr, DecidableEq

def Res.frames : Res → List Bytes
  | .more fs _ => fs
  | .closed fs _ => fs

def Res.prepend (fs : List Bytes) : Res → Res
  | .more gs r => .more (fs ++ gs) r
  | .closed gs w => .closed (fs ++ gs) w

/-- read limit of `ReadDataFrom` while waiting for `expect` bytes (read(): `readLimit`) -/
def readLimit (cfg : Cfg) (expect : Nat) : Nat :=
  if cfg.max > 0 ∧ expect > cfg.max then cfg.max else expect

/-- blocked waiting for more input with `buf` buffered and `expect` bytes wanted:
    `ReadDataFrom` refuses when the buffer is already longer than the limit -/
def wait (cfg : Cfg) (buf : Bytes) (expect : Nat) : Res :=
  if buf.length > readLimit cfg expect then .closed [] .tooLarge else .more [] buf

/-- serve()+read() over the buffered bytes: cut as many complete frames as possible.
    `fuel` bounds the recursion (any value > buf.length is enough). -/
def cut (cfg : Cfg) : Nat → Bytes → Res
  | 0, buf => .more [] buf
  | fuel+1, buf =>
    if buf.length < 8 then wait cfg buf 8
    else
      let l := lenField buf
      if l < cfg.minLen then .closed [] .badLen
      else if cfg.max > 0 ∧ l > cfg.max then .closed [] .tooLong
      else if buf.length < l then wait cfg buf l
      else
        let f := buf.take l
        match serveCheck cfg f with
        | some w => .closed [] w
        | none => (cut cfg fuel (buf.drop l)).prepend [f]

def cutAll (cfg : Cfg) (buf : Bytes) : Res := cut cfg (buf.length + 1) buf

/-- state of a link's reader between two chunks -/
structure RState where
  buf    : Bytes
  closed : Option Close
deriving Repr, DecidableEq

def RState.init : RState := ⟨[], none⟩

/-- one chunk arrives (one `conn.Read` worth of bytes, any size, may split a header) -/
def stepChunk (cfg : Cfg) (s : RState) (c : Bytes) : RState × List Bytes :=
  match s.closed with
  | some _ => (s, [])
  | none =>
    match cutAll cfg (s.buf ++ c) with
    | .more fs r => (⟨r, none⟩, fs)
    | .closed fs w => (⟨[], some w⟩, fs)

/-- feed a whole list of chunks; returns the final state and all frames handed to the queues -/
def readAll (cfg : Cfg) : RState → List Bytes → RState × List Bytes
  | s, [] => (s, [])
  | s, c :: cs =>
    let r := stepChunk cfg s c
    let rest := readAll cfg r.1 cs
    (rest.1, r.2 ++ rest.2)

/-- what `cutAll` says about a whole byte string, as a reader state -/
def Res.state : Res → RState
  | .more _ r => ⟨r, none⟩
  | .closed _ w => ⟨[], some w⟩

/-- a well-formed frame for configuration `cfg` -/
def WF (cfg : Cfg) (f : Bytes) : Prop :=
  8 ≤ f.length ∧ lenField f = f.length ∧ (cfg.max > 0 → f.length ≤ cfg.max) ∧
  cfg.minLen ≤ f.length ∧ serveCheck cfg f = none

instance (cfg : Cfg) (f : Bytes) : Decidable (WF cfg f) := by unfold WF; infer_instance

end ErgoVerif.Stream

import ErgoVerif.Drive.Util
import ErgoVerif.Model.Meta
import ErgoVerif.Generated.Meta
namespace ErgoVerif.Drive.Meta
open ErgoVerif ErgoVerif.Drive ErgoVerif.Meta

def parseLbl : String → Option Lbl
  | "storeSleep" => some .storeSleep | "startRet" => some .startRet | "swapStart" => some .swapStart
  | "newSender" => some .newSender | "push" => some .push | "cas" => some .cas | "go" => some .go
  | "runner" => some .runner | "pop" => some .pop | "loopEnd" => some .loopEnd | "retReason" => some .retReason
  | "swapHandler" => some .swapHandler | "casSleep" => some .casSleep | "recheckEmpty" => some .recheckEmpty
  | "recheckSome" => some .recheckSome | "casRun" => some .casRun | "termDoneS" => some .termDoneS
  | "termDoneH" => some .termDoneH | _ => none

def showCfg (c : Cfg) : String :=
  let cen := [c.a1, c.a2, c.h0, c.h1, c.r0, c.rb, c.r3, c.r4, c.r5, c.rE, c.tmS + c.tmH]
  s!"ok st={stCode c.st} mail={c.mail} cen={",".intercalate (cen.map toString)}"

def line (s : Option Cfg) (ln : String) : Option Cfg × String :=
  match words ln with
  | ["reset"] => (some init, showCfg init)
  | ["final"] => match s with
    | some c => (s, s!"final st={stCode c.st} handled={c.handled} terms={c.terms}")
    | none => (s, "dead")
  | ["step", ls] =>
    match s with
    | none => (none, "dead")
    | some c =>
      if ls = "-" then (some c, showCfg c) else
      let rec go (c : Cfg) : List String → Option Cfg × String
        | [] => (some c, showCfg c)
        | l :: rest => match parseLbl l with
          | none => (none, s!"bad-op {l}")
          | some lb => match step ErgoVerif.Gen.Meta.startHandsOff c lb with
            | none => (none, s!"disabled {l}")
            | some c' => go c' rest
      go c (ls.splitOn ",")
  | _ => (s, "bad-op")

def main (h : IO.FS.Stream) : IO Unit := loopState h line (some init)
end ErgoVerif.Drive.Meta

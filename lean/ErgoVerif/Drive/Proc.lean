import ErgoVerif.Drive.Util
import ErgoVerif.Model.Proc
import ErgoVerif.Generated.States
namespace ErgoVerif.Drive.Proc
open ErgoVerif ErgoVerif.Drive ErgoVerif.Proc

def parseLbl : String → Option Lbl
  | "initOk" => some .initOk | "initFail" => some .initFail | "storeSleep" => some .storeSleep
  | "newSender" => some .newSender | "aliveChk" => some .aliveChk | "skipAlive" => some .skipAlive
  | "push" => some .push | "pushFull" => some .pushFull | "link" => some .link
  | "runCas" => some .runCas | "runGo" => some .runGo
  | "start" => some .start | "pop" => some .pop | "retNil" => some .retNil | "retErr" => some .retErr
  | "panic" => some .panic | "waitEnter" => some .waitEnter | "waitExit" => some .waitExit
  | "casSleep" => some .casSleep | "recheckEmpty" => some .recheckEmpty | "recheckSome" => some .recheckSome | "casRun" => some .casRun
  | "swapErr" => some .swapErr | "swapPanic" => some .swapPanic | "swapKill" => some .swapKill
  | "newKiller" => some .newKiller | "kSwapZ" => some .kSwapZ | "kStore" => some .kStore | "kSwapT" => some .kSwapT
  | "termEnterE" => some .termEnterE | "termEnterP" => some .termEnterP | "termEnterK" => some .termEnterK
  | "termDone" => some .termDone
  | _ => none

def showCfg (c : Cfg) : String :=
  let cen := [c.i0, c.i1, c.s0, c.s1, c.s2, c.w0, c.w1, c.r0, c.rb, c.r3, c.r4, c.r5, c.re, c.rp, c.rk,
              c.k0, c.k1, c.k2, c.fE, c.fP, c.fK, c.tm]
  s!"ok st={stCode c.st} mail={c.mail} cen={",".intercalate (cen.map toString)}"

def showFinal (c : Cfg) : String :=
  let w := match c.why with | none => "none" | some .err => "err" | some .panic => "panic" | some .kill => "kill"
  s!"final st={stCode c.st} mail={c.mail} handled={c.handled} accepted={c.accepted} refused={c.refused} terms={c.terms} why={w}"

/-- state: `none` after a disabled label (everything until the next reset answers `dead`) -/
def line (kz : Bool) (s : Option Cfg) (ln : String) : Option Cfg × String :=
  match words ln with
  | ["reset"] => (some init, showCfg init)
  | ["final"] => match s with
    | some c => (s, showFinal c)
    | none => (s, "dead")
  | ["step", ls] =>
    match s with
    | none => (none, "dead")
    | some c =>
      if ls = "-" then (some c, showCfg c) else
      let rec go (c : Cfg) : List String → Option Cfg × String
        | [] => (some c, showCfg c)
        | l :: rest => match parseLbl l with
          | none => (none, s!"bad-op {l}")
          | some lb => match step kz c lb with
            | none => (none, s!"disabled {l}")
            | some c' => go c' rest
      go c (ls.splitOn ",")
  | _ => (s, "bad-op")

def main (h : IO.FS.Stream) : IO Unit :=
  loopState h (line Gen.States.killZombeeReturns) (some init)

end ErgoVerif.Drive.Proc

package main

import (
	"fmt"
	"go/ast"
)

// Generated/RegRace.lean: the shape of node.RegisterName (node/node.go): after `p.name = name` the liveness of the
// process is looked at again (p.isAlive()) and the name is released (names.CompareAndDelete / Delete) when it is gone;
// and unregisterProcess reads p.registered before it deletes p.name from the table.

func init() {
	generators = append(generators, generator{name: "RegRace", run: genRegRace,
		fallback: "namespace ErgoVerif.Gen.RegRace\ndef recheckAliveAfterStore : Bool := false\nend ErgoVerif.Gen.RegRace\n"})
}

func genRegRace() (string, error) {
	f, err := parseFile("node/node.go")
	if err != nil {
		return "", err
	}
	fd := funcDecl(f, "node", "RegisterName")
	if fd == nil {
		return "", fmt.Errorf("node.RegisterName not found")
	}
	// source positions of the steps
	var casPos, storePos, namePos int
	var alivePos []int
	releaseAfter := 0
	ast.Inspect(fd.Body, func(n ast.Node) bool {
		switch x := n.(type) {
		case *ast.CallExpr:
			switch selName(x.Fun) {
			case "p.registered.CompareAndSwap":
				casPos = int(x.Pos())
			case "n.names.LoadOrStore":
				storePos = int(x.Pos())
			case "p.isAlive":
				alivePos = append(alivePos, int(x.Pos()))
			case "n.names.CompareAndDelete", "n.names.Delete":
				releaseAfter = int(x.Pos())
			}
		case *ast.AssignStmt:
			if len(x.Lhs) == 1 && selName(x.Lhs[0]) == "p.name" {
				namePos = int(x.Pos())
			}
		}
		return true
	})
	if casPos == 0 || storePos == 0 || namePos == 0 || len(alivePos) == 0 {
		return "", fmt.Errorf("node.RegisterName: isAlive / registered.CompareAndSwap / names.LoadOrStore / p.name assignment not found")
	}
	if !(alivePos[0] < casPos && casPos < storePos && storePos < namePos) {
		return "", fmt.Errorf("node.RegisterName: the steps are not in the order isAlive, CompareAndSwap, LoadOrStore, p.name =")
	}
	recheck := false
	for _, a := range alivePos[1:] {
		if a > namePos && releaseAfter > a {
			recheck = true
		}
	}
	return fmt.Sprintf("namespace ErgoVerif.Gen.RegRace\n/-- RegisterName looks at p.isAlive() again after `p.name = name` and releases the name when the process is gone -/\ndef recheckAliveAfterStore : Bool := %s\nend ErgoVerif.Gen.RegRace\n", leanBool(recheck)), nil
}

/-
Allocation measure of edf.Decode (C16): the bytes requested from the Go allocator through reflect while a
packet is decoded, following the control flow of `Model/Edf.dec` (decode.go / register.go):
  * Decode / decodeAny / the map loops : reflect.New(dec.Type)            → Ty.size
  * slices                              : reflect.MakeSlice(t, n, n)       → n * size(elem)   (after the n ≤ len(packet) check)
  * unnamed maps                        : reflect.MakeMapWithSize(t, n)    → n * (size k + size v)   (after the check)
  * registered maps                     : the same (the count check precedes MakeMapWithSize since fix fd28ef1)
  * strings, binaries, marshaler payloads: the copied bytes
An array type from a descriptor is allocated whole by the reflect.New of its holder (D23).
Core Lean only, no proofs.
-/
import ErgoVerif.Model.Edf
namespace ErgoVerif.Edf
open ErgoVerif.Generated.Edt

/-- a loop of `n` item decodes: allocation of each item at the position the decoder reaches -/
def allocIter (a : Bytes → Nat) (d : Bytes → Res (Val × Bytes)) : Nat → Bytes → Nat
  | 0, _ => 0
  | n+1, bs => a bs + (match d bs with
    | .ok (_, r) => allocIter a d n r
    | _ => 0)

/-- map loop: per entry reflect.New(key type) + reflect.New(value type) and the two decodes -/
def allocIterP (ksz vsz : Nat) (ak av : Bytes → Nat) (dk dv : Bytes → Res (Val × Bytes)) : Nat → Bytes → Nat
  | 0, _ => 0
  | n+1, bs => ksz + ak bs + (match dk bs with
    | .ok (_, r) => vsz + av r + (match dv r with
      | .ok (_, r') => allocIterP ksz vsz ak av dk dv n r'
      | _ => 0)
    | _ => 0)

def allocIterF (a : Ty → Bytes → Nat) (d : Ty → Bytes → Res (Val × Bytes)) : Tys → Bytes → Nat
  | .nil, _ => 0
  | .cons t ts, bs => a t bs + (match d t bs with
    | .ok (_, r) => allocIterF a d ts r
    | _ => 0)

def allocLeaf : Ty → Bytes → Nat
  | .str, bs => match rd16 bs with
    | some (l, r) => if lenLt r l then 0 else l
    | none => 0
  | .bin, bs => match rd32 bs with
    | some (l, r) => if lenLt r l then 0 else l
    | none => 0
  | _, _ => 0

def alloc (o : Opts) : Nat → Bool → Ty → Bytes → Nat
  | 0, _, _, _ => 0
  | fuel+1, dt, t, bs =>
    match t with
    | .any =>
      match getDecoder o dt bs with
      | .ok (some t', r, dt') => t'.size + alloc o fuel dt' t' r
      | _ => 0
    | .slice t' =>
      match bs with
      | [] => 0
      | b :: r =>
        if b ≠ edtSlice then 0
        else match rd32 r with
          | none => 0
          | some (n, r') =>
            if n = 0 ∨ lenLt r' n then 0
            else n * t'.size + allocIter (alloc o fuel false t') (dec o fuel false t') n r'
    | .array n t' => if bs = [] then 0 else allocIter (alloc o fuel false t') (dec o fuel false t') n bs
    | .map kt vt =>
      match bs with
      | [] => 0
      | b :: r =>
        if b ≠ edtMap then 0
        else match rd32 r with
          | none => 0
          | some (n, r') =>
            if n = 0 ∨ lenLt r' n then 0
            else n * (kt.size + vt.size) +
              allocIterP kt.size vt.size (alloc o fuel false kt) (alloc o fuel false vt) (dec o fuel false kt) (dec o fuel false vt) n r'
    | .named _ (.slice t') =>
      match bs with
      | [] => 0
      | b :: r =>
        if b ≠ edtReg then 0
        else match rd32 r with
          | none => 0
          | some (n, r') =>
            if lenLt r' n then 0
            else n * t'.size + allocIter (alloc o fuel false t') (dec o fuel false t') n r'
    | .named _ (.array n t') => if bs = [] then 0 else allocIter (alloc o fuel false t') (dec o fuel false t') n bs
    | .named _ (.map kt vt) =>
      match bs with
      | [] => 0
      | b :: r =>
        if b ≠ edtReg then 0
        else match rd32 r with
          | none => 0
          | some (n, r') =>
            -- after the fix fd28ef1 the count check precedes MakeMapWithSize (as in the unnamed map decoder)
            if n = 0 ∨ lenLt r' n then 0
            else n * (kt.size + vt.size) +
              allocIterP kt.size vt.size (alloc o fuel false kt) (alloc o fuel false vt) (dec o fuel false kt) (dec o fuel false vt) n r'
    | .named _ t' => allocLeaf t' bs
    | .struct _ fs => allocIterF (fun t b => alloc o fuel false t b) (fun t b => dec o fuel false t b) fs bs
    | .marsh _ _ => allocLeaf .bin bs
    | t => match checkTag dt (t.leafTag.getD 0) bs with
      | some r => allocLeaf t r
      | none => 0

/-- edf.Decode: reflect.New(dec.Type) for the top-level value, then the decoder -/
def allocTop (o : Opts) (fuel : Nat) (bs : Bytes) : Nat :=
  match getDecoder o true bs with
  | .ok (some t, r, dt) => t.size + alloc o fuel dt t r
  | _ => 0

end ErgoVerif.Edf

import ErgoVerif.Lemmas.TM
import ErgoVerif.Model.Guard
/-!
# C14 — remote failure detection (node down part)

`TM.routeNodeDown` mirrors `node.RouteNodeDown` (node/core.go) on top of
`TM.cleanupNode` (gen/default_target_manager.go `CleanupNode`).  The theorems say,
for EVERY reachable TargetManager state and every node name:

* every relation whose target lives on the lost node (pid, name, alias, event, the node
  itself) and whose holder does not live there yields exactly one notification to its
  holder — an exit for a link, a down for a monitor;
* relations whose requester (consumer) lives on the lost node disappear without any
  notification;
* every other relation stays, in place; the index invariant is kept (so later
  `CleanupTarget` calls, which read the index only, still see exactly the surviving
  relations).
-/
namespace ErgoVerif.Props.C14
open ErgoVerif.TM

theorem notifOf_injective : ∀ a b : Key, notifOf a = notifOf b → a = b := by
  rintro ⟨c1, t1, m1⟩ ⟨c2, t2, m2⟩ h
  simp only [notifOf, Notif.mk.injEq] at h
  obtain ⟨hc, hm, ht⟩ := h
  subst hc ht
  cases m1 <;> cases m2 <;> simp_all

theorem onNode_known {t : Target} {n : Node} (h : t.onNode n = true) : t.known = true := by
  cases t <;> simp_all [Target.onNode, Target.known]

/-- the notifications of a node-down, as a function of the relation set before it -/
theorem routeNodeDown_notifs {s : St} (n : Node) :
    (routeNodeDown s n).2 = (s.rel.filter (fun k => !consumerOn n k && targetOn n k)).map notifOf := by
  unfold routeNodeDown cleanupNode
  simp only [List.filter_filter]
  congr 1
  apply List.filter_congr
  intro k _
  by_cases h : targetOn n k = true
  · simp [h, onNode_known (by simpa [targetOn] using h)]
  · simp [h]

/-- **state after node down**: exactly the relations with neither end on the lost node remain
    (same order — nothing else is touched), and the index invariant is kept. -/
theorem C14_node_down_state {s : St} (h : Inv s) (n : Node) :
    (routeNodeDown s n).1.rel = s.rel.filter (fun k => !consumerOn n k && !targetOn n k) ∧
    Inv (routeNodeDown s n).1 :=
  ⟨(cleanupNode_spec h n).1, (cleanupNode_spec h n).2.2⟩

/-- **exactly one** exit/down per relation whose target lives on the lost node and whose holder does
    not; **none** for anything else (in particular none for relations whose requester lives there,
    none for relations on other nodes, never two). -/
theorem C14_node_down_exactly_once {s : St} (h : Inv s) (n : Node) (c : Pid) (t : Target) (m : Bool) :
    (routeNodeDown s n).2.count ⟨c, if m then .down else .exit, t⟩ =
      if (⟨c, t, m⟩ : Key) ∈ s.rel ∧ t.onNode n = true ∧ c.node ≠ n then 1 else 0 := by
  rw [routeNodeDown_notifs]
  have hnd : ((s.rel.filter (fun k => !consumerOn n k && targetOn n k)).map notifOf).Nodup := by
    apply List.Pairwise.map notifOf (R := (· ≠ ·))
    · intro a b hab e; exact hab (notifOf_injective a b e)
    · exact h.1.filter _
  rw [hnd.count]
  have : (⟨c, if m then NKind.down else NKind.exit, t⟩ : Notif) = notifOf ⟨c, t, m⟩ := rfl
  rw [this]
  have hmem : notifOf ⟨c, t, m⟩ ∈ (s.rel.filter (fun k => !consumerOn n k && targetOn n k)).map notifOf ↔
      ((⟨c, t, m⟩ : Key) ∈ s.rel ∧ t.onNode n = true ∧ c.node ≠ n) := by
    constructor
    · intro hm
      obtain ⟨k, hk, e⟩ := List.mem_map.mp hm
      have := notifOf_injective _ _ e; subst this
      simp [List.mem_filter, consumerOn, targetOn] at hk
      exact ⟨hk.1, hk.2.2, hk.2.1⟩
    · rintro ⟨h1, h2, h3⟩
      exact List.mem_map.mpr ⟨_, by simp [List.mem_filter, consumerOn, targetOn, h1, h2, h3], rfl⟩
  by_cases hc : (⟨c, t, m⟩ : Key) ∈ s.rel ∧ t.onNode n = true ∧ c.node ≠ n
  · rw [if_pos (hmem.mpr hc), if_pos hc]
  · rw [if_neg (fun x => hc (hmem.mp x)), if_neg hc]

/-- relations whose requester lives on the lost node vanish silently: no notification is addressed to
    any process of that node -/
theorem C14_requester_side_silent {s : St} (n : Node) (x : Notif)
    (hx : x ∈ (routeNodeDown s n).2) : x.to.node ≠ n := by
  rw [routeNodeDown_notifs] at hx
  obtain ⟨k, hk, rfl⟩ := List.mem_map.mp hx
  simp [List.mem_filter, consumerOn] at hk
  exact hk.2.1

/-- every notification of a node-down is about a target that lived on the lost node and was held -/
theorem C14_only_lost_targets {s : St} (n : Node) (x : Notif)
    (hx : x ∈ (routeNodeDown s n).2) :
    x.target.onNode n = true ∧
    (⟨x.to, x.target, decide (x.kind = .down)⟩ : Key) ∈ s.rel := by
  rw [routeNodeDown_notifs] at hx
  obtain ⟨⟨c, t, m⟩, hk, rfl⟩ := List.mem_map.mp hx
  simp [List.mem_filter, targetOn] at hk
  refine ⟨hk.2.2, ?_⟩
  cases m <;> simpa [notifOf] using hk.1

/-- a second node-down for the same node (e.g. a duplicate unregisterConnection) notifies nobody and
    changes nothing -/
theorem C14_node_down_idempotent {s : St} (h : Inv s) (n : Node) :
    (routeNodeDown (routeNodeDown s n).1 n).2 = [] ∧
    (routeNodeDown (routeNodeDown s n).1 n).1.rel = (routeNodeDown s n).1.rel := by
  have h1 := C14_node_down_state h n
  constructor
  · rw [routeNodeDown_notifs, h1.1, List.filter_filter, List.map_eq_nil_iff, List.filter_eq_nil_iff]
    intro k _; by_cases a : consumerOn n k <;> by_cases b : targetOn n k <;> simp [a, b]
  · rw [(C14_node_down_state h1.2 n).1, h1.1, List.filter_filter]
    apply List.filter_congr; intro k _; simp

/-- the statements above hold at every state the TargetManager can reach from empty through any
    sequence of its 11 operations -/
theorem C14_reachable_inv (ops : List Op) : Inv (run init ops) := run_inv ops init_inv

/-- after the node-down, `CleanupTarget` (index-only) of a surviving target still returns exactly the
    surviving relations on it -/
theorem C14_index_consistent_after {s : St} (h : Inv s) (n : Node) (t : Target) (k : Key) :
    k ∈ (cleanupTarget (routeNodeDown s n).1 t).2 ↔
      (k ∈ s.rel ∧ k.consumer.node ≠ n ∧ k.target.onNode n = false) ∧ k.target = t := by
  have h1 := C14_node_down_state h n
  rw [(cleanupTarget_spec h1.2 t).2.1 k, h1.1]
  simp [List.mem_filter, consumerOn, targetOn]

/-! ### non-vacuity -/

private def pA : Pid := ⟨1, 1001, 7⟩      -- local process (node 1)
private def pB : Pid := ⟨1, 1002, 7⟩
private def rP : Pid := ⟨2, 1005, 9⟩      -- remote process on node 2
private def ops : List Op :=
  [.addLink pA (.pid rP), .addMonitor pA (.pid rP), .addMonitor pB (.name 2 5), .addLink pB (.alias 2 3 9),
   .addMonitor pA (.event 2 4), .addLink pA (.node 2), .addLink rP (.pid pA), .addMonitor pB (.pid pA),
   .addLink pB (.node 3)]

example : ((routeNodeDown (run init ops) 2).2).length = 6 := by decide
example : ((routeNodeDown (run init ops) 2).1.rel).length = 2 := by decide
example : (routeNodeDown (run init ops) 2).2.count ⟨pA, .exit, .pid rP⟩ = 1 := by decide
example : (routeNodeDown (run init ops) 2).2.count ⟨rP, .exit, .pid pA⟩ = 0 := by decide

/-! ### incarnations: the generated guard table -/
section Incarnation
open ErgoVerif.Gen.Guard ErgoVerif.GuardModel

/-- every exported connection method that addresses a pid or an alias checks its creation stamp as its very first
    statement, against the right incarnation (finite generated table) -/
theorem guard_table_ok : table.all WellGuarded = true := by decide

/-- the table is not empty / not the fallback: the 15 remote-addressed and the 2 Terminate methods are there -/
theorem guard_table_rows :
    (table.filter fun r => r.ptype != "" && !r.localSubject).length = 15 ∧
    (table.filter fun r => r.ptype != "" && r.localSubject).length = 2 := by decide

/-- **stale identifiers are refused before anything is produced**: for every guarded method, an identifier whose
    creation differs from the connected peer's incarnation yields ErrProcessIncarnation with no statement
    (hence no buffer, no frame byte) executed before the verdict -/
theorem C14_incarnation (r : Row) (hr : r ∈ table) (hp : r.ptype ≠ "") (hl : r.localSubject = false)
    (ident peer loc : Nat) (h : ident ≠ peer) : call r ident peer loc = (.errIncarnation, 0) := by
  have hw := List.all_eq_true.mp guard_table_ok r hr
  simp only [WellGuarded, hl, Bool.or_eq_true, beq_iff_eq, Bool.and_eq_true, Bool.false_eq_true, ↓reduceIte] at hw
  rcases hw with hw | ⟨h0, h1⟩
  · exact absurd hw hp
  · simp [call, h1, h0, h]

/-- an identifier of the current incarnation passes the guard -/
theorem C14_current_incarnation_passes (r : Row) (hr : r ∈ table) (hp : r.ptype ≠ "") (hl : r.localSubject = false)
    (peer loc : Nat) : call r peer peer loc = (.proceeds, 0) := by
  have hw := List.all_eq_true.mp guard_table_ok r hr
  simp only [WellGuarded, hl, Bool.or_eq_true, beq_iff_eq, Bool.and_eq_true, Bool.false_eq_true, ↓reduceIte] at hw
  rcases hw with hw | ⟨h0, h1⟩
  · exact absurd hw hp
  · simp [call, h1, h0]

/-- **remote termination is announced whatever the peer's incarnation is** (D26 repaired): the subject of a
    Terminate frame lives on the sending node, its creation is the sender's own, and the guard compares it with the
    sender's own creation — so the frame is produced for every peer creation -/
theorem C14_terminate_announced (r : Row) (hr : r ∈ table) (hp : r.ptype ≠ "") (hl : r.localSubject = true)
    (peer loc : Nat) : call r loc peer loc = (.proceeds, 0) := by
  have hw := List.all_eq_true.mp guard_table_ok r hr
  simp only [WellGuarded, hl, Bool.or_eq_true, beq_iff_eq, Bool.and_eq_true, ↓reduceIte] at hw
  rcases hw with hw | ⟨h0, h1⟩
  · exact absurd hw hp
  · have : r.guard ≠ 1 := by omega
    simp [call, h1, h0]

example : (⟨"SendPID", "to", "PID", false, 1, 0⟩ : Row) ∈ table := by decide
example : (⟨"SendTerminatePID", "target", "PID", true, 2, 0⟩ : Row) ∈ table := by decide
example : call ⟨"SendPID", "to", "PID", false, 1, 0⟩ 99 100 7 = (.errIncarnation, 0) := by decide

end Incarnation

end ErgoVerif.Props.C14

import ErgoVerif.Drive.Util
import ErgoVerif.Generated.Ref
namespace ErgoVerif.Drive.Ref
open ErgoVerif.Drive ErgoVerif

/-- `mk <counter value>` → the three id words of MakeRef as generated from the source -/
def line (s : String) : String :=
  match words s with
  | ["mk", n] => match n.toNat? with
    | some v =>
      let id := BitVec.ofNat 64 v
      s!"{(Gen.Ref.makeRef0 id).toNat}.{(Gen.Ref.makeRef1 id).toNat}.{(Gen.Ref.makeRef2 id).toNat}"
    | none => "bad-op"
  | ["imp", a, b, c] => match a.toNat?, b.toNat?, c.toNat? with
    | some a, some b, some c => s!"{(Gen.Ref.importantRef0 (BitVec.ofNat 64 a) (BitVec.ofNat 64 b) (BitVec.ofNat 64 c)).toNat}"
    | _, _, _ => "bad-op"
  | _ => "bad-op"

def main (h : IO.FS.Stream) : IO Unit := loopPure h line
end ErgoVerif.Drive.Ref

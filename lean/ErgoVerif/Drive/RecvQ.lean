import ErgoVerif.Drive.Util
import ErgoVerif.Model.RecvQ
import ErgoVerif.Generated.RecvQ
namespace ErgoVerif.Drive.RecvQ
open ErgoVerif ErgoVerif.Drive ErgoVerif.RecvQ

def lbl? : List String → Option Lbl
  | ["rPush", m] => m.toNat?.map Lbl.rPush
  | ["rLockOk"] => some .rLockOk | ["rLockFail"] => some .rLockFail
  | ["wPopSome"] => some .wPopSome | ["wPopNone"] => some .wPopNone | ["wUnlock"] => some .wUnlock
  | ["wItemNil"] => some .wItemNil | ["wItemSome"] => some .wItemSome
  | ["wLockOk"] => some .wLockOk | ["wLockFail"] => some .wLockFail
  | _ => none

def showCfg (c : Cfg) : String :=
  s!"q={c.q.length} locked={if c.locked then 1 else 0} handled={showNatList c.handled} quiescent={if decide c.quiescent then 1 else 0}"

/-- `reset` | one label per line; answers the new state or `disabled` (the state is kept) -/
def line (c : Cfg) (ln : String) : Cfg × String :=
  match words ln with
  | ["reset"] => (Cfg.init, "ok")
  | ws => match lbl? ws with
    | none => (c, "bad-op")
    | some l => match step Gen.RecvQ.unlockBeforeRecheck c l with
      | none => (c, "disabled " ++ showCfg c)
      | some c' => (c', "ok " ++ showCfg c')

def main (h : IO.FS.Stream) : IO Unit := loopState h line Cfg.init
end ErgoVerif.Drive.RecvQ

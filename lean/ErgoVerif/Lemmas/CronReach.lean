/-
Reachable scheduler states: histories of API calls and timer ticks from createCron.
-/
import ErgoVerif.Lemmas.CronWindow
import ErgoVerif.Lemmas.CronParse
import ErgoVerif.Lemmas.CronSpec
namespace ErgoVerif.CronSched
open ErgoVerif.Cron

variable (civil : CivilFn)

/-- the four calls of the public API -/
def Op.isCall : Op → Bool
  | .add _ _ _ | .remove _ | .enable _ | .disable _ => true
  | _ => false

/-- states reachable from createCron by AddJob / RemoveJob / EnableJob / DisableJob calls and runs of the timer
    function at arbitrary wall-clock minutes — as one step, or as its two halves with calls in between.
    The flag says whether the spool is armed: c.schedule has run since the spool was last drained. -/
inductive Reach : Sched → Bool → Prop
  | init (next : Int) : Reach (init next) true
  | call (s : Sched) (a : Bool) (op : Op) : Reach s a → op.isCall = true → Reach (step civil s op).1 a
  | tick (s : Sched) (a : Bool) (now : Int) : Reach s a → Reach (step civil s (.tick now)).1 true
  | tickDrain (s : Sched) (a : Bool) (now : Int) : Reach s a → Reach (step civil s (.tickDrain now)).1 false
  | tickSched (s : Sched) (a : Bool) (now : Int) : Reach s a → Reach (step civil s (.tickSched now)).1 true

theorem reach_inv {s : Sched} {a : Bool} (h : Reach civil s a) : Inv civil s := by
  induction h with
  | init next => exact inv_init civil next
  | call s a op _ _ ih => exact inv_step civil s ih op
  | tick s a now _ ih => exact inv_step civil s ih _
  | tickDrain s a now _ ih => exact inv_step civil s ih _
  | tickSched s a now _ ih => exact inv_step civil s ih _

theorem reach_armed {s : Sched} (h : Reach civil s true) : Armed civil s := by
  generalize ha : true = a at h
  induction h with
  | init next => exact armed_init civil next
  | call s a op hr hop ih =>
    subst ha
    have hi := reach_inv civil hr
    cases op with
    | add n t l => exact (inv_api civil s hi (.add n t l) trivial).2 (ih rfl)
    | remove n => exact (inv_api civil s hi (.remove n) trivial).2 (ih rfl)
    | enable n => exact (inv_api civil s hi (.enable n) trivial).2 (ih rfl)
    | disable n => exact (inv_api civil s hi (.disable n) trivial).2 (ih rfl)
    | tick n => simp [Op.isCall] at hop
    | tickDrain n => simp [Op.isCall] at hop
    | tickSched n => simp [Op.isCall] at hop
    | sched n => simp [Op.isCall] at hop
    | drain => simp [Op.isCall] at hop
  | tick s a now hr _ =>
    exact (inv_schedule civil _ (inv_drain civil s (reach_inv civil hr)) (now + 1)).2
  | tickDrain s a now _ _ => cases ha
  | tickSched s a now hr _ =>
    exact (inv_schedule civil s (reach_inv civil hr) (now + 1)).2

/-- every present job carries an AST of the grammar (AddJob refuses anything else) -/
def SpecsValid (s : Sched) : Prop := ∀ p ∈ s.jobs, (s.objs p).spec.valid = true

theorem specsValid_step (s : Sched) (hv : SpecsValid s) (hlt : ∀ p ∈ s.jobs, p < s.nobjs) (op : Op) :
    SpecsValid (step civil s op).1 := by
  cases op with
  | sched n =>
    simp only [step]
    obtain ⟨h1, _, h3, _, _⟩ := schedule_proj civil s n
    intro p hp; rw [h3] at hp; rw [h1]; exact hv p hp
  | drain => exact hv
  | tickDrain now => exact hv
  | tickSched now =>
    simp only [step]
    obtain ⟨h1, _, h3, _, _⟩ := schedule_proj civil s (now + 1)
    intro p hp; rw [h3] at hp; rw [h1]; exact hv p hp
  | tick now =>
    simp only [step]
    obtain ⟨h1, _, h3, _, _⟩ := schedule_proj civil { s with spool := [] } (now + 1)
    intro p hp; rw [h3] at hp; rw [h1]; exact hv p hp
  | disable name =>
    simp only [step]
    cases findJob s name with
    | none => exact hv
    | some q => intro p hp; simp only [setDisable_spec]; exact hv p hp
  | remove name =>
    simp only [step]
    cases findJob s name with
    | none => exact hv
    | some q => intro p hp; simp only [setDisable_spec]; exact hv p (List.mem_filter.mp hp).1
  | enable name =>
    simp only [step]
    cases findJob s name with
    | none => exact hv
    | some q =>
      obtain ⟨h1, _, h3, _, _⟩ := scheduleJob_proj civil { s with objs := setDisable s.objs q false } q
      intro p hp; rw [h3] at hp; rw [h1]; simp only [setDisable_spec]; exact hv p hp
  | add name text loc =>
    simp only [step]
    by_cases hn : name = 0
    · simp only [hn, if_true]; exact hv
    · simp only [hn, if_false]
      cases hpz : parseSpec text with
      | none => exact hv
      | some spec =>
        cases findJob s name with
        | some _ => exact hv
        | none =>
          simp only
          obtain ⟨h1, _, h3, _, _⟩ := scheduleJob_proj civil
            { s with objs := fun q => if q = s.nobjs then ⟨name, spec, loc, false⟩ else s.objs q,
                     nobjs := s.nobjs + 1, jobs := s.jobs ++ [s.nobjs] } s.nobjs
          intro p hp; rw [h3] at hp; rw [h1]
          rcases List.mem_append.mp hp with hp | hp
          · have : p ≠ s.nobjs := Nat.ne_of_lt (hlt p hp)
            simp only [this, if_false]; exact hv p hp
          · simp at hp; subst hp
            simp only [if_true]; exact parseSpec_valid hpz

theorem reach_specsValid {s : Sched} {a : Bool} (h : Reach civil s a) : SpecsValid s := by
  induction h with
  | init next => intro p hp; simp [init] at hp
  | call s a op hr _ ih => exact specsValid_step civil s ih (reach_inv civil hr).jobs_lt op
  | tick s a now hr ih => exact specsValid_step civil s ih (reach_inv civil hr).jobs_lt _
  | tickDrain s a now hr ih => exact specsValid_step civil s ih (reach_inv civil hr).jobs_lt _
  | tickSched s a now hr ih => exact specsValid_step civil s ih (reach_inv civil hr).jobs_lt _

/-- on a present job of a reachable state the mask matcher is the denotation -/
theorem runsAt_eq_denote {s : Sched} {a : Bool} (h : Reach civil s a) (hciv : ∀ loc m, (civil loc m).wf) (p : Nat)
    (hp : p ∈ s.jobs) (m : Int) : runsAt civil (s.objs p) m = (s.objs p).spec.denote (civil (s.objs p).loc m) := by
  unfold runsAt
  exact specIsRunAt_eq_denote _ (reach_specsValid civil h p hp) _ (hciv _ _)

end ErgoVerif.CronSched

import ErgoVerif.Drive.Util
import ErgoVerif.Model.Window
namespace ErgoVerif.Drive.Window
open ErgoVerif.Drive ErgoVerif.Window

/-- `check <intensity> <periodMs> <now> <restarts>` → `<restarts'> <0|1>` -/
def line (s : String) : String :=
  match words s with
  | ["check", k, p, now, rs] =>
    match k.toNat?, p.toInt?, now.toInt?, parseIntList? rs with
    | some k, some p, some now, some rs =>
      let r := check rs now p k
      s!"{showIntList r.1} {if r.2 then 1 else 0}"
    | _, _, _, _ => "bad-op"
  | ["spec", k, p, ts] =>     -- verdict sequence of the specification over a whole history
    match k.toNat?, p.toInt?, parseIntList? ts with
    | some k, some p, some ts =>
      " ".intercalate ((runSpec p k [] ts).map fun b => if b then "1" else "0")
    | _, _, _ => "bad-op"
  | _ => "bad-op"

def main (h : IO.FS.Stream) : IO Unit := loopPure h line

end ErgoVerif.Drive.Window

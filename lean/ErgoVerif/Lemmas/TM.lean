import ErgoVerif.Model.TM
/-!
Lemmas about the TargetManager model: the index invariant, its preservation by all
state-changing operations, and what every operation does to the primary set
(the abstract specification: a set of (consumer, target, monitor) triples).
-/
namespace ErgoVerif.TM

/-- index invariant: the primary set has no duplicates, every index entry has no duplicates and
    holds exactly the keys of the primary set with that target -/
def Inv (s : St) : Prop :=
  s.rel.Nodup ∧ ∀ t, (s.idx t).Nodup ∧ ∀ k, k ∈ s.idx t ↔ (k ∈ s.rel ∧ k.target = t)

theorem init_inv : Inv init := by
  refine ⟨List.nodup_nil, fun t => ⟨List.nodup_nil, fun k => ?_⟩⟩
  simp [init]

/-! ### single-key operations -/

theorem add_inv {s : St} (k : Key) (h : Inv s) : Inv (add s k).1 := by
  unfold add
  by_cases hk : k ∈ s.rel
  · simp [hk, h]
  · simp only [hk, ↓reduceIte]
    refine ⟨List.nodup_cons.mpr ⟨hk, h.1⟩, fun t => ⟨?_, ?_⟩⟩
    · by_cases ht : t = k.target
      · subst ht
        simp only [idxSet, ↓reduceIte]
        exact List.nodup_cons.mpr ⟨fun hm => hk (((h.2 _).2 _).mp hm).1, (h.2 _).1⟩
      · simp [idxSet, ht, (h.2 t).1]
    · intro k'
      by_cases ht : t = k.target
      · subst ht
        simp only [idxSet, ↓reduceIte, List.mem_cons, (h.2 _).2]
        constructor
        · rintro (rfl | h') <;> simp_all
        · rintro ⟨rfl | h', ht⟩ <;> simp_all
      · simp only [idxSet, ht, ↓reduceIte, List.mem_cons, (h.2 _).2]
        constructor
        · intro h'; exact ⟨Or.inr h'.1, h'.2⟩
        · rintro ⟨rfl | h', ht'⟩
          · exact absurd ht'.symm ht
          · exact ⟨h', ht'⟩

theorem dropKey_inv {s : St} (k : Key) (h : Inv s) : Inv (dropKey s k) := by
  unfold dropKey idxErase
  refine ⟨h.1.erase k, fun t => ⟨?_, ?_⟩⟩
  · by_cases ht : t = k.target
    · subst ht; simp only [idxSet, ↓reduceIte]; exact (h.2 _).1.erase k
    · simp [idxSet, ht, (h.2 t).1]
  · intro k'
    by_cases ht : t = k.target
    · subst ht
      simp only [idxSet, ↓reduceIte, (h.2 _).1.mem_erase_iff, h.1.mem_erase_iff, (h.2 _).2]
      constructor
      · rintro ⟨a, b, c⟩; exact ⟨⟨a, b⟩, c⟩
      · rintro ⟨⟨a, b⟩, c⟩; exact ⟨a, b, c⟩
    · simp only [idxSet, ht, ↓reduceIte, h.1.mem_erase_iff, (h.2 _).2]
      constructor
      · rintro ⟨a, b⟩
        refine ⟨⟨?_, a⟩, b⟩
        intro e; subst e; exact ht b.symm
      · rintro ⟨⟨_, a⟩, b⟩; exact ⟨a, b⟩

theorem remove_inv {s : St} (k : Key) (h : Inv s) : Inv (remove s k).1 := by
  unfold remove
  by_cases hk : k ∈ s.rel
  · simp only [hk, ↓reduceIte]; exact dropKey_inv k h
  · simp [hk, h]

theorem add_rel (s : St) (k : Key) :
    (add s k).1.rel = if k ∈ s.rel then s.rel else k :: s.rel := by
  unfold add; split <;> rfl

theorem add_err (s : St) (k : Key) : (add s k).2 = if k ∈ s.rel then some .exist else none := by
  unfold add; split <;> rfl

theorem remove_rel (s : St) (k : Key) : (remove s k).1.rel = s.rel.erase k := by
  unfold remove
  by_cases hk : k ∈ s.rel
  · simp [hk]
  · simp [hk, List.erase_of_not_mem hk]

theorem remove_err (s : St) (k : Key) : (remove s k).2 = if k ∈ s.rel then none else some .unknown := by
  unfold remove; split <;> rfl

/-! ### loops -/

theorem foldl_erase_eq_filter {α} [DecidableEq α] (ks : List α) :
    ∀ (l : List α), l.Nodup → ks.foldl List.erase l = l.filter (fun x => decide (x ∉ ks)) := by
  induction ks with
  | nil => intro l _; exact (List.filter_eq_self.mpr (by simp)).symm
  | cons k ks ih =>
    intro l hl
    simp only [List.foldl_cons]
    rw [ih _ (hl.erase k), hl.erase_eq_filter, List.filter_filter]
    apply List.filter_congr
    intro x _
    by_cases hx : x = k <;> simp [hx]

theorem foldl_dropKey_rel (ks : List Key) : ∀ s : St, (ks.foldl dropKey s).rel = ks.foldl List.erase s.rel := by
  induction ks with
  | nil => intro s; rfl
  | cons k ks ih => intro s; simp only [List.foldl_cons]; rw [ih]; rfl

theorem foldl_dropKey_inv (ks : List Key) : ∀ s : St, Inv s → Inv (ks.foldl dropKey s) := by
  induction ks with
  | nil => intro s h; exact h
  | cons k ks ih => intro s h; exact ih _ (dropKey_inv k h)

/-- dropping exactly the keys selected by `p` from the primary set leaves the others, in place -/
theorem dropSelected_rel {s : St} (h : Inv s) (p : Key → Bool) :
    ((s.rel.filter p).foldl dropKey s).rel = s.rel.filter (fun k => !p k) := by
  rw [foldl_dropKey_rel, foldl_erase_eq_filter _ _ h.1]
  apply List.filter_congr
  intro k hk
  simp [List.mem_filter, hk]

/-! ### CleanupConsumer -/

theorem cleanupConsumer_spec {s : St} (h : Inv s) (c : Pid) :
    (cleanupConsumer s c).1.rel = s.rel.filter (fun k => !decide (k.consumer = c)) ∧
    (cleanupConsumer s c).2 = s.rel.filter (fun k => decide (k.consumer = c)) ∧
    Inv (cleanupConsumer s c).1 :=
  ⟨dropSelected_rel h _, rfl, foldl_dropKey_inv _ _ h⟩

/-! ### CleanupTarget (reads the index only) -/

theorem cleanupTarget_spec {s : St} (h : Inv s) (t : Target) :
    (cleanupTarget s t).1.rel = s.rel.filter (fun k => !decide (k.target = t)) ∧
    (∀ k, k ∈ (cleanupTarget s t).2 ↔ k ∈ s.rel ∧ k.target = t) ∧
    (cleanupTarget s t).2.Nodup ∧
    Inv (cleanupTarget s t).1 := by
  have hrel : (cleanupTarget s t).1.rel = s.rel.filter (fun k => !decide (k.target = t)) := by
    show (s.idx t).foldl List.erase s.rel = _
    rw [foldl_erase_eq_filter _ _ h.1]
    apply List.filter_congr
    intro k hk
    simp [(h.2 t).2 k, hk]
  refine ⟨hrel, fun k => (h.2 t).2 k, (h.2 t).1, ?_⟩
  refine ⟨by rw [hrel]; exact h.1.filter _, fun t' => ?_⟩
  rw [hrel]
  show (idxSet s.idx t [] t').Nodup ∧ ∀ k, k ∈ idxSet s.idx t [] t' ↔ _
  by_cases ht : t' = t
  · subst ht
    simp only [idxSet, ↓reduceIte, List.nodup_nil, true_and, List.not_mem_nil, false_iff]
    intro k hk
    simp [List.mem_filter] at hk
    exact hk.1.2 hk.2
  · simp only [idxSet, ht, ↓reduceIte]
    refine ⟨(h.2 t').1, fun k => ?_⟩
    rw [(h.2 t').2 k, List.mem_filter]
    constructor
    · rintro ⟨a, b⟩
      refine ⟨⟨a, ?_⟩, b⟩
      simp only [Bool.not_eq_eq_eq_not, Bool.not_true, decide_eq_false_iff_not]
      intro e; exact ht (b ▸ e)
    · rintro ⟨⟨a, _⟩, b⟩; exact ⟨a, b⟩

/-! ### CleanupNode -/

theorem cleanupNode_spec {s : St} (h : Inv s) (n : Node) :
    (cleanupNode s n).1.rel = s.rel.filter (fun k => !consumerOn n k && !targetOn n k) ∧
    (cleanupNode s n).2 = s.rel.filter (fun k => !consumerOn n k && targetOn n k) ∧
    Inv (cleanupNode s n).1 := by
  refine ⟨?_, rfl, foldl_dropKey_inv _ _ h⟩
  show ((s.rel.filter _).foldl dropKey s).rel = _
  rw [dropSelected_rel h]
  apply List.filter_congr
  intro k _
  simp

/-! ### inspection -/

theorem consumersFor_spec {s : St} (h : Inv s) (t : Target) (c : Pid) :
    c ∈ consumersFor s t ↔ ∃ m, (⟨c, t, m⟩ : Key) ∈ s.rel := by
  unfold consumersFor
  simp only [List.mem_map, (h.2 t).2]
  constructor
  · rintro ⟨⟨c', t', m⟩, ⟨hk, ht⟩, rfl⟩
    simp only at ht; subst ht; exact ⟨m, hk⟩
  · rintro ⟨m, hk⟩; exact ⟨⟨c, t, m⟩, ⟨hk, rfl⟩, rfl⟩

/-! ### every reachable state satisfies the invariant -/

theorem step_inv {s : St} (h : Inv s) (op : Op) : Inv (step s op).1 := by
  cases op <;> simp only [step]
  · exact add_inv _ h
  · exact remove_inv _ h
  · exact h
  · exact add_inv _ h
  · exact remove_inv _ h
  · exact h
  · exact (cleanupConsumer_spec h _).2.2
  · exact (cleanupTarget_spec h _).2.2.2
  · exact (cleanupNode_spec h _).2.2
  · exact h
  · exact h

theorem run_inv (ops : List Op) : ∀ {s : St}, Inv s → Inv (run s ops) := by
  induction ops with
  | nil => intro s h; exact h
  | cons op ops ih => intro s h; exact ih (step_inv h op)

/-! ### refinement: the abstract specification is the relation SET alone

`specStep` says what every operation does to the set of (consumer, target, monitor) triples and never
mentions the index; `step_refines` shows the implementation model (which maintains and, in
`CleanupTarget` / `GetConsumersForTarget`, *reads* the index) agrees with it in every state that satisfies
the invariant — hence, by `run_inv`, in every reachable state. -/

def specStep (rel : List Key) : Op → List Key
  | .addLink c t => if (⟨c, t, false⟩ : Key) ∈ rel then rel else ⟨c, t, false⟩ :: rel
  | .addMonitor c t => if (⟨c, t, true⟩ : Key) ∈ rel then rel else ⟨c, t, true⟩ :: rel
  | .removeLink c t => rel.erase ⟨c, t, false⟩
  | .removeMonitor c t => rel.erase ⟨c, t, true⟩
  | .cleanupConsumer c => rel.filter (fun k => !decide (k.consumer = c))
  | .cleanupTarget t => rel.filter (fun k => !decide (k.target = t))
  | .cleanupNode n => rel.filter (fun k => !consumerOn n k && !targetOn n k)
  | .hasLink _ _ | .hasMonitor _ _ | .targetsFor _ | .consumersFor _ => rel

theorem step_refines {s : St} (h : Inv s) (op : Op) : (step s op).1.rel = specStep s.rel op := by
  cases op <;> simp only [step, specStep]
  · exact add_rel _ _
  · exact remove_rel _ _
  · exact add_rel _ _
  · exact remove_rel _ _
  · exact (cleanupConsumer_spec h _).1
  · exact (cleanupTarget_spec h _).1
  · exact (cleanupNode_spec h _).1

/-- what the answers are, in terms of the set alone -/
theorem step_out_spec {s : St} (h : Inv s) (op : Op) :
    match op, (step s op).2 with
    | .addLink c t, .err e => e = if (⟨c, t, false⟩ : Key) ∈ s.rel then some .exist else none
    | .addMonitor c t, .err e => e = if (⟨c, t, true⟩ : Key) ∈ s.rel then some .exist else none
    | .removeLink c t, .err e => e = if (⟨c, t, false⟩ : Key) ∈ s.rel then none else some .unknown
    | .removeMonitor c t, .err e => e = if (⟨c, t, true⟩ : Key) ∈ s.rel then none else some .unknown
    | .hasLink c t, .bool b => b = decide ((⟨c, t, false⟩ : Key) ∈ s.rel)
    | .hasMonitor c t, .bool b => b = decide ((⟨c, t, true⟩ : Key) ∈ s.rel)
    | .cleanupConsumer c, .keys ks => ks = s.rel.filter (fun k => decide (k.consumer = c))
    | .targetsFor c, .keys ks => ks = s.rel.filter (fun k => decide (k.consumer = c))
    | .cleanupTarget t, .keys ks => ks.Nodup ∧ ∀ k, k ∈ ks ↔ k ∈ s.rel ∧ k.target = t
    | .cleanupNode n, .keys ks => ks = s.rel.filter (fun k => !consumerOn n k && targetOn n k)
    | .consumersFor t, .pids ps => ∀ c, c ∈ ps ↔ ∃ m, (⟨c, t, m⟩ : Key) ∈ s.rel
    | _, _ => True := by
  cases op <;> simp only [step]
  · exact add_err _ _
  · exact remove_err _ _
  · rfl
  · exact add_err _ _
  · exact remove_err _ _
  · rfl
  · rfl
  · exact ⟨(cleanupTarget_spec h _).2.2.1, (cleanupTarget_spec h _).2.1⟩
  · rfl
  · rfl
  · exact fun c => consumersFor_spec h _ c

/-- a terminated target is reported to each of its holders exactly once, per relation kind (C04 uses this) -/
theorem cleanupTarget_count {s : St} (h : Inv s) (t : Target) (k : Key) :
    (cleanupTarget s t).2.count k = if k ∈ s.rel ∧ k.target = t then 1 else 0 := by
  have hs := cleanupTarget_spec h t
  rw [hs.2.2.1.count]
  by_cases hk : k ∈ s.rel ∧ k.target = t
  · rw [if_pos ((hs.2.1 k).mpr hk), if_pos hk]
  · rw [if_neg (fun x => hk ((hs.2.1 k).mp x)), if_neg hk]

/-- after `CleanupTarget t` / `CleanupConsumer c` nothing about `t` / `c` is left -/
theorem cleanupTarget_gone {s : St} (h : Inv s) (t : Target) (k : Key) (hk : k ∈ (cleanupTarget s t).1.rel) :
    k.target ≠ t := by
  rw [(cleanupTarget_spec h t).1] at hk
  simpa using (List.mem_filter.mp hk).2

theorem cleanupConsumer_gone {s : St} (h : Inv s) (c : Pid) (k : Key) (hk : k ∈ (cleanupConsumer s c).1.rel) :
    k.consumer ≠ c := by
  rw [(cleanupConsumer_spec h c).1] at hk
  simpa using (List.mem_filter.mp hk).2

end ErgoVerif.TM

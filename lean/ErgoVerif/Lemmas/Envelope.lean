import ErgoVerif.Model.Envelope
import ErgoVerif.Lemmas.Frame
import ErgoVerif.Model.Stream
namespace ErgoVerif.Envelope
open ErgoVerif.Generated.Proto ErgoVerif.Frame

theorem envelope_length (cd : Codec) (t : Nat) (f : Bytes) :
    (envelope cd t f).length = zPreallocate + 4 + (cd.comp t f).length := by
  simp [envelope, beBytes_length, zPreallocate]; omega

theorem envelope_drop (cd : Codec) (t : Nat) (f : Bytes) :
    (envelope cd t f).drop (zSkipBytes + 4) = cd.comp t f := by
  have h : (beBytes 1 protoMagic ++ beBytes 1 protoVersion ++ beBytes 4 (zPreallocate + 4 + (cd.comp t f).length) ++
      [f.getD 6 0] ++ beBytes 1 zTypeByte ++ beBytes 1 t ++ beBytes 4 f.length).length = zSkipBytes + 4 := by
    simp [beBytes_length, zSkipBytes]
  simp only [envelope]
  rw [← h, List.drop_left]

/-- the eight fixed header bytes of an envelope, explicitly -/
theorem envelope_eq (cd : Codec) (t : Nat) (f : Bytes) :
    envelope cd t f =
      UInt8.ofNat protoMagic :: UInt8.ofNat protoVersion ::
      (beBytes 4 (zPreallocate + 4 + (cd.comp t f).length) ++
       (f.getD 6 0 :: UInt8.ofNat zTypeByte :: UInt8.ofNat t :: (beBytes 4 f.length ++ cd.comp t f))) := by
  simp [envelope, beBytes]

theorem be4_explicit (n : Nat) : beBytes 4 n =
    [UInt8.ofNat (n / 256 ^ 3), UInt8.ofNat (n / 256 ^ 2), UInt8.ofNat (n / 256 ^ 1), UInt8.ofNat (n / 256 ^ 0)] := by
  simp [beBytes]

/-- the order byte of the original frame is kept (the receive queue is chosen from it) -/
theorem envelope_order (cd : Codec) (t : Nat) (f : Bytes) :
    (envelope cd t f).getD 6 0 = f.getD 6 0 := by
  rw [envelope_eq, be4_explicit]; rfl

theorem envelope_type (cd : Codec) (t : Nat) (f : Bytes) :
    (envelope cd t f)[7]? = some (UInt8.ofNat zTypeByte) := by
  rw [envelope_eq, be4_explicit]; rfl

theorem envelope_ctype (cd : Codec) (t : Nat) (f : Bytes) :
    (envelope cd t f).getD 8 0 = UInt8.ofNat t := by
  rw [envelope_eq, be4_explicit]; rfl

theorem envelope_declared (cd : Codec) (t : Nat) (f : Bytes) :
    ((envelope cd t f).drop zSkipBytes).take 4 = beBytes 4 f.length := by
  rw [envelope_eq, be4_explicit]
  have h4 : (beBytes 4 f.length).length = 4 := beBytes_length 4 _
  show ((beBytes 4 f.length ++ cd.comp t f)).take 4 = _
  exact List.take_left' h4

/-- the compressed receive case undoes send()'s envelope — under the compressor round-trip HYPOTHESIS -/
theorem open_envelope (cd : Codec) (hrt : ∀ t b, cd.decomp t (cd.comp t b) = some b)
    (t : Nat) (ht : t < 256) (f : Bytes) (hl : f.length < 2 ^ 32) :
    openEnvelope cd (envelope cd t f) = some f := by
  have hlen := envelope_length cd t f
  have h1 : ¬ (envelope cd t f).length < 10 := by rw [hlen]; simp [zPreallocate]; omega
  have h2 : ¬ (envelope cd t f).length < zSkipBytes + 4 := by rw [hlen]; simp [zPreallocate, zSkipBytes]
  have ht' : ((envelope cd t f).getD 8 0).toNat = t := by
    rw [envelope_ctype]; simp [UInt8.toNat_ofNat']; omega
  have hd : beVal (((envelope cd t f).drop zSkipBytes).take 4) = f.length := by
    rw [envelope_declared]; exact beVal_beBytes 4 _ (by simpa using hl)
  simp only [openEnvelope, h1, h2, if_false, ht', hd, envelope_drop, hrt]
  simp

/-- the length field of an envelope is its length (so the reader theorems apply to envelopes too) -/
theorem envelope_lenField (cd : Codec) (t : Nat) (f : Bytes)
    (hl : zPreallocate + 4 + (cd.comp t f).length < 2 ^ 32) :
    ErgoVerif.Stream.lenField (envelope cd t f) = (envelope cd t f).length := by
  rw [envelope_length, envelope_eq, be4_explicit]
  generalize zPreallocate + 4 + (cd.comp t f).length = n at hl ⊢
  simp only [List.cons_append, List.nil_append, ErgoVerif.Stream.lenField, UInt8.toNat_ofNat']
  omega

end ErgoVerif.Envelope

import ErgoVerif.Model.AppStartRace
import ErgoVerif.Generated.AppStart
/-!
# C17 — a failed start does not reach into the next run

`Model/AppStartRace.lean`: the roll-back of a failed start, the late termination of a member it killed, the next start.
-/
namespace ErgoVerif.Props.C17StartRace
open ErgoVerif ErgoVerif.AppStartRace

/-- full statement, parametric in the code shape: whatever the interleaving, once the failed start, the late
termination of its member and the next start are all over, the application is running, its Start callback ran and no
Terminate callback did -/
def C17_failed_start_isolated_full (rm : Bool) : Prop :=
  ∀ ls c, run rm init ls = some c → c.s1 = .done → c.s2 = .done → c.t = .done →
    c.running = true ∧ c.started = true ∧ c.termCb = false

/-- the code before the repair of D32 (the killed member stays in the group): roll back · start #2 takes the state ·
the member's termination finds it in the group, the group empty, swaps the state back to loaded and calls Terminate ·
start #2 stores its member and calls Start: an application that is `loaded`, with a live member, whose Terminate ran.
Kept as a regression statement. -/
theorem C17_D32_before_fix : ¬ C17_failed_start_isolated_full false := by
  intro h
  have := h [.a, .a, .a, .a, .b, .t, .t, .t, .b, .b]
    ⟨false, false, true, true, true, true, .done, .done, .done⟩ (by decide) rfl rfl rfl
  simp at this

namespace Proof

/-- the reachable configurations with the removal in place (computed once by breadth-first search; the theorems below
check that the list contains the initial one and is closed under every step) -/
def reachable : List Cfg := [
  ⟨true, false, false, false, false, false, .store, .cas, .idle⟩,
  ⟨true, true, false, false, false, false, .fail, .cas, .idle⟩,
  ⟨true, true, false, false, false, false, .remove, .cas, .idle⟩,
  ⟨true, false, false, false, false, false, .setLoaded, .cas, .idle⟩,
  ⟨false, false, false, false, false, false, .kill, .cas, .idle⟩,
  ⟨false, false, false, false, false, false, .done, .cas, .delete⟩,
  ⟨true, false, false, false, false, false, .kill, .store, .idle⟩,
  ⟨true, false, false, false, false, false, .done, .store, .delete⟩,
  ⟨false, false, false, false, false, false, .done, .cas, .check⟩,
  ⟨true, false, true, false, false, false, .kill, .callback, .idle⟩,
  ⟨true, false, true, false, false, false, .done, .callback, .delete⟩,
  ⟨true, false, false, false, false, false, .done, .store, .check⟩,
  ⟨false, false, false, false, false, false, .done, .cas, .done⟩,
  ⟨true, false, true, false, true, false, .kill, .done, .idle⟩,
  ⟨true, false, true, false, true, false, .done, .done, .delete⟩,
  ⟨true, false, true, false, false, false, .done, .callback, .check⟩,
  ⟨true, false, false, false, false, false, .done, .store, .done⟩,
  ⟨true, false, true, false, true, false, .done, .done, .check⟩,
  ⟨true, false, true, false, false, false, .done, .callback, .done⟩,
  ⟨true, false, true, false, true, false, .done, .done, .done⟩]

def closedAt (c : Cfg) (l : Lbl) : Bool :=
  match step true c l with
  | some c' => reachable.contains c'
  | none => true

theorem closed : (reachable.all fun c => closedAt c .a && closedAt c .b && closedAt c .t) = true := by decide

theorem finals : (reachable.all fun c =>
    !(c.s1 == .done && c.s2 == .done && c.t == .done) || (c.running && c.started && !c.termCb)) = true := by decide

theorem run_reachable : ∀ (ls : List Lbl) (c c' : Cfg), reachable.contains c = true → run true c ls = some c' →
    reachable.contains c' = true := by
  intro ls
  induction ls with
  | nil => intro c c' h hr; simp [run] at hr; subst hr; exact h
  | cons l ls ih =>
    intro c c' h hr
    simp only [run] at hr
    cases hs : step true c l with
    | none => simp [hs] at hr
    | some c1 =>
      simp [hs] at hr
      have hc := List.all_eq_true.mp closed c (by simpa using h)
      simp only [Bool.and_eq_true] at hc
      have h1 : closedAt c l = true := by cases l <;> simp [hc.1.1, hc.1.2, hc.2]
      simp only [closedAt, hs] at h1
      exact ih c1 c' h1 hr

end Proof

/-- with the removal in place the statement holds for every interleaving -/
theorem C17_failed_start_isolated_with_removal : C17_failed_start_isolated_full true := by
  intro ls c hr h1 h2 h3
  have hin := Proof.run_reachable ls init c (by decide) hr
  have hf := List.all_eq_true.mp Proof.finals c (by simpa using hin)
  simp only [h1, h2, h3, beq_self_eq_true, Bool.and_self, Bool.not_true, Bool.false_or, Bool.and_eq_true,
    Bool.not_eq_eq_eq_not] at hf
  exact ⟨hf.1.1, hf.1.2, by simpa using hf.2⟩

/-- **A failed start is isolated from the next run, for the code as it is** (`Gen.AppStart.rollbackRemovesMembers`,
regenerated from application.start). -/
theorem C17_failed_start_isolated : C17_failed_start_isolated_full ErgoVerif.Gen.AppStart.rollbackRemovesMembers := by
  have h : ErgoVerif.Gen.AppStart.rollbackRemovesMembers = true := by decide
  rw [h]
  exact C17_failed_start_isolated_with_removal

/-- non-vacuity: the interleaving that broke the code before the repair now ends well -/
example : (run true init [.a, .a, .a, .a, .a, .b, .t, .t, .b, .b]).map (fun c => (c.running, c.started, c.termCb)) =
    some (true, true, false) := by decide

end ErgoVerif.Props.C17StartRace

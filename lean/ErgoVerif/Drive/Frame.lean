import ErgoVerif.Drive.Util
import ErgoVerif.Model.Frame
namespace ErgoVerif.Drive.Frame
open ErgoVerif.Drive ErgoVerif.Frame ErgoVerif.Generated.Proto

def parseFields? (s : String) : Option (List (String × Nat)) :=
  if s = "-" then some [] else
  (s.splitOn ",").mapM fun kv => match kv.splitOn "=" with
    | [k, v] => v.toNat?.map fun n => (k, n)
    | _ => none

def lookup (fs : List (String × Nat)) (n : String) : Nat :=
  match fs.find? (·.1 = n) with
  | some p => p.2
  | none => 0

/-- header positions covered by a write that is performed for this message (everything else keeps
    whatever the pooled buffer contained: `Allocate` does not clear) -/
def covered (k : Kind) (m : Msg) (i : Nat) : Bool :=
  k.writes.any fun w => condOn m w.cond &&
    (if w.mask ≠ 0 then false
     else if w.width = 0 then decide (w.off ≤ i ∧ i < w.off + m.name.length)
     else decide (w.off ≤ i ∧ i < w.off + w.width))

/-- hex with the unwritten header bytes shown as `..` -/
def showMasked (k : Kind) (m : Msg) (bs : List UInt8) : String :=
  let h := hdrLen k m
  String.ofList ((bs.zipIdx).flatMap fun (b, i) =>
    if i < h ∧ !covered k m i then ['.', '.'] else [hexChar (b.toNat / 16), hexChar (b.toNat % 16)])

def showFields (fs : List (String × Nat)) : String :=
  if fs.isEmpty then "-" else ",".intercalate (fs.map fun p => s!"{p.1}={p.2}")

/-- `enc <typ> <important> <namehex> <payloadhex> <field=value,…>` → frame hex
    `parse <framehex>` → `ok <fields> <namehex> <payloadOffset>` | `dropped` | `recovered` | `unknown` -/
def line (s : String) : String :=
  match words s with
  | ["enc", t, imp, nm, pl, fs] =>
    match t.toNat?, imp.toNat?, parseHex? nm, parseHex? pl, parseFields? fs with
    | some t, some imp, some nm, some pl, some fs =>
      match kindOf t with
      | some k => let m : Msg := ⟨lookup fs, imp ≠ 0, nm, pl⟩; showMasked k m (encode k m)
      | none => "unknown"
    | _, _, _, _, _ => "bad-op"
  | ["parse", fr] =>
    match parseHex? fr with
    | some f =>
      match f[7]? with
      | none => "short"
      | some t =>
        match kindOf t.toNat with
        | none => "unknown"
        | some k =>
          match parse k f with
          | .ok p => s!"ok {showFields p.fields} {showHex p.name} {f.length - p.payload.length}"
          | .dropped => "dropped"
          | .recovered => "recovered"
    | none => "bad-op"
  | _ => "bad-op"

def main (h : IO.FS.Stream) : IO Unit := loopPure h line

end ErgoVerif.Drive.Frame

import ErgoVerif.Model.SupCommon
/-
Field-by-field mirror of `supSOFO` (act/supervisor_sofo.go), simple-one-for-one supervisor.
`spec map[gen.Atom]*supChildSpec` is a list without duplicate names (insertion order),
`pids map[gen.PID]*supChildSpec` is a list of (pid, spec name) — the pointer is the name because
specs are never removed.  Orders of map iteration are not observable here: the driver prints
sorted lists and the harness compares `terminate` of this machine as a set.
-/
namespace ErgoVerif.Sup

structure SOFO where
  spec : List ChildSpec := []
  pids : List (Nat × Nat) := []     -- (pid, spec name)
  restart : Restart := {}
  restarts : List Int := []
  i : Nat := 0
  shutdown : Bool := false
  shutdownReason : Option Reason := none
  wait : List Nat := []
  deriving Repr, Inhabited

namespace SOFO

/-- `s.spec[cs.Name] = &cs` (overwrites an existing entry of the same name) -/
def putSpec (cs : ChildSpec) (l : List ChildSpec) : List ChildSpec :=
  if (findName cs.name l).isSome then updName cs.name (fun _ => cs) l else l ++ [cs]

def addSpecs : Nat → List (Nat × Bool) → List ChildSpec → List ChildSpec
  | _, [], l => l
  | k, (n, sg) :: r, l => addSpecs (k + 1) r (putSpec { name := n, significant := sg, i := k } l)

/-- supSOFO.init -/
def init (s : SOFO) (sp : SupSpec) : SOFO × Res :=
  ({ s with restart := sp.restart, spec := addSpecs s.i sp.children s.spec, i := s.i + sp.children.length, wait := [] },
   .ok {})

/-- supSOFO.childAddSpec -/
def childAddSpec (s : SOFO) (name : Nat) (sig : Bool) : SOFO × Res :=
  if s.shutdown then (s, .err .shuttingDown)
  else if !validName name then (s, .err .invalid)
  else if (findName name s.spec).isSome then (s, .err .duplicate)
  else ({ s with i := s.i + 1, spec := s.spec ++ [{ name := name, significant := sig, i := s.i }] }, .ok {})

/-- supSOFO.childSpec -/
def childSpec (s : SOFO) (name : Nat) : SOFO × Res :=
  if s.shutdown then (s, .ok {})
  else match findName name s.spec with
    | none => (s, .err .unknown)
    | some c => if c.disabled then (s, .err .disabled) else (s, .ok { act := .start, spec := c })

/-- supSOFO.childStarted -/
def childStarted (s : SOFO) (cs : ChildSpec) (pid : Nat) : SOFO × Res :=
  if s.shutdown then (s, .ok {})
  else match findName cs.name s.spec with
    | none => (s, .ok {})
    | some _ => ({ s with pids := (s.pids.filter (·.1 ≠ pid)) ++ [(pid, cs.name)] }, .ok {})

/-- supSOFO.childTerminated -/
def childTerminated (s0 : SOFO) (name pid : Nat) (reason : Reason) (now : Int) : SOFO × Res :=
  let s := { s0 with pids := s0.pids.filter (·.1 ≠ pid), wait := sdel pid s0.wait }
  if s.shutdown then
    if s.wait.length > 0 then (s, .ok { act := .terminateChildren })
    else (s, .ok { act := .terminate, reason := s.shutdownReason })
  else
    let shut (s : SOFO) (r : Reason) : SOFO × Res :=
      let ps := s.pids.map (·.1)
      ({ s with wait := ps.foldl (fun w p => sins p w) s.wait, shutdown := true, shutdownReason := some r },
       .ok { act := .terminateChildren, terminate := ps, reason := some r })
    match findName name s.spec with
    | none => shut s reason
    | some spec =>
      let skip : Bool :=
        match s.restart.strategy with
        | .temporary => true
        | .transient => reason.quiet
        | .permanent => false
      if skip then (s, .ok {})
      else if spec.disabled then (s, .ok {})
      else
        let chk := Window.check s.restarts now s.restart.periodMs s.restart.intensity
        let s := { s with restarts := chk.1 }
        if chk.2 = false then (s, .ok { act := .start, spec := spec })
        else shut s .restartsExceeded

/-- supSOFO.childEnable -/
def childEnable (s : SOFO) (name : Nat) : SOFO × Res :=
  if s.shutdown then (s, .err .shuttingDown)
  else match findName name s.spec with
    | none => (s, .err .unknown)
    | some _ => ({ s with spec := updName name (fun c => { c with disabled := false }) s.spec }, .ok {})

/-- supSOFO.childDisable -/
def childDisable (s : SOFO) (name : Nat) : SOFO × Res :=
  if s.shutdown then (s, .err .shuttingDown)
  else match findName name s.spec with
    | none => (s, .err .unknown)
    | some _ =>
      let s := { s with spec := updName name (fun c => { c with disabled := true }) s.spec }
      let t : List Nat := (s.pids.filter (fun p => p.2 = name)).map (fun p => p.1)
      let s := { s with wait := t.foldl (fun w p => sins p w) s.wait }
      if t.length > 0 then (s, .ok { act := .terminateChildren, reason := some .shutdown, terminate := t })
      else (s, .ok {})

end SOFO
end ErgoVerif.Sup

package main

import (
	"encoding/json"
	"flag"
	"fmt"
	"os"
	"runtime/debug"
	"strings"
)

// Progress records the case about to run, so that a crash of this process can be attributed to it.
func (c *Ctx) Progress(v interface{}) {
	c.lastProgress = v
	if c.Out == "" {
		return
	}
	c.lastProgress = v
	b, err := json.Marshal(v)
	if err == nil {
		os.WriteFile(c.Out+".progress", b, 0o644)
	}
}

type Ctx struct {
	lastProgress interface{}
	Out    string
	Prop   string
	Tier   string
	Seed   uint64
	Repo   string
	Verif  string
	Replay string
	R      *Result
	Rng    *Rng
}

func (c *Ctx) Thorough() bool { return c.Tier == "thorough" }

// N picks the case count for the tier.
func (c *Ctx) N(quick, thorough int) int {
	if c.Thorough() {
		return thorough
	}
	return quick
}

var props = map[string]func(*Ctx){}

func main() {
	prop := flag.String("prop", "", "property id")
	tier := flag.String("tier", "quick", "quick|thorough")
	seed := flag.Uint64("seed", 1, "seed")
	drv := flag.String("driver", "", "path of the Lean model driver")
	out := flag.String("out", "", "result json")
	repo := flag.String("repo", "/repo", "repository")
	verif := flag.String("verif", "/verif", "verif dir")
	replay := flag.String("replay", "", "replay file")
	flag.Parse()
	driverPath = *drv
	f, ok := props[*prop]
	if !ok {
		fmt.Fprintln(os.Stderr, "unknown property", *prop)
		os.Exit(2)
	}
	c := &Ctx{Out: *out, Prop: *prop, Tier: *tier, Seed: *seed, Repo: *repo, Verif: *verif, Replay: *replay, R: NewResult(), Rng: NewRng(*seed)}
	func() {
		defer func() {
			if r := recover(); r != nil {
				st := string(debug.Stack())
				if strings.Contains(st, "ergo.services/ergo/") {
					// an unrecovered panic inside the framework, reached through the public API by the case in progress
					c.R.Violation("crash/panic: "+fmt.Sprint(r), "the real code panicked in the goroutine of an API call: "+fmt.Sprint(r),
						map[string]interface{}{"case_in_progress": c.lastProgress, "stack": st})
				} else {
					c.R.Disagree("harness-panic", fmt.Sprintf("harness panicked: %v\n%s", r, st), nil)
				}
			}
		}()
		f(c)
	}()
	if *out != "" {
		if err := c.R.Write(*out); err != nil {
			fmt.Fprintln(os.Stderr, err)
			os.Exit(3)
		}
	}
	if c.R.Failed() {
		os.Exit(1)
	}
}

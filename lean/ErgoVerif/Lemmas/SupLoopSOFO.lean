import ErgoVerif.Lemmas.SupLoop
/-
Closed-system invariant of the simple-one-for-one supervisor.
-/
namespace ErgoVerif.Sup

theorem mem_sdel (p q : Nat) (l : List Nat) : p ∈ sdel q l ↔ p ∈ l ∧ p ≠ q := by
  simp [sdel]

theorem mem_sins (p q : Nat) (l : List Nat) : p ∈ sins q l ↔ p = q ∨ p ∈ l := by
  unfold sins
  split
  · constructor
    · intro h; exact Or.inr h
    · rintro (rfl | h)
      · assumption
      · exact h
  · simp

theorem mem_foldl_sins (l w : List Nat) (p : Nat) :
    p ∈ l.foldl (fun w p => sins p w) w ↔ p ∈ w ∨ p ∈ l := by
  induction l generalizing w with
  | nil => simp
  | cons a t ih =>
    simp only [List.foldl_cons, ih, mem_sins, List.mem_cons]
    constructor
    · rintro ((h | h) | h)
      · exact Or.inr (Or.inl h)
      · exact Or.inl h
      · exact Or.inr (Or.inr h)
    · rintro (h | h | h)
      · exact Or.inl (Or.inr h)
      · exact Or.inl (Or.inl h)
      · exact Or.inr h

theorem SOFO.childStarted_res (s : SOFO) (cs : ChildSpec) (pid : Nat) : (s.childStarted cs pid).2 = .ok {} := by
  unfold SOFO.childStarted
  split
  · rfl
  · split <;> rfl

/-- handleAction around supSOFO, computed (two rounds of the loop are enough) -/
theorem sofo_handle (n : Nat) (bits : List Bool) (c : Loop SOFO) (a : Action) :
    handleAction sofoMachine (n + 2) bits c a =
      match a.act with
      | .nothing => (c, .ret none)
      | .start =>
        if (a.spec.register && c.alive.any (fun p => p.2 == a.spec.name)) || !(bits.headD true) then (c, .spawnErr)
        else ({ c with nextPid := c.nextPid + 1, alive := (c.nextPid, a.spec.name) :: c.alive,
                       kids := (c.nextPid, a.spec.name) :: c.kids,
                       m := (SOFO.childStarted c.m a.spec c.nextPid).1 }, .ret none)
      | .terminateChildren =>
        if a.terminate.isEmpty then (c, .ret a.reason)
        else ({ c with exitsSent := a.terminate.map (fun p => (p, a.reason)) ++ c.exitsSent }, .ret none)
      | .terminate => (c, .ret a.reason) := by
  rw [handleAction]
  cases ha : a.act with
  | nothing => rfl
  | terminate => rfl
  | terminateChildren => rfl
  | start =>
    simp only
    split
    · rfl
    · simp only [sofoMachine, SOFO.childStarted_res]
      rw [handleAction]


/-- the part of the state the invariant talks about, after `childTerminated` -/
theorem SOFO.ct_shape (s : SOFO) (name pid : Nat) (r : Reason) (now : Int) :
    let s1pids := s.pids.filter (fun x => x.1 ≠ pid)
    let s1wait := sdel pid s.wait
    let o := s.childTerminated name pid r now
    o.1.pids = s1pids ∧
    ((s.shutdown = true ∧ o.1.shutdown = true ∧ o.1.shutdownReason = s.shutdownReason ∧ o.1.wait = s1wait ∧
        ((s1wait ≠ [] ∧ o.2 = .ok { act := .terminateChildren }) ∨
         (s1wait = [] ∧ o.2 = .ok { act := .terminate, reason := s.shutdownReason }))) ∨
     (s.shutdown = false ∧ o.1.shutdown = false ∧ o.1.wait = s1wait ∧
        (o.2 = .ok {} ∨ ∃ c, o.2 = .ok { act := .start, spec := c })) ∨
     (s.shutdown = false ∧ o.1.shutdown = true ∧ (∃ r', o.1.shutdownReason = some r' ∧
        o.2 = .ok { act := .terminateChildren, terminate := s1pids.map (·.1), reason := some r' }) ∧
        o.1.wait = (s1pids.map (·.1)).foldl (fun w p => sins p w) s1wait)) := by
  intro s1pids s1wait o
  simp only [o, s1pids, s1wait]
  unfold SOFO.childTerminated
  cases hsd : s.shutdown with
  | true =>
    simp only [if_true]
    refine ⟨by split <;> rfl, Or.inl ⟨trivial, ?_⟩⟩
    by_cases hw : sdel pid s.wait = []
    · simp [hw]
    · have : (sdel pid s.wait).length > 0 := by
        cases h : sdel pid s.wait with
        | nil => exact absurd h hw
        | cons a t => simp
      simp [this, hw]
  | false =>
    simp only [Bool.false_eq_true, if_false]
    cases hf : findName name s.spec with
    | none => simp
    | some spec =>
      simp only
      cases hst : s.restart.strategy <;> cases hq : r.quiet <;> cases hd : spec.disabled <;>
        cases hc : (Window.check s.restarts now s.restart.periodMs s.restart.intensity).2 <;>
        simp

theorem findName_name (n : Nat) (l : List ChildSpec) (c : ChildSpec) (h : findName n l = some c) : c.name = n := by
  induction l with
  | nil => simp [findName] at h
  | cons a t ih =>
    simp only [findName] at h
    split at h
    · simp at h; subst h; assumption
    · exact ih h

theorem findName_updName (n m : Nat) (f : ChildSpec → ChildSpec) (hf : ∀ c, (f c).name = c.name) (l : List ChildSpec) :
    (findName n (updName m f l)).isSome = (findName n l).isSome := by
  induction l with
  | nil => rfl
  | cons a t ih =>
    simp only [updName]
    split
    · simp only [findName, hf]; split <;> simp
    · simp only [findName]; split <;> simp [ih]

theorem findName_append (n : Nat) (l l' : List ChildSpec) (h : (findName n l).isSome) : (findName n (l ++ l')).isSome := by
  induction l with
  | nil => simp [findName] at h
  | cons a t ih =>
    simp only [List.cons_append, findName] at h ⊢
    split
    · simp
    · rename_i hne; simp [hne] at h; exact ih h

/-- the machine part of the invariant, relative to `Supervisor.children` -/
structure SOFO.MInv (m : SOFO) (kids : List (Nat × Nat)) : Prop where
  normal : m.shutdown = false → (∀ p, p ∈ keys m.pids ↔ p ∈ keys kids) ∧ (∀ p, p ∈ m.wait → p ∈ keys kids)
  shut : m.shutdown = true → (∀ p, p ∈ m.wait ↔ p ∈ keys kids) ∧ m.shutdownReason ≠ none

/-- what an action must satisfy so that carrying it out keeps the invariant -/
def SOFO.Live (m : SOFO) (kids : List (Nat × Nat)) : Prop := m.shutdown = true → ∃ p, p ∈ keys kids

def SOFO.Good (m : SOFO) (kids : List (Nat × Nat)) (a : Action) : Prop :=
  match a.act with
  | .nothing => SOFO.Live m kids
  | .start => m.shutdown = false ∧ (findName a.spec.name m.spec).isSome
  | .terminateChildren =>
      (a.terminate.isEmpty → ∀ e, a.reason = some e → (m.shutdown = true ∧ m.shutdownReason = some e ∧ ∀ p, p ∉ keys kids)) ∧
      ((a.terminate.isEmpty = false ∨ a.reason = none) → SOFO.Live m kids)
  | .terminate => a.reason ≠ none ∧ ∀ e, a.reason = some e → (m.shutdown = true ∧ m.shutdownReason = some e ∧ ∀ p, p ∉ keys kids)

structure SOFO.Inv (c : Loop SOFO) : Prop where
  glue : Glue c
  minv : SOFO.MInv c.m c.kids
  term : ∀ r, c.status = .terminated r → c.m.shutdown = true ∧ c.m.shutdownReason = some r ∧ ∀ p, p ∉ keys c.kids
  sane : c.status ≠ .panicked ∧ c.status ≠ .stuck
  live : c.status = .running → SOFO.Live c.m c.kids

theorem SOFO.minv_started (m : SOFO) (kids : List (Nat × Nat)) (cs : ChildSpec) (np : Nat)
    (h : SOFO.MInv m kids) (hsd : m.shutdown = false) (hf : (findName cs.name m.spec).isSome) :
    SOFO.MInv (m.childStarted cs np).1 ((np, cs.name) :: kids) ∧ (m.childStarted cs np).1.shutdown = false := by
  unfold SOFO.childStarted
  simp only [hsd, Bool.false_eq_true, if_false]
  cases hfn : findName cs.name m.spec with
  | none => simp [hfn] at hf
  | some sp =>
    simp only
    refine ⟨⟨?_, ?_⟩, trivial⟩
    · intro _
      have ⟨h1, h2⟩ := h.normal hsd
      constructor
      · intro p
        simp only [mem_keys_append, mem_keys_filter_ne, mem_keys_cons, h1 p]
        have e : p ∈ keys ([] : List (Nat × Nat)) ↔ False := by simp [keys]
        rw [e]
        constructor
        · rintro (⟨hk, _⟩ | hk | hk)
          · exact Or.inr hk
          · exact Or.inl hk
          · exact hk.elim
        · rintro (hk | hk)
          · exact Or.inr (Or.inl hk)
          · by_cases hp : p = np
            · exact Or.inr (Or.inl hp)
            · exact Or.inl ⟨hk, hp⟩
      · intro p hp
        rw [mem_keys_cons]; exact Or.inr (h2 p hp)
    · intro hs; simp at hs

theorem SOFO.childStarted_fields (m : SOFO) (cs : ChildSpec) (np : Nat) :
    (m.childStarted cs np).1.shutdown = m.shutdown ∧ (m.childStarted cs np).1.shutdownReason = m.shutdownReason ∧
    (m.childStarted cs np).1.spec = m.spec := by
  unfold SOFO.childStarted
  split
  · simp
  · split <;> simp

theorem SOFO.inv_running (c : Loop SOFO) (hg : Glue c) (hm : SOFO.MInv c.m c.kids) (hst : c.status = .running)
    (hl : SOFO.Live c.m c.kids) : SOFO.Inv c :=
  ⟨hg, hm, by simp [hst], by simp [hst], fun _ => hl⟩

theorem SOFO.inv_spawnFailed (c : Loop SOFO) (hg : Glue c) (hm : SOFO.MInv c.m c.kids) :
    SOFO.Inv { c with status := .spawnFailed } :=
  ⟨glue_of_fields hg rfl rfl rfl (Nat.le_refl _), hm, by simp, by simp, by simp⟩

theorem SOFO.inv_terminated (c : Loop SOFO) (e : Reason) (hg : Glue c) (hm : SOFO.MInv c.m c.kids)
    (h : c.m.shutdown = true ∧ c.m.shutdownReason = some e ∧ ∀ p, p ∉ keys c.kids) :
    SOFO.Inv { c with status := .terminated e } :=
  ⟨glue_of_fields hg rfl rfl rfl (Nat.le_refl _), hm, by intro r hr; simp at hr; subst hr; exact h, by simp, by simp⟩

/-- management calls never answer with a terminating action -/
def ApiOK (a : Action) : Prop := a.act ≠ .terminate ∧ (a.act = .terminateChildren → a.terminate.isEmpty = false)

/-- carrying out a good action keeps the invariant -/
theorem SOFO.handle_inv (n : Nat) (fromApi : Bool) (bits : List Bool) (c : Loop SOFO) (a : Action)
    (hg : Glue c) (hm : SOFO.MInv c.m c.kids) (hgood : SOFO.Good c.m c.kids a) (hst : c.status = .running)
    (hapi : fromApi = true → ApiOK a) :
    SOFO.Inv (finish fromApi (handleAction sofoMachine (n + 2) bits c a)) := by
  rw [sofo_handle]
  unfold SOFO.Good at hgood
  cases ha : a.act with
  | nothing =>
    simp only [ha] at hgood
    simp only [finish]
    exact SOFO.inv_running c hg hm hst hgood
  | terminate =>
    simp only [ha] at hgood
    cases hr : a.reason with
    | none => exact absurd hr hgood.1
    | some e =>
      have := hgood.2 e hr
      simp only [finish]
      cases fromApi with
      | false => exact SOFO.inv_terminated c e hg hm this
      | true => exact absurd ha (hapi rfl).1
  | terminateChildren =>
    simp only [ha] at hgood
    simp only
    split
    · rename_i hemp
      cases hr : a.reason with
      | none =>
        simp only [finish]
        exact SOFO.inv_running c hg hm hst (hgood.2 (Or.inr hr))
      | some e =>
        have := hgood.1 hemp e hr
        simp only [finish]
        cases fromApi with
        | false => exact SOFO.inv_terminated c e hg hm this
        | true => have := (hapi rfl).2 ha; rw [hemp] at this; simp at this
    · rename_i hemp
      simp only [finish]
      exact SOFO.inv_running _ (glue_of_fields hg rfl rfl rfl (Nat.le_refl _)) hm hst
        (hgood.2 (Or.inl (by simpa using hemp)))
  | start =>
    simp only [ha] at hgood
    simp only
    split
    · simp only [finish]
      cases fromApi with
      | false => exact SOFO.inv_spawnFailed c hg hm
      | true => exact SOFO.inv_running c hg hm hst (fun hx => by rw [hgood.1] at hx; simp at hx)
    · have h1 := SOFO.minv_started c.m c.kids a.spec c.nextPid hm hgood.1 hgood.2
      have hG := (handleAction_glue sofoMachine (n + 2) bits c a hg).1
      rw [sofo_handle] at hG
      simp only [ha] at hG
      rename_i hsp
      simp only [hsp, if_false] at hG
      simp only [finish]
      exact SOFO.inv_running _ hG h1.1 hst (fun hx => by rw [h1.2] at hx; simp at hx)

theorem SOFO.ct_start (s : SOFO) (name pid : Nat) (r : Reason) (now : Int) (a : Action)
    (h : (s.childTerminated name pid r now).2 = .ok a) (ha : a.act = .start) :
    (findName a.spec.name (s.childTerminated name pid r now).1.spec).isSome := by
  revert h
  unfold SOFO.childTerminated
  cases hsd : s.shutdown with
  | true =>
    simp only [if_true]
    split <;> (intro h; simp at h; subst h; simp at ha)
  | false =>
    simp only [Bool.false_eq_true, if_false]
    cases hf : findName name s.spec with
    | none => intro h; simp at h; subst h; simp at ha
    | some spec =>
      have hn := findName_name _ _ _ hf
      simp only
      cases hst : s.restart.strategy <;> cases hq : r.quiet <;> cases hd : spec.disabled <;>
        cases hc : (Window.check s.restarts now s.restart.periodMs s.restart.intensity).2 <;>
        simp <;> intro h <;> subst h <;> simp at ha <;> simp [hn, hf]

theorem filter_keys_iff {β : Type} (l : List (Nat × β)) (l' : List (Nat × Nat)) (pid : Nat)
    (h : ∀ p, p ∈ keys l ↔ p ∈ keys l') :
    ∀ p, p ∈ keys (l.filter (fun x => x.1 ≠ pid)) ↔ p ∈ keys (l'.filter (fun x => x.1 ≠ pid)) := by
  intro p; simp only [mem_keys_filter_ne, h p]

theorem exists_mem_of_ne_nil {α : Type} (l : List α) (h : l ≠ []) : ∃ a, a ∈ l := by
  cases l with
  | nil => exact absurd rfl h
  | cons a t => exact ⟨a, by simp⟩

theorem SOFO.ct_good (m : SOFO) (kids : List (Nat × Nat)) (name pid : Nat) (r : Reason) (now : Int)
    (h : SOFO.MInv m kids) :
    SOFO.MInv (m.childTerminated name pid r now).1 (kids.filter (fun x => x.1 ≠ pid)) ∧
    (match (m.childTerminated name pid r now).2 with
     | .ok a => SOFO.Good (m.childTerminated name pid r now).1 (kids.filter (fun x => x.1 ≠ pid)) a
     | .err _ => False
     | .panic => False) := by
  have hsh := SOFO.ct_shape m name pid r now
  have hstart := SOFO.ct_start m name pid r now
  simp only at hsh
  obtain ⟨hp, hcases⟩ := hsh
  rcases hcases with ⟨hsd, hsd', hr', hw, hres⟩ | ⟨hsd, hsd', hw, hres⟩ | ⟨hsd, hsd', ⟨r', hr', hres⟩, hw⟩
  · -- already shutting down
    have ⟨h1, h2⟩ := h.shut hsd
    have hM : SOFO.MInv (m.childTerminated name pid r now).1 (kids.filter (fun x => x.1 ≠ pid)) := by
      constructor
      · intro hx; rw [hsd'] at hx; simp at hx
      · intro _
        refine ⟨?_, by rw [hr']; exact h2⟩
        intro p; rw [hw, mem_sdel, mem_keys_filter_ne, h1 p]
    refine ⟨hM, ?_⟩
    rcases hres with ⟨hne, hres⟩ | ⟨he, hres⟩
    · rw [hres]
      simp only [SOFO.Good]
      refine ⟨by intro _ e he; simp at he, ?_⟩
      intro _ _
      obtain ⟨p, hp⟩ := exists_mem_of_ne_nil _ hne
      rw [← hw] at hp
      exact ⟨p, ((hM.shut hsd').1 p).mp hp⟩
    · rw [hres]
      simp only [SOFO.Good]
      refine ⟨h2, ?_⟩
      intro e he'
      refine ⟨hsd', by rw [hr']; exact he', ?_⟩
      intro p hpk
      have := (hM.shut hsd').1 p
      rw [hw, he] at this
      exact absurd (this.mpr hpk) List.not_mem_nil
  · -- normal operation goes on
    have ⟨h1, h2⟩ := h.normal hsd
    have hM : SOFO.MInv (m.childTerminated name pid r now).1 (kids.filter (fun x => x.1 ≠ pid)) := by
      constructor
      · intro _
        constructor
        · rw [hp]; exact filter_keys_iff _ _ pid h1
        · intro p; rw [hw, mem_sdel, mem_keys_filter_ne]; intro ⟨hx, hne⟩; exact ⟨h2 p hx, hne⟩
      · intro hx; rw [hsd'] at hx; simp at hx
    refine ⟨hM, ?_⟩
    rcases hres with hres | ⟨c, hres⟩
    · rw [hres]
      simp only [SOFO.Good, SOFO.Live]
      intro hx; rw [hsd'] at hx; simp at hx
    · have := hstart _ hres rfl
      rw [hres]
      simp only [SOFO.Good]
      exact ⟨hsd', this⟩
  · -- shutdown begins: every known child is told to stop and is waited for
    have ⟨h1, h2⟩ := h.normal hsd
    have hwk : ∀ p, p ∈ (m.childTerminated name pid r now).1.wait ↔ p ∈ keys (kids.filter (fun x => x.1 ≠ pid)) := by
      intro p
      rw [hw, mem_foldl_sins, mem_sdel, mem_keys_filter_ne]
      have e : p ∈ List.map (fun x => x.1) (m.pids.filter (fun x => x.1 ≠ pid)) ↔ p ∈ keys (m.pids.filter (fun x => x.1 ≠ pid)) := by
        simp [keys]
      rw [e, mem_keys_filter_ne, h1 p]
      constructor
      · rintro (⟨hx, hne⟩ | hx)
        · exact ⟨h2 p hx, hne⟩
        · exact hx
      · intro hx; exact Or.inr hx
    have hM : SOFO.MInv (m.childTerminated name pid r now).1 (kids.filter (fun x => x.1 ≠ pid)) := by
      constructor
      · intro hx; rw [hsd'] at hx; simp at hx
      · intro _; exact ⟨hwk, by rw [hr']; simp⟩
    refine ⟨hM, ?_⟩
    rw [hres]
    simp only [SOFO.Good]
    constructor
    · intro hemp e he
      simp at he; subst he
      refine ⟨hsd', hr', ?_⟩
      intro p hpk
      have hk := (filter_keys_iff _ _ pid h1 p).mpr hpk
      have hemp' := List.isEmpty_iff.mp hemp
      have : p ∈ List.map (fun x => x.1) (m.pids.filter (fun x => x.1 ≠ pid)) := by simpa [keys] using hk
      rw [hemp'] at this
      exact absurd this List.not_mem_nil
    · rintro (hne | hne)
      · intro _
        have hne' : List.map (fun x => x.1) (m.pids.filter (fun x => x.1 ≠ pid)) ≠ [] := by
          intro he; rw [he] at hne; simp at hne
        obtain ⟨p, hp'⟩ := exists_mem_of_ne_nil _ hne'
        refine ⟨p, (filter_keys_iff _ _ pid h1 p).mp ?_⟩
        simpa [keys] using hp'
      · simp at hne

def SOFO.GoodRes (m : SOFO) (kids : List (Nat × Nat)) : Res → Prop
  | .ok a => SOFO.Good m kids a
  | .err _ => SOFO.Live m kids
  | .panic => False

theorem SOFO.minv_of_fields {m m' : SOFO} {kids : List (Nat × Nat)} (h : SOFO.MInv m kids)
    (h1 : m'.pids = m.pids) (h2 : m'.wait = m.wait) (h3 : m'.shutdown = m.shutdown) (h4 : m'.shutdownReason = m.shutdownReason) :
    SOFO.MInv m' kids := by
  constructor
  · rw [h1, h2, h3]; exact h.normal
  · rw [h2, h3, h4]; exact h.shut

theorem SOFO.childSpec_cases (m : SOFO) (name : Nat) :
    m.childSpec name = (m, .ok {}) ∨ (∃ e, m.childSpec name = (m, .err e)) ∨
    (∃ c, m.childSpec name = (m, .ok { act := .start, spec := c }) ∧ findName name m.spec = some c ∧ m.shutdown = false) := by
  unfold SOFO.childSpec
  cases hsd : m.shutdown with
  | true => simp
  | false =>
    cases hf : findName name m.spec with
    | none => simp
    | some c =>
      cases hd : c.disabled with
      | true => simp [hd]
      | false => simp [hd]

theorem SOFO.childSpec_good (m : SOFO) (kids : List (Nat × Nat)) (name args : Nat) (h : SOFO.MInv m kids)
    (hl : SOFO.Live m kids) :
    let r := m.childSpec name
    let r' := match r.2 with
      | .ok a => (r.1, Res.ok (if args > 0 then { a with spec := { a.spec with args := args } } else a))
      | _ => r
    SOFO.MInv r'.1 kids ∧ SOFO.GoodRes r'.1 kids r'.2 ∧ (∀ a, r'.2 = .ok a → ApiOK a) := by
  rcases SOFO.childSpec_cases m name with h1 | ⟨e, h1⟩ | ⟨c, h1, hf, hsd⟩
  · rw [h1]; simp only; refine ⟨h, ?_, ?_⟩
    · split <;> simp [SOFO.GoodRes, SOFO.Good, hl]
    · intro a ha; split at ha <;> (simp at ha; subst ha; simp [ApiOK])
  · rw [h1]; exact ⟨h, by simp [SOFO.GoodRes, hl], by intro a ha; simp at ha⟩
  · rw [h1]
    have hn := findName_name _ _ _ hf
    simp only
    refine ⟨h, ?_, ?_⟩
    · split <;> simp [SOFO.GoodRes, SOFO.Good, hsd, hn, hf]
    · intro a ha; split at ha <;> (simp at ha; subst ha; simp [ApiOK])

theorem SOFO.childAddSpec_good (m : SOFO) (kids : List (Nat × Nat)) (name : Nat) (sig : Bool) (h : SOFO.MInv m kids)
    (hl : SOFO.Live m kids) :
    SOFO.MInv (m.childAddSpec name sig).1 kids ∧ SOFO.GoodRes (m.childAddSpec name sig).1 kids (m.childAddSpec name sig).2 ∧
    (∀ a, (m.childAddSpec name sig).2 = .ok a → ApiOK a) := by
  unfold SOFO.childAddSpec
  split
  · simp [SOFO.GoodRes, h, hl]
  · split
    · simp [SOFO.GoodRes, h, hl]
    · split
      · simp [SOFO.GoodRes, h, hl]
      · exact ⟨SOFO.minv_of_fields h rfl rfl rfl rfl, by simpa [SOFO.GoodRes, SOFO.Good, SOFO.Live] using hl,
          by intro a ha; simp at ha; subst ha; simp [ApiOK]⟩

theorem SOFO.childEnable_good (m : SOFO) (kids : List (Nat × Nat)) (name : Nat) (h : SOFO.MInv m kids)
    (hl : SOFO.Live m kids) :
    SOFO.MInv (m.childEnable name).1 kids ∧ SOFO.GoodRes (m.childEnable name).1 kids (m.childEnable name).2 ∧
    (∀ a, (m.childEnable name).2 = .ok a → ApiOK a) := by
  unfold SOFO.childEnable
  split
  · simp [SOFO.GoodRes, h, hl]
  · split
    · simp [SOFO.GoodRes, h, hl]
    · exact ⟨SOFO.minv_of_fields h rfl rfl rfl rfl, by simpa [SOFO.GoodRes, SOFO.Good, SOFO.Live] using hl,
        by intro a ha; simp at ha; subst ha; simp [ApiOK]⟩

theorem SOFO.minv_wait_ext {m m' : SOFO} {kids : List (Nat × Nat)} (h : SOFO.MInv m kids) (hsd : m.shutdown = false)
    (h1 : m'.pids = m.pids) (h3 : m'.shutdown = m.shutdown)
    (hw : ∀ p, p ∈ m'.wait → p ∈ m.wait ∨ p ∈ keys m.pids) : SOFO.MInv m' kids := by
  have ⟨ha, hb⟩ := h.normal hsd
  constructor
  · intro _
    rw [h1]
    refine ⟨ha, ?_⟩
    intro p hp
    rcases hw p hp with hx | hx
    · exact hb p hx
    · exact (ha p).mp hx
  · intro hx; rw [h3, hsd] at hx; simp at hx

theorem SOFO.childDisable_good (m : SOFO) (kids : List (Nat × Nat)) (name : Nat) (h : SOFO.MInv m kids)
    (hl : SOFO.Live m kids) :
    SOFO.MInv (m.childDisable name).1 kids ∧ SOFO.GoodRes (m.childDisable name).1 kids (m.childDisable name).2 ∧
    (∀ a, (m.childDisable name).2 = .ok a → ApiOK a) := by
  unfold SOFO.childDisable
  by_cases hsd : m.shutdown = true
  · simp [hsd, SOFO.GoodRes, h, hl]
  · have hsd' : m.shutdown = false := by simpa using hsd
    simp only [hsd', Bool.false_eq_true, if_false]
    cases hf : findName name m.spec with
    | none => simp [SOFO.GoodRes, h, hl]
    | some c =>
      simp only
      have hsub : ∀ p, p ∈ ((m.pids.filter (fun p => p.2 = name)).map (fun p => p.1)).foldl (fun w p => sins p w) m.wait →
          p ∈ m.wait ∨ p ∈ keys m.pids := by
        intro p hp
        simp only [mem_foldl_sins] at hp
        rcases hp with hp | hp
        · exact Or.inl hp
        · right
          rw [List.mem_map] at hp
          obtain ⟨x, hx, hxp⟩ := hp
          have := (List.mem_filter.mp hx).1
          simp only [keys, List.mem_map]
          exact ⟨x, this, hxp⟩
      split
      · rename_i hlen
        have hne : ((m.pids.filter (fun p => p.2 = name)).map (fun p => p.1)).isEmpty = false := by
          cases hx : (m.pids.filter (fun p => p.2 = name)).map (fun p => p.1) with
          | nil => rw [hx] at hlen; simp at hlen
          | cons a t => rfl
        refine ⟨SOFO.minv_wait_ext h hsd' rfl (by simp [hsd']) hsub, ?_, ?_⟩
        · simp only [SOFO.GoodRes, SOFO.Good, SOFO.Live]
          refine ⟨?_, ?_⟩
          · intro hemp; rw [hne] at hemp; simp at hemp
          · intro _ hx; simp at hx
        · intro a ha; simp at ha; subst ha; simp only [ApiOK]; exact ⟨by simp, fun _ => hne⟩
      · refine ⟨SOFO.minv_wait_ext h hsd' rfl (by simp [hsd']) hsub, ?_, ?_⟩
        · simp [SOFO.GoodRes, SOFO.Good, SOFO.Live]
        · intro a ha; simp at ha; subst ha; simp [ApiOK]

/-- `afterCall` with a good result keeps the invariant -/
theorem SOFO.afterCall_inv (n : Nat) (fromApi : Bool) (bits : List Bool) (c : Loop SOFO) (r : SOFO × Res)
    (hg : Glue c) (hst : c.status = .running) (hm : SOFO.MInv r.1 c.kids) (hgood : SOFO.GoodRes r.1 c.kids r.2)
    (hapi : fromApi = true → ∀ a, r.2 = .ok a → ApiOK a) :
    SOFO.Inv (afterCall sofoMachine (n + 2) fromApi bits c r) := by
  unfold afterCall
  cases hr : r.2 with
  | ok a =>
    simp only
    rw [hr] at hgood
    exact SOFO.handle_inv n fromApi bits _ a (glue_of_fields hg rfl rfl rfl (Nat.le_refl _)) hm hgood hst
      (fun hx => hapi hx a hr)
  | err e =>
    simp only
    rw [hr] at hgood
    exact SOFO.inv_running _ (glue_of_fields hg rfl rfl rfl (Nat.le_refl _)) hm hst hgood
  | panic => rw [hr] at hgood; exact hgood.elim


theorem filter_fresh (kids : List (Nat × Nat)) (np : Nat) (h : ∀ p, p ∈ keys kids → p < np) :
    kids.filter (fun x => x.1 ≠ np) = kids := by
  apply List.filter_eq_self.mpr
  intro a ha
  have := h a.1 (by simp [keys]; exact ⟨a.2, ha⟩)
  simp; omega

theorem SOFO.goodRes_of_match (m : SOFO) (kids : List (Nat × Nat)) (r : Res)
    (h : match r with | .ok a => SOFO.Good m kids a | .err _ => False | .panic => False) : SOFO.GoodRes m kids r := by
  cases r <;> simp [SOFO.GoodRes] at h ⊢ <;> exact h

/-- every step of the closed system keeps the simple-one-for-one invariant -/
theorem SOFO.step_inv (n : Nat) (c c' : Loop SOFO) (l : Label) (h : SOFO.Inv c)
    (hs : step sofoMachine (n + 2) c l = some c') : SOFO.Inv c' := by
  have hG := step_glue sofoMachine (n + 2) c c' l h.glue hs
  cases l with
  | die pid r =>
    simp only [step] at hs
    split at hs; · simp at hs
    split at hs
    · simp only [Option.some.injEq] at hs; subst hs
      exact ⟨hG, h.minv, h.term, h.sane, h.live⟩
    · simp at hs
  | deliver pid now bits =>
    simp only [step] at hs
    split at hs; · simp at hs
    split at hs; · simp at hs
    rename_i hst _ r hr
    simp only [Option.some.injEq] at hs; subst hs
    have hst' : c.status = .running := by simpa using hst
    have hgd := SOFO.ct_good c.m c.kids (lookupKid pid c.kids) pid r now h.minv
    exact SOFO.afterCall_inv n false bits _ _ (deliver_pre_glue c pid r c.m h.glue hr) hst' hgd.1
      (SOFO.goodRes_of_match _ _ _ hgd.2) (by simp)
  | foreign r now bits =>
    simp only [step] at hs
    split at hs; · simp at hs
    rename_i hst
    simp only [Option.some.injEq] at hs; subst hs
    have hst' : c.status = .running := by simpa using hst
    have hgd := SOFO.ct_good c.m c.kids 0 c.nextPid r now h.minv
    rw [filter_fresh c.kids c.nextPid h.glue.fresh] at hgd
    exact SOFO.afterCall_inv n false bits _ _ (glue_of_fields h.glue rfl rfl rfl (Nat.le_succ _)) hst' hgd.1
      (SOFO.goodRes_of_match _ _ _ hgd.2) (by simp)
  | startChild name args bits =>
    simp only [step] at hs
    split at hs; · simp at hs
    rename_i hst
    simp only [Option.some.injEq] at hs; subst hs
    have hst' : c.status = .running := by simpa using hst
    have hgd := SOFO.childSpec_good c.m c.kids name args h.minv (h.live hst')
    exact SOFO.afterCall_inv n true bits c _ h.glue hst' hgd.1 hgd.2.1 (fun _ => hgd.2.2)
  | addChild name sig bits =>
    simp only [step] at hs
    split at hs; · simp at hs
    rename_i hst
    simp only [Option.some.injEq] at hs; subst hs
    have hst' : c.status = .running := by simpa using hst
    have hgd := SOFO.childAddSpec_good c.m c.kids name sig h.minv (h.live hst')
    exact SOFO.afterCall_inv n true bits c _ h.glue hst' hgd.1 hgd.2.1 (fun _ => hgd.2.2)
  | enable name bits =>
    simp only [step] at hs
    split at hs; · simp at hs
    rename_i hst
    simp only [Option.some.injEq] at hs; subst hs
    have hst' : c.status = .running := by simpa using hst
    have hgd := SOFO.childEnable_good c.m c.kids name h.minv (h.live hst')
    exact SOFO.afterCall_inv n true bits c _ h.glue hst' hgd.1 hgd.2.1 (fun _ => hgd.2.2)
  | disable name =>
    simp only [step] at hs
    split at hs; · simp at hs
    rename_i hst
    simp only [Option.some.injEq] at hs; subst hs
    have hst' : c.status = .running := by simpa using hst
    have hgd := SOFO.childDisable_good c.m c.kids name h.minv (h.live hst')
    exact SOFO.afterCall_inv n true [] c _ h.glue hst' hgd.1 hgd.2.1 (fun _ => hgd.2.2)


/-! ### once shutting down, the recorded reason is final -/

theorem SOFO.handle_m (n : Nat) (bits : List Bool) (c : Loop SOFO) (a : Action) :
    (handleAction sofoMachine (n + 2) bits c a).1.m.shutdown = c.m.shutdown ∧
    (handleAction sofoMachine (n + 2) bits c a).1.m.shutdownReason = c.m.shutdownReason := by
  rw [sofo_handle]
  cases ha : a.act with
  | nothing => simp
  | terminate => simp
  | terminateChildren => simp only; split <;> simp
  | start =>
    simp only
    split
    · simp
    · have := SOFO.childStarted_fields c.m a.spec c.nextPid
      simp [this.1, this.2.1]

theorem SOFO.afterCall_m (n : Nat) (fromApi : Bool) (bits : List Bool) (c : Loop SOFO) (r : SOFO × Res) :
    (afterCall sofoMachine (n + 2) fromApi bits c r).m.shutdown = r.1.shutdown ∧
    (afterCall sofoMachine (n + 2) fromApi bits c r).m.shutdownReason = r.1.shutdownReason := by
  unfold afterCall
  cases hr : r.2 with
  | ok a =>
    simp only
    have h1 := SOFO.handle_m n bits { c with m := r.1 } a
    have h2 := finish_fields fromApi (handleAction sofoMachine (n + 2) bits { c with m := r.1 } a)
    rw [h2.2.2.2.2.2.1]
    exact h1
  | err e => simp
  | panic => simp

theorem SOFO.ct_stable (m : SOFO) (name pid : Nat) (r : Reason) (now : Int) (h : m.shutdown = true) :
    (m.childTerminated name pid r now).1.shutdown = true ∧
    (m.childTerminated name pid r now).1.shutdownReason = m.shutdownReason := by
  have := SOFO.ct_shape m name pid r now
  simp only at this
  rcases this.2 with ⟨_, h1, h2, _⟩ | ⟨h0, _⟩ | ⟨h0, _⟩
  · exact ⟨h1, h2⟩
  · rw [h] at h0; simp at h0
  · rw [h] at h0; simp at h0

theorem SOFO.step_stable (n : Nat) (c c' : Loop SOFO) (l : Label) (hs : step sofoMachine (n + 2) c l = some c')
    (h : c.m.shutdown = true) : c'.m.shutdown = true ∧ c'.m.shutdownReason = c.m.shutdownReason := by
  cases l with
  | die pid r =>
    simp only [step] at hs
    split at hs; · simp at hs
    split at hs
    · simp only [Option.some.injEq] at hs; subst hs; exact ⟨h, rfl⟩
    · simp at hs
  | deliver pid now bits =>
    simp only [step] at hs
    split at hs; · simp at hs
    split at hs; · simp at hs
    simp only [Option.some.injEq] at hs; subst hs
    have h1 := SOFO.afterCall_m n false bits
      { c with inflight := c.inflight.filter (fun p => p.1 ≠ pid), kids := c.kids.filter (fun p => p.1 ≠ pid), noticed := pid :: c.noticed }
      (sofoMachine.childTerminated c.m (lookupKid pid c.kids) pid ‹_› now)
    have h2 := SOFO.ct_stable c.m (lookupKid pid c.kids) pid ‹_› now h
    exact ⟨h1.1.trans h2.1, h1.2.trans h2.2⟩
  | foreign r now bits =>
    simp only [step] at hs
    split at hs; · simp at hs
    simp only [Option.some.injEq] at hs; subst hs
    have h1 := SOFO.afterCall_m n false bits { c with nextPid := c.nextPid + 1 } (sofoMachine.childTerminated c.m 0 c.nextPid r now)
    have h2 := SOFO.ct_stable c.m 0 c.nextPid r now h
    exact ⟨h1.1.trans h2.1, h1.2.trans h2.2⟩
  | startChild name args bits =>
    simp only [step] at hs
    split at hs; · simp at hs
    simp only [Option.some.injEq] at hs; subst hs
    have h1 := SOFO.afterCall_m n true bits c
    rcases SOFO.childSpec_cases c.m name with h2 | ⟨e, h2⟩ | ⟨_, _, _, h2⟩
    · simp only [sofoMachine, h2]
      have := h1 (c.m, Res.ok (if args > 0 then { ({} : Action) with spec := { ({} : Action).spec with args := args } } else {}))
      exact ⟨this.1.trans h, this.2⟩
    · simp only [sofoMachine, h2]
      have := h1 (c.m, Res.err e)
      exact ⟨this.1.trans h, this.2⟩
    · rw [h] at h2; simp at h2
  | addChild name sig bits =>
    simp only [step] at hs
    split at hs; · simp at hs
    simp only [Option.some.injEq] at hs; subst hs
    have h1 := SOFO.afterCall_m n true bits c (sofoMachine.childAddSpec c.m name sig)
    have h2 : sofoMachine.childAddSpec c.m name sig = (c.m, .err .shuttingDown) := by simp [sofoMachine, SOFO.childAddSpec, h]
    rw [h2] at h1 ⊢
    exact ⟨h1.1.trans h, h1.2⟩
  | enable name bits =>
    simp only [step] at hs
    split at hs; · simp at hs
    simp only [Option.some.injEq] at hs; subst hs
    have h1 := SOFO.afterCall_m n true bits c (sofoMachine.childEnable c.m name)
    have h2 : sofoMachine.childEnable c.m name = (c.m, .err .shuttingDown) := by simp [sofoMachine, SOFO.childEnable, h]
    rw [h2] at h1 ⊢
    exact ⟨h1.1.trans h, h1.2⟩
  | disable name =>
    simp only [step] at hs
    split at hs; · simp at hs
    simp only [Option.some.injEq] at hs; subst hs
    have h1 := SOFO.afterCall_m n true [] c (sofoMachine.childDisable c.m name)
    have h2 : sofoMachine.childDisable c.m name = (c.m, .err .shuttingDown) := by simp [sofoMachine, SOFO.childDisable, h]
    rw [h2] at h1 ⊢
    exact ⟨h1.1.trans h, h1.2⟩

end ErgoVerif.Sup

import ErgoVerif.Lemmas.EdfDesc
namespace ErgoVerif.Edf
open ErgoVerif.Generated.Edt

mutual
/-- every encoding of a value of the type has at least one byte -/
def Ty.nz : Ty → Bool
  | .array n t => decide (n > 0) && t.nz
  | .named _ t => t.nz
  | .struct _ fs => fs.anyNz
  | _ => true
def Tys.anyNz : Tys → Bool
  | .nil => false
  | .cons t ts => t.nz || ts.anyNz
end

theorem encLeaf_nz (o : Opts) (t : Ty) (v : Val) (bs : Bytes) (he : encLeaf o t v = some bs) : 1 ≤ bs.length := by
  cases t <;> cases v <;> simp [encLeaf] at he
  case bool.bool => subst he; simp
  case num.num => obtain ⟨h, rfl⟩ := he; rw [numCanon_length]; rename_i p _; cases p <;> simp [Num.width] at h <;> omega
  case str.str => obtain ⟨_, rfl⟩ := he; simp; omega
  case bin.bin => obtain ⟨_, rfl⟩ := he; simp; omega
  case atom.atom => obtain ⟨_, rfl⟩ := he; unfold writeAtom; simp only; split <;> (try split) <;> simp <;> omega
  case idr.idr => obtain ⟨_, _, rfl⟩ := he; unfold writeAtom; simp only; split <;> (try split) <;> simp <;> omega
  case idn.idn => obtain ⟨_, _, rfl⟩ := he; unfold writeAtom; simp only; split <;> (try split) <;> simp <;> omega
  case time.time => obtain ⟨_, rfl⟩ := he; simp
  case error.errText => obtain ⟨_, rfl⟩ := he; simp; omega
  case error.errSent =>
    split at he
    · split at he
      · simp at he; subst he; simp
      · simp at he; obtain ⟨_, rfl⟩ := he; simp; omega
    · simp at he; obtain ⟨_, rfl⟩ := he; simp; omega

theorem hdr_nz (o : Opts) (t : Ty) : 1 ≤ (hdr o t).length := by
  cases t <;> simp [hdr, encTy, regPrefix] <;> (try split) <;> simp

mutual
theorem encB_nz (o : Opts) : (v : Val) → (t : Ty) → (bs : Bytes) → encB o t v = some bs → t.nz = true → 1 ≤ bs.length
  | .nil, t, bs, he, hz => by
    cases t
    case named nm t' => cases t' <;> simp [encB, encLeaf, Ty.namedLeaf] at he <;> subst he <;> simp
    all_goals (simp [encB, encLeaf] at he)
    all_goals (subst he; simp)
  | .any t' v', t, bs, he, hz => by
    cases t
    case named nm t'' => cases t'' <;> simp [encB, encLeaf, Ty.namedLeaf] at he
    case any => simp [encB] at he; obtain ⟨_, b, _, rfl⟩ := he; have := hdr_nz o t'; simp; omega
    all_goals (simp [encB, encLeaf] at he)
  | .list vs, t, bs, he, hz => by
    cases t
    case named nm t' =>
      cases t' <;> simp [encB, encLeaf, Ty.namedLeaf] at he
      case slice t'' => obtain ⟨b, _, rfl⟩ := he; simp
      case array n t'' =>
        obtain ⟨hn, he⟩ := he
        simp [Ty.nz] at hz
        have := encs_nz o vs t'' bs he hz.2
        omega
    case slice t' => simp [encB] at he; obtain ⟨b, _, rfl⟩ := he; simp
    case array n t' =>
      simp [encB] at he
      obtain ⟨hn, he⟩ := he
      simp [Ty.nz] at hz
      have := encs_nz o vs t' bs he hz.2
      omega
    case struct nm fs => simp [encB] at he; exact encf_nz o vs fs bs he (by simpa [Ty.nz] using hz)
    all_goals (simp [encB, encLeaf] at he)
  | .map ps, t, bs, he, hz => by
    cases t
    case named nm t' =>
      cases t' <;> simp [encB, encLeaf, Ty.namedLeaf] at he
      obtain ⟨b, _, rfl⟩ := he; simp
    case map k v => simp [encB] at he; obtain ⟨b, _, rfl⟩ := he; simp
    all_goals (simp [encB, encLeaf] at he)
  | .opaque p, t, bs, he, hz => by
    cases t
    case named nm t' => cases t' <;> simp [encB, encLeaf, Ty.namedLeaf] at he
    case marsh => simp [encB] at he; rw [← he.2]; simp [List.length_append]; omega
    all_goals (simp [encB, encLeaf] at he)
  | .bool b, t, bs, he, hz => by
    cases t <;> (try simp [encB] at he) <;> (try exact encLeaf_nz o _ _ _ he)
    exact encLeaf_nz o _ _ _ he.2
  | .num b, t, bs, he, hz => by
    cases t <;> (try simp [encB] at he) <;> (try exact encLeaf_nz o _ _ _ he)
    exact encLeaf_nz o _ _ _ he.2
  | .str b, t, bs, he, hz => by
    cases t <;> (try simp [encB] at he) <;> (try exact encLeaf_nz o _ _ _ he)
    exact encLeaf_nz o _ _ _ he.2
  | .bin b, t, bs, he, hz => by
    cases t <;> (try simp [encB] at he) <;> (try exact encLeaf_nz o _ _ _ he)
    exact encLeaf_nz o _ _ _ he.2
  | .atom b, t, bs, he, hz => by
    cases t <;> (try simp [encB] at he) <;> (try exact encLeaf_nz o _ _ _ he)
    exact encLeaf_nz o _ _ _ he.2
  | .idr a b, t, bs, he, hz => by
    cases t <;> (try simp [encB] at he) <;> (try exact encLeaf_nz o _ _ _ he)
    exact encLeaf_nz o _ _ _ he.2
  | .idn a b, t, bs, he, hz => by
    cases t <;> (try simp [encB] at he) <;> (try exact encLeaf_nz o _ _ _ he)
    exact encLeaf_nz o _ _ _ he.2
  | .time b, t, bs, he, hz => by
    cases t <;> (try simp [encB] at he) <;> (try exact encLeaf_nz o _ _ _ he)
    exact encLeaf_nz o _ _ _ he.2
  | .errText b, t, bs, he, hz => by
    cases t <;> (try simp [encB] at he) <;> (try exact encLeaf_nz o _ _ _ he)
    exact encLeaf_nz o _ _ _ he.2
  | .errSent b, t, bs, he, hz => by
    cases t <;> (try simp [encB] at he) <;> (try exact encLeaf_nz o _ _ _ he)
    exact encLeaf_nz o _ _ _ he.2
termination_by v => sizeOf v
theorem encs_nz (o : Opts) : (vs : Vals) → (t : Ty) → (bs : Bytes) → encs o t vs = some bs → t.nz = true → vs.length ≤ bs.length
  | .nil, t, bs, he, hz => by simp [Vals.length]
  | .cons v vs, t, bs, he, hz => by
    simp only [encs] at he
    split at he <;> simp at he
    rename_i a b ha hb
    subst he
    have h1 := encB_nz o v t a ha hz
    have h2 := encs_nz o vs t b hb hz
    simp [Vals.length]; omega
termination_by vs => sizeOf vs
theorem encf_nz (o : Opts) : (vs : Vals) → (fs : Tys) → (bs : Bytes) → encf o fs vs = some bs → fs.anyNz = true → 1 ≤ bs.length
  | .nil, fs, bs, he, hz => by
    cases fs <;> simp [encf] at he
    simp [Tys.anyNz] at hz
  | .cons v vs, fs, bs, he, hz => by
    cases fs with
    | nil => simp [encf] at he
    | cons t ts =>
      simp only [encf] at he
      split at he <;> simp at he
      rename_i a b ha hb
      subst he
      simp [Tys.anyNz] at hz
      rcases hz with hz | hz
      · have := encB_nz o v t a ha hz; simp; omega
      · have := encf_nz o vs ts b hb hz; simp; omega
termination_by vs => sizeOf vs
end
end ErgoVerif.Edf

package main

import (
	"fmt"
	"go/ast"
	"go/printer"
	"go/token"
	"strings"
)

// Generated/Flusher.lean: the shape of lib/flusher.go the model Model/Flusher.lean mirrors: which writers Write writes
// to, that it marks pending and arms the timer, and the statement skeleton of the two timer callbacks.

func init() {
	generators = append(generators, generator{name: "Flusher", run: genFlusher,
		fallback: "namespace ErgoVerif.Gen.Flusher\ndef writeTargets : List String := []\ndef writeArmsTimer : Bool := false\ndef callbacks : Nat := 0\ndef callbacksFlushAndRearm : Nat := 0\ndef underLock : Bool := false\ndef writeShape : String := \"\"\ndef callbackShapes : List String := []\nend ErgoVerif.Gen.Flusher\n"})
}

func exprStr(e ast.Expr) string {
	var b strings.Builder
	printer.Fprint(&b, fset, e)
	return strings.Join(strings.Fields(b.String()), " ")
}

// stmtShape prints the skeleton of a statement list: calls, assignments, returns, ifs and loops, nothing else
func stmtShape(list []ast.Stmt) string {
	var parts []string
	for _, s := range list {
		switch x := s.(type) {
		case *ast.ExprStmt:
			if c, ok := x.X.(*ast.CallExpr); ok {
				parts = append(parts, exprStr(c.Fun)+"()")
			}
		case *ast.DeferStmt:
			parts = append(parts, "defer "+exprStr(x.Call.Fun)+"()")
		case *ast.AssignStmt:
			var l, r []string
			for _, e := range x.Lhs {
				l = append(l, exprStr(e))
			}
			for _, e := range x.Rhs {
				if c, ok := e.(*ast.CallExpr); ok {
					r = append(r, exprStr(c.Fun)+"()")
				} else {
					r = append(r, exprStr(e))
				}
			}
			parts = append(parts, strings.Join(l, ",")+x.Tok.String()+strings.Join(r, ","))
		case *ast.ReturnStmt:
			parts = append(parts, "return")
		case *ast.BranchStmt:
			parts = append(parts, x.Tok.String())
		case *ast.IfStmt:
			p := "if "
			if x.Init != nil {
				p += stmtShape([]ast.Stmt{x.Init}) + "; "
			}
			p += exprStr(x.Cond) + " {" + stmtShape(x.Body.List) + "}"
			if x.Else != nil {
				if eb, ok := x.Else.(*ast.BlockStmt); ok {
					p += " else {" + stmtShape(eb.List) + "}"
				} else {
					p += " else " + stmtShape([]ast.Stmt{x.Else})
				}
			}
			parts = append(parts, p)
		case *ast.ForStmt:
			parts = append(parts, "for {"+stmtShape(x.Body.List)+"}")
		case *ast.RangeStmt:
			parts = append(parts, "range "+exprStr(x.X)+" {"+stmtShape(x.Body.List)+"}")
		case *ast.BlockStmt:
			parts = append(parts, "{"+stmtShape(x.List)+"}")
		case *ast.DeclStmt:
		default:
			parts = append(parts, fmt.Sprintf("<%T>", s))
		}
	}
	return strings.Join(parts, "; ")
}

func genFlusher() (string, error) {
	f, err := parseFile("lib/flusher.go")
	if err != nil {
		return "", err
	}
	var targets []string
	seenT := map[string]bool{}
	arms, lockW := false, false
	writeShape := ""
	var shapes []string
	good := 0
	locked := true
	for _, d := range f.Decls {
		fd, ok := d.(*ast.FuncDecl)
		if !ok || fd.Body == nil {
			continue
		}
		if fd.Recv != nil && fd.Name.Name == "Write" {
			writeShape = stmtShape(fd.Body.List)
			lockW = strings.HasPrefix(writeShape, "f.Lock(); defer f.Unlock()")
			ast.Inspect(fd.Body, func(n ast.Node) bool {
				if c, ok := n.(*ast.CallExpr); ok {
					if se, ok := c.Fun.(*ast.SelectorExpr); ok && (se.Sel.Name == "Write" || se.Sel.Name == "WriteString" || se.Sel.Name == "ReadFrom") {
						t := exprStr(se.X)
						if !seenT[t] {
							seenT[t] = true
							targets = append(targets, t)
						}
					}
				}
				return true
			})
			// the tail: `if f.pending { return }` ... `f.pending = true; f.timer.Reset(latency)`
			l := fd.Body.List
			for i := 0; i+1 < len(l); i++ {
				if as, ok := l[i].(*ast.AssignStmt); ok && as.Tok == token.ASSIGN && exprStr(as.Lhs[0]) == "f.pending" && exprStr(as.Rhs[0]) == "true" {
					if es, ok := l[i+1].(*ast.ExprStmt); ok {
						if c, ok := es.X.(*ast.CallExpr); ok && exprStr(c.Fun) == "f.timer.Reset" {
							arms = true
						}
					}
				}
			}
			continue
		}
		ast.Inspect(fd.Body, func(n ast.Node) bool {
			c, ok := n.(*ast.CallExpr)
			if !ok || exprStr(c.Fun) != "time.AfterFunc" || len(c.Args) != 2 {
				return true
			}
			fl, ok := c.Args[1].(*ast.FuncLit)
			if !ok {
				shapes = append(shapes, fd.Name.Name+": <not a literal>")
				return true
			}
			sh := stmtShape(fl.Body.List)
			shapes = append(shapes, fd.Name.Name+": "+sh)
			if !strings.HasPrefix(sh, "f.Lock(); defer f.Unlock()") {
				locked = false
			}
			if strings.HasSuffix(sh, "f.writer.Flush(); f.pending=false; f.timer.Reset()") {
				good++
			}
			return true
		})
	}
	if writeShape == "" {
		return "", fmt.Errorf("(*flusher).Write not found in lib/flusher.go")
	}
	q := func(l []string) string {
		o := make([]string, len(l))
		for i, s := range l {
			o[i] = fmt.Sprintf("%q", s)
		}
		return "[" + strings.Join(o, ",\n  ") + "]"
	}
	return fmt.Sprintf(`namespace ErgoVerif.Gen.Flusher
/-- receivers of Write/WriteString/ReadFrom calls inside (*flusher).Write -/
def writeTargets : List String := %s
/-- Write ends with f.pending = true; f.timer.Reset(..) -/
def writeArmsTimer : Bool := %v
/-- time.AfterFunc callbacks in the file / those whose pending branch is Flush; pending=false; Reset -/
def callbacks : Nat := %d
def callbacksFlushAndRearm : Nat := %d
/-- Write and every callback start with f.Lock(); defer f.Unlock() -/
def underLock : Bool := %v
def writeShape : String := %q
def callbackShapes : List String := %s
end ErgoVerif.Gen.Flusher
`, q(targets), arms, len(shapes), good, lockW && locked, writeShape, q(shapes)), nil
}

package main

// C04 — links and monitors.
//  (a) K2: random operation sequences on gen.CreateDefaultTargetManager() vs Drive/TM (tm_k2.go).
//  (b) K4: histories over 3-5 trapping puppets: link/monitor/unlink/demonitor on pids, names, aliases, events;
//      register/unregister; terminations with different reasons. After every target disappearance the exit/down
//      messages each puppet received are compared with Model/LinkOps (driver "linkops") and with the property's own
//      oracle (exactly one per relation, right kind, right target, right reason, nothing for anybody else).
//  (c) K3: the request-vs-termination race under the controlled scheduler (hooks between lookup and insert and
//      around the drain): every interleaving of the two threads for link/monitor on pid/name/alias/event.

import (
	"errors"
	"fmt"
	"sort"
	"strings"
	"time"

	"ergo.services/ergo/gen"
	"ergo.services/ergo/lib"
)

func init() { props["C04"] = runC04 }

func runC04(c *Ctx) {
	r := c.R
	r.Rule = "(a) TargetManager op sequences (K2); (b) puppet histories of 15-50 ops over 3-5 processes with all four target kinds, notifications compared after every disappearance; " +
		"(c) all interleavings of request vs termination for 8 request kinds under the controlled scheduler; non-trivial = a disappearance with at least two relations on the target, or a race schedule where the terminator runs between lookup and insert; distinct by op string"
	tmK2(c, c.N(300, 20000), 60)
	c04histories(c)
	c04race(c)
}

type c04proc struct {
	pid     gen.PID
	pp      *Puppet
	tok     string
	name    gen.Atom
	nameTok string
	aliases []gen.Alias
	alTok   []string
	events  []gen.Atom
	evTok   []string
	alive   bool
	seen    int // log entries consumed
}

func c04histories(c *Ctx) {
	r := c.R
	k, err := NewK4("c04n")
	if err != nil {
		r.Disagree("c04.node", err.Error(), nil)
		return
	}
	defer k.Stop()
	n := c.N(80, 3000)
	nameSeq, alSeq, evSeq := 0, 0, 0
	for it := 0; it < n; it++ {
		np := 3 + c.Rng.Intn(3)
		procs := make([]*c04proc, np)
		lines := []string{"reset"}
		wants := []string{"ok"}
		var hist []string
		for i := range procs {
			pp, pid, err := k.Spawn(fmt.Sprintf("P%d", i), true, gen.ProcessOptions{}, "")
			if err != nil {
				r.Disagree("c04.spawn", err.Error(), nil)
				return
			}
			procs[i] = &c04proc{pid: pid, pp: pp, tok: fmt.Sprintf("0.%d.1", i+1), alive: true}
			lines = append(lines, "create P"+procs[i].tok)
			wants = append(wants, "ok")
		}
		aliasTok := map[gen.Alias]string{}
		tokOfPid := func(p gen.PID) string {
			for _, q := range procs {
				if q.pid == p {
					return q.tok
				}
			}
			return "?"
		}
		// collect what each live puppet received since the last collection
		collect := func() []string {
			k.Quiesce()
			var got []string
			for _, q := range procs {
				log := q.pp.Log()
				for _, e := range log[q.seen:] {
					var tt string
					switch e.Kind {
					case "exitpid", "downpid":
						tt = "P" + tokOfPid(e.Data.(gen.PID))
					case "exitname", "downname":
						tt = "N0." + strings.TrimPrefix(string(e.Data.(gen.ProcessID).Name), "c04name")
					case "exitalias", "downalias":
						tt = aliasTok[e.Data.(gen.Alias)]
					case "exitevent", "downevent":
						tt = "E0." + strings.TrimPrefix(string(e.Data.(gen.Event).Name), "c04ev")
					default:
						continue
					}
					kind := "exit"
					if strings.HasPrefix(e.Kind, "down") {
						kind = "down"
					}
					got = append(got, fmt.Sprintf("%s:%s>%s", kind, tt, q.tok))
				}
				q.seen = len(log)
			}
			sort.Strings(got)
			return got
		}
		listStr := func(xs []string) string {
			if len(xs) == 0 {
				return "-"
			}
			return strings.Join(xs, ";")
		}
		// targets currently existing, as (token, real value)
		type tgt struct {
			tok string
			val any
			own int
		}
		liveTargets := func() []tgt {
			var ts []tgt
			for i, q := range procs {
				if !q.alive {
					continue
				}
				ts = append(ts, tgt{"P" + q.tok, q.pid, i})
				if q.name != "" {
					ts = append(ts, tgt{q.nameTok, gen.ProcessID{Name: q.name, Node: k.Name()}, i})
				}
				for j, a := range q.aliases {
					ts = append(ts, tgt{q.alTok[j], a, i})
				}
				for j, e := range q.events {
					ts = append(ts, tgt{q.evTok[j], gen.Event{Name: e, Node: k.Name()}, i})
				}
			}
			return ts
		}
		rels := 0
		multi := false
		nops := 15 + c.Rng.Intn(36)
		for o := 0; o < nops; o++ {
			var alive []int
			for i, q := range procs {
				if q.alive {
					alive = append(alive, i)
				}
			}
			if len(alive) < 2 {
				break
			}
			a := alive[c.Rng.Intn(len(alive))]
			q := procs[a]
			x := c.Rng.Intn(100)
			switch {
			case x < 12: // resources
				switch c.Rng.Intn(3) {
				case 0:
					if q.name == "" {
						nameSeq++
						nm := gen.Atom(fmt.Sprintf("c04name%d", nameSeq))
						var e error
						k.Exec(q.pid, func(p *Puppet) { e = p.RegisterName(nm) })
						if e == nil {
							q.name, q.nameTok = nm, fmt.Sprintf("N0.%d", nameSeq)
							lines = append(lines, "create "+q.nameTok)
							wants = append(wants, "ok")
						}
					}
				case 1:
					var al gen.Alias
					var e error
					k.Exec(q.pid, func(p *Puppet) { al, e = p.CreateAlias() })
					if e == nil {
						alSeq++
						q.aliases = append(q.aliases, al)
						q.alTok = append(q.alTok, fmt.Sprintf("A0.%d.1", alSeq))
						aliasTok[al] = q.alTok[len(q.alTok)-1]
						lines = append(lines, "create "+q.alTok[len(q.alTok)-1])
						wants = append(wants, "ok")
					}
				case 2:
					evSeq++
					en := gen.Atom(fmt.Sprintf("c04ev%d", evSeq))
					var e error
					k.Exec(q.pid, func(p *Puppet) { _, e = p.RegisterEvent(en, gen.EventOptions{}) })
					if e == nil {
						q.events = append(q.events, en)
						q.evTok = append(q.evTok, fmt.Sprintf("E0.%d", evSeq))
						lines = append(lines, "create "+q.evTok[len(q.evTok)-1])
						wants = append(wants, "ok")
					}
				}
			case x < 62: // link / monitor / unlink / demonitor on a live target of another process (sometimes a dead one)
				ts := liveTargets()
				t := ts[c.Rng.Intn(len(ts))]
				if t.own == a {
					continue
				}
				opk := c.Rng.Intn(10)
				var opname string
				var e error
				k.Exec(q.pid, func(p *Puppet) {
					switch {
					case opk < 4:
						opname = "link"
						switch v := t.val.(type) {
						case gen.PID:
							e = p.LinkPID(v)
						case gen.ProcessID:
							e = p.LinkProcessID(v)
						case gen.Alias:
							e = p.LinkAlias(v)
						case gen.Event:
							_, e = p.LinkEvent(v)
						}
					case opk < 8:
						opname = "monitor"
						switch v := t.val.(type) {
						case gen.PID:
							e = p.MonitorPID(v)
						case gen.ProcessID:
							e = p.MonitorProcessID(v)
						case gen.Alias:
							e = p.MonitorAlias(v)
						case gen.Event:
							_, e = p.MonitorEvent(v)
						}
					case opk < 9:
						opname = "unlink"
						switch v := t.val.(type) {
						case gen.PID:
							e = p.UnlinkPID(v)
						case gen.ProcessID:
							e = p.UnlinkProcessID(v)
						case gen.Alias:
							e = p.UnlinkAlias(v)
						case gen.Event:
							e = p.UnlinkEvent(v)
						}
					default:
						opname = "demonitor"
						switch v := t.val.(type) {
						case gen.PID:
							e = p.DemonitorPID(v)
						case gen.ProcessID:
							e = p.DemonitorProcessID(v)
						case gen.Alias:
							e = p.DemonitorAlias(v)
						case gen.Event:
							e = p.DemonitorEvent(v)
						}
					}
				})
				res := "ok"
				switch {
				case e == nil:
					if opname == "link" || opname == "monitor" {
						rels++
					}
				case e == gen.ErrTargetExist:
					res = "exist"
				case e == gen.ErrTargetUnknown:
					res = "norel"
				case e == gen.ErrProcessUnknown || e == gen.ErrAliasUnknown || e == gen.ErrEventUnknown:
					res = "unknown"
				default:
					res = "err:" + e.Error()
				}
				lines = append(lines, fmt.Sprintf("%s %s %s", opname, q.tok, t.tok))
				wants = append(wants, res)
				hist = append(hist, fmt.Sprintf("%s %s %s -> %s", opname, q.tok, t.tok, res))
			case x < 80: // a single target goes away by unregistration
				var cand []string
				if q.name != "" {
					cand = append(cand, "name")
				}
				if len(q.aliases) > 0 {
					cand = append(cand, "alias")
				}
				if len(q.events) > 0 {
					cand = append(cand, "event")
				}
				if len(cand) == 0 {
					continue
				}
				collect()
				var tok string
				switch cand[c.Rng.Intn(len(cand))] {
				case "name":
					k.Exec(q.pid, func(p *Puppet) { p.UnregisterName() })
					tok = q.nameTok
					q.name, q.nameTok = "", ""
				case "alias":
					j := c.Rng.Intn(len(q.aliases))
					al := q.aliases[j]
					tok = q.alTok[j]
					k.Exec(q.pid, func(p *Puppet) { p.DeleteAlias(al) })
					q.aliases = append(q.aliases[:j:j], q.aliases[j+1:]...)
					q.alTok = append(q.alTok[:j:j], q.alTok[j+1:]...)
				case "event":
					j := c.Rng.Intn(len(q.events))
					en := q.events[j]
					tok = q.evTok[j]
					k.Exec(q.pid, func(p *Puppet) { p.UnregisterEvent(en) })
					q.events = append(q.events[:j:j], q.events[j+1:]...)
					q.evTok = append(q.evTok[:j:j], q.evTok[j+1:]...)
				}
				got := collect()
				lines = append(lines, "gone "+tok)
				wants = append(wants, listStr(got))
				hist = append(hist, fmt.Sprintf("unregister %s -> %s", tok, listStr(got)))
				if len(got) >= 2 {
					multi = true
				}
			default: // termination
				collect()
				how := c.Rng.Intn(3)
				var reason error
				switch how {
				case 0:
					k.Node.Kill(q.pid)
					reason = gen.TerminateReasonKill
				case 1:
					reason = errors.New("crash")
					k.Node.Send(q.pid, k4stop{reason})
				case 2:
					reason = gen.TerminateReasonNormal
					k.Node.Send(q.pid, k4stop{reason})
				}
				waitUntilGone(k, q.pid)
				q.alive = false
				var owned []string
				if q.name != "" {
					owned = append(owned, q.nameTok)
				}
				owned = append(owned, q.alTok...)
				owned = append(owned, q.evTok...)
				got := collect()
				ow := "-"
				if len(owned) > 0 {
					ow = strings.Join(owned, ",")
				}
				lines = append(lines, fmt.Sprintf("terminate %s %s", q.tok, ow))
				wants = append(wants, listStr(got))
				hist = append(hist, fmt.Sprintf("terminate %s (%v) -> %s", q.tok, reason, listStr(got)))
				if len(got) >= 2 {
					multi = true
				}
				// reason oracle: every notification about this termination carries the reason
				for _, x := range procs {
					for _, e := range x.pp.Log() {
						if (e.Kind == "exitpid" || e.Kind == "downpid") && e.Data.(gen.PID) == q.pid {
							if !(e.Err == reason || (e.Err != nil && reason != nil && e.Err.Error() == reason.Error())) {
								r.Violation("C04/reason", fmt.Sprintf("notification about %s carries reason %v, the process terminated with %v", q.tok, e.Err, reason), map[string]interface{}{"history": hist})
							}
						}
					}
				}
			}
		}
		outs, err := Model("linkops", lines)
		if err != nil {
			r.Disagree("linkops.driver", err.Error(), nil)
			return
		}
		for i := range lines {
			if outs[i] != wants[i] {
				r.Disagree("K4 Model.LinkOps ~ node link/monitor/terminate", fmt.Sprintf("op %d %q: model %q, implementation %q", i, lines[i], outs[i], wants[i]),
					map[string]interface{}{"ops": lines, "impl": wants})
				// a lost or duplicated notification is a violation of the property itself
				if strings.HasPrefix(lines[i], "gone") || strings.HasPrefix(lines[i], "terminate") {
					r.Violation("C04/notifications", fmt.Sprintf("after %q the relation holders should have received %q, they received %q", lines[i], outs[i], wants[i]),
						map[string]interface{}{"ops": lines[:i+1], "impl": wants[:i+1]})
				}
				break
			}
		}
		r.Case(strings.Join(lines, "|"), multi)
		if it < 2 {
			r.Sample(map[string]interface{}{"ops": lines, "impl": wants})
		}
		for _, q := range procs {
			if q.alive {
				k.Node.Kill(q.pid)
			}
		}
		k.Quiesce()
		k.resetPuppets()
	}
}

// c04race: K3 on the request-vs-termination race.
func c04race(c *Ctx) {
	r := c.R
	node, err := startQuietNodeOpts("c04r", func(o *gen.NodeOptions) { o.TargetManager = &tmPark{gen.CreateDefaultTargetManager()} })
	if err != nil {
		r.Disagree("c04.node", err.Error(), nil)
		return
	}
	defer node.StopForce()
	k := &K4{Node: node, puppets: map[gen.PID]*Puppet{}}
	kinds := []string{"link-pid", "monitor-pid", "link-name", "monitor-name", "link-alias", "monitor-alias", "link-event", "monitor-event"}
	// schedules: the requester R has one park (after the lookup, before the insert); the terminator T has two parks
	// (after the table delete, after the drain of the pid relations). Choices: order of releasing them.
	schedules := [][]string{
		{"R", "S", "T", "T"},      // request completes before the terminator starts
		{"S", "R", "T", "T"},      // insert between the table delete and the drain
		{"S", "T", "R", "T"},      // insert after the drain of the pid relations (the lost-relation window for pid targets)
		{"S", "T", "T", "R", "T"}, // name/alias/event targets: insert right after the drain of that target's relations
		{"S", "T", "T", "T", "R"}, // insert after the terminator finished completely
	}
	rounds := c.N(1, 10)
	var lines, wants []string
	for round := 0; round < rounds; round++ {
		for _, kind := range kinds {
			for si, sched := range schedules {
				// the target goes away because its process is killed, or (names, aliases, events) because its owner
				// unregisters it
				terms := []string{"kill"}
				if !strings.HasSuffix(kind, "-pid") {
					terms = append(terms, "unregister")
				}
				for _, term := range terms {
					res := c04raceOnce(k, kind, sched, term)
					key := fmt.Sprintf("race/%s/%d/%s", kind, si, term)
					r.Case(key, si >= 1)
					if res.stuck != "" {
						r.Count("race.inconclusive")
						continue
					}
					r.Count("race." + res.outcome)
					if res.linkErr == nil && !res.notified {
						r.Violation("C04/D15-request-vs-termination", fmt.Sprintf("%s: the request returned success while the target was terminating and no notification ever arrived (schedule %v)", kind, sched),
							map[string]interface{}{"kind": kind, "schedule": sched, "trace": res.trace})
					}
					if res.count > 1 {
						r.Violation("C04/race-duplicate", fmt.Sprintf("%s: %d notifications for one relation (schedule %v)", kind, res.count, sched),
							map[string]interface{}{"kind": kind, "schedule": sched, "trace": res.trace})
					}
					// model: pid kinds map exactly onto the two-thread race (T's third step is the later drains: no-op)
					if strings.HasSuffix(kind, "-pid") && round == 0 {
						m := "l" // the lookup happened before the requester parked
						tsteps := 0
						for _, s := range sched {
							switch {
							case s == "R":
								m += "ll" // the release performs the insert and the re-check
							case s == "S":
								m += "t" // Kill runs up to the hook after the table delete
							case tsteps < 1:
								m += "t" // drain of the pid relations (later legs are no-ops for a pid relation)
								tsteps++
							}
						}
						lines = append(lines, "race g "+m)
						ok := "doneOk"
						if res.linkErr != nil {
							ok = "doneErr"
						}
						wants = append(wants, fmt.Sprintf("l=ErgoVerif.LinkOps.Race.LPc.%s t=ErgoVerif.LinkOps.Race.TPc.done rel=false notified=%v", ok, res.notified))
					}
				}
			}
		}
	}
	outs, err := Model("linkops", lines)
	if err != nil {
		r.Disagree("linkops.driver", err.Error(), nil)
		return
	}
	stripRel := func(x string) string {
		f := strings.Fields(x)
		var o []string
		for _, t := range f {
			if !strings.HasPrefix(t, "rel=") {
				o = append(o, t)
			}
		}
		return strings.Join(o, " ")
	}
	for i := range lines {
		if stripRel(outs[i]) != stripRel(wants[i]) {
			r.Disagree("K3 Race model ~ RouteLinkPID/RouteMonitorPID vs unregisterProcess", fmt.Sprintf("%q: model %q, implementation %q", lines[i], outs[i], wants[i]), lines[i])
			break
		}
	}
}

// tmPark is the node's TargetManager with one more yield point: after the relations of a name, alias or event
// target were drained (pid targets have the "unreg:drained" hook already).
type tmPark struct{ gen.TargetManager }

func (t *tmPark) CleanupTarget(target any) (links []gen.PID, monitors []gen.PID) {
	links, monitors = t.TargetManager.CleanupTarget(target)
	if _, isPID := target.(gen.PID); !isPID {
		lib.VerifPoint(target, "tm:drained")
	}
	return
}

type c04raceRes struct {
	linkErr  error
	notified bool
	count    int
	outcome  string
	stuck    string
	trace    []string
}

func c04raceOnce(k *K4, kind string, sched []string, term string) c04raceRes {
	var res c04raceRes
	ctl := NewCtl("k3-no-process")
	defer ctl.Close()
	req, rpid, _ := k.Spawn("R", true, gen.ProcessOptions{}, "")
	tname := k.NextName("c04rt")
	_, tpid, _ := k.Spawn("T", false, gen.ProcessOptions{}, tname)
	var alias gen.Alias
	ev := k.NextName("c04rev")
	k.Exec(tpid, func(p *Puppet) {
		alias, _ = p.CreateAlias()
		p.RegisterEvent(ev, gen.EventOptions{})
	})
	var target any
	switch strings.SplitN(kind, "-", 2)[1] {
	case "pid":
		target = tpid
	case "name":
		target = gen.ProcessID{Name: tname, Node: k.Name()}
	case "alias":
		target = alias
	case "event":
		target = gen.Event{Name: ev, Node: k.Name()}
	}
	ctl.AddQueue(target)
	ctl.AddQueue(tpid) // unreg:* hooks carry the pid
	ctl.On()
	done := make(chan error, 1)
	// requester: runs inside the puppet's callback; the hook parks that goroutine (anonymous thread)
	k.ExecAsync(rpid, func(p *Puppet) {
		var e error
		link := strings.HasPrefix(kind, "link")
		switch v := target.(type) {
		case gen.PID:
			if link {
				e = p.LinkPID(v)
			} else {
				e = p.MonitorPID(v)
			}
		case gen.ProcessID:
			if link {
				e = p.LinkProcessID(v)
			} else {
				e = p.MonitorProcessID(v)
			}
		case gen.Alias:
			if link {
				e = p.LinkAlias(v)
			} else {
				e = p.MonitorAlias(v)
			}
		case gen.Event:
			if link {
				_, e = p.LinkEvent(v)
			} else {
				_, e = p.MonitorEvent(v)
			}
		}
		done <- e
	})
	// wait until the requester is parked between lookup and insert
	if !waitUntil(2*time.Second, func() bool { return len(ctl.Parked()) == 1 }) {
		res.stuck = "requester did not park"
		ctl.ReleaseAll()
		return res
	}
	rname := ctl.Parked()[0].name
	ctl.Drain()
	tthread := "T"
	for _, s := range sched {
		name := tthread
		if s == "R" {
			name = rname
		}
		if s == "S" {
			if term == "unregister" {
				// the owner gives the identifier up in one of its callbacks: that callback's goroutine is the terminator; it
				// parks once, right after the relations on the identifier were drained (yield point of the TargetManager wrapper)
				k.ExecAsync(tpid, func(p *Puppet) {
					switch v := target.(type) {
					case gen.ProcessID:
						p.UnregisterName()
					case gen.Alias:
						p.DeleteAlias(v)
					case gen.Event:
						p.UnregisterEvent(v.Name)
					}
				})
				found := waitUntil(2*time.Second, func() bool {
					for _, t := range ctl.Parked() {
						if t.name != rname {
							tthread = t.name
							return true
						}
					}
					return false
				})
				if !found {
					res.stuck = "the unregistering callback did not park"
					break
				}
				ctl.Drain()
				continue
			}
			if _, err := ctl.Start("T", func() { k.Node.Kill(tpid) }); err != nil {
				res.stuck = err.Error()
				break
			}
			continue
		}
		t := ctl.Find(name)
		if t == nil || !t.parked {
			continue // already finished (T has only two parks when the target has fewer legs)
		}
		if term == "unregister" && name == tthread {
			if _, _, _, err := ctl.StepAssumeDone(name, 20*time.Millisecond); err != nil {
				res.stuck = err.Error()
				break
			}
			continue
		}
		if _, _, _, err := ctl.Step(name); err != nil {
			res.stuck = err.Error()
			break
		}
	}
	// let the terminator run to its end under the controller (its later legs send the notifications)
	for i := 0; i < 8 && res.stuck == ""; i++ {
		t := ctl.Find(tthread)
		if t == nil || !t.parked {
			break
		}
		if term == "unregister" {
			if _, _, _, err := ctl.StepAssumeDone(tthread, 20*time.Millisecond); err != nil {
				res.stuck = err.Error()
			}
			continue
		}
		if _, _, _, err := ctl.Step(tthread); err != nil {
			res.stuck = err.Error()
		}
	}
	res.trace = append([]string(nil), ctl.Trace...)
	ctl.ReleaseAll()
	select {
	case res.linkErr = <-done:
	case <-time.After(3 * time.Second):
		res.stuck = "request did not return"
		return res
	}
	if term == "kill" {
		waitUntilGone(k, tpid)
	}
	k.Quiesce()
	for _, e := range req.Log() {
		if strings.HasPrefix(e.Kind, "exit") || strings.HasPrefix(e.Kind, "down") {
			res.count++
		}
	}
	res.notified = res.count > 0
	switch {
	case res.linkErr != nil:
		res.outcome = "refused"
	case res.notified:
		res.outcome = "ok-notified"
	default:
		res.outcome = "ok-LOST"
	}
	k.Node.Kill(rpid)
	k.resetPuppets()
	return res
}

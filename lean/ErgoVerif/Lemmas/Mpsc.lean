import ErgoVerif.Model.Mpsc
namespace ErgoVerif.Mpsc

theorem setLinked_length (cs : List Cell) (i : Nat) : (setLinked cs i).length = cs.length := by
  induction cs generalizing i with
  | nil => simp [setLinked]
  | cons c cs ih => cases i <;> simp [setLinked, ih]

theorem setLinked_items (cs : List Cell) (i : Nat) : (setLinked cs i).map (·.item) = cs.map (·.item) := by
  induction cs generalizing i with
  | nil => simp [setLinked]
  | cons c cs ih => cases i <;> simp [setLinked, ih]

/-- invariants of the queue: the consumer never runs ahead, producers' sequence numbers are dense and in order -/
structure QInv (q : Q) : Prop where
  popped_le : q.popped ≤ q.cells.length
  -- per producer, the items it swapped in appear in the total order with increasing seq below its counter
  seq_lt : ∀ c ∈ q.cells, c.item.seq < q.pushedBy c.item.producer
  refused_lt : ∀ it ∈ q.refused, it.seq < q.pushedBy it.producer
  sorted : ∀ i j (hi : i < q.cells.length) (hj : j < q.cells.length), i < j →
      q.cells[i].item.producer = q.cells[j].item.producer → q.cells[i].item.seq < q.cells[j].item.seq
  disjoint : ∀ c ∈ q.cells, c.item ∉ q.refused

theorem qinv_init (l : Option Nat) : QInv (Q.init l) := by
  constructor <;> simp [Q.init]

theorem step_qinv {q q' : Q} {o : Op} {got : Option Item} (h : QInv q) (hs : step q o = some (q', got)) : QInv q' := by
  cases o with
  | swap p =>
    simp only [step] at hs
    split at hs
    · cases hs
    · cases hs
      constructor
      · simp; have := h.popped_le; omega
      · intro c hc
        simp at hc
        rcases hc with hc | rfl
        · have := h.seq_lt c hc
          simp only
          split
          · rename_i heq; rw [heq] at this; omega
          · exact this
        · simp
      · intro it hit
        have := h.refused_lt it hit
        simp only
        split
        · rename_i heq; rw [heq] at this; omega
        · exact this
      · intro i j hi hj hij hp
        simp at hi hj
        by_cases hjl : j < q.cells.length
        · have hil : i < q.cells.length := by omega
          simp only [List.getElem_append_left hil, List.getElem_append_left hjl] at hp ⊢
          exact h.sorted i j hil hjl hij hp
        · have hje : j = q.cells.length := by omega
          subst hje
          have hil : i < q.cells.length := by omega
          simp only [List.getElem_append_left hil] at hp ⊢
          simp at hp ⊢
          have := h.seq_lt q.cells[i] (List.getElem_mem hil)
          rw [hp] at this
          exact this
      · intro c hc
        simp at hc
        rcases hc with hc | rfl
        · exact h.disjoint c hc
        · simp
          intro hmem
          have := h.refused_lt _ hmem
          simp at this
  | refuse p =>
    simp only [step] at hs
    split at hs
    · cases hs
    · cases hs
      constructor
      · exact h.popped_le
      · intro c hc
        have := h.seq_lt c hc
        simp only
        split
        · rename_i heq; rw [heq] at this; omega
        · exact this
      · intro it hit
        simp at hit
        rcases hit with rfl | hit
        · simp
        · have := h.refused_lt it hit
          simp only
          split
          · rename_i heq; rw [heq] at this; omega
          · exact this
      · exact h.sorted
      · intro c hc
        simp
        constructor
        · intro heq
          have := h.seq_lt c hc
          rw [heq] at this
          simp at this
        · exact h.disjoint c hc
  | link i =>
    simp only [step] at hs
    split at hs
    · cases hs
      have hitems := setLinked_items q.cells i
      have hlen := setLinked_length q.cells i
      have hget : ∀ k (hk : k < (setLinked q.cells i).length), ((setLinked q.cells i)[k]).item = (q.cells[k]'(by rw [← hlen]; exact hk)).item := by
        intro k hk
        have := congrArg (fun l => l[k]?) hitems
        simp [List.getElem?_map] at this
        have h1 : (setLinked q.cells i)[k]? = some ((setLinked q.cells i)[k]) := List.getElem?_eq_getElem hk
        have h2 : q.cells[k]? = some (q.cells[k]'(by rw [← hlen]; exact hk)) := List.getElem?_eq_getElem _
        rw [h1, h2] at this
        simpa using this
      constructor
      · simp [hlen]; exact h.popped_le
      · intro c hc
        simp only at hc ⊢
        obtain ⟨k, hk, rfl⟩ := List.getElem_of_mem hc
        rw [hget k hk]
        exact h.seq_lt _ (List.getElem_mem _)
      · exact h.refused_lt
      · intro a b ha hb hab hp
        simp only at ha hb hp ⊢
        rw [hget a ha, hget b hb] at hp ⊢
        exact h.sorted a b (by rw [← hlen]; exact ha) (by rw [← hlen]; exact hb) hab hp
      · intro c hc
        simp only at hc ⊢
        obtain ⟨k, hk, rfl⟩ := List.getElem_of_mem hc
        rw [hget k hk]
        exact h.disjoint _ (List.getElem_mem _)
    · cases hs
  | pop =>
    simp only [step] at hs
    split at hs
    · rename_i c hc
      split at hs
      · cases hs
        have hlt : q.popped < q.cells.length := by
          have := List.getElem?_eq_some_iff.mp hc
          exact this.1
        exact ⟨by simp; omega, h.seq_lt, h.refused_lt, h.sorted, h.disjoint⟩
      · cases hs; exact h
    · cases hs; exact h



/-- what the consumer has received so far -/
def Q.received (q : Q) : List Item := (q.cells.take q.popped).map (·.item)
/-- the total order fixed by the head swaps -/
def Q.order (q : Q) : List Item := q.cells.map (·.item)

theorem step_received {q q' : Q} {o : Op} {got : Option Item} (h : QInv q) (hs : step q o = some (q', got)) :
    q'.received = q.received ++ (match got with | some i => [i] | none => []) ∧
    ∃ ext, q'.order = q.order ++ ext := by
  cases o with
  | swap p =>
    simp only [step] at hs
    split at hs
    · cases hs
    · cases hs
      refine ⟨?_, ⟨[⟨p, q.pushedBy p⟩], by simp [Q.order]⟩⟩
      simp only [Q.received, List.append_nil]
      rw [List.take_append_of_le_length h.popped_le]
  | refuse p =>
    simp only [step] at hs
    split at hs
    · cases hs
    · cases hs; exact ⟨by simp [Q.received], ⟨[], by simp [Q.order]⟩⟩
  | link i =>
    simp only [step] at hs
    split at hs
    · cases hs
      refine ⟨?_, ⟨[], by simp [Q.order, setLinked_items]⟩⟩
      simp only [Q.received, List.append_nil]
      rw [List.map_take, List.map_take, setLinked_items q.cells i]
    · cases hs
  | pop =>
    simp only [step] at hs
    split at hs
    · rename_i c hc
      split at hs
      · cases hs
        refine ⟨?_, ⟨[], by simp [Q.order]⟩⟩
        simp only [Q.received]
        have hlt := (List.getElem?_eq_some_iff.mp hc)
        rw [List.take_add_one, hc]
        simp
      · cases hs; exact ⟨by simp, ⟨[], by simp⟩⟩
    · cases hs; exact ⟨by simp, ⟨[], by simp⟩⟩

theorem runQ_spec : ∀ (ops : List Op) (q q' : Q) (got : List Item), QInv q → runQ q ops = some (q', got) →
    QInv q' ∧ q'.received = q.received ++ got ∧ ∃ ext, q'.order = q.order ++ ext := by
  intro ops
  induction ops with
  | nil => intro q q' got h hr; simp [runQ] at hr; obtain ⟨rfl, rfl⟩ := hr; exact ⟨h, by simp, ⟨[], by simp⟩⟩
  | cons o os ih =>
    intro q q' got h hr
    simp only [runQ] at hr
    cases hs : step q o with
    | none => simp [hs] at hr
    | some r =>
      obtain ⟨q1, g1⟩ := r
      simp only [hs] at hr
      cases hr2 : runQ q1 os with
      | none => simp [hr2] at hr
      | some r2 =>
        obtain ⟨q2, rest⟩ := r2
        simp only [hr2, Option.some.injEq, Prod.mk.injEq] at hr
        obtain ⟨rfl, rfl⟩ := hr
        have h1 := step_qinv h hs
        obtain ⟨hrec, ext1, hord⟩ := step_received (got := g1) h hs
        obtain ⟨h2, hrec2, ext2, hord2⟩ := ih q1 q2 rest h1 hr2
        refine ⟨h2, ?_, ⟨ext1 ++ ext2, ?_⟩⟩
        · rw [hrec2, hrec]; cases g1 <;> simp
        · rw [hord2, hord]; simp

/-- items in the total order are pairwise distinct -/
theorem order_nodup {q : Q} (h : QInv q) : q.order.Nodup := by
  unfold Q.order
  rw [List.nodup_iff_pairwise_ne, List.pairwise_iff_getElem]
  intro i j hi hj hij
  simp at hi hj ⊢
  intro heq
  have hp : q.cells[i].item.producer = q.cells[j].item.producer := by rw [heq]
  have := h.sorted i j hi hj hij hp
  rw [heq] at this
  omega

theorem received_prefix (q : Q) : q.received <+: q.order := by
  unfold Q.received Q.order
  exact List.IsPrefix.map _ (List.take_prefix _ _)

end ErgoVerif.Mpsc

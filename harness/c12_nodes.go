package main

// C12, part N: two real in-process nodes over loopback (own registrar port, own acceptor ports):
// an actor on node 1 sends ordinary and important messages by pid / name / alias to a recording actor
// on node 2 — payloads from a few bytes to several buffer growths, with and without compression —
// and to addressees that do not exist. Oracle: Send returns nil and the message arrives exactly once
// and unchanged; SendImportant returns nil exactly when the message was placed in the remote mailbox
// and the remote reason (unknown process) otherwise; never a time-out.
// A node that cannot start (port taken by another run) is an inconclusive case, not a violation.

import (
	"bytes"
	"fmt"
	"os"
	"sync"
	"time"

	"ergo.services/ergo"
	"ergo.services/ergo/act"
	"ergo.services/ergo/gen"
	"ergo.services/ergo/net/edf"
	"ergo.services/ergo/net/registrar"
)

func init() {
	if err := edf.RegisterTypeOf(c12nMsg{}); err != nil && err != gen.ErrTaken {
		panic(err)
	}
}

type c12nSink struct {
	act.Actor
}

var (
	c12nMu    sync.Mutex
	c12nGot   = map[string]int{} // key -> deliveries
	c12nBad   []string
	c12nAlias gen.Alias
	c12nReady = make(chan struct{}, 1)
)

type c12nMsg struct {
	Key  string
	Body []byte
}

func c12nBody(key string, n int) []byte {
	b := make([]byte, n)
	for i := range b {
		b[i] = byte('a' + (i+len(key))%23)
	}
	return b
}

func (s *c12nSink) HandleMessage(from gen.PID, message any) error {
	if cmd, isCmd := message.(string); isCmd && cmd == "mkalias" {
		a, err := s.CreateAlias()
		if err == nil {
			c12nAlias = a
			select {
			case c12nReady <- struct{}{}:
			default:
			}
		}
		return nil
	}
	m, ok := message.(c12nMsg)
	c12nMu.Lock()
	defer c12nMu.Unlock()
	if !ok {
		c12nBad = append(c12nBad, fmt.Sprintf("unexpected message %T", message))
		return nil
	}
	c12nGot[m.Key]++
	var n int
	fmt.Sscanf(m.Key[len(m.Key)-7:], "%07d", &n)
	if !bytes.Equal(m.Body, c12nBody(m.Key, n)) {
		c12nBad = append(c12nBad, "payload of "+m.Key+" changed")
	}
	return nil
}

type c12nCmd struct {
	Key       string
	Size      int
	Mode      int // 0 pid, 1 name, 2 alias, 3 unknown pid, 4 unknown name
	Important bool
	Compress  bool
	res       chan error
}

type c12nDriver struct {
	act.Actor
	sink gen.PID
}

func (d *c12nDriver) HandleMessage(from gen.PID, message any) error {
	switch m := message.(type) {
	case gen.PID:
		d.sink = m
	case *c12nCmd:
		d.SetCompression(m.Compress)
		if m.Compress {
			d.SetCompressionThreshold(1024)
		}
		msg := c12nMsg{Key: m.Key, Body: c12nBody(m.Key, m.Size)}
		var to any
		switch m.Mode {
		case 0:
			to = d.sink
		case 1:
			to = gen.ProcessID{Node: d.sink.Node, Name: "c12sink"}
		case 2:
			to = c12nAlias
		case 3:
			to = gen.PID{Node: d.sink.Node, ID: d.sink.ID + 100000, Creation: d.sink.Creation}
		default:
			to = gen.ProcessID{Node: d.sink.Node, Name: "c12nosuch"}
		}
		var err error
		if m.Important {
			err = d.SendImportant(to, msg)
		} else {
			err = d.Send(to, msg)
		}
		m.res <- err
	}
	return nil
}

func c12Nodes(c *Ctx) {
	r := c.R
	port := uint16(21000 + (os.Getpid()*13+int(c.Seed)*101)%20000)
	mk := func(name string, acceptor uint16) (gen.Node, error) {
		o := gen.NodeOptions{}
		o.Network.Cookie = "c12"
		o.Network.Registrar = registrar.Create(registrar.Options{Port: port})
		o.Network.Acceptors = []gen.AcceptorOptions{{Port: acceptor, PortRange: 40}}
		o.Log.DefaultLogger.Disable = true
		return ergo.StartNode(gen.Atom(name), o)
	}
	sfx := fmt.Sprintf("%d-%d", os.Getpid(), c.Seed)
	n1, err := mk("c12a-"+sfx+"@localhost", port+1)
	if err != nil {
		r.Count("N:inconclusive:start-node1")
		r.Note("part N inconclusive: %v", err)
		return
	}
	defer n1.StopForce()
	n2, err := mk("c12b-"+sfx+"@localhost", port+50)
	if err != nil {
		r.Count("N:inconclusive:start-node2")
		r.Note("part N inconclusive: %v", err)
		return
	}
	defer n2.StopForce()
	sink, err := n2.SpawnRegister("c12sink", func() gen.ProcessBehavior { return &c12nSink{} }, gen.ProcessOptions{})
	if err != nil {
		r.Count("N:inconclusive:spawn")
		r.Note("part N inconclusive: spawn sink: %v", err)
		return
	}
	n2.Send(sink, "mkalias")
	select {
	case <-c12nReady:
	case <-time.After(5 * time.Second):
		r.Count("N:inconclusive:sink-init")
		return
	}
	if _, err := n1.Network().GetNode(n2.Name()); err != nil {
		r.Count("N:inconclusive:connect")
		r.Note("part N inconclusive: connect: %v", err)
		return
	}
	drv, err := n1.Spawn(func() gen.ProcessBehavior { return &c12nDriver{} }, gen.ProcessOptions{})
	if err != nil {
		r.Count("N:inconclusive:spawn")
		r.Note("part N inconclusive: spawn driver: %v", err)
		return
	}
	n1.Send(drv, sink)
	n := c.N(80, 600)
	sizes := []int{0, 10, 900, 1100, 4000, 4100, 9000, 20000, 70000}
	type sent struct {
		cmd *c12nCmd
		err error
	}
	var all []sent
	for i := 0; i < n; i++ {
		size := sizes[c.Rng.Intn(len(sizes))] + c.Rng.Intn(50)
		cmd := &c12nCmd{Size: size, Mode: c.Rng.Intn(5), Important: c.Rng.Chance(2, 3), Compress: c.Rng.Bool(), res: make(chan error, 1)}
		cmd.Key = fmt.Sprintf("m%d-%d-%07d", c.Seed, i, size)
		if err := n1.Send(drv, cmd); err != nil {
			r.Count("N:inconclusive:drive")
			return
		}
		select {
		case e := <-cmd.res:
			all = append(all, sent{cmd, e})
		case <-time.After(12 * time.Second):
			r.Violation("C12-node-hang", "Send/SendImportant did not return within 12 s", map[string]interface{}{"key": cmd.Key, "mode": cmd.Mode, "important": cmd.Important, "compress": cmd.Compress})
			return
		}
	}
	time.Sleep(300 * time.Millisecond) // ordinary sends are asynchronous
	c12nMu.Lock()
	defer c12nMu.Unlock()
	for _, s := range all {
		m := s.cmd
		desc := map[string]interface{}{"part": "N", "key": m.Key, "size": m.Size, "mode": []string{"pid", "name", "alias", "unknown pid", "unknown name"}[m.Mode], "important": m.Important, "compress": m.Compress, "returned": c12errText(s.err)}
		r.Case(fmt.Sprintf("N|%d|%v|%v|%d", m.Mode, m.Important, m.Compress, sizeClass(m.Size)), m.Important || m.Size > 4000 || m.Mode >= 3)
		r.Count(fmt.Sprintf("N:mode%d:important=%v", m.Mode, m.Important))
		got := c12nGot[m.Key]
		exists := m.Mode <= 2
		switch {
		case exists && s.err != nil:
			sig := "C12-node-send"
			if s.err == gen.ErrTimeout {
				sig = "C12-important-ack"
			}
			r.Violation(sig, fmt.Sprintf("send to an existing process returned %s (delivered %d times)", c12errText(s.err), got), desc)
		case exists && got != 1:
			r.Violation("C12-lost", fmt.Sprintf("send returned nil, delivered %d times", got), desc)
		case !exists && got != 0:
			r.Violation("C12-spurious-route", "message to a non-existent addressee was delivered", desc)
		case !exists && m.Important && s.err != gen.ErrProcessUnknown:
			r.Violation("C12-important-ack", fmt.Sprintf("important send to a non-existent addressee returned %s instead of the remote reason", c12errText(s.err)), desc)
		}
	}
	for _, b := range c12nBad {
		r.Violation("C12-content", "two nodes: "+b, nil)
	}
	r.Sample(map[string]interface{}{"part": "N", "messages": len(all), "delivered": len(c12nGot)})
}

/-
C20 — Cron: jobs run exactly at the minutes their spec denotes.

Models: ErgoVerif.Model.Cron (node/cron_parse.go: parser, mask compiler, IsRunAt, denotation),
        ErgoVerif.Model.CronSched (node/cron.go: cron object, timer function, Schedule/JobSchedule).
The models follow the code after the `fix:` commits for D8, D9, D17 and the two timer-function repairs.
-/
import ErgoVerif.Lemmas.CronReach
import ErgoVerif.Lemmas.CronPrint
import ErgoVerif.Lemmas.CronFits
namespace ErgoVerif.Props.C20
open ErgoVerif.Cron ErgoVerif.CronSched ErgoVerif.Generated.Cron

/-! ## The matcher -/

/-- For every valid spec and every well-formed civil time the code's matcher on the compiled bit masks
    (cronSpecMask.IsRunAt ∘ cronParseSpecField) equals the crontab denotation: lists, ranges, steps, `L`, `wL`, `w#n`,
    and day-of-month OR day-of-week when both are restricted. -/
theorem C20_mask_eq (s : Spec) (hs : s.valid = true) (c : Civil) (hc : c.wf) :
    specIsRunAt (compileSpec s) c = s.denote c :=
  specIsRunAt_eq_denote s hs c hc

-- non-vacuity: a valid spec with every kind of option, a well-formed time, both outcomes
example : (⟨.list [.starStep 15, .num 59], .list [.rangeStep 0 23 2], .list [.num 1, .last], .star,
           .list [.nth 1 2, .lastW 7, .range 2 3]⟩ : Spec).valid = true := by decide
example : (⟨2026, 3, 31, 22, 45, 2⟩ : Civil).wf := by decide
example : specIsRunAt (compileSpec ⟨.list [.starStep 15], .star, .list [.last], .star, .list [.lastW 7]⟩) ⟨2026, 3, 31, 22, 45, 2⟩ = true := by decide
example : specIsRunAt (compileSpec ⟨.list [.starStep 15], .star, .list [.last], .star, .list [.lastW 7]⟩) ⟨2026, 3, 30, 22, 45, 1⟩ = false := by decide

/-- the compiled masks of a valid spec all carry a type cronMask.IsRunAt knows (its panicking `default:` is
    unreachable) and fit in 64 bits (the model's `Nat` bit operations are the code's uint64 operations) -/
theorem C20_masks_wellformed (s : Spec) (hs : s.valid = true) (m : Nat)
    (hm : m ∈ (compileSpec s).minHourMonth ∨ m ∈ (compileSpec s).day ∨ m ∈ (compileSpec s).weekDay) :
    maskKnown m = true ∧ m < 2 ^ 64 :=
  compileSpec_wellformed s hs m hm

/-! ## The parser -/

/-- parse ∘ print = id: every AST of the grammar, printed canonically, is accepted and yields the same AST -/
theorem C20_parse_print (s : Spec) (hs : s.valid = true) : parseSpec s.print = some s :=
  parseSpec_print s hs

/-- the ASTs the parser can produce are exactly the ASTs of the grammar -/
theorem C20_parse_grammar (s : Spec) : (∃ cs, parseSpec cs = some s) ↔ s.valid = true :=
  ⟨fun ⟨_, h⟩ => parseSpec_valid h, fun h => ⟨s.print, parseSpec_print s h⟩⟩

example : (⟨.list [.starStep 15, .num 59], .list [.rangeStep 0 23 2], .list [.num 1, .last], .star,
           .list [.nth 1 2, .lastW 7, .range 2 3]⟩ : Spec).print = "*/15,59 0-23/2 1,L * 1#2,7L,2-3".toList := by decide

/-- cronParseSpec accepts only texts that denote an AST of the grammar: values inside the field bounds, ascending
    ranges, steps 1..max, `L` only in the day field, `wL`/`w#n` only in the weekday field, no empty list, five fields -/
theorem C20_parse_sound (cs : List Char) (s : Spec) (h : parseSpec cs = some s) : s.valid = true :=
  parseSpec_valid h

/-- the anchors the parser model was written against are the ones in the working tree -/
theorem C20_anchor_fields : fieldCount = 5 ∧
    (cronFieldMin.min, cronFieldMin.max) = (0, 59) ∧ (cronFieldHour.min, cronFieldHour.max) = (0, 23) ∧
    (cronFieldDay.min, cronFieldDay.max) = (1, 31) ∧ (cronFieldMonth.min, cronFieldMonth.max) = (1, 12) ∧
    (cronFieldWeekDay.min, cronFieldWeekDay.max) = (1, 7) := by decide

theorem C20_anchor_regexps :
    cronFieldMin.reg = "^(?:\\*$|\\*/\\d+|\\d+-\\d+|\\d+-\\d+/\\d+|\\d+)$" ∧
    cronFieldHour.reg = "^(?:\\*$|\\*/\\d+|\\d+-\\d+|\\d+-\\d+/\\d+|\\d+)$" ∧
    cronFieldDay.reg = "^(?:\\*$|\\*/\\d+|\\d+-\\d+|\\d+-\\d+/\\d+|L|\\d+)$" ∧
    cronFieldMonth.reg = "^(?:\\*$|\\*/\\d+|\\d+-\\d+|\\d+)$" ∧
    cronFieldWeekDay.reg = "^(?:\\*$|\\d+-\\d+|[1-7]L|\\d+|[1-7]#[1-5])$" := by decide

/-- the mask types are pairwise distinct nibbles at bit 60 and the field defaults carry their own type -/
theorem C20_anchor_masks :
    cronMaskType = 15 <<< 60 ∧ cronMaskTypeLastDM = 1 <<< 60 ∧ cronMaskTypeLastDW = 2 <<< 60 ∧ cronMaskTypeNDW = 3 <<< 60 ∧
    cronFieldMin.mask = 10 <<< 60 ∧ cronFieldHour.mask = 11 <<< 60 ∧ cronFieldDay.mask = 12 <<< 60 ∧
    cronFieldMonth.mask = 13 <<< 60 ∧ cronFieldWeekDay.mask = 14 <<< 60 ∧
    cronFieldMin.mask = cronMaskTypeMin ∧ cronFieldHour.mask = cronMaskTypeHour ∧ cronFieldDay.mask = cronMaskTypeDay ∧
    cronFieldMonth.mask = cronMaskTypeMonth ∧ cronFieldWeekDay.mask = cronMaskTypeWeekDay := by decide

/-- the macros are plain five-field specs -/
theorem C20_macros :
    (parseSpec "@hourly".toList).map Spec.print = some "1 * * * *".toList ∧
    (parseSpec "@daily".toList).map Spec.print = some "10 3 * * *".toList ∧
    (parseSpec "@monthly".toList).map Spec.print = some "20 4 1 * *".toList ∧
    (parseSpec "@weekly".toList).map Spec.print = some "30 5 * * 1".toList := by decide

/-- malformed classes are rejected (one representative each; the general statement is C20_parse_sound) -/
theorem C20_rejects :
    parseSpec "* * * *".toList = none ∧ parseSpec "* * * * * *".toList = none ∧ parseSpec "".toList = none ∧
    parseSpec "60 * * * *".toList = none ∧ parseSpec "* 24 * * *".toList = none ∧ parseSpec "* * 0 * *".toList = none ∧
    parseSpec "* * * 13 *".toList = none ∧ parseSpec "* * * * 0".toList = none ∧ parseSpec "* * * * 8".toList = none ∧
    parseSpec "5-4 * * * *".toList = none ∧ parseSpec "*/0 * * * *".toList = none ∧ parseSpec "*/60 * * * *".toList = none ∧
    parseSpec "*,1 * * * *".toList = none ∧ parseSpec "1,,2 * * * *".toList = none ∧ parseSpec "L * * * *".toList = none ∧
    parseSpec "* * * * L".toList = none ∧ parseSpec "* * 1L * *".toList = none ∧ parseSpec "* * * * 1#6".toList = none ∧
    parseSpec "* * * * 8L".toList = none ∧ parseSpec "* * * 1-6/2 *".toList = none ∧ parseSpec "* * * * */2".toList = none ∧
    parseSpec "@yearly".toList = none ∧ parseSpec "-1 * * * *".toList = none ∧ parseSpec "1x * * * *".toList = none := by decide

/-- any text that does not split into exactly five white-space separated fields (after macro expansion) is rejected -/
theorem C20_rejects_field_count (cs : List Char) (h : (fields (expandMacro cs)).length ≠ 5) : parseSpec cs = none := by
  unfold parseSpec
  split
  · rename_i heq
    rw [heq] at h
    simp at h
  · rfl

/-- an accepted text never has an out-of-range value, a descending range, a zero or oversized step, a misplaced
    `L`/`wL`/`w#n`, or an empty option: the contrapositive of C20_parse_sound, spelled out per option -/
theorem C20_accepted_options_valid (cs : List Char) (s : Spec) (h : parseSpec cs = some s) :
    (∀ i, s.minute = .list i → ∀ it ∈ i, it.valid .minute = true) ∧
    (∀ i, s.hour = .list i → ∀ it ∈ i, it.valid .hour = true) ∧
    (∀ i, s.day = .list i → ∀ it ∈ i, it.valid .day = true) ∧
    (∀ i, s.month = .list i → ∀ it ∈ i, it.valid .month = true) ∧
    (∀ i, s.wday = .list i → ∀ it ∈ i, it.valid .wday = true) := by
  have hv := parseSpec_valid h
  simp only [Spec.valid, Bool.and_eq_true] at hv
  obtain ⟨⟨⟨⟨h1, h2⟩, h3⟩, h4⟩, h5⟩ := hv
  refine ⟨?_, ?_, ?_, ?_, ?_⟩ <;> intro i hi it hit
  · rw [hi] at h1; simp only [Field.valid, Bool.and_eq_true, List.all_eq_true] at h1; exact h1.2 it hit
  · rw [hi] at h2; simp only [Field.valid, Bool.and_eq_true, List.all_eq_true] at h2; exact h2.2 it hit
  · rw [hi] at h3; simp only [Field.valid, Bool.and_eq_true, List.all_eq_true] at h3; exact h3.2 it hit
  · rw [hi] at h4; simp only [Field.valid, Bool.and_eq_true, List.all_eq_true] at h4; exact h4.2 it hit
  · rw [hi] at h5; simp only [Field.valid, Bool.and_eq_true, List.all_eq_true] at h5; exact h5.2 it hit

/-! ## The scheduler -/

section sched
variable (civil : CivilFn) (hciv : ∀ loc m, (civil loc m).wf)
include hciv

/-- For every history of AddJob/RemoveJob/EnableJob/DisableJob calls and timer-function runs (at any wall-clock
    minutes): the timer function running at minute `now` runs job object p  ⇔  it runs in the minute the spool was
    filled for ∧ p is present ∧ enabled ∧ p's spec denotes `now` in p's location; and it runs p at most once. -/
theorem C20_fires (s : Sched) (hr : Reach civil s) (now : Int) :
    (firedAt civil s now).Nodup ∧
    ∀ p, p ∈ firedAt civil s now ↔
      (now = s.next ∧ p ∈ s.jobs ∧ (s.objs p).disable = false ∧
        (s.objs p).spec.denote (civil (s.objs p).loc now) = true) := by
  obtain ⟨h1, h2⟩ := fired_iff civil s (reach_inv civil hr) now
  refine ⟨h1, fun p => ?_⟩
  rw [h2 p]
  constructor
  · rintro ⟨a, b, c, d⟩
    exact ⟨a, b, c, by rw [← runsAt_eq_denote civil hr hciv p b now]; exact d⟩
  · rintro ⟨a, b, c, d⟩
    exact ⟨a, b, c, by rw [runsAt_eq_denote civil hr hciv p b now]; exact d⟩

/-- soundness, every history and every tick time: whatever runs at minute `now` is present, enabled and matches `now`
    (so a disabled or removed job never runs, and nothing runs at a minute outside its spec) -/
theorem C20_fires_sound (s : Sched) (hr : Reach civil s) (now : Int) (p : Nat) (hp : p ∈ firedAt civil s now) :
    p ∈ s.jobs ∧ (s.objs p).disable = false ∧ (s.objs p).spec.denote (civil (s.objs p).loc now) = true :=
  (((C20_fires civil hciv s hr now).2 p).mp hp).2

/-- completeness for a timer that runs in the minute it was armed for (c.next): every present, enabled job whose spec
    denotes that minute runs -/
theorem C20_fires_complete (s : Sched) (hr : Reach civil s) (p : Nat) (hp : p ∈ s.jobs)
    (he : (s.objs p).disable = false) (hm : (s.objs p).spec.denote (civil (s.objs p).loc s.next) = true) :
    p ∈ firedAt civil s s.next :=
  ((C20_fires civil hciv s hr s.next).2 p).mpr ⟨rfl, hp, he, hm⟩

/-- at most once per minute -/
theorem C20_fires_once (s : Sched) (hr : Reach civil s) (now : Int) : (firedAt civil s now).Nodup :=
  (C20_fires civil hciv s hr now).1

/-- JobSchedule lists exactly the minutes of the window [since truncated to the minute, + period) that the job's spec
    denotes in the job's location, in ascending order; it fails exactly for unknown names -/
theorem C20_jobSchedule (s : Sched) (hr : Reach civil s) (name : Nat) (sinceNs periodNs : Int) :
    (jobSchedule civil s name sinceNs periodNs = none ↔ findJob s name = none) ∧
    ∀ l, jobSchedule civil s name sinceNs periodNs = some l →
      ∃ p, findJob s name = some p ∧ p ∈ s.jobs ∧ (s.objs p).name = name ∧ l.Pairwise (· < ·) ∧
        ∀ m, m ∈ l ↔ inWindow sinceNs periodNs m ∧ (s.objs p).spec.denote (civil (s.objs p).loc m) = true := by
  refine ⟨jobSchedule_none civil s name sinceNs periodNs, fun l hl => ?_⟩
  obtain ⟨p, hp, hs, hm⟩ := jobSchedule_spec civil s name sinceNs periodNs l hl
  obtain ⟨hpj, hpn⟩ := findJob_some hp
  refine ⟨p, hp, hpj, hpn, hs, fun m => ?_⟩
  rw [hm m, runsAt_eq_denote civil hr hciv p hpj m]

/-- Schedule has an entry for exactly the window minutes some present job's spec denotes, carrying exactly those jobs -/
theorem C20_schedule (s : Sched) (hr : Reach civil s) (sinceNs periodNs : Int) (m : Int) (js : List Nat) :
    (m, js) ∈ scheduleList civil s sinceNs periodNs ↔
      inWindow sinceNs periodNs m ∧
      js = s.jobs.filter (fun p => (s.objs p).spec.denote (civil (s.objs p).loc m)) ∧ js ≠ [] := by
  rw [scheduleList_spec]
  have : s.jobs.filter (fun p => runsAt civil (s.objs p) m) =
      s.jobs.filter (fun p => (s.objs p).spec.denote (civil (s.objs p).loc m)) := by
    apply List.filter_congr
    intro p hp
    exact runsAt_eq_denote civil hr hciv p hp m
  rw [this]

end sched

/-- a spec outside the grammar is refused by AddJob and leaves the object unchanged -/
theorem C20_add_rejects (civil : CivilFn) (s : Sched) (name : Nat) (text : List Char) (loc : Nat)
    (h : parseSpec text = none) :
    (step civil s (.add name text loc)).2 ≠ .ok ∧ (step civil s (.add name text loc)).1.jobs = s.jobs := by
  simp only [step, h]
  split <;> simp

/-- what the completeness hypothesis excludes: a timer function that runs in another minute than the one it was
    armed for runs nothing (the jobs of that minute are missed, none runs at a wrong minute) -/
theorem C20_late_tick_runs_nothing (civil : CivilFn) (s : Sched) (now : Int) (h : now ≠ s.next) :
    firedAt civil s now = [] := by
  rw [firedAt_eq]; simp [h]

-- non-vacuity of the scheduler theorems: a reachable state with a present, enabled, matching job that fires,
-- and one where a disabled job does not
def civUTC : CivilFn := fun _ m => ⟨2026, 1, 1, ((m / 60) % 24).toNat, (m % 60).toNat, 4⟩
def exState : Sched := (step civUTC (init 90) (.add 1 "30 1 * * *".toList 0)).1
example : Reach civUTC exState := Reach.step _ _ (Reach.init 90) rfl
example : firedAt civUTC exState 90 = [0] := by decide
example : firedAt civUTC (step civUTC exState (.disable 1)).1 90 = [] := by decide
example : firedAt civUTC (step civUTC (step civUTC exState (.disable 1)).1 (.enable 1)).1 90 = [0] := by decide
example : jobSchedule civUTC exState 1 (60 * minuteNs + 5) (61 * minuteNs) = some [90] := by decide

/-! ## What the repaired defects looked like (statements about the unrepaired timer function, for the record) -/

/-- the spool loop before "run a job at most once per tick": every spooled, enabled entry runs -/
def fireLoopUnrepaired (objs : Nat → JobObj) (spool : List Nat) : List Nat :=
  spool.filter (fun p => (objs p).disable = false)

/-- D17: with that loop "at most once per minute" fails — EnableJob on a spooled job makes it run twice -/
theorem C20_D17_unrepaired_counterexample :
    ∃ s, Reach civUTC s ∧ ¬ (fireLoopUnrepaired s.objs s.spool).Nodup :=
  ⟨(step civUTC exState (.enable 1)).1, Reach.step _ _ (Reach.step _ _ (Reach.init 90) rfl) rfl, by decide⟩

/-- D26: without the `actionTime.Equal(c.next)` test a late timer run executes the spool of another minute —
    the job runs at a minute its spec does not denote -/
theorem C20_D26_unrepaired_counterexample :
    ∃ s now p, Reach civUTC s ∧ now ≠ s.next ∧ p ∈ fireLoop s.objs s.spool [] ∧
      (s.objs p).spec.denote (civUTC (s.objs p).loc now) = false :=
  ⟨exState, 95, 0, Reach.step _ _ (Reach.init 90) rfl, by decide, by decide, by decide⟩

end ErgoVerif.Props.C20

import ErgoVerif.Lemmas.Proc
namespace ErgoVerif.Proc

/-- the reason handed to ProcessTerminate has a cause that occurred -/
def InvR (c : Cfg) : Prop :=
  ((c.st = .zombee ∨ c.k1 ≥ 1 ∨ c.k2 ≥ 1 ∨ c.rk ≥ 1 ∨ c.fK ≥ 1 ∨ c.why = some .kill) → c.sawKill = true) ∧
  ((c.re ≥ 1 ∨ c.fE ≥ 1 ∨ c.why = some .err) → c.sawErr = true) ∧
  ((c.rp ≥ 1 ∨ c.fP ≥ 1 ∨ c.why = some .panic) → c.sawPanic = true)

theorem invR_init : InvR init := by
  unfold InvR init; simp

set_option maxRecDepth 8000 in
set_option maxHeartbeats 1600000 in
theorem step_invR (c c' : Cfg) (l : Lbl) (h : Inv c) (hr : InvR c) (hs : step true c l = some c') : InvR c' := by
  unfold Inv InvR at *
  obtain ⟨st, i0, i1, s0, s1, s2, w0, w1, r0, rb, r3, r4, r5, re, rp, rk, k0, k1, k2, fE, fP, fK, tm,
    mail, handled, accepted, refused, terms, why, sawErr, sawPanic, sawKill, initFailed⟩ := c
  cases l <;> cases st <;> simp only [step, alive, reduceCtorEq, ↓reduceIte] at hs <;>
    (repeat' split at hs) <;>
    (first | (cases hs) | skip) <;> simp at h hr ⊢ <;> (first | omega | grind)

end ErgoVerif.Proc

import ErgoVerif.Lemmas.SupTrackOFO
/-
One-for-one tracking, part 2: the management calls and the closure over all histories that avoid D26/D27.
-/
namespace ErgoVerif.Sup

theorem findName_none_iff (n : Nat) (l : List ChildSpec) : findName n l = none ↔ ∀ c, c ∈ l → c.name ≠ n := by
  induction l with
  | nil => simp [findName]
  | cons a t ih =>
    simp only [findName]
    split
    · rename_i h; simp; exact ⟨a, Or.inl rfl, h⟩ |> fun ⟨x, hx, hn⟩ => by
        intro hall; exact hall x (by rcases hx with rfl | hx; · simp) hn
    · rename_i h
      rw [ih]
      constructor
      · intro hall c hc
        rcases List.mem_cons.mp hc with rfl | hc
        · exact h
        · exact hall c hc
      · intro hall c hc; exact hall c (List.mem_cons_of_mem _ hc)

end ErgoVerif.Sup

package main

// Generated/Proto.lean: facts about the wire protocol read from net/proto/types.go and
// net/proto/connection.go of the working tree:
//   * magic / version / message-type bytes (types.go constants, go/constant values);
//   * read(): the lower bound enforced on the length field (`if l < N { return …error }`,
//     0 when absent) and whether the node_maxmessagesize comparison is `l > max`;
//   * for every Send*/Call*/SendTerminate* method (both variants of the methods that choose
//     between an inline name and a cache id) the table of header writes
//     (field, offset, width, mask, condition), the constant part of buf.Allocate, whether a name
//     follows, whether peer_maxmessagesize is checked before the header is built, whether the
//     incarnation guard comes first, whether options.Compression is honoured;
//   * for every `case proto…` of handleRecvQueue the table of header reads with the
//     *destination* of every read resolved through local variables and composite literals to
//     the parameter of the gen.Core Route* method it ends up in (so `from.ID` written at 8..16
//     by SendPID is `from.ID` of RouteSendPID read from 8..16), the length guards and the
//     offset at which edf.Decode starts.
// The extraction is semantic (values, offsets, data flow), not a comparison of syntax shapes.

import (
	"bytes"
	"fmt"
	"go/ast"
	"go/constant"
	"go/parser"
	"go/printer"
	"go/token"
	"path/filepath"
	"sort"
	"strconv"
	"strings"
)

func init() {
	generators = append(generators, generator{name: "Proto", run: genProto, fallback: protoFallback})
}

var pfset = token.NewFileSet()

func pstr(n ast.Node) string {
	var b bytes.Buffer
	printer.Fprint(&b, pfset, n)
	return strings.Join(strings.Fields(b.String()), " ")
}

type pFld struct {
	name  string
	off   int
	width int
	mask  int
	cond  string
}

type pKind struct {
	name        string
	typ         int
	writer      string
	alloc       int
	inlineName  bool
	writes      []pFld
	reads       []pFld
	guard       int
	guard2      int
	guardName   int // base of the `buf.Len() < base+l` guard (0 = none)
	payloadOff  int
	payloadName bool // payload follows the inline name (offset = payloadOff + l)
	earlyMax    bool
	incarnation bool
	compress    bool
	route       string
	recvFound   bool
}

type pEnv struct {
	consts map[string]int64
}

func (e *pEnv) eval(x ast.Expr) (int64, bool) {
	switch v := x.(type) {
	case *ast.BasicLit:
		c := constant.MakeFromLiteral(v.Value, v.Kind, 0)
		if i, ok := constant.Int64Val(c); ok {
			return i, true
		}
	case *ast.Ident:
		if i, ok := e.consts[v.Name]; ok {
			return i, true
		}
	case *ast.ParenExpr:
		return e.eval(v.X)
	case *ast.UnaryExpr:
		if v.Op == token.ADD {
			return e.eval(v.X)
		}
	case *ast.BinaryExpr:
		a, ok1 := e.eval(v.X)
		b, ok2 := e.eval(v.Y)
		if ok1 && ok2 {
			switch v.Op {
			case token.ADD:
				return a + b, true
			case token.SUB:
				return a - b, true
			case token.MUL:
				return a * b, true
			}
		}
	}
	return 0, false
}

// evalPlusVar evaluates const + (optional) one non-constant summand; returns const part and the summand text.
func (e *pEnv) evalPlusVar(x ast.Expr) (int64, string, bool) {
	if v, ok := e.eval(x); ok {
		return v, "", true
	}
	if p, ok := x.(*ast.ParenExpr); ok {
		return e.evalPlusVar(p.X)
	}
	if b, ok := x.(*ast.BinaryExpr); ok && b.Op == token.ADD {
		a, va, ok1 := e.evalPlusVar(b.X)
		c, vc, ok2 := e.evalPlusVar(b.Y)
		if ok1 && ok2 && (va == "" || vc == "") {
			return a + c, va + vc, true
		}
		return 0, "", false
	}
	return 0, pstr(x), true
}

func isBufB(x ast.Expr) bool {
	s, ok := x.(*ast.SelectorExpr)
	if !ok || s.Sel.Name != "B" {
		return false
	}
	id, ok := s.X.(*ast.Ident)
	return ok && id.Name == "buf"
}

// bufRange: buf.B[a:b] / buf.B[i] with constant parts; varLo is set when the low bound has a variable summand.
func (e *pEnv) bufRange(x ast.Expr) (lo, hi int, varLo string, open bool, ok bool) {
	switch v := x.(type) {
	case *ast.SliceExpr:
		if !isBufB(v.X) {
			return
		}
		if v.Low != nil {
			c, vs, k := e.evalPlusVar(v.Low)
			if !k {
				return
			}
			lo, varLo = int(c), vs
		}
		if v.High == nil {
			return lo, -1, varLo, true, true
		}
		c, _, k := e.evalPlusVar(v.High)
		if !k {
			return
		}
		return lo, int(c), varLo, false, true
	case *ast.IndexExpr:
		if !isBufB(v.X) {
			return
		}
		c, vs, k := e.evalPlusVar(v.Index)
		if !k || vs != "" {
			return
		}
		return int(c), int(c) + 1, "", false, true
	}
	return
}

// strip value conversions: byte(x), uint64(x), uint32(x), int64(x), gen.MessagePriority(x), int(x), gen.Atom(x)
func stripConv(x ast.Expr) ast.Expr {
	for {
		switch v := x.(type) {
		case *ast.ParenExpr:
			x = v.X
			continue
		case *ast.CallExpr:
			if len(v.Args) == 1 {
				f := pstr(v.Fun)
				switch f {
				case "byte", "uint", "uint64", "uint32", "uint16", "int64", "int", "uint8", "gen.MessagePriority", "gen.Atom":
					x = v.Args[0]
					continue
				}
			}
		}
		return x
	}
}

func canonWrite(off int, expr ast.Expr, env *pEnv) string {
	x := stripConv(expr)
	s := pstr(x)
	switch s {
	case "protoMagic":
		return "magic"
	case "protoVersion":
		return "version"
	case "buf.Len()":
		return "len"
	case "len(bname)":
		return "name.len"
	}
	if off == 6 {
		return "order"
	}
	if strings.HasSuffix(s, "Cached") {
		return "cacheid"
	}
	if strings.HasPrefix(s, "proto") {
		return "type"
	}
	if _, ok := env.eval(x); ok {
		return "const"
	}
	if strings.HasPrefix(s, "gen.") {
		return "const"
	}
	return s
}

// ---------------------------------------------------------------------------------------
// writers
// ---------------------------------------------------------------------------------------

type wctx struct {
	env    *pEnv
	cached bool // which variant of an `if <x>Cached > 0` is followed
	k      *pKind
	sawVar bool // the method has a cached/inline choice
}

func isCachedCond(c ast.Expr) bool {
	b, ok := c.(*ast.BinaryExpr)
	if !ok || b.Op != token.GTR {
		return false
	}
	id, ok := b.X.(*ast.Ident)
	return ok && strings.HasSuffix(id.Name, "Cached")
}

func (w *wctx) stmts(list []ast.Stmt, cond string) {
	for _, s := range list {
		w.stmt(s, cond)
	}
}

func (w *wctx) stmt(s ast.Stmt, cond string) {
	switch v := s.(type) {
	case *ast.BlockStmt:
		w.stmts(v.List, cond)
	case *ast.IfStmt:
		if isCachedCond(v.Cond) {
			w.sawVar = true
			if w.cached {
				w.stmts(v.Body.List, cond)
			} else if v.Else != nil {
				w.stmt(v.Else, cond)
			}
			return
		}
		cs := pstr(v.Cond)
		if strings.Contains(cs, "c.peer_maxmessagesize") && strings.Contains(cs, "buf.Len()") {
			w.k.earlyMax = true
			return
		}
		if strings.Contains(cs, ".Creation != c.peer_creation") {
			if len(w.k.writes) == 0 && w.k.alloc == 0 {
				w.k.incarnation = true
			}
			return
		}
		c2 := cond
		if cs == "options.ImportantDelivery" {
			c2 = "important"
		} else if v.Init == nil && !strings.Contains(cs, "err") {
			c2 = cs
		}
		// `if err := edf.Encode(...)` carries the payload source in Init
		if v.Init != nil {
			w.stmt(v.Init, cond)
		}
		w.stmts(v.Body.List, c2)
		if v.Else != nil {
			w.stmt(v.Else, c2)
		}
	case *ast.SwitchStmt:
		for _, cc := range v.Body.List {
			cl := cc.(*ast.CaseClause)
			w.stmts(cl.Body, "switch")
			// error-code table of SendResponseError: `switch err { case X: buf.B[i] = code }`
			if v.Tag != nil && pstr(v.Tag) == "err" {
				label := "default"
				if len(cl.List) == 1 {
					label = pstr(cl.List[0])
				}
				for _, st := range cl.Body {
					if a, ok := st.(*ast.AssignStmt); ok && len(a.Lhs) == 1 && len(a.Rhs) == 1 {
						if _, _, _, _, ok := w.env.bufRange(a.Lhs[0]); ok {
							if code, ok := w.env.eval(a.Rhs[0]); ok {
								errCodesW = append(errCodesW, errCode{label, int(code)})
							}
						}
					}
				}
			}
		}
	case *ast.AssignStmt:
		if len(v.Lhs) == 1 && len(v.Rhs) == 1 {
			if lo, hi, vs, open, ok := w.env.bufRange(v.Lhs[0]); ok && !open && vs == "" {
				f := pFld{off: lo, width: hi - lo, cond: cond}
				if v.Tok == token.OR_ASSIGN {
					m, _ := w.env.eval(v.Rhs[0])
					f.mask = int(m)
					f.name = "flag"
					if m == 128 {
						f.name = "important"
					}
				} else {
					f.name = canonWrite(lo, v.Rhs[0], w.env)
					if cond == "switch" {
						f.name = "switch"
					}
					if lo == 7 {
						if t, ok := w.env.eval(v.Rhs[0]); ok {
							w.k.typ = int(t)
							w.k.name = strings.TrimPrefix(pstr(v.Rhs[0]), "proto")
						}
					}
				}
				dup := false
				for _, o := range w.k.writes {
					if o == f {
						dup = true
					}
				}
				if !dup {
					w.k.writes = append(w.k.writes, f)
				}
			}
		}
		for _, r := range v.Rhs {
			w.expr(r, cond)
		}
	case *ast.ExprStmt:
		w.expr(v.X, cond)
	case *ast.ReturnStmt:
		for _, r := range v.Results {
			if c, ok := r.(*ast.CallExpr); ok && pstr(c.Fun) == "c.send" && len(c.Args) == 3 {
				w.k.compress = pstr(c.Args[2]) == "options.Compression"
			}
		}
	}
}

func (w *wctx) expr(x ast.Expr, cond string) {
	c, ok := x.(*ast.CallExpr)
	if !ok {
		return
	}
	f := pstr(c.Fun)
	switch {
	case f == "buf.Allocate" && len(c.Args) == 1:
		n, vs, ok := w.env.evalPlusVar(c.Args[0])
		if ok {
			w.k.alloc = int(n)
			w.k.inlineName = vs != ""
		}
	case strings.HasPrefix(f, "binary.BigEndian.PutUint") && len(c.Args) == 2:
		if lo, hi, vs, open, ok := w.env.bufRange(c.Args[0]); ok && !open && vs == "" {
			w.k.writes = append(w.k.writes, pFld{name: canonWrite(lo, c.Args[1], w.env), off: lo, width: hi - lo, cond: cond})
		}
	case f == "copy" && len(c.Args) == 2:
		if lo, _, vs, open, ok := w.env.bufRange(c.Args[0]); ok && open && vs == "" {
			w.k.writes = append(w.k.writes, pFld{name: "name", off: lo, width: 0, cond: cond})
		}
	}
}

// ---------------------------------------------------------------------------------------
// readers
// ---------------------------------------------------------------------------------------

type errCode struct {
	name string
	code int
}

var errCodesW, errCodesR []errCode

type rctx struct {
	env     *pEnv
	kindID  string // constant name of the variant, e.g. protoMessageName
	k       *pKind
	alias   map[string]string // local variable (or path) -> path it is stored into
	dataOff int
	dataVar string
	params  map[string][]string // Route method -> parameter names (gen.Core)
	// buffer lifetime: set once a `lib.ReleaseBuffer(buf)` that falls through has been passed;
	// header reads after that point are recorded (the buffer is back in the pool by then)
	released bool
	late     []string
}

func (r *rctx) findReads(x ast.Node, dest string, mask int) {
	before := len(r.k.reads)
	defer func() {
		if r.released {
			for _, f := range r.k.reads[before:] {
				r.late = append(r.late, fmt.Sprintf("%s@%d", r.k.name, f.off))
			}
		}
	}()
	ast.Inspect(x, func(n ast.Node) bool {
		switch v := n.(type) {
		case *ast.BinaryExpr:
			if v.Op == token.AND {
				if m, ok := r.env.eval(v.Y); ok {
					r.findReads(v.X, dest, int(m))
					return false
				}
			}
		case *ast.CallExpr:
			f := pstr(v.Fun)
			if strings.HasPrefix(f, "binary.BigEndian.Uint") && len(v.Args) == 1 {
				if lo, hi, vs, open, ok := r.env.bufRange(v.Args[0]); ok && !open && vs == "" {
					r.k.reads = append(r.k.reads, pFld{name: dest, off: lo, width: hi - lo, mask: mask})
				}
				return false
			}
			if f == "edf.Decode" && len(v.Args) >= 1 {
				if lo, _, vs, open, ok := r.env.bufRange(v.Args[0]); ok && open {
					r.k.payloadOff = lo
					r.k.payloadName = vs != ""
				} else if id, ok := v.Args[0].(*ast.Ident); ok && id.Name == r.dataVar {
					// set by the assignment to `data`
				}
				return false
			}
		case *ast.IndexExpr:
			if lo, hi, vs, open, ok := r.env.bufRange(v); ok && !open && vs == "" {
				r.k.reads = append(r.k.reads, pFld{name: dest, off: lo, width: hi - lo, mask: mask})
				return false
			}
		case *ast.SliceExpr:
			if lo, hi, vs, open, ok := r.env.bufRange(v); ok {
				if open {
					// data = buf.B[k:] or buf.B[k+l:]
					if dest == "data" {
						r.k.payloadOff = lo
						r.k.payloadName = vs != ""
					}
				} else if vs == "" && hi > lo && hi-lo <= 8 {
					r.k.reads = append(r.k.reads, pFld{name: dest, off: lo, width: hi - lo, mask: mask})
				} else {
					r.k.reads = append(r.k.reads, pFld{name: dest, off: lo, width: 0, mask: mask}) // name bytes
				}
				return false
			}
		}
		return true
	})
}

func (r *rctx) stmts(list []ast.Stmt) {
	for _, s := range list {
		r.stmt(s)
	}
}

func (r *rctx) variantCond(c ast.Expr) (bool, bool) {
	b, ok := c.(*ast.BinaryExpr)
	if !ok || b.Op != token.EQL {
		return false, false
	}
	if lo, _, _, _, ok := r.env.bufRange(b.X); !ok || lo != 7 {
		return false, false
	}
	return pstr(b.Y) == r.kindID, true
}

func (r *rctx) lit(dest string, cl *ast.CompositeLit) {
	for i, el := range cl.Elts {
		if kv, ok := el.(*ast.KeyValueExpr); ok {
			path := dest + "." + pstr(kv.Key)
			r.valueInto(path, kv.Value)
		} else {
			path := fmt.Sprintf("%s[%d]", dest, i)
			r.valueInto(path, el)
		}
	}
}

// valueInto: `path = value`; records reads with that destination, or an alias when value is a local variable/path
func (r *rctx) valueInto(path string, value ast.Expr) {
	v := stripConv(value)
	if cl, ok := v.(*ast.CompositeLit); ok {
		r.lit(path, cl)
		return
	}
	switch t := v.(type) {
	case *ast.Ident:
		if _, isConst := r.env.consts[t.Name]; !isConst && t.Name != "nil" && t.Name != "true" && t.Name != "false" {
			r.alias[t.Name] = path
		}
		return
	}
	// `(x & 128) > 0`
	if b, ok := v.(*ast.BinaryExpr); ok && b.Op == token.GTR {
		r.findReads(b.X, path, 0)
		return
	}
	r.findReads(v, path, 0)
}

func (r *rctx) stmt(s ast.Stmt) {
	switch v := s.(type) {
	case *ast.BlockStmt:
		r.stmts(v.List)
	case *ast.DeclStmt:
		// var x T — nothing
	case *ast.IfStmt:
		if take, ok := r.variantCond(v.Cond); ok {
			if take {
				r.stmts(v.Body.List)
			} else if v.Else != nil {
				r.stmt(v.Else)
			}
			return
		}
		if b, ok := v.Cond.(*ast.BinaryExpr); ok && b.Op == token.LSS && pstr(b.X) == "buf.Len()" {
			if n, vs, ok := r.env.evalPlusVar(b.Y); ok {
				if vs != "" {
					r.k.guardName = int(n)
				} else if r.k.guard == 0 {
					r.k.guard = int(n)
				} else if r.k.guard2 == 0 {
					r.k.guard2 = int(n)
				}
			}
			return
		}
		// other conditions (err != nil, important == false, cache look-ups): bodies contain no header reads
		// except the important-delivery ack, which is a plain statement after them.
		// A body that releases the buffer and falls through ends the buffer's life for what follows.
		if releasesBuf(v.Body) && !endsInJump(v.Body) {
			r.released = true
		}
		return
	case *ast.SwitchStmt:
		if v.Tag != nil {
			r.findReads(v.Tag, "switch", 0)
		}
		_, _, _, _, tagIsBuf := r.env.bufRange(v.Tag)
		for _, cc := range v.Body.List {
			cl := cc.(*ast.CaseClause)
			r.stmts(cl.Body)
			// error-code table of the MessageResponseError case: `switch buf.B[i] { case code: r = X }`
			if tagIsBuf && len(cl.List) == 1 {
				if code, ok := r.env.eval(cl.List[0]); ok {
					val := "nil"
					ast.Inspect(cl, func(n ast.Node) bool {
						switch x := n.(type) {
						case *ast.AssignStmt:
							if len(x.Lhs) == 1 && pstr(x.Lhs[0]) == "r" && len(x.Rhs) == 1 {
								val = pstr(x.Rhs[0])
							}
						case *ast.CallExpr:
							if pstr(x.Fun) == "edf.Decode" {
								val = "decode"
							}
						}
						return true
					})
					if r.kindID == "protoMessageResponseError" {
						errCodesR = append(errCodesR, errCode{val, int(code)})
					}
				}
			}
		}
	case *ast.AssignStmt:
		if len(v.Lhs) == 1 && len(v.Rhs) == 1 {
			if c, ok := v.Rhs[0].(*ast.CallExpr); ok && strings.HasPrefix(pstr(c.Fun), "c.core.Route") {
				r.call(c)
				return
			}
			r.valueInto(pstr(v.Lhs[0]), v.Rhs[0])
			return
		}
		// msg, tail, err := edf.Decode(...)
		for _, x := range v.Rhs {
			r.findReads(x, "_", 0)
		}
	case *ast.ExprStmt:
		if c, ok := v.X.(*ast.CallExpr); ok {
			if pstr(c.Fun) == "lib.ReleaseBuffer" && len(c.Args) == 1 && pstr(c.Args[0]) == "buf" {
				r.released = true
			}
			r.call(c)
		}
	}
}

func releasesBuf(b *ast.BlockStmt) bool {
	found := false
	ast.Inspect(b, func(n ast.Node) bool {
		if c, ok := n.(*ast.CallExpr); ok && pstr(c.Fun) == "lib.ReleaseBuffer" && len(c.Args) == 1 && pstr(c.Args[0]) == "buf" {
			found = true
		}
		return true
	})
	return found
}

func endsInJump(b *ast.BlockStmt) bool {
	if len(b.List) == 0 {
		return false
	}
	switch s := b.List[len(b.List)-1].(type) {
	case *ast.BranchStmt:
		return true
	case *ast.ReturnStmt:
		return true
	default:
		_ = s
	}
	return false
}

func (r *rctx) call(c *ast.CallExpr) {
	f := pstr(c.Fun)
	if strings.HasPrefix(f, "c.core.Route") {
		m := strings.TrimPrefix(f, "c.core.")
		r.k.route = m
		ps := r.params[m]
		for i, a := range c.Args {
			if id, ok := a.(*ast.Ident); ok && i < len(ps) {
				r.alias[id.Name] = ps[i]
			}
		}
	}
}

// resolve a destination path through the alias map (head variable rewriting, bounded)
func (r *rctx) resolve(p string) string {
	for i := 0; i < 8; i++ {
		head := p
		rest := ""
		if j := strings.IndexAny(p, ".["); j >= 0 {
			head, rest = p[:j], p[j:]
		}
		t, ok := r.alias[head]
		if !ok || t == head {
			return p
		}
		p = t + rest
	}
	return p
}

// ---------------------------------------------------------------------------------------

func genProto() (string, error) {
	dir := filepath.Join(repo, "net", "proto")
	tf, err := parser.ParseFile(pfset, filepath.Join(dir, "types.go"), nil, 0)
	if err != nil {
		return "", err
	}
	cf, err := parser.ParseFile(pfset, filepath.Join(dir, "connection.go"), nil, 0)
	if err != nil {
		return "", err
	}
	gf, err := parser.ParseFile(pfset, filepath.Join(repo, "gen", "core.go"), nil, 0)
	if err != nil {
		return "", err
	}
	env := &pEnv{consts: map[string]int64{}}
	var constNames []string
	for _, d := range tf.Decls {
		gd, ok := d.(*ast.GenDecl)
		if !ok || gd.Tok != token.CONST {
			continue
		}
		for _, sp := range gd.Specs {
			vs := sp.(*ast.ValueSpec)
			for i, n := range vs.Names {
				if i < len(vs.Values) {
					if bl, ok := vs.Values[i].(*ast.BasicLit); ok && bl.Kind == token.INT {
						v, _ := strconv.ParseInt(bl.Value, 0, 64)
						env.consts[n.Name] = v
						constNames = append(constNames, n.Name)
					}
				}
			}
		}
	}
	if _, ok := env.consts["protoMagic"]; !ok {
		return "", fmt.Errorf("protoMagic not found in types.go")
	}
	// gen.Core parameter names
	params := map[string][]string{}
	ast.Inspect(gf, func(n ast.Node) bool {
		ts, ok := n.(*ast.TypeSpec)
		if !ok || ts.Name.Name != "Core" {
			return true
		}
		it, ok := ts.Type.(*ast.InterfaceType)
		if !ok {
			return false
		}
		for _, m := range it.Methods.List {
			ft, ok := m.Type.(*ast.FuncType)
			if !ok || len(m.Names) == 0 {
				continue
			}
			var ps []string
			for _, p := range ft.Params.List {
				for _, n := range p.Names {
					ps = append(ps, n.Name)
				}
			}
			params[m.Names[0].Name] = ps
		}
		return false
	})
	if len(params["RouteSendPID"]) != 4 {
		return "", fmt.Errorf("gen.Core.RouteSendPID not found")
	}

	kinds := map[int]*pKind{}
	var order []int
	var lateReads []string
	readMin, readMaxCmp := 0, false
	zPre, zType, zCmp, sendMax, zSkip := 0, 0, false, false, 0
	var recvSwitch *ast.SwitchStmt
	for _, d := range cf.Decls {
		fd, ok := d.(*ast.FuncDecl)
		if !ok || fd.Recv == nil || fd.Body == nil {
			continue
		}
		name := fd.Name.Name
		switch {
		case strings.HasPrefix(name, "Send") || strings.HasPrefix(name, "Call") || name == "sendAny":
			for _, cached := range []bool{false, true} {
				w := &wctx{env: env, cached: cached, k: &pKind{writer: name}}
				w.stmts(fd.Body.List, "")
				if cached && !w.sawVar {
					continue
				}
				if w.k.typ == 0 {
					continue
				}
				if _, dup := kinds[w.k.typ]; dup {
					return "", fmt.Errorf("message type %d written by two methods", w.k.typ)
				}
				kinds[w.k.typ] = w.k
				order = append(order, w.k.typ)
			}
		case name == "read":
			ast.Inspect(fd.Body, func(n ast.Node) bool {
				is, ok := n.(*ast.IfStmt)
				if !ok {
					return true
				}
				cs := pstr(is.Cond)
				if b, ok := is.Cond.(*ast.BinaryExpr); ok && b.Op == token.LSS && pstr(b.X) == "l" {
					if v, ok := env.eval(b.Y); ok && returnsError(is.Body) {
						readMin = int(v)
					}
				}
				if strings.Contains(cs, "c.node_maxmessagesize > 0 && l > c.node_maxmessagesize") && returnsError(is.Body) {
					readMaxCmp = true
				}
				return true
			})
		case name == "send":
			ast.Inspect(fd.Body, func(n ast.Node) bool {
				switch v := n.(type) {
				case *ast.AssignStmt:
					if len(v.Lhs) == 1 && pstr(v.Lhs[0]) == "preallocate" {
						if x, ok := env.eval(stripConv(v.Rhs[0])); ok {
							zPre = int(x)
						}
					}
					if len(v.Lhs) == 1 && len(v.Rhs) == 1 && pstr(v.Lhs[0]) == "zbuf.B[7]" {
						if x, ok := env.eval(v.Rhs[0]); ok {
							zType = int(x)
						}
					}
				case *ast.IfStmt:
					cs := pstr(v.Cond)
					if cs == "compression.Enable && buf.Len() > compression.Threshold" {
						zCmp = true
					}
					if cs == "c.peer_maxmessagesize > 0 && buf.Len() > c.peer_maxmessagesize" && returnsErrorOne(v.Body) {
						sendMax = true
					}
				}
				return true
			})
		case name == "handleRecvQueue":
			ast.Inspect(fd.Body, func(n ast.Node) bool {
				sw, ok := n.(*ast.SwitchStmt)
				if ok && sw.Tag != nil {
					if lo, _, _, _, ok := env.bufRange(sw.Tag); ok && lo == 7 && recvSwitch == nil {
						recvSwitch = sw
						return false
					}
				}
				return true
			})
		}
	}
	// capacity of the channels on which a requester waits for a MessageResult (minimum over all sites)
	chanCap, chanSites := -1, 0
	ast.Inspect(cf, func(n ast.Node) bool {
		c, ok := n.(*ast.CallExpr)
		if !ok || pstr(c.Fun) != "make" || len(c.Args) == 0 || pstr(c.Args[0]) != "chan MessageResult" {
			return true
		}
		cp := 0
		if len(c.Args) > 1 {
			if v, ok := env.eval(c.Args[1]); ok {
				cp = int(v)
			}
		}
		if chanCap < 0 || cp < chanCap {
			chanCap = cp
		}
		chanSites++
		return true
	})
	if chanSites == 0 {
		return "", fmt.Errorf("no `make(chan MessageResult…)` found")
	}
	if recvSwitch == nil {
		return "", fmt.Errorf("switch buf.B[7] not found in handleRecvQueue")
	}
	if len(order) < 15 {
		return "", fmt.Errorf("only %d frame writers found", len(order))
	}
	for _, cc := range recvSwitch.Body.List {
		cl := cc.(*ast.CaseClause)
		for _, e := range cl.List {
			id := pstr(e)
			t, ok := env.consts[id]
			if !ok {
				continue
			}
			k := kinds[int(t)]
			if k == nil {
				k = &pKind{name: strings.TrimPrefix(id, "proto"), typ: int(t)}
				kinds[int(t)] = k
				order = append(order, int(t))
			}
			r := &rctx{env: env, kindID: id, k: k, alias: map[string]string{}, dataVar: "data", params: params}
			r.stmts(cl.Body)
			for i := range k.reads {
				k.reads[i].name = canonRead(r.resolve(k.reads[i].name), k.reads[i].width)
			}
			lateReads = append(lateReads, r.late...)
			k.recvFound = true
		}
	}
	sort.Ints(order)

	var sb strings.Builder
	sb.WriteString("namespace ErgoVerif.Generated.Proto\n\n")
	sb.WriteString("/-- net/proto/types.go -/\n")
	sort.Strings(constNames)
	for _, n := range constNames {
		fmt.Fprintf(&sb, "def %s : Nat := %d\n", n, env.consts[n])
	}
	fmt.Fprintf(&sb, "\n/-- read(): lower bound enforced on the length field (`if l < N { return error }`), 0 = no guard -/\ndef readMinLen : Nat := %d\n", readMin)
	fmt.Fprintf(&sb, "/-- read(): `c.node_maxmessagesize > 0 && l > c.node_maxmessagesize` returns an error -/\ndef readChecksMax : Bool := %v\n\n", readMaxCmp)
	ast.Inspect(recvSwitch, func(n ast.Node) bool {
		if a, ok := n.(*ast.AssignStmt); ok && len(a.Lhs) == 1 && pstr(a.Lhs[0]) == "skipBytes" {
			if x, ok := env.eval(a.Rhs[0]); ok {
				zSkip = int(x)
			}
		}
		return true
	})
	if zPre == 0 || zType == 0 || zSkip == 0 {
		return "", fmt.Errorf("compression envelope constants not found in send()/handleRecvQueue (preallocate=%d type=%d skip=%d)", zPre, zType, zSkip)
	}
	fmt.Fprintf(&sb, "/-- send(): header bytes reserved in front of the compressed data (`preallocate`), type byte written at zbuf.B[7] -/\ndef zPreallocate : Nat := %d\ndef zTypeByte : Nat := %d\n", zPre, zType)
	fmt.Fprintf(&sb, "/-- handleRecvQueue, case protoMessageZ: `skipBytes` -/\ndef zSkipBytes : Nat := %d\n", zSkip)
	fmt.Fprintf(&sb, "/-- send(): the compression condition is literally `compression.Enable && buf.Len() > compression.Threshold` -/\ndef zStrictThreshold : Bool := %v\n", zCmp)
	fmt.Fprintf(&sb, "/-- send(): `c.peer_maxmessagesize > 0 && buf.Len() > c.peer_maxmessagesize` returns an error before anything is written -/\ndef sendChecksMax : Bool := %v\n\n", sendMax)
	fmt.Fprintf(&sb, "/-- smallest capacity of a `make(chan MessageResult…)` a requester waits on (%d sites); the reply is handed over with a non-blocking send -/\ndef requestChanCap : Nat := %d\n\n", chanSites, chanCap)
	// error-code tables of the important-delivery / call-failure acknowledgement
	seenW := map[string]bool{}
	var wl, rl []string
	for _, e := range errCodesW {
		if !seenW[e.name] {
			seenW[e.name] = true
			wl = append(wl, fmt.Sprintf("(%q, %d)", e.name, e.code))
		}
	}
	for _, e := range errCodesR {
		rl = append(rl, fmt.Sprintf("(%d, %q)", e.code, e.name))
	}
	if len(wl) < 2 || len(rl) < 2 {
		return "", fmt.Errorf("error-code tables of SendResponseError / MessageResponseError not found (%d/%d)", len(wl), len(rl))
	}
	fmt.Fprintf(&sb, "/-- SendResponseError: `switch err` → code byte (\"default\" = any other error: code, then the EDF-encoded error) -/\ndef errCodeW : List (String × Nat) := [%s]\n", strings.Join(wl, ", "))
	fmt.Fprintf(&sb, "/-- receive case MessageResponseError: code byte → error (\"decode\" = EDF-decode the error that follows, \"nil\" = success) -/\ndef errCodeR : List (Nat × String) := [%s]\n\n", strings.Join(rl, ", "))
	var lq []string
	for _, l := range lateReads {
		lq = append(lq, fmt.Sprintf("%q", l))
	}
	fmt.Fprintf(&sb, "/-- header reads of a receive case that come after a `lib.ReleaseBuffer(buf)` on the same path (kind@offset) -/\ndef readsAfterRelease : List String := [%s]\n\n", strings.Join(lq, ", "))
	sb.WriteString(protoStructs)
	sb.WriteString("def kinds : List Kind := [\n")
	for i, t := range order {
		k := kinds[t]
		if i > 0 {
			sb.WriteString(",\n")
		}
		fmt.Fprintf(&sb, "  { name := %q, typ := %d, writer := %q, route := %q, alloc := %d, inlineName := %v,\n", k.name, k.typ, k.writer, k.route, k.alloc, k.inlineName)
		fmt.Fprintf(&sb, "    guard := %d, guard2 := %d, guardName := %d, payloadOff := %d, payloadName := %v,\n", k.guard, k.guard2, k.guardName, k.payloadOff, k.payloadName)
		fmt.Fprintf(&sb, "    earlyMax := %v, incarnation := %v, compress := %v, recv := %v,\n", k.earlyMax, k.incarnation, k.compress, k.recvFound)
		fmt.Fprintf(&sb, "    writes := %s,\n    reads := %s }", fldList(k.writes), fldList(k.reads))
	}
	sb.WriteString("\n]\n\nend ErgoVerif.Generated.Proto\n")
	facts.Values["proto.kinds"] = len(order)
	facts.Values["proto.readMinLen"] = readMin
	return sb.String(), nil
}

// canonRead: local names of the receive cases that never reach a Route* parameter, and one spelling
// slip in gen.Core (`terget`), are mapped to the names used on the writer side.
func canonRead(n string, width int) string {
	if width == 0 && (strings.HasSuffix(n, ".Name") || strings.HasSuffix(n, "Name")) {
		return "name"
	}
	switch n {
	case "l":
		return "name.len"
	case "id":
		return "cacheid"
	}
	return strings.Replace(n, "terget", "target", 1)
}

func returnsError(b *ast.BlockStmt) bool {
	for _, s := range b.List {
		if r, ok := s.(*ast.ReturnStmt); ok && len(r.Results) == 2 && pstr(r.Results[1]) != "nil" {
			return true
		}
	}
	return false
}

func returnsErrorOne(b *ast.BlockStmt) bool {
	for _, s := range b.List {
		if r, ok := s.(*ast.ReturnStmt); ok && len(r.Results) == 1 && pstr(r.Results[0]) != "nil" {
			return true
		}
	}
	return false
}

func fldList(fs []pFld) string {
	var parts []string
	for _, f := range fs {
		parts = append(parts, fmt.Sprintf("⟨%q, %d, %d, %d, %q⟩", f.name, f.off, f.width, f.mask, f.cond))
	}
	return "[" + strings.Join(parts, ", ") + "]"
}

const protoStructs = `/-- one header access: destination/source name, offset, width in bytes (0 = variable: name bytes),
    bit mask (0 = whole field), condition under which the writer performs it ("" = always) -/
structure Fld where
  name  : String
  off   : Nat
  width : Nat
  mask  : Nat
  cond  : String
deriving Repr, DecidableEq, Inhabited

/-- one frame kind: the writer method and the receive case of the same message-type byte -/
structure Kind where
  name        : String
  typ         : Nat
  writer      : String
  route       : String
  alloc       : Nat
  inlineName  : Bool
  guard       : Nat
  guard2      : Nat
  guardName   : Nat
  payloadOff  : Nat
  payloadName : Bool
  earlyMax    : Bool
  incarnation : Bool
  compress    : Bool
  recv        : Bool
  writes      : List Fld
  reads       : List Fld
deriving Repr, Inhabited

`

const protoFallback = `namespace ErgoVerif.Generated.Proto
def protoMagic : Nat := 0
def protoVersion : Nat := 0
def protoMessageZ : Nat := 0
def readMinLen : Nat := 0
def readChecksMax : Bool := false
def zPreallocate : Nat := 0
def zTypeByte : Nat := 0
def zSkipBytes : Nat := 0
def zStrictThreshold : Bool := false
def sendChecksMax : Bool := false
def requestChanCap : Nat := 0
def errCodeW : List (String × Nat) := []
def errCodeR : List (Nat × String) := []
def readsAfterRelease : List String := ["anchor not found"]
` + protoStructs + `def kinds : List Kind := []
end ErgoVerif.Generated.Proto
`

import ErgoVerif.Model.Handshake
/-! basic facts about the term algebra, and the digest sites of the current source evaluated once -/
namespace ErgoVerif.Handshake
open ErgoVerif.Generated

theorem Atoms.toList_ofList (l : List Atom) : (Atoms.ofList l).toList = l := by
  induction l <;> simp [Atoms.ofList, Atoms.toList, *]

theorem Atoms.ofList_inj {l1 l2 : List Atom} (h : Atoms.ofList l1 = Atoms.ofList l2) : l1 = l2 := by
  have := congrArg Atoms.toList h
  simpa [Atoms.toList_ofList] using this

/-- SHA-256 is modelled as injective -/
@[simp] theorem H_inj (l1 l2 : List Atom) : H l1 = H l2 ↔ l1 = l2 := by
  constructor
  · intro h; simp only [H, Atom.hash.injEq] at h; exact Atoms.ofList_inj h
  · intro h; rw [h]

@[simp] theorem H_ne_nonce (l : List Atom) (n : Nat) : H l ≠ .nonce n := by simp [H]
@[simp] theorem H_ne_cookie (l : List Atom) (n : Nat) : H l ≠ .cookie n := by simp [H]
@[simp] theorem nonce_ne_H (l : List Atom) (n : Nat) : Atom.nonce n ≠ H l := by simp [H]
@[simp] theorem cookie_ne_H (l : List Atom) (n : Nat) : Atom.cookie n ≠ H l := by simp [H]

theorem Atoms.occurs_ofList (x : Nat) (l : List Atom) :
    (Atoms.ofList l).occurs x = l.any (·.occurs x) := by
  induction l with
  | nil => simp [Atoms.ofList, Atoms.occurs]
  | cons a as ih => simp [Atoms.ofList, Atoms.occurs, ih]

@[simp] theorem occurs_H (x : Nat) (l : List Atom) : (H l).occurs x = l.any (·.occurs x) := by
  simp [H, Atom.occurs, Atoms.occurs_ofList]

@[simp] theorem occurs_nonce (x n : Nat) : (Atom.nonce n).occurs x = (n == x) := by simp [Atom.occurs]
@[simp] theorem occurs_cookie (x n : Nat) : (Atom.cookie n).occurs x = false := by simp [Atom.occurs]

theorem Atoms.ofList_toList : ∀ as : Atoms, Atoms.ofList as.toList = as
  | .nil => rfl
  | .cons a as => by simp [Atoms.toList, Atoms.ofList, Atoms.ofList_toList as]

/-- every hash atom is `H` of a list -/
theorem hash_eq_H (as : Atoms) : Atom.hash as = H as.toList := by
  simp [H, Atoms.ofList_toList]

/- the digest sites of the current source (Generated/Hs.lean), evaluated: if the source changes which
   values are hashed, or their order, or drops a check, these stop being provable -/
section sites
variable (e : Env)

@[simp] theorem start_hello_digest : setDigest .start .top .helloDigest e = [H (e.ownSalt ++ e.cookie)] := by
  simp [setDigest, site, Hs.sites, digestOf, Env.get]
@[simp] theorem start_check_hello (r : Field) :
    checkOk .start .top .helloDigest e r = (r == [H (e.peerSalt ++ e.ownDigest ++ e.cookie)]) := by
  simp [checkOk, site, Hs.sites, digestOf, Env.get]
@[simp] theorem start_intro_digest : setDigest .start .top .introDigest e = [H (e.peerSalt ++ e.cookie)] := by
  simp [setDigest, site, Hs.sites, digestOf, Env.get]
@[simp] theorem accept_check_hello (r : Field) :
    checkOk .accept .hello .helloDigest e r = (r == [H (e.peerSalt ++ e.cookie)]) := by
  simp [checkOk, site, Hs.sites, digestOf, Env.get]
@[simp] theorem accept_hello_digest :
    setDigest .accept .hello .helloDigest e = [H (e.ownSalt ++ e.peerDigest ++ e.cookie)] := by
  simp [setDigest, site, Hs.sites, digestOf, Env.get]
@[simp] theorem accept_check_intro (r : Field) :
    checkOk .accept .top .introDigest e r = (r == [H (e.ownSalt ++ e.cookie)]) := by
  simp [checkOk, site, Hs.sites, digestOf, Env.get]
@[simp] theorem accept_check_join (r : Field) :
    checkOk .accept .join .joinDigest e r = (r == [H (e.connId ++ e.peerSalt ++ e.cookie)]) := by
  simp [checkOk, site, Hs.sites, digestOf, Env.get]
@[simp] theorem accept_join_digest :
    setDigest .accept .join .acceptDigest e = [H (e.peerDigest ++ e.cookie)] := by
  simp [setDigest, site, Hs.sites, digestOf, Env.get]
@[simp] theorem join_digest : setDigest .join .top .joinDigest e = [H (e.connId ++ e.ownSalt ++ e.cookie)] := by
  simp [setDigest, site, Hs.sites, digestOf, Env.get]
@[simp] theorem join_check_accept (r : Field) :
    checkOk .join .top .acceptDigest e r = (r == [H (e.ownDigest ++ e.cookie)]) := by
  simp [checkOk, site, Hs.sites, digestOf, Env.get]
end sites

/- adversary -/

theorem cookie_secret {K : Atom → Prop} {adv : Nat → Prop} {c : Nat} (hk : ¬ K (.cookie c)) :
    ¬ Derivable K adv (.cookie c) := by
  intro h
  generalize hx : Atom.cookie c = x at h
  cases h with
  | ax h => exact hk (hx ▸ h)
  | own _ => cases hx
  | hash _ => simp [H] at hx

theorem hash_origin {K : Atom → Prop} {adv : Nat → Prop} {l : List Atom} (h : Derivable K adv (H l)) :
    K (H l) ∨ ∀ t ∈ l, Derivable K adv t := by
  generalize hx : H l = x at h
  cases h with
  | ax h => exact Or.inl (hx ▸ h)
  | own _ => simp [H] at hx
  | hash h' =>
    rename_i l'
    have : l = l' := (H_inj _ _).mp hx
    subst this
    exact Or.inr h'

theorem Derivable.mono {K K' : Atom → Prop} {adv : Nat → Prop} (hkk : ∀ t, K t → K' t) {t : Atom}
    (h : Derivable K adv t) : Derivable K' adv t := by
  induction h with
  | ax h => exact .ax (hkk _ h)
  | own h => exact .own h
  | hash _ ih => exact .hash ih

/-- a hash whose last argument is the cookie can only be known, never built -/
theorem hash_cookie_known {K : Atom → Prop} {adv : Nat → Prop} {c : Nat} (hk : ¬ K (.cookie c))
    {l : List Atom} (h : Derivable K adv (H (l ++ [.cookie c]))) : K (H (l ++ [.cookie c])) := by
  rcases hash_origin h with h | h
  · exact h
  · exact absurd (h (.cookie c) (by simp)) (cookie_secret hk)

end ErgoVerif.Handshake

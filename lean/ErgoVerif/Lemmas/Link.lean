import ErgoVerif.Model.Link
/-!
The pipeline invariant behind C13: for a pair (src, dst) whose two order bytes are non-zero and a
constant pool, all frames of the pair travel through ONE link and ONE receive queue, and

    delivered|pair ++ queue*|pair ++ link*|pair = sent|pair

holds in every reachable state, whatever the interleaving of `deliver` / `work` events.
-/
namespace ErgoVerif.Link
open ErgoVerif.Gen.Arith

@[simp] theorem upd_same {α} (f : Nat → α) (i : Nat) (v : α) : upd f i v i = v := by simp [upd]
theorem upd_other {α} (f : Nat → α) {i j : Nat} (v : α) (h : j ≠ i) : upd f i v j = f j := by simp [upd, h]

def pf (src dst : Nat) (fr : Frame) : Bool := pair src dst fr.msg

/-- the pair's messages among a list of frames, in list order -/
def proj (src dst : Nat) (l : List Frame) : List Msg := (l.filter (pf src dst)).map (·.msg)

def one (src dst : Nat) (fr : Frame) : List Msg := if pf src dst fr then [fr.msg] else []

@[simp] theorem proj_nil (src dst : Nat) : proj src dst [] = [] := rfl

theorem proj_cons (src dst : Nat) (fr : Frame) (l : List Frame) :
    proj src dst (fr :: l) = one src dst fr ++ proj src dst l := by
  unfold proj one
  by_cases h : pf src dst fr = true <;> simp [List.filter_cons, h]

theorem proj_snoc (src dst : Nat) (fr : Frame) (l : List Frame) :
    proj src dst (l ++ [fr]) = proj src dst l ++ one src dst fr := by
  unfold proj one
  by_cases h : pf src dst fr = true <;> simp [List.filter_append, List.filter_cons, h]

theorem filter_snoc (src dst : Nat) (m : Msg) (l : List Msg) :
    (l ++ [m]).filter (pair src dst) = l.filter (pair src dst) ++ (if pair src dst m then [m] else []) := by
  by_cases h : pair src dst m = true <;> simp [List.filter_append, List.filter_cons, h]

theorem one_of_not {src dst : Nat} {fr : Frame} (h : pf src dst fr = false) : one src dst fr = [] := by
  simp [one, h]

theorem proj_eq_nil_head {src dst : Nat} {fr : Frame} {l : List Frame}
    (h : proj src dst (fr :: l) = []) : pf src dst fr = false ∧ proj src dst l = [] := by
  rw [proj_cons] at h
  have := List.append_eq_nil_iff.mp h
  refine ⟨?_, this.2⟩
  by_cases hp : pf src dst fr = true
  · simp [one, hp] at this
  · simpa using hp

/-- the link all ordered frames of a sender with order byte `o` take in a pool -/
def linkStar (pool : List Nat) (src : Nat) : Nat := pool.getD (poolIndex (orderByte src) pool.length) 0
/-- the receive queue all frames with the wire byte of `dst` take -/
def queueStar (nq : Nat) (dst : Nat) : Nat := queueIndex (orderByte dst) 0 nq

structure Inv (pool : List Nat) (nq src dst : Nat) (s : St) : Prop where
  pool_eq : s.pool = pool
  nq_eq : s.nq = nq
  pipe : s.delivered.filter (pair src dst) ++ proj src dst (s.queues (queueStar nq dst))
           ++ proj src dst (s.links (linkStar pool src)) = s.sent.filter (pair src dst)
  links_other : ∀ l, l ≠ linkStar pool src → proj src dst (s.links l) = []
  queues_other : ∀ q, q ≠ queueStar nq dst → proj src dst (s.queues q) = []
  wire : ∀ l fr, fr ∈ s.links l → pf src dst fr = true → fr.wire = orderByte dst

theorem init_inv (pool : List Nat) (nq src dst : Nat) : Inv pool nq src dst (init pool nq) :=
  ⟨rfl, rfl, rfl, fun _ _ => rfl, fun _ _ => rfl, fun _ _ h => by simp [init] at h⟩

/-- generated arithmetic: a non-zero order byte never selects round robin -/
theorem roundRobin_false {o : Nat} (h : o ≠ 0) : roundRobin o = false := by
  simp [roundRobin, h]

/-- generated arithmetic: for a non-zero wire byte the queue does not depend on the link's frame counter -/
theorem queueIndex_indep {o : Nat} (h : o ≠ 0) (n n' nq : Nat) : queueIndex o n nq = queueIndex o n' nq := by
  have : o > 0 := Nat.pos_of_ne_zero h
  simp [queueIndex, this]

theorem send_inv {pool : List Nat} {nq src dst : Nat} {s : St}
    (hs : orderByte src ≠ 0) (h : Inv pool nq src dst s) (a b : Nat) (keep : Bool)
    (hk : a = src → b = dst → keep = true) : Inv pool nq src dst (step s (.send a b keep)) := by
  unfold step
  by_cases hp : s.pool.length = 0
  · simp only [hp, ↓reduceIte]; exact h
  · simp only [hp, ↓reduceIte]
    -- the frame and the link it goes to
    generalize hm : (⟨a, b, s.sent.length⟩ : Msg) = m
    generalize hfr : (⟨m, orderOf b keep⟩ : Frame) = fr
    generalize hc : chooseLink s (orderOf a keep) = c
    have hpfm : pf src dst fr = pair src dst m := by subst hfr; rfl
    -- a frame of the pair goes to the pair's link and carries the pair's wire byte
    have key : pair src dst m = true → c.1 = linkStar pool src ∧ fr.wire = orderByte dst := by
      intro hpm
      subst hm
      simp only [pair, Bool.and_eq_true, decide_eq_true_eq] at hpm
      obtain ⟨ha, hb⟩ := hpm
      have hkeep := hk ha hb
      subst ha hb hkeep hfr hc
      refine ⟨?_, by simp [orderOf]⟩
      simp only [chooseLink, orderOf, ↓reduceIte, roundRobin_false hs, Bool.false_eq_true]
      simp [linkStar, h.pool_eq]
    have hone : one src dst fr = if pair src dst m then [m] else [] := by
      unfold one; rw [hpfm]; subst hfr; rfl
    refine ⟨h.pool_eq, h.nq_eq, ?_, ?_, ?_, ?_⟩
    · -- pipe
      show s.delivered.filter (pair src dst) ++ proj src dst (s.queues (queueStar nq dst))
            ++ proj src dst (upd s.links c.1 (s.links c.1 ++ [fr]) (linkStar pool src))
            = (s.sent ++ [m]).filter (pair src dst)
      rw [filter_snoc, ← h.pipe]
      by_cases hl : c.1 = linkStar pool src
      · rw [hl, upd_same, proj_snoc, hone]; simp [List.append_assoc]
      · have hnp : pair src dst m = false := by
          cases hpm : pair src dst m with
          | false => rfl
          | true => exact absurd (key hpm).1 hl
        rw [upd_other _ _ (Ne.symm hl), hnp]; simp
    · -- links_other
      intro l hl
      show proj src dst (upd s.links c.1 (s.links c.1 ++ [fr]) l) = []
      by_cases e : l = c.1
      · subst e
        rw [upd_same, proj_snoc, h.links_other _ hl, hone]
        have hnp : pair src dst m = false := by
          cases hpm : pair src dst m with
          | false => rfl
          | true => exact absurd (key hpm).1 hl
        simp [hnp]
      · rw [upd_other _ _ e]; exact h.links_other l hl
    · exact h.queues_other
    · -- wire
      intro l fr' hmem hpf
      change fr' ∈ upd s.links c.1 (s.links c.1 ++ [fr]) l at hmem
      by_cases e : l = c.1
      · subst e
        rw [upd_same, List.mem_append, List.mem_singleton] at hmem
        rcases hmem with hmem | rfl
        · exact h.wire _ _ hmem hpf
        · exact (key (hpfm ▸ hpf)).2
      · rw [upd_other _ _ e] at hmem; exact h.wire _ _ hmem hpf

theorem step_deliver_nil {s : St} {l : Nat} (h : s.links l = []) : step s (.deliver l) = s := by
  simp [step, h]
theorem step_deliver_cons {s : St} {l : Nat} {fr : Frame} {rest : List Frame} (h : s.links l = fr :: rest) :
    step s (.deliver l) =
      { s with links := upd s.links l rest, recvN := upd s.recvN l (s.recvN l + 1),
               queues := upd s.queues (queueIndex fr.wire (s.recvN l + 1) s.nq)
                           (s.queues (queueIndex fr.wire (s.recvN l + 1) s.nq) ++ [fr]) } := by
  simp [step, h]
theorem step_work_nil {s : St} {q : Nat} (h : s.queues q = []) : step s (.work q) = s := by
  simp [step, h]
theorem step_work_cons {s : St} {q : Nat} {fr : Frame} {rest : List Frame} (h : s.queues q = fr :: rest) :
    step s (.work q) = { s with queues := upd s.queues q rest, delivered := s.delivered ++ [fr.msg] } := by
  simp [step, h]

theorem deliver_inv {pool : List Nat} {nq src dst : Nat} {s : St}
    (hd : orderByte dst ≠ 0) (h : Inv pool nq src dst s) (l : Nat) :
    Inv pool nq src dst (step s (.deliver l)) := by
  cases hl : s.links l with
  | nil => rw [step_deliver_nil hl]; exact h
  | cons fr rest =>
    rw [step_deliver_cons hl]
    generalize hq : queueIndex fr.wire (s.recvN l + 1) s.nq = q
    -- a frame of the pair sits on the pair's link and goes to the pair's queue
    have key : pf src dst fr = true → l = linkStar pool src ∧ q = queueStar nq dst := by
      intro hpf
      have hl' : l = linkStar pool src := by
        by_cases e : l = linkStar pool src
        · exact e
        · have := h.links_other l e
          rw [hl] at this
          have := (proj_eq_nil_head this).1
          simp [hpf] at this
      have hw : fr.wire = orderByte dst := h.wire l fr (by rw [hl]; exact List.mem_cons_self) hpf
      refine ⟨hl', ?_⟩
      rw [← hq, hw, h.nq_eq]
      exact queueIndex_indep hd _ _ _
    have hnot : pf src dst fr = false → one src dst fr = [] := one_of_not
    refine ⟨h.pool_eq, h.nq_eq, ?_, ?_, ?_, ?_⟩
    · show s.delivered.filter (pair src dst)
            ++ proj src dst (upd s.queues q (s.queues q ++ [fr]) (queueStar nq dst))
            ++ proj src dst (upd s.links l rest (linkStar pool src)) = s.sent.filter (pair src dst)
      rw [← h.pipe]
      cases hpf : pf src dst fr with
      | true =>
        obtain ⟨e1, e2⟩ := key hpf
        subst e1 e2
        rw [upd_same, upd_same, proj_snoc, hl, proj_cons]
        simp [List.append_assoc]
      | false =>
        have hL : proj src dst (upd s.links l rest (linkStar pool src)) = proj src dst (s.links (linkStar pool src)) := by
          by_cases e : linkStar pool src = l
          · rw [e, upd_same, hl, proj_cons, hnot hpf]; rfl
          · rw [upd_other _ _ e]
        have hQ : proj src dst (upd s.queues q (s.queues q ++ [fr]) (queueStar nq dst)) = proj src dst (s.queues (queueStar nq dst)) := by
          by_cases e : queueStar nq dst = q
          · rw [e, upd_same, proj_snoc, hnot hpf]; simp
          · rw [upd_other _ _ e]
        rw [hL, hQ]
    · intro l0 hl0
      show proj src dst (upd s.links l rest l0) = []
      by_cases e : l0 = l
      · subst e
        rw [upd_same]
        have := h.links_other l0 hl0
        rw [hl] at this
        exact (proj_eq_nil_head this).2
      · rw [upd_other _ _ e]; exact h.links_other l0 hl0
    · intro q0 hq0
      show proj src dst (upd s.queues q (s.queues q ++ [fr]) q0) = []
      by_cases e : q0 = q
      · subst e
        rw [upd_same, proj_snoc, h.queues_other _ hq0]
        cases hpf : pf src dst fr with
        | true => exact absurd (key hpf).2 hq0
        | false => simp [hnot hpf]
      · rw [upd_other _ _ e]; exact h.queues_other q0 hq0
    · intro l0 fr' hmem hpf
      change fr' ∈ upd s.links l rest l0 at hmem
      by_cases e : l0 = l
      · subst e
        rw [upd_same] at hmem
        exact h.wire l0 fr' (by rw [hl]; exact List.mem_cons_of_mem _ hmem) hpf
      · rw [upd_other _ _ e] at hmem; exact h.wire _ _ hmem hpf

theorem work_inv {pool : List Nat} {nq src dst : Nat} {s : St}
    (h : Inv pool nq src dst s) (q : Nat) : Inv pool nq src dst (step s (.work q)) := by
  cases hq : s.queues q with
  | nil => rw [step_work_nil hq]; exact h
  | cons fr rest =>
    rw [step_work_cons hq]
    have key : pf src dst fr = true → q = queueStar nq dst := by
      intro hpf
      by_cases e : q = queueStar nq dst
      · exact e
      · have := h.queues_other q e
        rw [hq] at this
        have := (proj_eq_nil_head this).1
        simp [hpf] at this
    refine ⟨h.pool_eq, h.nq_eq, ?_, h.links_other, ?_, h.wire⟩
    · show (s.delivered ++ [fr.msg]).filter (pair src dst)
            ++ proj src dst (upd s.queues q rest (queueStar nq dst))
            ++ proj src dst (s.links (linkStar pool src)) = s.sent.filter (pair src dst)
      rw [← h.pipe, filter_snoc]
      cases hpf : pf src dst fr with
      | true =>
        have e := key hpf
        subst e
        have hp' : pair src dst fr.msg = true := hpf
        rw [upd_same, hq, proj_cons, hp']
        simp [one, hpf, List.append_assoc]
      | false =>
        have hp' : pair src dst fr.msg = false := hpf
        rw [hp']
        have hQ : proj src dst (upd s.queues q rest (queueStar nq dst)) = proj src dst (s.queues (queueStar nq dst)) := by
          by_cases e : queueStar nq dst = q
          · rw [e, upd_same, hq, proj_cons, one_of_not hpf]; rfl
          · rw [upd_other _ _ e]
        rw [hQ]; simp
    · intro q0 hq0
      show proj src dst (upd s.queues q rest q0) = []
      by_cases e : q0 = q
      · subst e
        rw [upd_same]
        have := h.queues_other q0 hq0
        rw [hq] at this
        exact (proj_eq_nil_head this).2
      · rw [upd_other _ _ e]; exact h.queues_other q0 hq0

/-- the invariant survives every event that is not a pool change, provided the pair's own sends keep order -/
theorem step_inv {pool : List Nat} {nq src dst : Nat} {s : St}
    (hs : orderByte src ≠ 0) (hd : orderByte dst ≠ 0) (h : Inv pool nq src dst s) (e : Ev)
    (hnp : e.isPoolChange = false) (hk : ∀ k, e = .send src dst k → k = true) :
    Inv pool nq src dst (step s e) := by
  cases e with
  | send a b keep =>
    apply send_inv hs h
    intro ha hb; subst ha hb; exact hk keep rfl
  | deliver l => exact deliver_inv hd h l
  | work q => exact work_inv h q
  | join l => simp [Ev.isPoolChange] at hnp
  | drop i => simp [Ev.isPoolChange] at hnp
  | redial i l => simp [Ev.isPoolChange] at hnp

theorem run_inv {pool : List Nat} {nq src dst : Nat}
    (hs : orderByte src ≠ 0) (hd : orderByte dst ≠ 0) (es : List Ev) :
    ∀ {s : St}, Inv pool nq src dst s →
      (∀ e ∈ es, e.isPoolChange = false) → (∀ e ∈ es, ∀ k, e = .send src dst k → k = true) →
      Inv pool nq src dst (run s es) := by
  induction es with
  | nil => intro s h _ _; exact h
  | cons e es ih =>
    intro s h hnp hk
    exact ih (step_inv hs hd h e (hnp e List.mem_cons_self) (hk e List.mem_cons_self))
      (fun e' he' => hnp e' (List.mem_cons_of_mem _ he')) (fun e' he' => hk e' (List.mem_cons_of_mem _ he'))

/-! ### sequence numbers -/

/-- `sent` carries the sequence numbers 0, 1, 2, … -/
def SeqOk (s : St) : Prop := s.sent.map (·.seq) = List.range s.sent.length

theorem step_sent (s : St) (e : Ev) :
    (step s e).sent = s.sent ∨ ∃ a b, (step s e).sent = s.sent ++ [⟨a, b, s.sent.length⟩] := by
  cases e with
  | send a b keep =>
    by_cases hp : s.pool.length = 0
    · left; simp [step, hp]
    · right; exact ⟨a, b, by simp [step, hp]⟩
  | deliver l =>
    left
    cases hl : s.links l with
    | nil => rw [step_deliver_nil hl]
    | cons fr rest => rw [step_deliver_cons hl]
  | work q =>
    left
    cases hq : s.queues q with
    | nil => rw [step_work_nil hq]
    | cons fr rest => rw [step_work_cons hq]
  | join l => left; rfl
  | drop i => left; by_cases hi : i < s.pool.length <;> simp [step, hi]
  | redial i l => left; rfl

theorem step_seqOk {s : St} (h : SeqOk s) (e : Ev) : SeqOk (step s e) := by
  unfold SeqOk at *
  rcases step_sent s e with h1 | ⟨a, b, h1⟩
  · rw [h1]; exact h
  · rw [h1, List.map_append, List.length_append, h, List.length_singleton, List.range_succ]; rfl

theorem run_seqOk (es : List Ev) : ∀ {s : St}, SeqOk s → SeqOk (run s es) := by
  induction es with
  | nil => intro s h; exact h
  | cons e es ih => intro s h; exact ih (step_seqOk h e)

end ErgoVerif.Link

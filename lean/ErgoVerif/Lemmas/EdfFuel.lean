import ErgoVerif.Lemmas.EdfTop
namespace ErgoVerif.Edf
open ErgoVerif.Generated.Edt

/-- `a` is `err` (possibly for lack of fuel) or already the final answer -/
def Res.Le {α : Type} (a b : Res α) : Prop := a = .err ∨ a = b

theorem iterV_mono (g g' : Bytes → Res (Val × Bytes)) (h : ∀ bs, Res.Le (g bs) (g' bs)) :
    ∀ n bs, Res.Le (iterV g n bs) (iterV g' n bs)
  | 0, bs => Or.inr rfl
  | n+1, bs => by
    simp only [iterV]
    rcases h bs with he | he
    · left; simp [he]
    · rw [← he]
      cases hg : g bs with
      | err => left; rfl
      | panic => right; rfl
      | ok p =>
        obtain ⟨v, r⟩ := p
        simp only
        rcases iterV_mono g g' h n r with h2 | h2
        · left; simp [h2]
        · right; rw [h2]

theorem iterF_mono (g g' : Ty → Bytes → Res (Val × Bytes)) (h : ∀ t bs, Res.Le (g t bs) (g' t bs)) :
    ∀ (fs : Tys) bs, Res.Le (iterF g fs bs) (iterF g' fs bs)
  | .nil, bs => Or.inr rfl
  | .cons t ts, bs => by
    simp only [iterF]
    rcases h t bs with he | he
    · left; simp [he]
    · rw [← he]
      cases hg : g t bs with
      | err => left; rfl
      | panic => right; rfl
      | ok p =>
        obtain ⟨v, r⟩ := p
        simp only
        rcases iterF_mono g g' h ts r with h2 | h2
        · left; simp [h2]
        · right; rw [h2]

theorem iterP_mono (gk gk' gv gv' : Bytes → Res (Val × Bytes)) (hk : ∀ bs, Res.Le (gk bs) (gk' bs))
    (hv : ∀ bs, Res.Le (gv bs) (gv' bs)) : ∀ n acc bs, Res.Le (iterP gk gv n acc bs) (iterP gk' gv' n acc bs)
  | 0, acc, bs => Or.inr rfl
  | n+1, acc, bs => by
    simp only [iterP]
    rcases hk bs with he | he
    · left; simp [he]
    · rw [← he]
      cases hg : gk bs with
      | err => left; rfl
      | panic => right; rfl
      | ok p =>
        obtain ⟨k, r⟩ := p
        simp only
        rcases hv r with he2 | he2
        · left; simp [he2]
        · rw [← he2]
          cases hg2 : gv r with
          | err => left; rfl
          | panic => right; rfl
          | ok p2 =>
            obtain ⟨v, r'⟩ := p2
            simp only
            by_cases hh : k.hashable = true
            · simp only [hh, ↓reduceIte]; exact iterP_mono gk gk' gv gv' hk hv n _ _
            · right; simp [hh]

/-- fuel is only a bound on the nesting depth: with more fuel an `ok` or `panic` answer never changes -/
theorem dec_mono (o : Opts) : ∀ (f g : Nat), f ≤ g → ∀ (dt : Bool) (t : Ty) (bs : Bytes), Res.Le (dec o f dt t bs) (dec o g dt t bs)
  | 0, _, _, dt, t, bs => Or.inl (by simp [dec])
  | f+1, 0, hle, _, _, _ => by omega
  | f+1, g+1, hle, dt, t, bs => by
    have ih : ∀ dt t bs, Res.Le (dec o f dt t bs) (dec o g dt t bs) := dec_mono o f g (by omega)
    have hv : ∀ t' n bs', Res.Le (iterV (dec o f false t') n bs') (iterV (dec o g false t') n bs') :=
      fun t' n bs' => iterV_mono _ _ (ih false t') n bs'
    have hp : ∀ kt vt n bs', Res.Le (iterP (dec o f false kt) (dec o f false vt) n .nil bs')
        (iterP (dec o g false kt) (dec o g false vt) n .nil bs') :=
      fun kt vt n bs' => iterP_mono _ _ _ _ (ih false kt) (ih false vt) n .nil bs'
    cases t
    case any =>
      simp only [dec]
      cases hg : getDecoder o dt bs with
      | err => left; rfl
      | panic => right; rfl
      | ok p =>
        obtain ⟨ot, r, dt'⟩ := p
        cases ot with
        | none => right; rfl
        | some t' =>
          simp only
          rcases ih dt' t' r with h | h
          · left; simp [h]
          · right; rw [h]
    case slice t' =>
      simp only [dec]
      cases bs with
      | nil => left; rfl
      | cons b r =>
        simp only
        by_cases h1 : b = edtNil
        · right; simp [h1]
        · by_cases h2 : b ≠ edtSlice
          · left; simp [h1, h2]
          · simp only [h1, h2, ↓reduceIte]
            cases h32 : rd32 r with
            | none => left; rfl
            | some p =>
              obtain ⟨n, r'⟩ := p
              simp only
              by_cases h3 : n = 0
              · right; simp [h3]
              · by_cases h4 : lenLt r' n = true
                · left; simp only [h3, h4, ↓reduceIte]
                · simp only [h3, h4, ↓reduceIte]
                  rcases hv t' n r' with h | h
                  · left; simp [h]
                  · right; rw [h]
    case array n t' =>
      simp only [dec]
      cases bs with
      | nil => right; rfl
      | cons b r =>
        simp only
        rcases hv t' n (b :: r) with h | h
        · left; simp [h]
        · right; rw [h]
    case map kt vt =>
      simp only [dec]
      cases bs with
      | nil => left; rfl
      | cons b r =>
        simp only
        by_cases h1 : b = edtNil
        · right; simp [h1]
        · by_cases h2 : b ≠ edtMap
          · left; simp [h1, h2]
          · simp only [h1, h2, ↓reduceIte]
            cases h32 : rd32 r with
            | none => left; rfl
            | some p =>
              obtain ⟨n, r'⟩ := p
              simp only
              by_cases h3 : n = 0
              · right; simp [h3]
              · by_cases h4 : lenLt r' n = true
                · left; simp only [h3, h4, ↓reduceIte]
                · simp only [h3, h4, ↓reduceIte]
                  rcases hp kt vt n r' with h | h
                  · left; simp [h]
                  · right; rw [h]
    case struct nm fs =>
      simp only [dec]
      rcases iterF_mono (fun t b => dec o f false t b) (fun t b => dec o g false t b) (fun t b => ih false t b) fs bs with h | h
      · left; simp [h]
      · right; rw [h]
    case marsh nm sz => right; simp [dec]
    case named nm t' =>
      cases t'
      case slice t'' =>
        simp only [dec]
        cases bs with
        | nil => left; rfl
        | cons b r =>
          simp only
          by_cases h1 : b = edtNil
          · right; simp [h1]
          · by_cases h2 : b ≠ edtReg
            · left; simp [h1, h2]
            · simp only [h1, h2, ↓reduceIte]
              cases h32 : rd32 r with
              | none => left; rfl
              | some p =>
                obtain ⟨n, r'⟩ := p
                simp only
                by_cases h4 : lenLt r' n = true
                · left; simp only [h4, ↓reduceIte]
                · simp only [h4, ↓reduceIte]
                  rcases hv t'' n r' with h | h
                  · left; simp [h]
                  · right; rw [h]
      case array n t'' =>
        simp only [dec]
        cases bs with
        | nil => right; rfl
        | cons b r =>
          simp only
          rcases hv t'' n (b :: r) with h | h
          · left; simp [h]
          · right; rw [h]
      case map kt vt =>
        simp only [dec]
        cases bs with
        | nil => left; rfl
        | cons b r =>
          simp only
          by_cases h1 : b = edtNil
          · right; simp [h1]
          · by_cases h2 : b ≠ edtReg
            · left; simp [h1, h2]
            · simp only [h1, h2, ↓reduceIte]
              cases h32 : rd32 r with
              | none => left; rfl
              | some p =>
                obtain ⟨n, r'⟩ := p
                simp only
                by_cases h3 : n = 0
                · right; simp [h3]
                · by_cases h4 : lenLt r' n = true
                  · left; simp only [h3, h4, ↓reduceIte]
                  · simp only [h3, h4, ↓reduceIte]
                    rcases hp kt vt n r' with h | h
                    · left; simp [h]
                    · right; rw [h]
      all_goals (right; simp [dec])
    all_goals (right; simp [dec])

end ErgoVerif.Edf

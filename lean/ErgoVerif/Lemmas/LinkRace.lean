import ErgoVerif.Model.LinkRace
import ErgoVerif.Lemmas.TM
namespace ErgoVerif.LinkRace
open ErgoVerif.TM

theorem run_append (s : St) (a b : List Ev) : run s (a ++ b) = run (run s a) b := by
  induction a generalizing s with
  | nil => rfl
  | cons e a ih => exact ih (step s e)

theorem step_inv {s : St} (h : TM.Inv s.tm) (e : Ev) : TM.Inv (step s e).tm := by
  cases e with
  | answered k => exact h
  | add k =>
    unfold step
    by_cases hk : k ∈ s.pending
    · simp only [hk, ↓reduceIte]; exact add_inv k h
    · simp only [hk, ↓reduceIte]; exact h
  | down n => exact (cleanupNode_spec h n).2.2

theorem run_inv (es : List Ev) : ∀ {s : St}, TM.Inv s.tm → TM.Inv (run s es).tm := by
  induction es with
  | nil => intro s h; exact h
  | cons e es ih => intro s h; exact ih (step_inv h e)

/-- no relation on a target of node `n` is recorded -/
def Clean (n : Node) (s : St) : Prop := ∀ k ∈ s.tm.rel, k.target.onNode n = false

theorem down_clean {s : St} (h : TM.Inv s.tm) (n : Node) : Clean n (step s (.down n)) := by
  intro k hk
  change k ∈ (routeNodeDown s.tm n).1.rel at hk
  rw [show (routeNodeDown s.tm n).1.rel = _ from (cleanupNode_spec h n).1] at hk
  have := (List.mem_filter.mp hk).2
  simp only [Bool.and_eq_true, Bool.not_eq_eq_eq_not, Bool.not_true, targetOn] at this
  exact this.2

theorem step_clean {n : Node} {s : St} (hi : TM.Inv s.tm) (hc : Clean n s) (e : Ev)
    (he : ∀ k, e = .add k → k.target.onNode n = false) : Clean n (step s e) := by
  cases e with
  | answered k => exact hc
  | add k =>
    unfold step
    by_cases hk : k ∈ s.pending
    · simp only [hk, ↓reduceIte]
      intro k' hk'
      change k' ∈ (TM.add s.tm k).1.rel at hk'
      rw [add_rel] at hk'
      by_cases hm : k ∈ s.tm.rel
      · rw [if_pos hm] at hk'; exact hc k' hk'
      · rw [if_neg hm] at hk'
        rcases List.mem_cons.mp hk' with rfl | h'
        · exact he _ rfl
        · exact hc k' h'
    · simp only [hk, ↓reduceIte]; exact hc
  | down m =>
    intro k hk
    change k ∈ (routeNodeDown s.tm m).1.rel at hk
    rw [show (routeNodeDown s.tm m).1.rel = _ from (cleanupNode_spec hi m).1] at hk
    exact hc k (List.mem_filter.mp hk).1

theorem run_clean {n : Node} (es : List Ev) : ∀ {s : St}, TM.Inv s.tm → Clean n s →
    (∀ e ∈ es, ∀ k, e = .add k → k.target.onNode n = false) → Clean n (run s es) := by
  induction es with
  | nil => intro s _ hc _; exact hc
  | cons e es ih =>
    intro s hi hc he
    exact ih (step_inv hi e) (step_clean hi hc e (he e List.mem_cons_self)) (fun e' h' => he e' (List.mem_cons_of_mem _ h'))

end ErgoVerif.LinkRace

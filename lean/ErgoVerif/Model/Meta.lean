import ErgoVerif.Common
/-
Meta-process state-word protocol (node/meta.go `start`, `handle`; node/process.go SpawnMeta; node/core.go
RouteSendAlias meta branch). Counting abstraction as in Model/Proc.lean.

The `Start` callback runs in its own goroutine for the whole life of the meta-process, concurrently with the mailbox
handler goroutine — by design. When `Start` returns, that goroutine swaps the word to `terminated`; what happens then
depends on the code shape `ho` (regenerated as Gen.Meta.startHandsOff):
  ho    : if the word was `running` (a handler goroutine owns it, possibly inside a callback) the termination is left
          to that goroutine, which runs it when it is done (its own termination path, or its CAS running→sleep failing);
          otherwise the start goroutine runs `Terminate` itself;
  ¬ho   : (the code before the repair of D22) whoever swaps first runs `Terminate`, at once.
-/
namespace ErgoVerif.Meta

inductive St | zero | sleep | running | terminated
deriving DecidableEq, Repr

structure Cfg where
  st : St
  a0 : Nat   -- start goroutine before `StoreInt32(sleep)`
  a1 : Nat   -- inside the Start callback
  a2 : Nat   -- Start returned, before swap→terminated ("meta:swapTermStart")
  s1 : Nat   -- senders before Push
  h0 : Nat   -- inside handle(), before CAS sleep→running ("meta:cas")
  h1 : Nat   -- CAS succeeded, before `go` ("meta:go")
  r0 : Nat   -- handler goroutine at "meta:runner"
  rb : Nat   -- inside the handler loop: HandleMessage / HandleCall / HandleInspect execute here
  r3 : Nat   -- loop left (queues looked empty or word ≠ running), before CAS running→sleep ("meta:casSleep")
  r4 : Nat   -- after CAS to sleep, before the re-check ("meta:recheck")
  r5 : Nat   -- saw mail, before CAS sleep→running ("meta:casRun")
  rE : Nat   -- a handler returned a reason / exit message, before swap→terminated ("meta:swapTermHandler")
  tmS : Nat  -- inside Terminate, entered by the start goroutine
  tmH : Nat  -- inside Terminate, entered by the handler goroutine
  mail : Nat
  handled : Nat
  terms : Nat
  pend : Nat  -- Start is over and has left the termination to the handler goroutine, which has not run it yet
deriving Repr

inductive Lbl
  | storeSleep | startRet | swapStart
  | newSender | push | cas | go
  | runner | pop | loopEnd | retReason | swapHandler
  | casSleep | recheckEmpty | recheckSome | casRun
  | termDoneS | termDoneH
deriving DecidableEq, Repr

def init : Cfg := ⟨.zero, 1, 0, 0, 0, 0, 0, 0, 0, 0, 0, 0, 0, 0, 0, 0, 0, 0, 0⟩

def step (ho : Bool) (c : Cfg) : Lbl → Option Cfg
  -- start(): store sleep, `go m.handle()` (a waker), then the Start callback
  | .storeSleep => if c.a0 = 0 then none else some { c with a0 := c.a0 - 1, a1 := c.a1 + 1, st := .sleep, h0 := c.h0 + 1 }
  | .startRet => if c.a1 = 0 then none else some { c with a1 := c.a1 - 1, a2 := c.a2 + 1 }
  | .swapStart => if c.a2 = 0 then none else
      if c.st = .terminated then some { c with a2 := c.a2 - 1 }
      else if ho then
        (if c.st = .running then some { c with a2 := c.a2 - 1, st := .terminated, pend := c.pend + 1 }
         else some { c with a2 := c.a2 - 1, st := .terminated, tmS := c.tmS + 1, terms := c.terms + 1 })
      else some { c with a2 := c.a2 - 1, st := .terminated, tmS := c.tmS + 1, terms := c.terms + 1 }
  -- senders: push then handle()
  | .newSender => some { c with s1 := c.s1 + 1 }
  | .push => if c.s1 = 0 then none else some { c with s1 := c.s1 - 1, h0 := c.h0 + 1, mail := c.mail + 1 }
  | .cas => if c.h0 = 0 then none else
      if c.st = .sleep then some { c with h0 := c.h0 - 1, h1 := c.h1 + 1, st := .running }
      else some { c with h0 := c.h0 - 1 }
  | .go => if c.h1 = 0 then none else some { c with h1 := c.h1 - 1, r0 := c.r0 + 1 }
  -- handler goroutine
  | .runner => if c.r0 = 0 then none else some { c with r0 := c.r0 - 1, rb := c.rb + 1 }
  | .pop => if c.rb = 0 then none else if c.st ≠ .running then none else if c.mail = 0 then none else
      some { c with mail := c.mail - 1, handled := c.handled + 1 }
  | .loopEnd => if c.rb = 0 then none else
      -- `break`: the word is no longer running, or both queues looked empty
      if c.st = .running then (if c.mail = 0 then some { c with rb := c.rb - 1, r3 := c.r3 + 1 } else none)
      else some { c with rb := c.rb - 1, r3 := c.r3 + 1 }
  | .retReason => if c.rb = 0 then none else some { c with rb := c.rb - 1, rE := c.rE + 1 }
  | .swapHandler => if c.rE = 0 then none else
      if ho then some { c with rE := c.rE - 1, st := .terminated, tmH := c.tmH + 1, terms := c.terms + 1, pend := 0 }
      else if c.st = .terminated then some { c with rE := c.rE - 1 }
      else some { c with rE := c.rE - 1, st := .terminated, tmH := c.tmH + 1, terms := c.terms + 1 }
  | .casSleep => if c.r3 = 0 then none else
      if c.st = .running then some { c with r3 := c.r3 - 1, r4 := c.r4 + 1, st := .sleep }
      else if ho then some { c with r3 := c.r3 - 1, tmH := c.tmH + 1, terms := c.terms + 1, pend := 0 }
      else some { c with r3 := c.r3 - 1 }
  | .recheckEmpty => if c.r4 = 0 then none else if c.mail = 0 then some { c with r4 := c.r4 - 1 } else none
  | .recheckSome => if c.r4 = 0 then none else if c.mail = 0 then none else some { c with r4 := c.r4 - 1, r5 := c.r5 + 1 }
  | .casRun => if c.r5 = 0 then none else
      if c.st = .sleep then some { c with r5 := c.r5 - 1, rb := c.rb + 1, st := .running }
      else some { c with r5 := c.r5 - 1 }
  | .termDoneS => if c.tmS = 0 then none else some { c with tmS := c.tmS - 1 }
  | .termDoneH => if c.tmH = 0 then none else some { c with tmH := c.tmH - 1 }

def Reach (ho : Bool) (c : Cfg) : Prop := ∃ ls, run (step ho) init ls = some c

def stCode : St → Nat | .zero => 0 | .sleep => 1 | .running => 2 | .terminated => 4

end ErgoVerif.Meta

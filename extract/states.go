package main

import (
	"fmt"
	"go/ast"
	"sort"
	"strings"
)

// Generated/States.lean: numeric values of the process states (gen/process.go) and the shape of
// node.Kill's switch over the previous state word (node/node.go): which previous states make Kill
// return at once, which make it store Terminated back, and which fall through to the finalising swap.

func init() {
	generators = append(generators, generator{name: "States", run: genStates, fallback: statesFallback})
}

const statesFallback = `namespace ErgoVerif.Gen.States
def procInit : Nat := 0
def procSleep : Nat := 0
def procRunning : Nat := 0
def procWait : Nat := 0
def procTerminated : Nat := 0
def procZombee : Nat := 0
def killReturnsOn : List Nat := []
def killStoresTerminatedOn : List Nat := []
def killZombeeReturns : Bool := false
end ErgoVerif.Gen.States
`

func genStates() (string, error) {
	f, err := parseFile("gen/process.go")
	if err != nil {
		return "", err
	}
	cs := constInts(f)
	names := []string{"ProcessStateInit", "ProcessStateSleep", "ProcessStateRunning", "ProcessStateWaitResponse", "ProcessStateTerminated", "ProcessStateZombee"}
	for _, n := range names {
		if _, ok := cs[n]; !ok {
			return "", fmt.Errorf("constant %s not found in gen/process.go", n)
		}
	}
	nf, err := parseFile("node/node.go")
	if err != nil {
		return "", err
	}
	kill := funcDecl(nf, "node", "Kill")
	if kill == nil {
		return "", fmt.Errorf("func (n *node) Kill not found")
	}
	// the switch over the value returned by atomic.SwapInt32(&p.state, Zombee)
	var sw *ast.SwitchStmt
	ast.Inspect(kill.Body, func(n ast.Node) bool {
		if s, ok := n.(*ast.SwitchStmt); ok && sw == nil {
			sw = s
		}
		return sw == nil
	})
	if sw == nil {
		return "", fmt.Errorf("Kill: switch over the previous state not found")
	}
	var returnsOn, storesOn []int64
	for _, st := range sw.Body.List {
		cc := st.(*ast.CaseClause)
		var codes []int64
		for _, e := range cc.List {
			nm := selName(e)
			nm = strings.TrimPrefix(nm, "gen.")
			v, ok := cs[nm]
			if !ok {
				return "", fmt.Errorf("Kill: unknown case expression %q", nm)
			}
			codes = append(codes, v)
		}
		endsWithReturn := false
		if len(cc.Body) > 0 {
			_, endsWithReturn = cc.Body[len(cc.Body)-1].(*ast.ReturnStmt)
		}
		stores := callsTo(cc, "StoreInt32")
		finalises := callsTo(cc, "unregisterProcess") || callsTo(cc, "SwapInt32") || callsTo(cc, "ProcessTerminate")
		switch {
		case endsWithReturn && !stores && !finalises:
			returnsOn = append(returnsOn, codes...)
		case endsWithReturn && stores && !finalises:
			storesOn = append(storesOn, codes...)
		}
	}
	sort.Slice(returnsOn, func(i, j int) bool { return returnsOn[i] < returnsOn[j] })
	sort.Slice(storesOn, func(i, j int) bool { return storesOn[i] < storesOn[j] })
	kz := false
	for _, c := range returnsOn {
		if c == cs["ProcessStateZombee"] {
			kz = true
		}
	}
	facts.Values["States.killReturnsOn"] = returnsOn
	facts.Values["States.killStoresTerminatedOn"] = storesOn
	var sb strings.Builder
	sb.WriteString("namespace ErgoVerif.Gen.States\n")
	lean := []string{"procInit", "procSleep", "procRunning", "procWait", "procTerminated", "procZombee"}
	for i, n := range names {
		fmt.Fprintf(&sb, "def %s : Nat := %d\n", lean[i], cs[n])
	}
	fmt.Fprintf(&sb, "/-- previous state words on which `Kill` returns at once (the runner / another killer finalises) -/\ndef killReturnsOn : List Nat := %s\n", leanNatList(returnsOn))
	fmt.Fprintf(&sb, "/-- previous state words on which `Kill` stores Terminated back and returns -/\ndef killStoresTerminatedOn : List Nat := %s\n", leanNatList(storesOn))
	fmt.Fprintf(&sb, "/-- `Kill` returns without finalising when the swap to zombee finds the word already zombee -/\ndef killZombeeReturns : Bool := %s\n", leanBool(kz))
	sb.WriteString("end ErgoVerif.Gen.States\n")
	return sb.String(), nil
}

package main

import (
	"fmt"
	"os"
	"path/filepath"
	"reflect"
	"regexp"
	"time"

	"ergo.services/ergo/gen"
)

// C14 part 2 — the incarnation guard on the real connection object (K5 pair, in-memory links).
// The list of methods comes from the GENERATED table (lean/ErgoVerif/Generated/Guard.lean): every row that
// addresses a pid or an alias is called by reflection
//   * with an identifier of another incarnation  -> ErrProcessIncarnation and not one byte on any link
//   * with an identifier of the right incarnation -> passes the guard (fire-and-forget methods: a frame appears)
// Terminate* rows are called with the LOCAL creation while the peer's creation differs (the D26 situation).

func init() { c14Parts = append(c14Parts, c14Guard) }

var c14rowRe = regexp.MustCompile(`⟨"(\w+)", "(\w*)", "(\w*)", (true|false), (\d+), (\d+)⟩`)

type c14row struct {
	method, param, ptype string
	local                bool
}

func c14guardRows(verif string) ([]c14row, error) {
	b, err := os.ReadFile(filepath.Join(verif, "lean", "ErgoVerif", "Generated", "Guard.lean"))
	if err != nil {
		return nil, err
	}
	var rows []c14row
	for _, m := range c14rowRe.FindAllStringSubmatch(string(b), -1) {
		rows = append(rows, c14row{m[1], m[2], m[3], m[4] == "true"})
	}
	return rows, nil
}

func c14Guard(c *Ctx) {
	r := c.R
	rows, err := c14guardRows(c.Verif)
	if err != nil || len(rows) == 0 {
		r.Disagree("guard.table", fmt.Sprintf("generated guard table unreadable: %v", err), nil)
		return
	}
	const creA, creB = 100, 200
	p, err := newK5pair(2, creA, creB)
	if err != nil {
		r.Disagree("guard.pair", err.Error(), nil)
		return
	}
	defer p.close()
	for i := 0; i < 2; i++ {
		if _, err := p.addLink(); err != nil {
			r.Disagree("guard.pair", err.Error(), nil)
			return
		}
	}
	bytesOut := func() int {
		n := 0
		for _, l := range p.links {
			l.mu.Lock()
			n += len(l.buf)
			l.mu.Unlock()
		}
		return n
	}
	cv := reflect.ValueOf(p.ca)
	// build the argument list of a method: the addressed identifier gets `creation`, everything else is plausible
	args := func(m reflect.Value, creation int64, node gen.Atom) []reflect.Value {
		t := m.Type()
		var as []reflect.Value
		seenPID := 0
		for i := 0; i < t.NumIn(); i++ {
			it := t.In(i)
			switch it {
			case reflect.TypeOf(gen.PID{}):
				seenPID++
				// a leading gen.PID is the local `from`/`pid`; the addressed one is the last gen.PID / the only one
				as = append(as, reflect.ValueOf(gen.PID{Node: node, ID: uint64(1000 + c.Rng.Intn(500)), Creation: creation}))
			case reflect.TypeOf(gen.Alias{}):
				as = append(as, reflect.ValueOf(gen.Alias{Node: node, Creation: creation, ID: [3]uint64{uint64(c.Rng.Intn(1000)), 17, 0}}))
			case reflect.TypeOf(gen.MessageOptions{}):
				as = append(as, reflect.ValueOf(gen.MessageOptions{KeepNetworkOrder: true}))
			case reflect.TypeOf((*error)(nil)).Elem():
				as = append(as, reflect.ValueOf(gen.TerminateReasonKill))
			default:
				if it.Kind() == reflect.Interface {
					as = append(as, reflect.ValueOf("payload"))
				} else {
					as = append(as, reflect.Zero(it))
				}
			}
		}
		return as
	}
	fix := func(m reflect.Value, as []reflect.Value, row c14row, creation int64) {
		// the non-addressed leading PID (from / pid) is a local process of the current incarnation
		t := m.Type()
		last := -1
		for i := 0; i < t.NumIn(); i++ {
			if (row.ptype == "PID" && t.In(i) == reflect.TypeOf(gen.PID{})) || (row.ptype == "Alias" && t.In(i) == reflect.TypeOf(gen.Alias{})) {
				last = i
			}
		}
		for i := 0; i < t.NumIn(); i++ {
			if i != last && t.In(i) == reflect.TypeOf(gen.PID{}) {
				as[i] = reflect.ValueOf(gen.PID{Node: p.a.name, ID: 1001, Creation: creA})
			}
		}
		_ = creation
	}
	lastErr := func(out []reflect.Value) error {
		if len(out) == 0 {
			return nil
		}
		e, _ := out[len(out)-1].Interface().(error)
		return e
	}
	nStale := 0
	for _, row := range rows {
		if row.ptype == "" {
			continue
		}
		m := cv.MethodByName(row.method)
		if !m.IsValid() {
			r.Disagree("guard.table", "generated table names a method the connection does not have: "+row.method, nil)
			return
		}
		// stale incarnations: one below / one above / zero / far away
		right := int64(creB)
		node := p.b.name
		if row.local {
			right, node = creA, p.a.name
		}
		for _, stale := range []int64{right - 1, right + 1, 0, right + 1_000_000, creA + creB - right} {
			if stale == right {
				continue
			}
			as := args(m, stale, node)
			fix(m, as, row, stale)
			before := bytesOut()
			err := lastErr(m.Call(as))
			nStale++
			r.Case(fmt.Sprintf("guard/%s/%d", row.method, stale-right), true)
			if err != gen.ErrProcessIncarnation {
				r.Violation("C14/stale-incarnation-accepted",
					fmt.Sprintf("%s with creation %d (current incarnation %d) returned %v, want ErrProcessIncarnation", row.method, stale, right, err), row.method)
			}
			if bytesOut() != before {
				r.Violation("C14/stale-incarnation-wrote-bytes", fmt.Sprintf("%s wrote %d bytes although the identifier is stale", row.method, bytesOut()-before), row.method)
			}
		}
	}
	time.Sleep(5 * time.Millisecond) // flusher latency is 300 ns; nothing may appear afterwards either
	if n := bytesOut(); n != 0 {
		r.Violation("C14/stale-incarnation-wrote-bytes", fmt.Sprintf("%d bytes appeared on the links after %d refused calls", n, nStale), nil)
	}
	r.CountN("guard.stale-calls", nStale)
	// right incarnation: the fire-and-forget methods must produce a frame (the guard is not a blanket refusal)
	for _, row := range rows {
		if row.ptype == "" {
			continue
		}
		switch row.method {
		case "SendPID", "SendAlias", "SendExit", "SendResponse", "SendResponseError", "CallPID", "CallAlias", "SendTerminatePID", "SendTerminateAlias":
		default:
			continue // request/response methods would wait for an answer of the mock peer
		}
		m := cv.MethodByName(row.method)
		right, node := int64(creB), p.b.name
		if row.local {
			right, node = creA, p.a.name
		}
		as := args(m, right, node)
		fix(m, as, row, right)
		before := p.totalFrames()
		err := lastErr(m.Call(as))
		r.Case("guard-pass/"+row.method, true)
		r.Count("guard.current-incarnation-calls")
		if err != nil {
			sig := "C14/current-incarnation-refused"
			if row.local {
				sig = "C14/remote-termination-lost"
			}
			r.Violation(sig, fmt.Sprintf("%s with the current incarnation (%d; local %d, peer %d) returned %v", row.method, right, creA, creB, err), row.method)
			continue
		}
		if !p.waitFrames(before+1, 2*time.Second) {
			r.Violation("C14/current-incarnation-no-frame", fmt.Sprintf("%s returned nil but no frame was written", row.method), row.method)
		}
	}
}

import ErgoVerif.Model.Handshake
/-
What the node does with a completed handshake (node/network.go accept(), connect();
net/proto/connection.go Join; net/proto/enp.go NewConnection):

  accept():  result.Peer == ""                          → close
             a connection with result.Peer exists       → conn.Join(c, result.ConnectionID): `id != c.id` → close, else the
                                                           link is added to that connection's pool
             otherwise proto.NewConnection(result)      → `result.PeerCreation == 0` → ErrNotAllowed (close), else a new
                                                           connection is registered under result.Peer
  connect(): result.Peer != name                        → close ("introduced itself as")

Names are numbers (0 = the empty name); the connection table maps a peer name to the id of the live
connection with it.
-/
namespace ErgoVerif.NodeAccept
open ErgoVerif.Handshake

abbrev Table := Nat → Option Field

inductive Outcome
  | closed                         -- the TCP link is dropped, nothing changes
  | joined (peer : Nat)            -- the link now belongs to the live connection with `peer`
  | registered (peer : Nat)        -- a new connection under the name `peer`
  deriving DecidableEq, Repr

/-- node/network.go accept(), after `a.handshake.Accept` returned without error -/
def accepted (tbl : Table) (r : Result) : Outcome :=
  if r.peer = 0 then .closed
  else match tbl r.peer with
    | some id => if r.connId = id then .joined r.peer else .closed
    | none => if r.peerCreation = 0 then .closed else .registered r.peer

/-- node/network.go connect(), after `handshake.Start` returned without error -/
def connected (wanted : Nat) (r : Result) : Bool := r.peer == wanted

/-- the whole acceptor side: handshake, then the node's decision -/
def acceptLink (tbl : Table) (cfg : Cfg) (salt id : Atom) (inbox : List Msg) : Outcome :=
  match (accept cfg salt id inbox).res with
  | .ok r => accepted tbl r
  | .error _ => .closed

end ErgoVerif.NodeAccept

import ErgoVerif.Model.Mailbox
namespace ErgoVerif.Mailbox

/-- `pick` takes the head of the first non-empty queue in polling order and leaves the others untouched -/
theorem pick_spec (mb : MB) (order : List Nat) (m : Msg) (mb' : MB) (h : pick mb order = some (m, mb')) :
    ∃ pre k post rest, order = pre ++ k :: post ∧ (∀ j ∈ pre, mb.q j = []) ∧ mb.q k = m :: rest ∧
      mb'.q k = rest ∧ ∀ j, j ≠ k → mb'.q j = mb.q j := by
  induction order with
  | nil => simp [pick] at h
  | cons k ks ih =>
    simp only [pick] at h
    cases hq : mb.q k with
    | nil =>
      rw [hq] at h
      obtain ⟨pre, k', post, rest, ho, hpre, hk, hk', hoth⟩ := ih h
      refine ⟨k :: pre, k', post, rest, by rw [ho]; rfl, ?_, hk, hk', hoth⟩
      intro j hj
      simp at hj
      rcases hj with rfl | hj
      · exact hq
      · exact hpre j hj
    | cons m0 rest =>
      rw [hq] at h
      simp at h
      obtain ⟨rfl, rfl⟩ := h
      exact ⟨[], k, ks, rest, rfl, by simp, hq, by simp, by intro j hj; simp [hj]⟩

theorem pick_none (mb : MB) (order : List Nat) (h : pick mb order = none) : ∀ k ∈ order, mb.q k = [] := by
  induction order with
  | nil => simp
  | cons k ks ih =>
    simp only [pick] at h
    cases hq : mb.q k with
    | nil => rw [hq] at h; intro j hj; simp at hj; rcases hj with rfl | hj; exact hq; exact ih h j hj
    | cons m0 rest => rw [hq] at h; simp at h

/-- per-queue conservation invariant: what was handled from queue k, followed by what is still queued there,
    is exactly what was pushed into k, in push order -/
def QInv (s : St) : Prop :=
  ∀ k, s.handled.filter (fun m => m.queue = k) ++ s.mb.q k = s.pushed.filter (fun m => m.queue = k)

/-- every queued message sits in the queue named by its `queue` field -/
def WF (s : St) : Prop := ∀ k, ∀ m ∈ s.mb.q k, m.queue = k

theorem wf_init : WF St.init := by intro k m hm; simp [St.init, MB.empty] at hm
theorem qinv_init : QInv St.init := by intro k; simp [St.init, MB.empty]

theorem step_wf (order : List Nat) (s : St) (o : Op) (hw : WF s) : WF (step order s o) := by
  cases o with
  | push m =>
    intro k x hx
    simp only [step, MB.push] at hx
    split at hx
    · rename_i hk; simp at hx; rcases hx with hx | rfl
      · exact hw k x hx
      · exact hk.symm
    · exact hw k x hx
  | pick =>
    simp only [step]
    cases hp : pick s.mb order with
    | none => exact hw
    | some r =>
      obtain ⟨m, mb'⟩ := r
      obtain ⟨pre, k, post, rest, _, _, hk, hk', hoth⟩ := pick_spec _ _ _ _ hp
      intro j x hx
      simp only at hx
      by_cases hj : j = k
      · subst hj; rw [hk'] at hx; exact hw j x (by rw [hk]; simp [hx])
      · rw [hoth j hj] at hx; exact hw j x hx

theorem step_qinv (order : List Nat) (s : St) (o : Op) (hw : WF s) (h : QInv s) : QInv (step order s o) := by
  cases o with
  | push m =>
    intro k
    simp only [step, MB.push]
    have := h k
    by_cases hk : k = m.queue
    · subst hk; simp [List.filter_append, ← this]
    · have hk' : ¬ m.queue = k := fun e => hk e.symm
      simp [hk, hk', List.filter_append, this]
  | pick =>
    simp only [step]
    cases hp : pick s.mb order with
    | none => exact h
    | some r =>
      obtain ⟨m, mb'⟩ := r
      obtain ⟨pre, k, post, rest, _, _, hk, hk', hoth⟩ := pick_spec _ _ _ _ hp
      have hmq : m.queue = k := hw k m (by rw [hk]; simp)
      intro j
      simp only
      have := h j
      by_cases hj : j = k
      · subst hj
        rw [hk'] 
        rw [hk] at this
        simp [List.filter_append, hmq, ← this]
      · rw [hoth j hj]
        have : ¬ m.queue = j := by rw [hmq]; exact fun e => hj e.symm
        simp [List.filter_append, this, h j]

theorem run_inv (order : List Nat) (ops : List Op) (s : St) (hw : WF s) (h : QInv s) :
    WF (runOps order s ops) ∧ QInv (runOps order s ops) := by
  induction ops generalizing s with
  | nil => exact ⟨hw, h⟩
  | cons o os ih => exact ih (step order s o) (step_wf order s o hw) (step_qinv order s o hw h)

end ErgoVerif.Mailbox

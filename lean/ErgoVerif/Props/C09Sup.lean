import ErgoVerif.Lemmas.SupLoopSOFO
import ErgoVerif.Lemmas.SupStep
import ErgoVerif.Lemmas.Window
import ErgoVerif.Lemmas.SupTrackOFO2
/-!
# C09 (supervisor half) — giving up

"A supervisor gives up — stops all its children and terminates with the 'restart intensity exceeded'
reason — exactly when a child failure would require the (Intensity+1)-th restart within the period."
The window rule itself is `Props/C09.lean`.  Here: what the three state machines do with the verdict.
-/
namespace ErgoVerif.Props.C09
open ErgoVerif.Sup ErgoVerif.Spec.Sup ErgoVerif.Window

/-- reachable configurations of the closed simple-one-for-one system (`Model/SupLoop.lean`) -/
def SofoReach (sp : SupSpec) (c : Loop SOFO) : Prop := ∃ ls, run sofoStep (sofoBoot sp) ls = some c

theorem sofoBoot_inv (sp : SupSpec) : SOFO.Inv (sofoBoot sp) := by
  unfold sofoBoot boot
  apply SOFO.afterCall_inv 1 false [] { m := (SOFO.init {} sp).1 } (SOFO.init {} sp)
  · constructor <;> simp [keys]
  · rfl
  · constructor <;> simp [SOFO.init, keys]
  · simp [SOFO.init, SOFO.GoodRes, SOFO.Good, SOFO.Live]
  · simp

theorem sofo_inv {sp : SupSpec} {c : Loop SOFO} (h : SofoReach sp c) : SOFO.Inv c := by
  obtain ⟨ls, hr⟩ := h
  exact run_inv (Inv := SOFO.Inv) (fun s a s' hi hs => SOFO.step_inv 1 s s' a hi hs) (sofoBoot_inv sp) hr

/-- Step level, all states, all three types: when the failure needs a restart and the intensity check says
"exceeded", the answer is "stop every running child with ErrSupervisorRestartsExceeded" and that reason is
recorded as the supervisor's final reason (this is what D5 broke for one-for-one and all/rest-for-one). -/
theorem C09_gives_up_ofo (s : OFO) (name pid : Nat) (r : Reason) (now : Int)
    (hsd : s.shutdown = false) (k : Nat) (c : ChildSpec)
    (hf : (scan name pid 0 s.spec).found = some (k, c)) (hen : c.disabled = false)
    (hneed : needsRestart s.restart.strategy r = true)
    (hex : (check s.restarts now s.restart.periodMs s.restart.intensity).2 = true) :
    (s.childTerminated name pid r now).2 =
        .ok { act := .terminateChildren, terminate := runningPids (scan name pid 0 s.spec).spec, reason := some .restartsExceeded }
    ∧ (s.childTerminated name pid r now).1.shutdown = true
    ∧ (s.childTerminated name pid r now).1.shutdownReason = some .restartsExceeded
    ∧ (s.childTerminated name pid r now).1.wait = mkSet (scan name pid 0 s.spec).running := by
  have := OFO.decision s name pid r now hsd k c hf hen
  simpa [rule, hneed, hex, OFO.Meets] using this

theorem C09_gives_up_arfo (s : ARFO) (name pid : Nat) (r : Reason) (now : Int)
    (hm : s.mode = 0) (k : Nat) (c : ChildSpec)
    (hf : (scan name pid 0 s.spec).found = some (k, c)) (hen : c.disabled = false)
    (hneed : needsRestart s.restart.strategy r = true)
    (hex : (check s.restarts now s.restart.periodMs s.restart.intensity).2 = true) :
    (s.childTerminated name pid r now).2 =
        .ok { act := .terminateChildren, terminate := (scan name pid 0 s.spec).running, reason := some .restartsExceeded }
    ∧ (s.childTerminated name pid r now).1.mode = 3
    ∧ (s.childTerminated name pid r now).1.shutdownReason = some .restartsExceeded
    ∧ (s.childTerminated name pid r now).1.wait = mkSet (scan name pid 0 s.spec).running := by
  have := ARFO.decision s name pid r now hm k c hf hen
  simpa [rule, hneed, hex, ARFO.Meets] using this

theorem C09_gives_up_sofo_step (s : SOFO) (name pid : Nat) (r : Reason) (now : Int)
    (hsd : s.shutdown = false) (c : ChildSpec)
    (hf : findName name s.spec = some c) (hen : c.disabled = false)
    (hneed : needsRestart s.restart.strategy r = true)
    (hex : (check s.restarts now s.restart.periodMs s.restart.intensity).2 = true) :
    (s.childTerminated name pid r now).2 =
        .ok { act := .terminateChildren, terminate := (s.pids.filter (·.1 ≠ pid)).map (·.1), reason := some .restartsExceeded }
    ∧ (s.childTerminated name pid r now).1.shutdown = true
    ∧ (s.childTerminated name pid r now).1.shutdownReason = some .restartsExceeded := by
  have := SOFO.decision s name pid r now hsd c hf hen
  simp only [rule, hneed, hex, SOFO.Meets, if_true] at this
  exact ⟨this.1, this.2.1, this.2.2.1⟩

/-- and at or below the limit the child is restarted (one-for-one; same for the other two through `*_decision`) -/
theorem C09_keeps_restarting_ofo (s : OFO) (name pid : Nat) (r : Reason) (now : Int)
    (hsd : s.shutdown = false) (k : Nat) (c : ChildSpec)
    (hf : (scan name pid 0 s.spec).found = some (k, c)) (hen : c.disabled = false)
    (hneed : needsRestart s.restart.strategy r = true)
    (hex : (check s.restarts now s.restart.periodMs s.restart.intensity).2 = false) :
    (s.childTerminated name pid r now).2 = .ok { act := .start, spec := c }
    ∧ (s.childTerminated name pid r now).1.shutdown = false := by
  have := OFO.decision s name pid r now hsd k c hf hen
  simpa [rule, hneed, hex, OFO.Meets] using this

/-- Closed system, all histories (simple-one-for-one): once the supervisor has started to shut down with a
recorded reason `r0` (in particular after giving up: `r0 = restartsExceeded`), whatever happens afterwards —
children dying in any order, foreign exits, management calls — the recorded reason never changes, the
supervisor can only terminate with `r0`, it does so only when none of its children is left (neither running
nor with an unhandled exit), and as long as it has not terminated there is still a child it is waiting for
(so it terminates when the last exit is handled: no hang — this is what D14 broke). -/
theorem C09_gives_up_sofo (sp : SupSpec) (c c2 : Loop SOFO) (ls : List Label) (r0 : Reason)
    (hreach : SofoReach sp c) (hsd : c.m.shutdown = true) (hr0 : c.m.shutdownReason = some r0)
    (hrun : run sofoStep c ls = some c2) :
    c2.m.shutdownReason = some r0 ∧
    (∀ r, c2.status = .terminated r → r = r0 ∧ c2.alive = [] ∧ c2.inflight = []) ∧
    (c2.status = .running → ∃ p, p ∈ keys c2.kids) ∧
    c2.status ≠ .panicked ∧ c2.status ≠ .stuck := by
  have hst : c2.m.shutdown = true ∧ c2.m.shutdownReason = c.m.shutdownReason :=
    run_inv (Inv := fun x => x.m.shutdown = true ∧ x.m.shutdownReason = c.m.shutdownReason)
      (fun s a s' hi hs => by
        have := SOFO.step_stable 1 s s' a hs hi.1
        exact ⟨this.1, this.2.trans hi.2⟩) ⟨hsd, rfl⟩ hrun
  have hinv : SOFO.Inv c2 := by
    obtain ⟨ls0, h0⟩ := hreach
    exact sofo_inv ⟨ls0 ++ ls, by rw [run_append, h0]; simpa using hrun⟩
  refine ⟨hst.2.trans hr0, ?_, ?_, hinv.sane.1, hinv.sane.2⟩
  · intro r hr
    have ⟨_, h2, h3⟩ := hinv.term r hr
    have hr' : r = r0 := by
      rw [hst.2, hr0] at h2; simpa using h2.symm
    have ha : ∀ p, p ∉ keys c2.alive := fun p hp => h3 p ((hinv.glue.kids_iff p).mpr (Or.inl hp))
    have hi : ∀ p, p ∉ keys c2.inflight := fun p hp => h3 p ((hinv.glue.kids_iff p).mpr (Or.inr hp))
    refine ⟨hr', ?_, ?_⟩
    · cases hx : c2.alive with
      | nil => rfl
      | cons a t => exact absurd (by rw [hx]; simp [keys]) (ha a.1)
    · cases hx : c2.inflight with
      | nil => rfl
      | cons a t => exact absurd (by rw [hx]; simp [keys]) (hi a.1)
  · intro hrun'
    exact hinv.live hrun' hst.1

/-- the same for one-for-one, over all histories that stay out of the listed regions D26/D27 (`ofoStepSafe`):
once shutting down with recorded reason `r0` (after giving up: `restartsExceeded`, by `C09_gives_up_ofo`), the reason
is final, the supervisor terminates only with `r0` and only when no child is left, and it cannot hang -/
theorem C09_gives_up_ofo_closed (sp : SupSpec) (hv : ValidSpec sp) (c c2 : Loop OFO) (ls0 ls : List Label) (r0 : Reason)
    (hreach : run ofoStepSafe (ofoBoot sp) ls0 = some c) (hsd : c.m.shutdown = true) (hr0 : c.m.shutdownReason = some r0)
    (hrun : run ofoStepSafe c ls = some c2) :
    c2.m.shutdownReason = some r0 ∧
    (∀ r, c2.status = .terminated r → r = r0 ∧ c2.alive = [] ∧ c2.inflight = []) ∧
    (c2.status = .running → ∃ p, p ∈ keys c2.kids) ∧
    c2.status ≠ .panicked ∧ c2.status ≠ .stuck := by
  have hsafe_step : ∀ (s s' : Loop OFO) (a : Label), ofoStepSafe s a = some s' → ofoStep s a = some s' := by
    intro s s' a h
    unfold ofoStepSafe at h
    split at h
    · exact h
    · simp at h
  have hst : c2.m.shutdown = true ∧ c2.m.shutdownReason = c.m.shutdownReason :=
    run_inv (Inv := fun x => x.m.shutdown = true ∧ x.m.shutdownReason = c.m.shutdownReason)
      (fun s a s' hi hs => by
        have := OFO.step_stable s s' a (hsafe_step s s' a hs) hi.1
        exact ⟨this.1, this.2.trans hi.2⟩) ⟨hsd, rfl⟩ hrun
  have ht : OFO.Track c2 :=
    run_inv (Inv := OFO.Track) (fun s a s' hi hs => OFO.step_track s s' a hi hs) (OFO.boot_track sp hv)
      (show run ofoStepSafe (ofoBoot sp) (ls0 ++ ls) = some c2 by rw [run_append, hreach]; simpa using hrun)
  refine ⟨hst.2.trans hr0, ?_, fun hrun' => ht.core.live hrun' hst.1, ht.core.sane.1, ht.core.sane.2⟩
  intro r hr
  have ⟨hk, hreason⟩ := ht.core.term r hr
  have hr' : r = r0 := by
    have := hreason hst.1
    rw [hst.2, hr0] at this; simpa using this.symm
  have ha : ∀ p, p ∉ keys c2.alive := fun p hp => hk p ((ht.glue.kids_iff p).mpr (Or.inl hp))
  have hi : ∀ p, p ∉ keys c2.inflight := fun p hp => hk p ((ht.glue.kids_iff p).mpr (Or.inr hp))
  refine ⟨hr', ?_, ?_⟩
  · cases hx : c2.alive with
    | nil => rfl
    | cons a t => exact absurd (by rw [hx]; simp [keys]) (ha a.1)
  · cases hx : c2.inflight with
    | nil => rfl
    | cons a t => exact absurd (by rw [hx]; simp [keys]) (hi a.1)

/-- non-vacuity for one-for-one: intensity 1, the second failure of c1 within the period; c2 is told to stop, dies,
and the supervisor terminates with restartsExceeded -/
example :
    let sp : SupSpec := { children := [(1, false), (2, false)], restart := { strategy := .permanent, intensity := 1, periodMs := 5000 } }
    ∃ c, run ofoStepSafe (ofoBoot sp)
        [.die 1 .kill, .deliver 1 1000 [], .die 3 .kill, .deliver 3 1100 [], .die 2 .restartsExceeded, .deliver 2 1200 []] = some c
      ∧ c.status = .terminated .restartsExceeded := by
  exact ⟨_, rfl, by decide⟩

/-- non-vacuity: a reachable configuration that is shutting down after giving up (intensity 1: the second
failure of the only spec within the period) and then terminates with restartsExceeded -/
example :
    let sp : SupSpec := { children := [(1, false)], restart := { strategy := .permanent, intensity := 1, periodMs := 5000 } }
    ∃ c, run sofoStep (sofoBoot sp)
        [.startChild 1 0 [], .startChild 1 0 [], .die 1 .kill, .deliver 1 1000 [], .die 3 .kill, .deliver 3 1100 []] = some c
      ∧ c.m.shutdown = true ∧ c.m.shutdownReason = some .restartsExceeded ∧ c.status = .running ∧ keys c.kids = [2] := by
  exact ⟨_, rfl, by decide⟩

example :
    let sp : SupSpec := { children := [(1, false)], restart := { strategy := .permanent, intensity := 1, periodMs := 5000 } }
    ∃ c, run sofoStep (sofoBoot sp)
        [.startChild 1 0 [], .startChild 1 0 [], .die 1 .kill, .deliver 1 1000 [], .die 3 .kill, .deliver 3 1100 [],
         .die 2 .restartsExceeded, .deliver 2 1200 []] = some c
      ∧ c.status = .terminated .restartsExceeded := by
  exact ⟨_, rfl, by decide⟩

end ErgoVerif.Props.C09

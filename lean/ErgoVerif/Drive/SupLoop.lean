import ErgoVerif.Drive.Sup
import ErgoVerif.Model.SupLoop
/-
Line driver for the closed supervisor system (`Model/SupLoop.lean`): the harness' simulation around the real
state machines emits the labels it performs, this driver performs them on `ofoStep`/`arfoStep`/`sofoStep`.

  boot <ofo|afo|rfo|sofo> <strategy> <intensity> <periodMs> <keepOrder> <disableAutoShutdown> <n:sig,...>
  die <pid> <reason> | deliver <pid> <now> <bits> | foreign <reason> <now> <bits>
  start <name> <args> <bits> | add <name> <sig> <bits> | enable <name> <bits> | disable <name>
-/
namespace ErgoVerif.Drive.SupLoop
open ErgoVerif.Drive ErgoVerif.Sup ErgoVerif.Drive.Sup

inductive L where
  | none
  | ofo (c : Loop OFO)
  | arfo (c : Loop ARFO)
  | sofo (c : Loop SOFO)

def showStatus : Status → String
  | .running => "running"
  | .terminated r => "terminated:" ++ showReason (some r)
  | .spawnFailed => "spawnfailed"
  | .panicked => "panicked"
  | .stuck => "stuck"

def showPairs (l : List (Nat × Nat)) : String :=
  let l := l.mergeSort (fun a b => decide (a.1 ≤ b.1))
  if l.isEmpty then "-" else ",".intercalate (l.map fun p => s!"{p.1}:{p.2}")

def showLoop {σ : Type} (c : Loop σ) (m : String) : String :=
  let infl := if c.inflight.isEmpty then "-" else ",".intercalate (c.inflight.map fun p => s!"{p.1}:{showReason (some p.2)}")
  s!"{showStatus c.status} kids={showPairs c.kids} alive={showPairs c.alive} inflight={infl} sent={c.exitsSent.length} next={c.nextPid} | {m}"

def showL : L → String
  | .none => "none"
  | .ofo c => showLoop c (showM (.ofo c.m))
  | .arfo c => showLoop c (showM (.arfo c.m))
  | .sofo c => showLoop c (showM (.sofo c.m))

def parseBits? (s : String) : Option (List Bool) :=
  if s = "-" then some [] else s.toList.mapM fun ch => if ch = '1' then some true else if ch = '0' then some false else none

def parseLabel? (ws : List String) : Option Label :=
  match ws with
  | ["die", pid, r] => do some (.die (← pid.toNat?) (← parseReason? r))
  | ["deliver", pid, now, bits] => do some (.deliver (← pid.toNat?) (← now.toInt?) (← parseBits? bits))
  | ["foreign", r, now, bits] => do some (.foreign (← parseReason? r) (← now.toInt?) (← parseBits? bits))
  | ["start", name, args, bits] => do some (.startChild (← name.toNat?) (← args.toNat?) (← parseBits? bits))
  | ["add", name, sig, bits] => do some (.addChild (← name.toNat?) (← parseBool? sig) (← parseBits? bits))
  | ["enable", name, bits] => do some (.enable (← name.toNat?) (← parseBits? bits))
  | ["disable", name] => do some (.disable (← name.toNat?))
  | _ => none

def step (l : L) (line : String) : L × String :=
  match words line with
  | ["boot", kind, st, k, p, ko, das, ch] =>
    match parseStrategy? st, k.toNat?, p.toInt?, parseBool? ko, parseBool? das, parseChildren? ch with
    | some st, some k, some p, some ko, some das, some ch =>
      let sp : SupSpec := { children := ch, rest := kind == "rfo",
                            restart := { strategy := st, intensity := k, periodMs := p, keepOrder := ko },
                            disableAutoShutdown := das }
      let l' := match kind with
        | "ofo" => L.ofo (ofoBoot sp)
        | "afo" => L.arfo (arfoBoot sp)
        | "rfo" => L.arfo (arfoBoot sp)
        | "sofo" => L.sofo (sofoBoot sp)
        | _ => L.none
      (l', showL l')
    | _, _, _, _, _, _ => (l, "bad-op")
  | ws =>
    match parseLabel? ws with
    | none => (l, "bad-op")
    | some lb =>
      match l with
      | .none => (l, "bad-op")
      | .ofo c => match ofoStep c lb with
        | some c' => (.ofo c', showL (.ofo c'))
        | none => (l, "disabled-label")
      | .arfo c => match arfoStep c lb with
        | some c' => (.arfo c', showL (.arfo c'))
        | none => (l, "disabled-label")
      | .sofo c => match sofoStep c lb with
        | some c' => (.sofo c', showL (.sofo c'))
        | none => (l, "disabled-label")

def main (h : IO.FS.Stream) : IO Unit := loopState h step L.none

end ErgoVerif.Drive.SupLoop

import ErgoVerif.Lemmas.EdfDecGood2
namespace ErgoVerif.Edf
open ErgoVerif.Generated.Edt

theorem Pairs.insert_length_le : (acc : Pairs) → (k v : Val) → (acc.insert k v).length ≤ acc.length + 1
  | .nil, _, _ => by simp [Pairs.insert, Pairs.length]
  | .cons k' v' ps, k, v => by
    simp only [Pairs.insert]
    split
    · simp [Pairs.length]
    · have := Pairs.insert_length_le ps k v; simp [Pairs.length]; omega

theorem iterP_len (gk gv : Bytes → Res (Val × Bytes)) : ∀ n acc bs ps r, iterP gk gv n acc bs = .ok (ps, r) → ps.length ≤ acc.length + n
  | 0, acc, bs, ps, r, h => by simp [iterP] at h; obtain ⟨rfl, rfl⟩ := h; omega
  | n+1, acc, bs, ps, r, h => by
    simp only [iterP] at h
    split at h
    · rename_i k r1 hk
      split at h
      · rename_i v r2 hv
        split at h
        · have h1 := iterP_len gk gv n _ _ _ _ h
          have h2 := Pairs.insert_length_le acc k v
          omega
        · simp at h
      · simp at h
      · simp at h
    · simp at h
    · simp at h

/-- a decoded value is in canonical form for the encoding side (`Good`) as soon as it lies outside the zero-width
    region and its dynamic type descriptors are short enough (`Side`) -/
theorem dec_good (o : Opts) (hd : DecGoodOK o) : ∀ (f : Nat) (dt : Bool) (t : Ty) (bs : Bytes) (v : Val) (r : Bytes),
    dec o f dt t bs = .ok (v, r) → Side o t v → Good o t v
  | 0, dt, t, bs, v, r, h, _ => by simp [dec] at h
  | f+1, dt, t, bs, v, r, h, hs => by
    have ih : ∀ t' bs v r, dec o f false t' bs = .ok (v, r) → Side o t' v → Good o t' v :=
      fun t' bs v r h => dec_good o hd f false t' bs v r h
    have sl : ∀ (t' : Ty) (n : Nat) (bs' : Bytes),
        (match iterV (dec o f false t') n bs' with
          | .ok (vs, r) => (Res.ok (Val.list vs, r) : Res (Val × Bytes)) | .err => .err | .panic => .panic) = .ok (v, r) →
        ∃ vs, v = .list vs ∧ (Sides o t' vs → Goods o t' vs) ∧ vs.length = n := by
      intro t' n bs' he
      split at he <;> simp at he
      rename_i vs r' hv
      obtain ⟨rfl, rfl⟩ := he
      exact ⟨vs, rfl, fun hs' => (iterV_good o t' _ (ih t') n _ _ _ hv hs').1,
        by
          have : ∀ n bs vs r, iterV (dec o f false t') n bs = .ok (vs, r) → vs.length = n := by
            intro n
            induction n with
            | zero => intro bs vs r h; simp [iterV] at h; rw [← h.1]; rfl
            | succ m ihm =>
              intro bs vs r h
              simp only [iterV] at h
              split at h
              · split at h
                · rename_i _ _ _ _ vs2 r2 h2
                  simp at h; rw [← h.1]; simp [Vals.length, ihm _ _ _ h2]
                · simp at h
                · simp at h
              · simp at h
              · simp at h
          exact this n _ _ _ hv⟩
    have mp : ∀ (kt vt : Ty) (n : Nat) (bs' : Bytes),
        (match iterP (dec o f false kt) (dec o f false vt) n .nil bs' with
          | .ok (ps, r) => (Res.ok (Val.map ps, r) : Res (Val × Bytes)) | .err => .err | .panic => .panic) = .ok (v, r) →
        ∃ ps, v = .map ps ∧ (Sidep o kt vt ps → Goodp o kt vt ps) ∧ Pairs.KeysOK .nil ps ∧ ps.length ≤ n := by
      intro kt vt n bs' he
      split at he <;> simp at he
      rename_i ps r' hv
      obtain ⟨rfl, rfl⟩ := he
      obtain ⟨a, b⟩ := iterP_good o kt vt _ _ (ih kt) (ih vt) n .nil _ _ _ hv (by simp [Pairs.All]) (by simp [Pairs.Distinct])
      have := iterP_len _ _ n .nil _ _ _ hv
      exact ⟨ps, rfl, Goodp_of_all o kt vt ps a, KeysOK_of_distinct ps b, by simpa [Pairs.length] using this⟩
    cases t
    case any =>
      simp only [dec] at h
      split at h
      · simp at h; obtain ⟨rfl, rfl⟩ := h; simp [Good, LeafGood]
      · rename_i t' r0 dt' hg
        have hdesc := getDecoder_DescOK o hd dt bs t' r0 dt' hg
        split at h
        · rename_i v0 r1 hv0
          have ih0 := dec_good o hd f dt' t' r0 v0 r1 hv0
          split at h
          · rename_i hany
            simp at h; obtain ⟨rfl, rfl⟩ := h
            subst hany
            exact ih0 hs
          · split at h
            · simp at h; obtain ⟨rfl, rfl⟩ := h; simp [Good, LeafGood]
            · simp at h; obtain ⟨rfl, rfl⟩ := h
              simp only [Side] at hs
              simp only [Good]
              exact ⟨hdesc, hs.1, ih0 hs.2⟩
        · simp at h
        · simp at h
      · simp at h
      · simp at h
    case slice t' =>
      simp only [dec, lenLt_eq, decide_eq_true_eq] at h
      cases bs with
      | nil => simp at h
      | cons b r0 =>
        simp only at h
        split at h
        · simp at h; obtain ⟨rfl, rfl⟩ := h; simp [Good, LeafGood]
        · split at h; · simp at h
          split at h; · simp at h
          rename_i n r' h32
          obtain ⟨hn, _⟩ := rd32_inv _ _ _ h32
          split at h
          · simp at h; obtain ⟨rfl, rfl⟩ := h
            simp [Good, Goods, Vals.length, lim32]
          · split at h; · simp at h
            obtain ⟨vs, rfl, a, c⟩ := sl t' n r' h
            simp only [Side] at hs
            simp only [Good]
            exact ⟨by simp [lim32, c]; omega, hs.1, a hs.2⟩
    case array n t' =>
      simp only [dec] at h
      cases bs with
      | nil =>
        simp at h
        split at h <;> simp at h
        obtain ⟨rfl, rfl⟩ := h
        simp only [Side] at hs
        simp only [Good]
        exact ⟨hs.1, by simp [Goods]⟩
      | cons b r0 =>
        simp only at h
        obtain ⟨vs, rfl, a, c⟩ := sl t' n (b :: r0) h
        simp only [Side] at hs
        simp only [Good]
        exact ⟨hs.1, a hs.2⟩
    case map kt vt =>
      simp only [dec, lenLt_eq, decide_eq_true_eq] at h
      cases bs with
      | nil => simp at h
      | cons b r0 =>
        simp only at h
        split at h
        · simp at h; obtain ⟨rfl, rfl⟩ := h; simp [Good, LeafGood]
        · split at h; · simp at h
          split at h; · simp at h
          rename_i n r' h32
          obtain ⟨hn, _⟩ := rd32_inv _ _ _ h32
          split at h
          · simp at h; obtain ⟨rfl, rfl⟩ := h
            simp [Good, Goodp, Pairs.length, lim32, Pairs.KeysOK]
          · split at h; · simp at h
            obtain ⟨ps, rfl, a, k, c⟩ := mp kt vt n r' h
            simp only [Side] at hs
            simp only [Good]
            exact ⟨by simp [lim32]; omega, hs.1, k, a hs.2⟩
    case struct nm fs =>
      simp only [dec] at h
      split at h <;> simp at h
      rename_i vs r' hv
      obtain ⟨rfl, rfl⟩ := h
      simp only [Side] at hs
      simp only [Good]
      exact iterF_good o _ (fun t bs v r h => ih t bs v r h) fs _ _ _ hv hs
    case marsh nm sz =>
      simp only [dec, lenLt_eq, decide_eq_true_eq] at h
      split at h; · simp at h
      split at h <;> simp at h
      obtain ⟨rfl, rfl⟩ := h
      simp [Good, LeafGood]
    case named nm t' =>
      cases t'
      case slice t'' =>
        simp only [dec, lenLt_eq, decide_eq_true_eq] at h
        cases bs with
        | nil => simp at h
        | cons b r0 =>
          simp only at h
          split at h
          · simp at h; obtain ⟨rfl, rfl⟩ := h; simp [Good, LeafGood]
          · split at h; · simp at h
            split at h; · simp at h
            rename_i n r' h32
            obtain ⟨hn, _⟩ := rd32_inv _ _ _ h32
            split at h; · simp at h
            obtain ⟨vs, rfl, a, c⟩ := sl t'' n r' h
            simp only [Side] at hs
            simp only [Good]
            exact ⟨by simp [lim32, c]; omega, hs.1, a hs.2⟩
      case array n t'' =>
        simp only [dec] at h
        cases bs with
        | nil =>
          simp at h
          split at h <;> simp at h
          obtain ⟨rfl, rfl⟩ := h
          simp only [Side] at hs
          simp only [Good]
          exact ⟨hs.1, by simp [Goods]⟩
        | cons b r0 =>
          simp only at h
          obtain ⟨vs, rfl, a, c⟩ := sl t'' n (b :: r0) h
          simp only [Side] at hs
          simp only [Good]
          exact ⟨hs.1, a hs.2⟩
      case map kt vt =>
        simp only [dec, lenLt_eq, decide_eq_true_eq] at h
        cases bs with
        | nil => simp at h
        | cons b r0 =>
          simp only at h
          split at h
          · simp at h; obtain ⟨rfl, rfl⟩ := h; simp [Good, LeafGood]
          · split at h; · simp at h
            split at h; · simp at h
            rename_i n r' h32
            obtain ⟨hn, _⟩ := rd32_inv _ _ _ h32
            split at h
            · simp at h; obtain ⟨rfl, rfl⟩ := h
              simp [Good, Goodp, Pairs.length, lim32, Pairs.KeysOK]
            · split at h; · simp at h
              obtain ⟨ps, rfl, a, k, c⟩ := mp kt vt n r' h
              simp only [Side] at hs
              simp only [Good]
              exact ⟨by simp [lim32]; omega, hs.1, k, a hs.2⟩
      case bool =>
        simp only [dec, Ty.namedLeaf, ↓reduceIte] at h
        have := decLeaf_good o hd _ _ _ _ h
        cases v <;> simp_all [Good]
      case num p =>
        simp only [dec, Ty.namedLeaf, ↓reduceIte] at h
        have := decLeaf_good o hd _ _ _ _ h
        cases v <;> simp_all [Good]
      case str =>
        simp only [dec, Ty.namedLeaf, ↓reduceIte] at h
        have := decLeaf_good o hd _ _ _ _ h
        cases v <;> simp_all [Good]
      all_goals (simp [dec, Ty.namedLeaf] at h)
    all_goals
      (simp only [dec, Ty.leafTag] at h
       split at h
       · have := decLeaf_good o hd _ _ _ _ h
         cases v <;> simp_all [Good]
       · simp at h)
end ErgoVerif.Edf

package main

import (
	"fmt"
	"go/ast"
	"strings"
)

// Generated/Event.lean: does the termination path of a process (unregisterProcess and what it calls in node/node.go)
// touch the subscriber counter of the events the process was subscribed to?

func init() {
	generators = append(generators, generator{name: "Event", run: genEvent, fallback: "namespace ErgoVerif.Gen.Event\ndef terminationUpdatesCounter : Bool := false\ndef publishDedupes : Bool := false\ndef remoteFramePerNode : Bool := false\ndef subscribeAddsBeforeSnapshot : Bool := false\nend ErgoVerif.Gen.Event\n"})
}

func genEvent() (string, error) {
	f, err := parseFile("node/node.go")
	if err != nil {
		return "", err
	}
	up := funcDecl(f, "node", "unregisterProcess")
	if up == nil {
		return "", fmt.Errorf("node.unregisterProcess not found")
	}
	// functions reachable in one step from unregisterProcess, in node/node.go
	touches := func(fd *ast.FuncDecl) bool {
		found := false
		ast.Inspect(fd.Body, func(n ast.Node) bool {
			if c, ok := n.(*ast.CallExpr); ok && strings.HasSuffix(selName(c.Fun), "atomic.AddInt32") && len(c.Args) == 2 {
				if strings.HasSuffix(selName(c.Args[0]), ".consumers") {
					found = true
				}
			}
			return !found
		})
		return found
	}
	res := touches(up)
	ast.Inspect(up.Body, func(n ast.Node) bool {
		if c, ok := n.(*ast.CallExpr); ok {
			nm := selName(c.Fun)
			if strings.HasPrefix(nm, "n.") {
				if fd := funcDecl(f, "node", strings.TrimPrefix(nm, "n.")); fd != nil && touches(fd) {
					res = true
				}
			}
		}
		return true
	})
	dd, err := publishDedupes()
	if err != nil {
		return "", err
	}
	fd, err := remoteFramePerNode()
	if err != nil {
		return "", err
	}
	ab, err := subscribeAddsBeforeSnapshot()
	if err != nil {
		return "", err
	}
	return fmt.Sprintf("namespace ErgoVerif.Gen.Event\n/-- unregisterProcess decrements eventOwner.consumers for the subscriptions of the terminated process -/\ndef terminationUpdatesCounter : Bool := %s\n"+
		"/-- RouteSendEvent skips a consumer it has already served in this fan-out (`if seen[pid] { continue }; seen[pid] = true` heading the loop over the consumers) -/\ndef publishDedupes : Bool := %s\n"+
		"/-- RouteSendEvent collects the nodes of the remote consumers in a map (a set) and sends one frame per entry -/\ndef remoteFramePerNode : Bool := %s\n"+
		"/-- RouteLinkEvent and RouteMonitorEvent (local event): the relation is inserted before the last-N buffer is read -/\ndef subscribeAddsBeforeSnapshot : Bool := %s\nend ErgoVerif.Gen.Event\n", leanBool(res), leanBool(dd), leanBool(fd), leanBool(ab)), nil
}

// subscribeAddsBeforeSnapshot: in the local branch of RouteLinkEvent / RouteMonitorEvent the call of
// n.targetManager.AddLink / AddMonitor comes before the first read of event.last.
func subscribeAddsBeforeSnapshot() (bool, error) {
	f, err := parseFile("node/core.go")
	if err != nil {
		return false, err
	}
	all := true
	for _, fn := range []string{"RouteLinkEvent", "RouteMonitorEvent"} {
		fd := funcDecl(f, "node", fn)
		if fd == nil {
			return false, fmt.Errorf("node.%s not found", fn)
		}
		var local *ast.BlockStmt
		ast.Inspect(fd.Body, func(n ast.Node) bool {
			is, ok := n.(*ast.IfStmt)
			if !ok || local != nil {
				return local == nil
			}
			if be, ok := is.Cond.(*ast.BinaryExpr); ok {
				x := selName(be.X) + "==" + selName(be.Y)
				if x == "n.name==target.Node" || x == "target.Node==n.name" {
					local = is.Body
				}
			}
			return local == nil
		})
		if local == nil {
			return false, fmt.Errorf("node.%s: local branch not found", fn)
		}
		var addPos, snapPos int
		ast.Inspect(local, func(n ast.Node) bool {
			c, ok := n.(*ast.CallExpr)
			if !ok {
				return true
			}
			nm := selName(c.Fun)
			if (nm == "n.targetManager.AddLink" || nm == "n.targetManager.AddMonitor") && addPos == 0 {
				addPos = int(c.Pos())
			}
			if strings.HasPrefix(nm, "event.last.") && snapPos == 0 {
				snapPos = int(c.Pos())
			}
			return true
		})
		if addPos == 0 || snapPos == 0 {
			return false, fmt.Errorf("node.%s: relation insert or read of event.last not found in the local branch", fn)
		}
		if !(addPos < snapPos) {
			all = false
		}
	}
	return all, nil
}

// remoteFramePerNode: in RouteSendEvent the loop that calls connection.SendEvent ranges over a variable that was
// made as a map (`x := make(map[gen.Atom]bool)`): one iteration, one frame, per remote node.
func remoteFramePerNode() (bool, error) {
	f, err := parseFile("node/core.go")
	if err != nil {
		return false, err
	}
	fd := funcDecl(f, "node", "RouteSendEvent")
	if fd == nil {
		return false, fmt.Errorf("node.RouteSendEvent not found")
	}
	over := ""
	ast.Inspect(fd.Body, func(n ast.Node) bool {
		rs, ok := n.(*ast.RangeStmt)
		if !ok {
			return true
		}
		sends := false
		ast.Inspect(rs.Body, func(x ast.Node) bool {
			if c, ok := x.(*ast.CallExpr); ok && strings.HasSuffix(selName(c.Fun), ".SendEvent") {
				sends = true
			}
			return !sends
		})
		if sends {
			over = selName(rs.X)
		}
		return true
	})
	if over == "" {
		return false, fmt.Errorf("node.RouteSendEvent: the loop sending the event to the remote nodes was not found")
	}
	isMap, found := false, false
	ast.Inspect(fd.Body, func(n ast.Node) bool {
		switch st := n.(type) {
		case *ast.AssignStmt:
			if len(st.Lhs) == 1 && len(st.Rhs) == 1 && selName(st.Lhs[0]) == over && st.Tok.String() == ":=" {
				found = true
				if c, ok := st.Rhs[0].(*ast.CallExpr); ok && selName(c.Fun) == "make" && len(c.Args) >= 1 {
					_, isMap = c.Args[0].(*ast.MapType)
				}
				if cl, ok := st.Rhs[0].(*ast.CompositeLit); ok {
					_, isMap = cl.Type.(*ast.MapType)
				}
			}
		case *ast.ValueSpec:
			for _, nm := range st.Names {
				if nm.Name == over {
					found = true
					_, isMap = st.Type.(*ast.MapType)
				}
			}
		}
		return true
	})
	if !found {
		return false, fmt.Errorf("node.RouteSendEvent: declaration of %s not found", over)
	}
	return isMap, nil
}

// publishDedupes: in node/core.go RouteSendEvent, the loop `for _, pid := range consumers` starts with
// `if M[pid] { continue }` followed by `M[pid] = true`, before anything is sent.
func publishDedupes() (bool, error) {
	f, err := parseFile("node/core.go")
	if err != nil {
		return false, err
	}
	fd := funcDecl(f, "node", "RouteSendEvent")
	if fd == nil {
		return false, fmt.Errorf("node.RouteSendEvent not found")
	}
	res := false
	ast.Inspect(fd.Body, func(n ast.Node) bool {
		rs, ok := n.(*ast.RangeStmt)
		if !ok || selName(rs.X) != "consumers" || len(rs.Body.List) < 2 {
			return true
		}
		v, ok := rs.Value.(*ast.Ident)
		if !ok {
			return true
		}
		isIdx := func(e ast.Expr) string {
			ix, ok := e.(*ast.IndexExpr)
			if !ok {
				return ""
			}
			if id, ok := ix.Index.(*ast.Ident); !ok || id.Name != v.Name {
				return ""
			}
			return selName(ix.X)
		}
		ifs, ok := rs.Body.List[0].(*ast.IfStmt)
		if !ok || ifs.Init != nil || ifs.Else != nil || len(ifs.Body.List) != 1 {
			return true
		}
		m := isIdx(ifs.Cond)
		if br, ok := ifs.Body.List[0].(*ast.BranchStmt); !ok || br.Tok.String() != "continue" || m == "" {
			return true
		}
		as, ok := rs.Body.List[1].(*ast.AssignStmt)
		if !ok || len(as.Lhs) != 1 || len(as.Rhs) != 1 || isIdx(as.Lhs[0]) != m || selName(as.Rhs[0]) != "true" {
			return true
		}
		res = true
		return false
	})
	return res, nil
}

package main

// K3 scenarios on one target process: puppet behaviours (raw gen.ProcessBehavior and act.Actor),
// thread operations (spawn, send by name/pid with priorities, exit signal, Kill, crash / panic / call
// messages), translation of each controlled step into labels of Model/Proc.lean, lockstep comparison
// of state word / mailbox length / thread census with the model after every step, and independent
// oracles for C01 (overlap), C02 (conservation, no lost wake-up), C05 (terminate once / final / reason).

import (
	"errors"
	"fmt"
	"strings"
	"sync"
	"sync/atomic"
	"time"

	"ergo.services/ergo"
	"ergo.services/ergo/act"
	"ergo.services/ergo/gen"
)

// ---------------------------------------------------------------------------------------------
// node
// ---------------------------------------------------------------------------------------------

var k3nodeSeq int32

func startQuietNode(prefix string) (gen.Node, error) { return startQuietNodeOpts(prefix, nil) }

func startQuietNodeOpts(prefix string, mod func(*gen.NodeOptions)) (gen.Node, error) {
	opts := gen.NodeOptions{}
	opts.Network.Mode = gen.NetworkModeDisabled
	opts.Log.Level = gen.LogLevelDisabled
	opts.Log.DefaultLogger.Disable = true
	if mod != nil {
		mod(&opts)
	}
	name := fmt.Sprintf("%s%d@localhost", prefix, atomic.AddInt32(&k3nodeSeq, 1))
	return ergo.StartNode(gen.Atom(name), opts)
}

// ---------------------------------------------------------------------------------------------
// puppet
// ---------------------------------------------------------------------------------------------

type k3msg struct {
	ID   int
	Kind string // "m" plain, "crash", "panic", "call"
}

type puppetState struct {
	ctl      *Ctl
	process  gen.Process
	helper   gen.PID
	initErr  error
	inCb     int32
	overlap  int32
	handled  []int
	terms    int32
	reason   error
	afterTrm int32 // callbacks observed after ProcessTerminate started
	termSeen int32
	mu       sync.Mutex
	mailbox  gen.ProcessMailbox
}

func (s *puppetState) enter() {
	if atomic.AddInt32(&s.inCb, 1) > 1 {
		atomic.StoreInt32(&s.overlap, 1)
	}
	if atomic.LoadInt32(&s.termSeen) != 0 {
		atomic.AddInt32(&s.afterTrm, 1)
	}
}
func (s *puppetState) leave() { atomic.AddInt32(&s.inCb, -1) }

func (s *puppetState) onInit(p gen.Process) error {
	s.enter()
	defer s.leave()
	s.process = p
	s.mailbox = p.Mailbox()
	s.ctl.AddQueue(s.mailbox.Main)
	s.ctl.AddQueue(s.mailbox.System)
	s.ctl.AddQueue(s.mailbox.Urgent)
	s.ctl.AddQueue(s.mailbox.Log)
	s.ctl.Point("cb:init")
	return s.initErr
}

func (s *puppetState) onMessage(m any) error {
	s.enter()
	defer s.leave()
	km, _ := m.(k3msg)
	s.mu.Lock()
	s.handled = append(s.handled, km.ID)
	s.mu.Unlock()
	s.ctl.Point("cb:handle")
	switch km.Kind {
	case "crash":
		return errors.New("boom")
	case "panic":
		panic("k3 panic")
	case "call":
		s.process.CallWithTimeout(s.helper, "ping", 3)
		s.ctl.Point("cb:afterCall")
	}
	return nil
}

func (s *puppetState) onTerminate(reason error) {
	atomic.StoreInt32(&s.termSeen, 1)
	if atomic.AddInt32(&s.inCb, 1) > 1 {
		atomic.StoreInt32(&s.overlap, 1)
	}
	defer s.leave()
	atomic.AddInt32(&s.terms, 1)
	s.mu.Lock()
	s.reason = reason
	s.mu.Unlock()
	s.ctl.Point("cb:terminate")
}

func (s *puppetState) mailLen() int {
	if s.mailbox.Main == nil {
		return 0
	}
	return int(s.mailbox.Main.Len() + s.mailbox.System.Len() + s.mailbox.Urgent.Len() + s.mailbox.Log.Len())
}

// raw behaviour: its own mailbox loop
type rawPuppet struct{ s *puppetState }

func (r *rawPuppet) ProcessInit(p gen.Process, args ...any) error { return r.s.onInit(p) }
func (r *rawPuppet) ProcessRun() error {
	mb := r.s.mailbox
	for {
		if r.s.process.State() != gen.ProcessStateRunning {
			return gen.TerminateReasonKill
		}
		var msg any
		var ok bool
		if msg, ok = mb.Urgent.Pop(); !ok {
			if msg, ok = mb.System.Pop(); !ok {
				if msg, ok = mb.Main.Pop(); !ok {
					if msg, ok = mb.Log.Pop(); !ok {
						return nil
					}
				}
			}
		}
		mm := msg.(*gen.MailboxMessage)
		switch mm.Type {
		case gen.MailboxMessageTypeExit:
			if e, ok := mm.Message.(gen.MessageExitPID); ok {
				return e.Reason
			}
			return gen.TerminateReasonShutdown
		default:
			if err := r.s.onMessage(mm.Message); err != nil {
				return err
			}
		}
	}
}
func (r *rawPuppet) ProcessTerminate(reason error) { r.s.onTerminate(reason) }

// actor behaviour: act.Actor's loop
type actorPuppet struct {
	act.Actor
	s *puppetState
}

func (a *actorPuppet) Init(args ...any) error { return a.s.onInit(a.Actor.Process) }
func (a *actorPuppet) HandleMessage(from gen.PID, m any) error {
	return a.s.onMessage(m)
}
func (a *actorPuppet) Terminate(reason error) { a.s.onTerminate(reason) }

// helper answers calls
type k3helper struct{ act.Actor }

func (h *k3helper) HandleCall(from gen.PID, ref gen.Ref, req any) (any, error) { return "pong", nil }

// ---------------------------------------------------------------------------------------------
// scenario
// ---------------------------------------------------------------------------------------------

type k3op struct {
	Name string `json:"thread"`
	Op   string `json:"op"` // send|sendpid|exit|kill|crash|panic|call
	Prio int    `json:"prio,omitempty"`
	ID   int    `json:"id,omitempty"`
}

type k3scenario struct {
	Actor       bool     `json:"actor"`
	MailboxSize int64    `json:"mailbox_size"`
	InitFail    bool     `json:"init_fail,omitempty"`
	Ops         []k3op   `json:"ops"`
	Choices     []string `json:"choices"` // "start:<thread>" | "step:<thread>"
}

type k3step struct {
	labels []string
	st     int
	mail   int
	census [22]int
}

type k3run struct {
	sc       k3scenario
	steps    []k3step
	trace    []string
	stuck    string
	unmapped string
	overlap  bool
	terms    int
	afterTrm int
	handled  []int
	okSends  map[int]bool
	errSends map[int]bool
	finalSt  int
	finalLen int
	reason   error
	kills    int
	exits    int
	crashes  int
	panics   int
	spawnErr error
}

var censusIdx = map[string]int{
	"cb:init": 0, "spawn:storeSleep": 1, "send:alive": 2, "send:push": 3, "mpsc:link": 4, "run:cas": 5, "run:go": 6,
	"runner:start": 7, "cb:handle": 8, "cb:afterCall": 8, "wait:casEnter": 8, "wait:casExit": 8,
	"runner:casSleep": 9, "runner:recheck": 10, "runner:casRun": 11, "runner:swapTermErr": 12,
	"runner:swapTermPanic": 13, "runner:swapTermKill": 14, "kill:swapZ": 15, "kill:store": 16, "kill:swapT": 17,
	// 18 fE, 19 fP: never parked
	"kill:go": 20, "kill:terminate": 20, "cb:terminate": 21,
}

func stepLabels(from, to string, pops int) ([]string, bool) {
	var ls []string
	rep := func(n int) {
		for i := 0; i < n; i++ {
			ls = append(ls, "pop")
		}
	}
	tail := func() bool {
		switch to {
		case "cb:handle", "wait:casEnter", "cb:afterCall":
			return true
		case "runner:casSleep":
			ls = append(ls, "retNil")
		case "runner:swapTermErr":
			ls = append(ls, "retErr")
		case "runner:swapTermPanic":
			ls = append(ls, "panic")
		default:
			return false
		}
		return true
	}
	switch from {
	case "cb:init":
		if to == "spawn:storeSleep" {
			return []string{"initOk"}, true
		}
		if to == "done" {
			return []string{"initFail"}, true
		}
	case "spawn:storeSleep":
		if to == "run:cas" {
			return []string{"storeSleep"}, true
		}
	case "send:alive":
		if to == "send:push" || to == "done" {
			return []string{"aliveChk"}, true
		}
	case "send:push":
		if to == "mpsc:link" {
			return []string{"push"}, true
		}
		if to == "done" {
			return []string{"pushFull"}, true
		}
	case "mpsc:link":
		if to == "run:cas" {
			return []string{"link"}, true
		}
	case "run:cas":
		if to == "run:go" || to == "done" {
			return []string{"runCas"}, true
		}
	case "run:go":
		if to == "done" {
			return []string{"runGo"}, true
		}
	case "kill:swapZ":
		if to == "done" || to == "kill:store" || to == "kill:swapT" {
			return []string{"kSwapZ"}, true
		}
	case "kill:store":
		if to == "done" {
			return []string{"kStore"}, true
		}
	case "kill:swapT":
		if to == "done" || to == "kill:go" {
			return []string{"kSwapT"}, true
		}
	case "kill:go":
		if to == "done" {
			return nil, true
		}
	case "kill:terminate":
		if to == "cb:terminate" {
			return []string{"termEnterK"}, true
		}
	case "cb:terminate":
		if to == "done" {
			return []string{"termDone"}, true
		}
	case "runner:start":
		ls = append(ls, "start")
		rep(pops)
		return ls, tail()
	case "cb:handle", "cb:afterCall":
		rep(pops)
		return ls, tail()
	case "wait:casEnter":
		if to == "wait:casExit" || to == "cb:afterCall" {
			return []string{"waitEnter"}, true
		}
	case "wait:casExit":
		if to == "cb:afterCall" {
			return []string{"waitExit"}, true
		}
	case "runner:casSleep":
		if to == "runner:recheck" || to == "runner:swapTermKill" {
			return []string{"casSleep"}, true
		}
	case "runner:recheck":
		if to == "done" {
			return []string{"recheckEmpty"}, true
		}
		if to == "runner:casRun" {
			return []string{"recheckSome"}, true
		}
	case "runner:casRun":
		ls = append(ls, "casRun")
		if to == "done" {
			return ls, true
		}
		rep(pops)
		return ls, tail()
	case "runner:swapTermErr", "runner:swapTermPanic", "runner:swapTermKill":
		sw := map[string]string{"runner:swapTermErr": "swapErr", "runner:swapTermPanic": "swapPanic", "runner:swapTermKill": "swapKill"}[from]
		te := map[string]string{"runner:swapTermErr": "termEnterE", "runner:swapTermPanic": "termEnterP", "runner:swapTermKill": "termEnterK"}[from]
		if to == "done" {
			return []string{sw}, true
		}
		if to == "cb:terminate" {
			return []string{sw, te}, true
		}
	}
	return nil, false
}

// runK3 executes one scenario under the controller. When sc.Choices is empty the schedule is drawn from rng
// (mode 0 uniform, 1 priority-based with change points) and recorded into the returned run.
func runK3(node gen.Node, helper gen.PID, sc k3scenario, rng *Rng, mode int, seq int) *k3run {
	run := &k3run{sc: sc, okSends: map[int]bool{}, errSends: map[int]bool{}}
	name := gen.Atom(fmt.Sprintf("k3target_%d", seq))
	ctl := NewCtl(name)
	defer ctl.Close()
	ps := &puppetState{ctl: ctl, helper: helper}
	if sc.InitFail {
		ps.initErr = errors.New("init failed")
	}
	factory := func() gen.ProcessBehavior {
		if sc.Actor {
			return &actorPuppet{s: ps}
		}
		return &rawPuppet{s: ps}
	}
	var pid gen.PID
	var pidMu sync.Mutex
	getPid := func() gen.PID { pidMu.Lock(); defer pidMu.Unlock(); return pid }
	var smu sync.Mutex
	ctl.On()
	replay := len(sc.Choices) > 0
	var choices []string
	record := func(l []string, ok bool, from, to, th string) bool {
		if !ok {
			// the implementation made a transition the model has no label for: keep scheduling (the oracles
			// still observe the run); the lockstep comparison reports the divergence
			if run.unmapped == "" {
				run.unmapped = fmt.Sprintf("unmapped transition %s: %s -> %s", th, from, to)
			}
			l = []string{"unmapped:" + from + "->" + to}
		}
		var st k3step
		st.labels = l
		if ps.process != nil {
			st.st = int(ps.process.State())
		} else {
			st.st = 1
		}
		st.mail = ps.mailLen()
		for lab, n := range ctl.Census() {
			if i, ok := censusIdx[lab]; ok {
				st.census[i] += n
			}
		}
		run.steps = append(run.steps, st)
		return true
	}
	startThread := func(op k3op) bool {
		var fn func()
		switch op.Op {
		case "spawn":
			fn = func() {
				p, err := node.SpawnRegister(name, factory, gen.ProcessOptions{MailboxSize: sc.MailboxSize})
				pidMu.Lock()
				pid = p
				pidMu.Unlock()
				run.spawnErr = err
			}
		case "send", "crash", "panic", "call", "sendpid":
			kind := "m"
			if op.Op == "crash" || op.Op == "panic" || op.Op == "call" {
				kind = op.Op
			}
			prio := []gen.MessagePriority{gen.MessagePriorityNormal, gen.MessagePriorityHigh, gen.MessagePriorityMax}[op.Prio%3]
			fn = func() {
				var to any = gen.ProcessID{Name: name, Node: node.Name()}
				if op.Op == "sendpid" {
					to = getPid()
				}
				err := node.SendWithPriority(to, k3msg{ID: op.ID, Kind: kind}, prio)
				smu.Lock()
				if err == nil {
					run.okSends[op.ID] = true
				} else {
					run.errSends[op.ID] = true
				}
				smu.Unlock()
			}
		case "exit":
			fn = func() { node.SendExit(getPid(), errors.New("exit-signal")) }
		case "kill":
			fn = func() { node.Kill(getPid()) }
		default:
			return false
		}
		to, err := ctl.Start(op.Name, fn)
		if err != nil {
			run.stuck = err.Error()
			return false
		}
		var l []string
		switch to {
		case "cb:init", "done":
		case "send:alive":
			l = []string{"newSender"}
		case "send:push":
			l = []string{"newSender", "skipAlive"}
		case "kill:swapZ":
			l = []string{"newKiller"}
		default:
			run.stuck = "unexpected first park " + to + " of " + op.Name
			return false
		}
		switch op.Op {
		case "kill":
			run.kills++
		case "exit":
			run.exits++
		case "crash":
			run.crashes++
		case "panic":
			run.panics++
		}
		return record(l, true, "start", to, op.Name)
	}
	stepThread := func(th string) bool {
		before := ps.mailLen()
		t := ctl.Find(th)
		if t == nil || !t.parked {
			run.stuck = "replay: thread not parked: " + th
			return false
		}
		isRunner := strings.HasPrefix(t.first, "runner:") || strings.HasPrefix(t.label, "runner:") || strings.HasPrefix(t.label, "cb:handle") ||
			strings.HasPrefix(t.label, "cb:afterCall") || strings.HasPrefix(t.label, "wait:")
		from, to, _, err := ctl.Step(th)
		if err != nil {
			run.stuck = err.Error()
			return false
		}
		pops := 0
		if isRunner {
			pops = before - ps.mailLen()
			if pops < 0 {
				pops = 0
			}
		}
		l, ok := stepLabels(from, to, pops)
		return record(l, ok, from, to, th)
	}

	pending := append([]k3op(nil), sc.Ops...)
	// the spawner always starts first
	if !startThread(k3op{Name: "I", Op: "spawn"}) {
		ctl.ReleaseAll()
		return run
	}
	choices = append(choices, "start:I")
	prioOf := map[string]int{}
	if replay {
		for _, ch := range sc.Choices[1:] {
			var ok bool
			if strings.HasPrefix(ch, "start:") {
				nm := ch[6:]
				for i, op := range pending {
					if op.Name == nm {
						ok = startThread(op)
						pending = append(pending[:i], pending[i+1:]...)
						break
					}
				}
			} else {
				ok = stepThread(ch[5:])
			}
			if !ok {
				break
			}
		}
	} else {
		changePoints := map[int]bool{}
		if mode == 1 {
			for i := 0; i < 3; i++ {
				changePoints[rng.Intn(60)] = true
			}
		}
		for n := 0; n < 400; n++ {
			pk := ctl.Parked()
			if len(pk) == 0 && len(pending) == 0 {
				break
			}
			startNew := len(pending) > 0 && (len(pk) == 0 || rng.Chance(1, 4))
			if startNew {
				// kill/exit/sendpid need the pid: only once the spawner passed init
				i := rng.Intn(len(pending))
				op := pending[i]
				if (op.Op == "kill" || op.Op == "exit" || op.Op == "sendpid") && ps.process == nil {
					if len(pk) == 0 {
						break
					}
					startNew = false
				} else {
					if op.Op == "kill" || op.Op == "exit" || op.Op == "sendpid" {
						pidMu.Lock()
						pid = ps.process.PID()
						pidMu.Unlock()
					}
					pending = append(pending[:i], pending[i+1:]...)
					choices = append(choices, "start:"+op.Name)
					if !startThread(op) {
						break
					}
					continue
				}
			}
			if len(pk) == 0 {
				break
			}
			var pick *k3thread
			if mode == 1 {
				if changePoints[n] {
					prioOf[pk[rng.Intn(len(pk))].name] = -n
				}
				best := -1 << 30
				for _, t := range pk {
					p, ok := prioOf[t.name]
					if !ok {
						p = rng.Intn(1000)
						prioOf[t.name] = p
					}
					if p > best {
						best, pick = p, t
					}
				}
			} else {
				pick = pk[rng.Intn(len(pk))]
			}
			choices = append(choices, "step:"+pick.name)
			if !stepThread(pick.name) {
				break
			}
		}
		run.sc.Choices = choices
	}
	// drain: anything still parked (after a stuck/limit) runs freely
	left := len(ctl.Parked())
	ctl.ReleaseAll()
	if left > 0 && run.stuck == "" {
		run.stuck = "step limit reached"
	}
	time.Sleep(200 * time.Microsecond)
	run.trace = ctl.Trace
	run.overlap = atomic.LoadInt32(&ps.overlap) != 0
	run.terms = int(atomic.LoadInt32(&ps.terms))
	run.afterTrm = int(atomic.LoadInt32(&ps.afterTrm))
	ps.mu.Lock()
	run.handled = append([]int(nil), ps.handled...)
	run.reason = ps.reason
	ps.mu.Unlock()
	if ps.process != nil {
		run.finalSt = int(ps.process.State())
	} else {
		run.finalSt = 1
	}
	run.finalLen = ps.mailLen()
	// clean up the target if it is still alive
	if ps.process != nil && run.finalSt != int(gen.ProcessStateTerminated) {
		node.Kill(ps.process.PID())
	}
	return run
}

// genK3Scenario draws a scenario.
func genK3Scenario(rng *Rng) k3scenario {
	sc := k3scenario{Actor: rng.Bool()}
	if rng.Chance(1, 4) {
		sc.MailboxSize = int64(1 + rng.Intn(2))
	}
	if rng.Chance(1, 25) {
		sc.InitFail = true
	}
	n := 2 + rng.Intn(5)
	id := 1
	for i := 0; i < n; i++ {
		var op k3op
		r := rng.Intn(100)
		switch {
		case r < 45:
			op = k3op{Op: "send", Prio: rng.Intn(3)}
		case r < 55:
			op = k3op{Op: "sendpid", Prio: rng.Intn(3)}
		case r < 70:
			op = k3op{Op: "kill"}
		case r < 78:
			op = k3op{Op: "exit"}
		case r < 86:
			op = k3op{Op: "crash"}
		case r < 92:
			op = k3op{Op: "panic"}
		default:
			op = k3op{Op: "call"}
		}
		op.ID = id
		id++
		pre := "S"
		if op.Op == "kill" {
			pre = "K"
		}
		op.Name = fmt.Sprintf("%s%d", pre, i)
		sc.Ops = append(sc.Ops, op)
	}
	return sc
}

// modelLines renders a run for the Proc driver: "reset", then one line per step "l1,l2,..|st|mail|census".
func (r *k3run) modelLines() []string {
	ls := []string{"reset"}
	for _, s := range r.steps {
		lab := "-"
		if len(s.labels) > 0 {
			lab = strings.Join(s.labels, ",")
		}
		ls = append(ls, "step "+lab)
	}
	return ls
}

func (s *k3step) expect() string {
	var sb strings.Builder
	fmt.Fprintf(&sb, "ok st=%d mail=%d cen=", s.st, s.mail)
	for i, v := range s.census {
		if i > 0 {
			sb.WriteByte(',')
		}
		fmt.Fprintf(&sb, "%d", v)
	}
	return sb.String()
}

import ErgoVerif.Drive.Util
import ErgoVerif.Drive.Window
open ErgoVerif.Drive

def main (args : List String) : IO UInt32 := do
  let stdin ← IO.getStdin
  match args with
  | ["window"] => loopPure stdin Window.line; return 0
  | _ => IO.eprintln "usage: driver <model>"; return 2

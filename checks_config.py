# per-property configuration of ./check
PROPS = {
    "C09": {
        "lean": ["ErgoVerif.Props.C09"],
        "anchors": [],
        "technique": "Lean 4 theorem (induction over the failure history, lazily pruned list = window of the full history) + differential correspondence with the real function via a verif export",
        "level_text": "C09_window proves for every period, intensity and monotone failure history that folding the model of supCheckRestartIntensity gives exactly the rule's verdicts; the model is tied to the code by running both on stored histories placed on the window boundary and on whole virtual-time histories.",
        "level_note": "Trusted: Lean kernel, harness; the clock is assumed monotone; the tie is differential (sampled), the theorem is about the model.",
        "assumptions": ["time.Now().UnixMilli() is monotone non-decreasing over a supervisor's life (the theorem is stated for sorted histories)",
                        "Period and Intensity are uint16 (no overflow in period*1000)"],
    },
}

ALL = ["C%02d" % i for i in range(1, 21)]
HOOK_COMMITS = ["74f0c8d54e1a04353b733ad6349e5311aabb612f"]
NOT_APPLICABLE = [{"property_id": p, "reason": "check not built yet (work in progress; see DESIGN.md §6 for the plan)"} for p in ALL if p not in PROPS]

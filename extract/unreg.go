package main

import (
	"fmt"
	"go/ast"
)

// Generated/Unreg.lean: node.unregisterProcess releases the registered name (n.names.Delete) before it sends the exit
// signals of the terminating process (n.RouteTerminatePID): a supervisor that handles the exit signal and restarts the
// child under the same name at once must find the name free (defect D28, repaired).

func init() {
	generators = append(generators, generator{name: "Unreg", run: genUnreg,
		fallback: "namespace ErgoVerif.Gen.Unreg\ndef nameReleasedBeforeExitSignals : Bool := false\ndef cleansRequesterSide : Bool := false\nend ErgoVerif.Gen.Unreg\n"})
}

func genUnreg() (string, error) {
	f, err := parseFile("node/node.go")
	if err != nil {
		return "", err
	}
	fd := funcDecl(f, "node", "unregisterProcess")
	if fd == nil {
		return "", fmt.Errorf("node.unregisterProcess not found")
	}
	del, sig := 0, 0
	cleans := false
	ast.Inspect(fd.Body, func(n ast.Node) bool {
		if c, ok := n.(*ast.CallExpr); ok {
			switch selName(c.Fun) {
			case "n.targetManager.CleanupConsumer":
				cleans = true
			case "n.names.Delete":
				if del == 0 {
					del = int(c.Pos())
				}
			case "n.RouteTerminatePID":
				if sig == 0 {
					sig = int(c.Pos())
				}
			}
		}
		return true
	})
	if del == 0 || sig == 0 {
		return "", fmt.Errorf("unregisterProcess: names.Delete / RouteTerminatePID not found")
	}
	return fmt.Sprintf("namespace ErgoVerif.Gen.Unreg\n/-- unregisterProcess deletes the registered name before RouteTerminatePID sends the exit signals -/\ndef nameReleasedBeforeExitSignals : Bool := %s\n/-- unregisterProcess drops the relations the terminated process holds as requester (targetManager.CleanupConsumer) -/\ndef cleansRequesterSide : Bool := %s\nend ErgoVerif.Gen.Unreg\n", leanBool(del < sig), leanBool(cleans)), nil
}

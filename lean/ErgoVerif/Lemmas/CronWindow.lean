/-
Schedule / JobSchedule: the minutes of the window and what is listed for them.
-/
import ErgoVerif.Lemmas.CronSched
namespace ErgoVerif.CronSched
open ErgoVerif.Cron

/-- minute m (as an instant: m·60 s) lies in [since truncated to the minute, that + period) -/
def inWindow (sinceNs periodNs m : Int) : Prop :=
  sinceNs / minuteNs ≤ m ∧ m * minuteNs < (sinceNs / minuteNs) * minuteNs + periodNs

theorem mem_windowLoop (fuel : Nat) (now e : Int) (hf : e - now ≤ fuel * minuteNs) (x : Int) :
    x ∈ windowLoop now e fuel ↔ ∃ i : Nat, x = now + i * minuteNs ∧ x < e := by
  unfold minuteNs at *
  induction fuel generalizing now with
  | zero =>
    simp only [windowLoop, List.not_mem_nil, false_iff]
    rintro ⟨i, rfl, h⟩
    omega
  | succ fuel ih =>
    simp only [windowLoop]
    split
    · rename_i hlt
      simp only [List.mem_cons]
      rw [ih (now + minuteNs) (by unfold minuteNs; omega)]
      unfold minuteNs
      constructor
      · rintro (rfl | ⟨i, rfl, h⟩)
        · exact ⟨0, by omega, hlt⟩
        · exact ⟨i + 1, by omega, h⟩
      · rintro ⟨i, rfl, h⟩
        cases i with
        | zero => left; omega
        | succ j => right; exact ⟨j, by omega, h⟩
    · rename_i hge
      simp only [List.not_mem_nil, false_iff]
      rintro ⟨i, rfl, h⟩
      omega

theorem windowLoop_ge (fuel : Nat) (now e : Int) : ∀ x ∈ windowLoop now e fuel, now ≤ x := by
  induction fuel generalizing now with
  | zero => simp [windowLoop]
  | succ fuel ih =>
    simp only [windowLoop]
    split
    · intro x hx
      rcases List.mem_cons.mp hx with rfl | hx
      · omega
      · have := ih (now + minuteNs) x hx
        unfold minuteNs at this; omega
    · simp

theorem windowLoop_sorted (fuel : Nat) (now e : Int) :
    (windowLoop now e fuel).Pairwise (fun a b => a / minuteNs < b / minuteNs) := by
  induction fuel generalizing now with
  | zero => simp [windowLoop]
  | succ fuel ih =>
    simp only [windowLoop]
    split
    · rw [List.pairwise_cons]
      refine ⟨?_, ih _⟩
      intro x hx
      have := windowLoop_ge fuel (now + minuteNs) e x hx
      unfold minuteNs at *; omega
    · simp

theorem mem_window (sinceNs periodNs m : Int) : m ∈ window sinceNs periodNs ↔ inWindow sinceNs periodNs m := by
  unfold window windowNs inWindow
  simp only [List.mem_map]
  have hf : (sinceNs / minuteNs * minuteNs + periodNs) - sinceNs / minuteNs * minuteNs ≤ periodNs.toNat * minuteNs := by
    unfold minuteNs; omega
  constructor
  · rintro ⟨x, hx, rfl⟩
    obtain ⟨i, rfl, h⟩ := (mem_windowLoop _ _ _ hf x).mp hx
    unfold minuteNs at *; omega
  · rintro ⟨h1, h2⟩
    refine ⟨m * minuteNs, (mem_windowLoop _ _ _ hf _).mpr ⟨(m - sinceNs / minuteNs).toNat, ?_, h2⟩, ?_⟩
    · unfold minuteNs at *; omega
    · unfold minuteNs; omega

theorem window_sorted (sinceNs periodNs : Int) : (window sinceNs periodNs).Pairwise (· < ·) := by
  unfold window windowNs
  rw [List.pairwise_map]
  exact windowLoop_sorted _ _ _

/-- JobSchedule of a present job: exactly the minutes of the window at which its masks run, ascending -/
theorem jobSchedule_spec (civil : CivilFn) (s : Sched) (name : Nat) (sinceNs periodNs : Int) (l : List Int)
    (h : jobSchedule civil s name sinceNs periodNs = some l) :
    ∃ p, findJob s name = some p ∧ l.Pairwise (· < ·) ∧
      ∀ m, m ∈ l ↔ inWindow sinceNs periodNs m ∧ runsAt civil (s.objs p) m = true := by
  unfold jobSchedule at h
  simp only [Option.map_eq_some_iff] at h
  obtain ⟨p, hp, rfl⟩ := h
  refine ⟨p, hp, (window_sorted sinceNs periodNs).filter _, fun m => ?_⟩
  simp [List.mem_filter, mem_window]

theorem jobSchedule_none (civil : CivilFn) (s : Sched) (name : Nat) (sinceNs periodNs : Int) :
    jobSchedule civil s name sinceNs periodNs = none ↔ findJob s name = none := by
  simp [jobSchedule]

/-- Schedule: an entry for exactly the window minutes at which some present job runs, with exactly those jobs -/
theorem scheduleList_spec (civil : CivilFn) (s : Sched) (sinceNs periodNs : Int) (m : Int) (js : List Nat) :
    (m, js) ∈ scheduleList civil s sinceNs periodNs ↔
      inWindow sinceNs periodNs m ∧ js = s.jobs.filter (fun p => runsAt civil (s.objs p) m) ∧ js ≠ [] := by
  unfold scheduleList
  simp only [List.mem_filterMap, mem_window]
  constructor
  · rintro ⟨m', hw, h⟩
    split at h
    · cases h
    · rename_i hne
      simp only [Option.some.injEq, Prod.mk.injEq] at h
      obtain ⟨rfl, rfl⟩ := h
      exact ⟨hw, rfl, by simpa using hne⟩
  · rintro ⟨hw, rfl, hne⟩
    refine ⟨m, hw, ?_⟩
    have : (s.jobs.filter (fun p => runsAt civil (s.objs p) m)).isEmpty = false := by
      simpa using hne
    simp [this]

end ErgoVerif.CronSched

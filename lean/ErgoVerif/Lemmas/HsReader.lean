import ErgoVerif.Model.HsReader
namespace ErgoVerif.HsReader
open ErgoVerif.Generated

/-- the bound on a message: header + the largest accepted length field -/
def maxMsg : Nat := Hs.needBase + Hs.maxLen

theorem header_cases (chunk : Bytes) (h : Hs.headerLen ≤ chunk.length) :
    header chunk = .errMagic ∨ header chunk = .errVersion ∨ header chunk = .errTooLong ∨
    (∃ n, header chunk = .need n ∧ chunk.length < n ∧ n ≤ maxMsg) ∨
    (header chunk = .done (chunk.drop Hs.payloadOff)) := by
  match chunk, h with
  | a :: b :: c :: d :: e :: f :: rest, _ =>
    simp only [header, idx, be32, Hs.magicOff, Hs.versionOff, Hs.lenLo, Hs.lenHi, Hs.handshakeMagic,
      Hs.handshakeVersion, Hs.maxLen, Hs.needBase, Hs.payloadOff, maxMsg, List.length_cons,
      List.getElem?_cons_zero, List.getElem?_cons_succ, List.drop_succ_cons, List.drop_zero]
    split
    · simp
    · split
      · simp
      · have h1 : (2 ≤ 6 ∧ 6 ≤ rest.length + 1 + 1 + 1 + 1 + 1 + 1 ∧ 4 ≤ 6 - 2) := by omega
        simp only [h1, and_self, ↓reduceIte]
        split
        · simp
        · split
          · rename_i hlt
            right; right; right; left
            exact ⟨_, rfl, by omega, by omega⟩
          · simp
  | [], h => simp [Hs.headerLen] at h
  | [_], h => simp [Hs.headerLen] at h
  | [_, _], h => simp [Hs.headerLen] at h
  | [_, _, _], h => simp [Hs.headerLen] at h
  | [_, _, _, _], h => simp [Hs.headerLen] at h
  | [_, _, _, _, _], h => simp [Hs.headerLen] at h

theorem header_no_panic (chunk : Bytes) (h : Hs.headerLen ≤ chunk.length) : header chunk ≠ .panic := by
  rcases header_cases chunk h with h | h | h | ⟨n, h, _⟩ | h <;> simp [h]

theorem take_len (r : Bytes) : (r.take Hs.readBuf).length ≤ Hs.readBuf := by
  simp [List.length_take]; omega

theorem loop_no_panic (conn : List Bytes) : ∀ (chunk : Bytes) (expect peak reads : Nat),
    Hs.headerLen ≤ expect → (loop chunk expect conn peak reads).res ≠ .panic := by
  induction conn with
  | nil =>
    intro chunk expect peak reads he
    unfold loop
    split
    · simp
    · rename_i hlt
      have hl : Hs.headerLen ≤ chunk.length := by omega
      rcases header_cases chunk hl with h | h | h | ⟨n, h, _⟩ | h <;> simp [h]
  | cons r rest ih =>
    intro chunk expect peak reads he
    unfold loop
    split
    · exact ih _ _ _ _ he
    · rename_i hlt
      have hl : Hs.headerLen ≤ chunk.length := by omega
      rcases header_cases chunk hl with h | h | h | ⟨n, h, h1, _⟩ | h
      · simp [h]
      · simp [h]
      · simp [h]
      · simp only [h]
        exact ih _ _ _ _ (by omega)
      · simp [h]

theorem loop_peak (B : Nat) (hB : maxMsg + Hs.readBuf ≤ B) (conn : List Bytes) :
    ∀ (chunk : Bytes) (expect peak reads : Nat),
    Hs.headerLen ≤ expect → expect ≤ maxMsg → peak ≤ B →
    (loop chunk expect conn peak reads).peak ≤ B := by
  induction conn with
  | nil =>
    intro chunk expect peak reads he hm hp
    unfold loop
    split
    · simpa using hp
    · rename_i hlt
      have hl : Hs.headerLen ≤ chunk.length := by omega
      rcases header_cases chunk hl with h | h | h | ⟨n, h, _⟩ | h <;> simp [h] <;> exact hp
  | cons r rest ih =>
    intro chunk expect peak reads he hm hp
    have htl := take_len r
    unfold loop
    split
    · rename_i hlt
      apply ih _ _ _ _ he hm
      simp only [List.length_append]
      apply Nat.max_le.mpr
      exact ⟨hp, by omega⟩
    · rename_i hlt
      have hl : Hs.headerLen ≤ chunk.length := by omega
      rcases header_cases chunk hl with h | h | h | ⟨n, h, h1, h2⟩ | h
      · simp [h]; exact hp
      · simp [h]; exact hp
      · simp [h]; exact hp
      · simp only [h]
        apply ih _ _ _ _ (by omega) h2
        simp only [List.length_append]
        apply Nat.max_le.mpr
        exact ⟨hp, by omega⟩
      · simp [h]; exact hp

/-- the bytes the reader has accumulated after consuming `k` reads -/
def acc (chunk : Bytes) (conn : List Bytes) (k : Nat) : Bytes :=
  chunk ++ ((conn.take k).map (·.take Hs.readBuf)).flatten

theorem loop_ok (conn : List Bytes) : ∀ (chunk : Bytes) (expect peak reads : Nat) (p : Bytes),
    Hs.headerLen ≤ expect → (loop chunk expect conn peak reads).res = .ok p →
    ∃ k, k ≤ conn.length ∧ header (acc chunk conn k) = .done p ∧
      (loop chunk expect conn peak reads).reads = reads + k := by
  induction conn with
  | nil =>
    intro chunk expect peak reads p he h
    unfold loop at h ⊢
    split at h
    · simp at h
    · rename_i hlt
      have hl : Hs.headerLen ≤ chunk.length := by omega
      simp only [hlt, ↓reduceIte]
      rcases header_cases chunk hl with h' | h' | h' | ⟨n, h', _⟩ | h' <;> simp only [h'] at h ⊢ <;> try (simp at h)
      subst h
      exact ⟨0, by simp, by simp [acc, h'], by simp⟩
  | cons r rest ih =>
    intro chunk expect peak reads p he h
    unfold loop at h ⊢
    split at h
    · rename_i hlt
      simp only [hlt, ↓reduceIte]
      obtain ⟨k, hk, hh, hr⟩ := ih _ _ _ _ p he h
      refine ⟨k + 1, by simp; omega, ?_, by rw [hr]; omega⟩
      simpa [acc, List.append_assoc] using hh
    · rename_i hlt
      have hl : Hs.headerLen ≤ chunk.length := by omega
      simp only [hlt, ↓reduceIte]
      rcases header_cases chunk hl with h' | h' | h' | ⟨n, h', h1, _⟩ | h'
      · simp [h'] at h
      · simp [h'] at h
      · simp [h'] at h
      · simp only [h'] at h ⊢
        obtain ⟨k, hk, hh, hr⟩ := ih _ _ _ _ p (by omega) h
        refine ⟨k + 1, by simp; omega, ?_, by rw [hr]; omega⟩
        simpa [acc, List.append_assoc] using hh
      · simp only [h', Res.ok.injEq] at h ⊢
        subst h
        exact ⟨0, by simp, by simp [acc, h'], by simp⟩

theorem take_pos (r : Bytes) (h : r ≠ []) : 1 ≤ (r.take Hs.readBuf).length := by
  cases r with
  | nil => exact absurd rfl h
  | cons a t => simp [List.length_take, Hs.readBuf]

theorem loop_reads (conn : List Bytes) (hne : ∀ r ∈ conn, r ≠ []) :
    ∀ (chunk : Bytes) (expect peak reads : Nat),
    Hs.headerLen ≤ expect → expect ≤ maxMsg →
    (loop chunk expect conn peak reads).reads ≤ reads + (maxMsg - chunk.length) + 1 := by
  induction conn with
  | nil =>
    intro chunk expect peak reads he hm
    unfold loop
    split
    · simp
    · rename_i hlt
      have hl : Hs.headerLen ≤ chunk.length := by omega
      rcases header_cases chunk hl with h | h | h | ⟨n, h, _⟩ | h <;> simp [h] <;> omega
  | cons r rest ih =>
    intro chunk expect peak reads he hm
    have hpos := take_pos r (hne r (by simp))
    have ih' := ih (fun x hx => hne x (by simp [hx]))
    unfold loop
    split
    · rename_i hlt
      have := ih' (chunk ++ r.take Hs.readBuf) expect (max peak (chunk ++ r.take Hs.readBuf).length) (reads + 1) he hm
      simp only [List.length_append] at this ⊢
      omega
    · rename_i hlt
      have hl : Hs.headerLen ≤ chunk.length := by omega
      rcases header_cases chunk hl with h | h | h | ⟨n, h, h1, h2⟩ | h
      · simp [h]; omega
      · simp [h]; omega
      · simp [h]; omega
      · simp only [h]
        have := ih' (chunk ++ r.take Hs.readBuf) n (max peak (chunk ++ r.take Hs.readBuf).length) (reads + 1) (by omega) h2
        simp only [List.length_append] at this ⊢
        omega
      · simp [h]; omega

end ErgoVerif.HsReader

package main

import (
	"ergo.services/ergo/lib"
	"fmt"
	"sort"
	"strings"
	"sync"
	"time"

	"ergo.services/ergo"
	"ergo.services/ergo/act"
	"ergo.services/ergo/gen"
)

// K4 for C08/C09: a REAL node, real act.Supervisor processes and instrumented children.  The glue the
// simulation copies (Supervisor.handleAction, the exit dispatch of ProcessRun, links both ways, exit delivery)
// is exercised here for real: scripted single-failure episodes, each followed by quiescence, are run on the node
// and on the simulation (c08sim.go, around the real state machine) and the visible outcome is compared:
// supervisor alive / final reason, which specs have a child, whose pid changed, order of starts, who was stopped
// (order too with KeepOrder).

type k4Ev struct {
	Kind   string // start, term, supterm
	Name   string
	PID    gen.PID
	Reason string
}

type k4Scenario struct {
	mu     sync.Mutex
	events []k4Ev
	spec   act.SupervisorSpec
}

func (sc *k4Scenario) add(e k4Ev) { sc.mu.Lock(); sc.events = append(sc.events, e); sc.mu.Unlock() }
func (sc *k4Scenario) snapshot() []k4Ev {
	sc.mu.Lock()
	defer sc.mu.Unlock()
	return append([]k4Ev(nil), sc.events...)
}

type k4Child struct {
	act.Actor
	sc   *k4Scenario
	name string
}

func k4ChildFactory() gen.ProcessBehavior { return &k4Child{} }

func (c *k4Child) Init(args ...any) error {
	c.sc = args[0].(*k4Scenario)
	c.name = args[1].(string)
	c.sc.add(k4Ev{"start", c.name, c.PID(), ""})
	return nil
}
func (c *k4Child) HandleMessage(from gen.PID, message any) error {
	if e, ok := message.(error); ok {
		return e
	}
	return nil
}
func (c *k4Child) Terminate(reason error) {
	// act.Actor wraps the reason of an exit signal as "<sender pid>: reason": report the innermost error
	c.sc.add(k4Ev{"term", c.name, c.PID(), supBase(supReasonS(reason))})
}

type k4Sup struct {
	act.Supervisor
	sc *k4Scenario
}

func k4SupFactory() gen.ProcessBehavior { return &k4Sup{} }

func (s *k4Sup) Init(args ...any) (act.SupervisorSpec, error) {
	s.sc = args[0].(*k4Scenario)
	return s.sc.spec, nil
}
type k4Start struct{ name gen.Atom }

// management calls have to be made from the supervisor's own callbacks
func (s *k4Sup) HandleMessage(from gen.PID, message any) error {
	if m, ok := message.(k4Start); ok {
		s.StartChild(m.name)
	}
	if m, ok := message.(k4Hold); ok {
		close(m.entered)
		select {
		case <-m.gate:
		case <-time.After(10 * time.Second):
		}
	}
	return nil
}

// k4Hold keeps the supervisor inside a callback until the gate opens
type k4Hold struct{ entered, gate chan struct{} }
func (s *k4Sup) Terminate(reason error) {
	s.sc.add(k4Ev{"supterm", "", s.PID(), supReasonS(reason)})
}

func k4Quiesce(sc *k4Scenario) []k4Ev {
	last := -1
	stable := 0
	for i := 0; i < 400; i++ {
		time.Sleep(3 * time.Millisecond)
		n := len(sc.snapshot())
		if n == last {
			stable++
			if stable >= 8 {
				break
			}
		} else {
			stable = 0
			last = n
		}
	}
	return sc.snapshot()
}

var k4Seq int

func runSupK4(c *Ctx) {
	r := c.R
	node, err := ergo.StartNode(gen.Atom(fmt.Sprintf("c08k4-%d@localhost", time.Now().UnixNano()%100000)),
		gen.NodeOptions{Log: gen.LogOptions{Level: gen.LogLevelDisabled}, Network: gen.NetworkOptions{Mode: gen.NetworkModeDisabled}})
	if err != nil {
		r.Note("K4 skipped: cannot start a node: %v", err)
		r.Count("k4.inconclusive")
		return
	}
	defer node.StopForce()
	k4WitnessD28(c, node)
	k4Simultaneous(c, node)
	n := c.N(40, 600)
	for it := 0; it < n; it++ {
		g := c.Rng.Fork()
		cfg := supRandCfg(g)

		cfg.K = 1 + g.Intn(2)
		cfg.Period = 5
		k4Seq++
		prefix := fmt.Sprintf("k%d_", k4Seq)
		sc := &k4Scenario{}
		sc.spec = act.SupervisorSpec{Type: map[string]act.SupervisorType{"ofo": act.SupervisorTypeOneForOne, "afo": act.SupervisorTypeAllForOne, "rfo": act.SupervisorTypeRestForOne, "sofo": act.SupervisorTypeSimpleOneForOne}[cfg.Kind],
			DisableAutoShutdown: cfg.DAS,
			Restart:             act.SupervisorRestart{Strategy: act.SupervisorStrategy(cfg.Strategy), Intensity: uint16(cfg.K), Period: uint16(cfg.Period), KeepOrder: cfg.KO}}
		nameOf := map[string]int{}
		for _, ch := range cfg.Children {
			nm := fmt.Sprintf("%sc%d", prefix, ch.Name)
			nameOf[nm] = ch.Name
			sc.spec.Children = append(sc.spec.Children, act.SupervisorChildSpec{Name: gen.Atom(nm), Significant: ch.Sig, Factory: k4ChildFactory, Args: []any{sc, nm}})
		}
		supPid, err := node.Spawn(k4SupFactory, gen.ProcessOptions{}, sc)
		if err != nil {
			r.Disagree("K4 supervisor start", fmt.Sprintf("%v: %v", cfg, err), cfg)
			return
		}
		sim := newSupSim(c, g, cfg)
		sim.smallGaps = true
		sim.initRun()
		if cfg.Kind == "sofo" {
			// one dynamic child per spec (so that the spec name identifies the child in the trace)
			for _, ch := range cfg.Children {
				node.Send(supPid, k4Start{gen.Atom(fmt.Sprintf("%sc%d", prefix, ch.Name))})
				sim.api("start", ch.Name, 0)
			}
		}
		k4Quiesce(sc)
		var script []string
		ok := true
		for ep := 0; ep < 2+g.Intn(4) && ok && sim.status == 0; ep++ {
			evs := sc.snapshot()
			alive := map[string]gen.PID{}
			for _, e := range evs {
				switch e.Kind {
				case "start":
					alive[e.Name] = e.PID
				case "term":
					delete(alive, e.Name)
				}
			}
			if len(alive) == 0 {
				break
			}
			names := make([]string, 0, len(alive))
			for nm := range alive {
				names = append(names, nm)
			}
			sort.Strings(names)
			victim := names[g.Intn(len(names))]
			reason := []string{"normal", "shutdown", "o1", "o2"}[g.Intn(4)]
			script = append(script, fmt.Sprintf("%s dies with %s", victim, reason))
			ev0 := len(evs)
			simEv0 := len(sim.events)
			node.Send(alive[victim], supReason(reason))
			sim.episodeSingleOn(nameOf[victim], reason, 1)
			after := k4Quiesce(sc)
			// ---- compare the visible outcome of the episode -----------------------------------
			var sStarts, sStops []string
			for _, e := range sim.events[simEv0:] {
				switch e.Kind {
				case "start":
					sStarts = append(sStarts, fmt.Sprintf("%sc%d", prefix, e.Name))
				case "exit":
					sStops = append(sStops, fmt.Sprintf("%sc%d:%s", prefix, e.Name, supBase(e.Reason)))
				}
			}
			simTerm := ""
			if sim.status == 1 {
				simTerm = "terminated:" + sim.final
			} else if sim.status == 2 {
				simTerm = "panicked"
			}
			nodeTerm := ""
			view := func(after []k4Ev) string {
				var nStarts, nStops []string
				nodeTerm = ""
				for _, e := range after[ev0:] {
					switch e.Kind {
					case "start":
						nStarts = append(nStarts, e.Name)
					case "term":
						if e.Name != victim {
							nStops = append(nStops, e.Name+":"+e.Reason)
						}
					case "supterm":
						nodeTerm = "terminated:" + e.Reason
					}
				}
				// Only the SET of stopped children is compared: the Terminate callback, where the trace entry is written,
				// runs after node.unregisterProcess has sent the exit signals (node/process.go), so the supervisor may already
				// have moved on to the next child (KeepOrder) when the entry of the previous one is recorded.
				sort.Strings(nStops)
				return fmt.Sprintf("starts=%v stops=%v sup=%q", nStarts, nStops, nodeTerm)
			}
			sort.Strings(sStops)
			simS := fmt.Sprintf("starts=%v stops=%v sup=%q", sStarts, sStops, simTerm)
			nodeS := view(after)
			for retry := 0; retry < 10 && nodeS != simS; retry++ {
				// not a verdict yet: the node may simply not be quiescent (loaded machine); wait and look again
				time.Sleep(500 * time.Millisecond)
				r.Count("k4.waited-again")
				nodeS = view(k4Quiesce(sc))
			}
			if strings.Contains(nodeTerm, "resource is taken") {
				// D28 (listed): the node delivered the child's exit signal before releasing its registered name;
				// the restart's SpawnRegister failed with gen.ErrTaken and the supervisor terminated with it.
				r.Count("k4.D28-name-still-taken")
				r.Violation("C08/D28-restart-name-taken", fmt.Sprintf("%v after %v: node %s", cfg, script, nodeS),
					map[string]interface{}{"config": cfg, "script": script})
				break
			}
			r.Case(fmt.Sprintf("k4/%v/%s", cfg, strings.Join(script, ";")), true)
			r.Count("k4.episodes")
			if nodeTerm != "" {
				r.Count("k4.supervisor-terminated")
			}
			if nodeS != simS {
				ok = false
				r.Disagree("K4 real node (act.Supervisor + instrumented children) ~ simulation around the real state machine",
					fmt.Sprintf("%v after %v: node %s, simulation %s", cfg, script, nodeS, simS), map[string]interface{}{"config": cfg, "script": script})
			}
			if it < 1 && ep < 2 {
				r.Sample(map[string]interface{}{"kind": "K4", "config": cfg, "script": append([]string(nil), script...), "node": nodeS})
			}
			if nodeTerm != "" {
				// the property itself, on the node: when the supervisor has terminated no child of it is left
				time.Sleep(5 * time.Millisecond)
				left := 0
				al := map[string]bool{}
				for _, e := range sc.snapshot() {
					if e.Kind == "start" {
						al[e.Name] = true
					} else if e.Kind == "term" {
						delete(al, e.Name)
					}
				}
				left = len(al)
				if left > 0 {
					r.Violation("C08/k4-children-left", fmt.Sprintf("%v after %v: supervisor terminated (%s) and %d children are still running", cfg, script, nodeTerm, left),
						map[string]interface{}{"config": cfg, "script": script})
				}
				break
			}
		}
		node.Kill(supPid)
		k4Quiesce(sc)
	}
}

// k4WitnessD28: deterministic replay of D28 on the real node.  node.unregisterProcess sends the exit signals
// (RouteTerminatePID) BEFORE it releases the registered name; the verif yield point between the two parks the dying
// child there, so the supervisor handles the exit while the name is still taken: the restart fails with gen.ErrTaken
// and the supervisor — a Permanent one-for-one with a single child — terminates with that error instead of restarting.
func k4WitnessD28(c *Ctx, node gen.Node) {
	r := c.R
	sc := &k4Scenario{}
	name := gen.Atom(fmt.Sprintf("d28_%d_c1", time.Now().UnixNano()%1000000))
	sc.spec = act.SupervisorSpec{Type: act.SupervisorTypeOneForOne,
		Restart:  act.SupervisorRestart{Strategy: act.SupervisorStrategyPermanent, Intensity: 5, Period: 5},
		Children: []act.SupervisorChildSpec{{Name: name, Factory: k4ChildFactory, Args: []any{sc, string(name)}}}}
	release := make(chan struct{})
	parked := make(chan struct{}, 1)
	lib.VerifHandler = func(obj any, label string) {
		if label != "unregister:exit-signals-sent" {
			return
		}
		if p, ok := obj.(interface{ Name() gen.Atom }); ok && p.Name() == name {
			select {
			case parked <- struct{}{}:
				select {
				case <-release:
				case <-time.After(3 * time.Second):
				}
			default: // only the first incarnation is parked
			}
		}
	}
	defer func() { lib.VerifHandler = nil }()
	supPid, err := node.Spawn(k4SupFactory, gen.ProcessOptions{}, sc)
	if err != nil {
		r.Note("D28 witness: cannot start the supervisor: %v", err)
		return
	}
	k4Quiesce(sc)
	var child gen.PID
	for _, e := range sc.snapshot() {
		if e.Kind == "start" {
			child = e.PID
		}
	}
	node.Send(child, supReason("o1"))
	select {
	case <-parked:
	case <-time.After(2 * time.Second):
		close(release)
		r.Count("k4.D28-witness-inconclusive")
		node.Kill(supPid)
		return
	}
	evs := k4Quiesce(sc) // the supervisor handles the exit while the child is parked before the name release
	close(release)
	term := ""
	for _, e := range evs {
		if e.Kind == "supterm" {
			term = e.Reason
		}
	}
	r.Count("witness.D28")
	r.Case("witness/D28", true)
	if strings.Contains(term, "resource is taken") {
		r.Violation("C08/D28-restart-name-taken",
			"Permanent one-for-one supervisor, child exits with an error, its exit signal is handled before node.unregisterProcess has released the registered name: the restart fails with 'resource is taken' and the supervisor terminates with that error",
			map[string]interface{}{"trace": fmt.Sprint(evs)})
	} else if term != "" {
		r.Note("D28 witness: supervisor terminated with %q", term)
	}
	node.Kill(supPid)
	k4Quiesce(sc)
}

// k4Simultaneous: two children are already dead when the supervisor handles the first of the two exit signals (it was
// busy in a callback meanwhile), and the strategy wants the second one stopped (all-for-one: any two; rest-for-one: the
// one that died first precedes the other). Stopping a child that is gone is not an error: the supervisor lives on and
// every spec gets a running child again. KeepOrder is off (with KeepOrder the listed D18/D25 findings apply).
func k4Simultaneous(c *Ctx, node gen.Node) {
	r := c.R
	n := c.N(4, 40)
	for it := 0; it < n; it++ {
		kind := []string{"afo", "rfo"}[it%2]
		nch := 3 + c.Rng.Intn(2)
		k4Seq++
		prefix := fmt.Sprintf("s%d_", k4Seq)
		sc := &k4Scenario{}
		sc.spec = act.SupervisorSpec{Type: map[string]act.SupervisorType{"afo": act.SupervisorTypeAllForOne, "rfo": act.SupervisorTypeRestForOne}[kind],
			Restart: act.SupervisorRestart{Strategy: act.SupervisorStrategyPermanent, Intensity: 10, Period: 5}}
		var names []string
		for i := 0; i < nch; i++ {
			nm := fmt.Sprintf("%sc%d", prefix, i)
			names = append(names, nm)
			sc.spec.Children = append(sc.spec.Children, act.SupervisorChildSpec{Name: gen.Atom(nm), Factory: k4ChildFactory, Args: []any{sc, nm}})
		}
		supPid, err := node.Spawn(k4SupFactory, gen.ProcessOptions{}, sc)
		if err != nil {
			r.Note("simultaneous deaths: cannot start the supervisor: %v", err)
			return
		}
		k4Quiesce(sc)
		first := map[string]gen.PID{}
		for _, e := range sc.snapshot() {
			if e.Kind == "start" {
				first[e.Name] = e.PID
			}
		}
		a := c.Rng.Intn(nch - 1)
		b := a + 1 + c.Rng.Intn(nch-1-a)
		reasons := []string{"o1", "o2", "normal", "shutdown"}
		ra, rb := reasons[c.Rng.Intn(4)], reasons[c.Rng.Intn(4)]
		h := k4Hold{make(chan struct{}), make(chan struct{})}
		node.Send(supPid, h)
		select {
		case <-h.entered:
		case <-time.After(5 * time.Second):
			close(h.gate)
			r.Count("k4.simultaneous-inconclusive")
			node.Kill(supPid)
			continue
		}
		// the earlier child dies first, then the later one; both are gone before the supervisor looks
		node.Send(first[names[a]], supReason(ra))
		waitUntil(3*time.Second, func() bool { _, e := node.ProcessInfo(first[names[a]]); return e != nil })
		node.Send(first[names[b]], supReason(rb))
		waitUntil(3*time.Second, func() bool { _, e := node.ProcessInfo(first[names[b]]); return e != nil })
		close(h.gate)
		// wait for the outcome: either the supervisor is gone or every spec has a running child again
		running := func() (map[string]gen.PID, string) {
			al := map[string]gen.PID{}
			term := ""
			for _, e := range sc.snapshot() {
				switch e.Kind {
				case "start":
					al[e.Name] = e.PID
				case "term":
					if al[e.Name] == e.PID {
						delete(al, e.Name)
					}
				case "supterm":
					term = e.Reason
				}
			}
			return al, term
		}
		waitUntil(10*time.Second, func() bool {
			al, term := running()
			if term != "" {
				return true
			}
			return len(al) == nch && al[names[a]] != first[names[a]] && al[names[b]] != first[names[b]]
		})
		k4Quiesce(sc)
		al, term := running()
		hist := fmt.Sprintf("%s supervisor (Permanent, intensity 10, KeepOrder off) with %d children; while it is inside a callback child %d dies with %q and then child %d dies with %q",
			kind, nch, a, ra, b, rb)
		r.Case(fmt.Sprintf("k4/simultaneous/%s/%d/%d:%s/%d:%s", kind, nch, a, ra, b, rb), true)
		r.Count("k4.simultaneous-deaths")
		switch {
		case term != "":
			r.Violation("C08/simultaneous-deaths", hist+": the supervisor terminated with "+term+" (no restart limit was reached, no significant child)",
				map[string]interface{}{"history": hist, "trace": fmt.Sprint(sc.snapshot())})
		case len(al) != nch || al[names[a]] == first[names[a]] || al[names[b]] == first[names[b]]:
			r.Violation("C08/simultaneous-deaths", fmt.Sprintf("%s: %d of %d specs have a running child afterwards", hist, len(al), nch),
				map[string]interface{}{"history": hist, "trace": fmt.Sprint(sc.snapshot())})
		}
		node.Kill(supPid)
		k4Quiesce(sc)
	}
}

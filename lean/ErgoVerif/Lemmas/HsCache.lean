import ErgoVerif.Model.HsCache
import ErgoVerif.Lemmas.Edf
namespace ErgoVerif.HsCache

/-- the receiver's decode cache inverts the sender's encode cache when both are built from the sender's table -/
theorem decode_encode {α : Type} [DecidableEq α] (tbl : List (Nat × α)) (hk : (tbl.map (·.1)).Nodup) (a : α) (k : Nat)
    (h : encodeCache tbl a = some k) : decodeCache tbl k = some a := by
  induction tbl with
  | nil => simp [encodeCache] at h
  | cons e es ih =>
    simp only [List.map_cons, List.nodup_cons] at hk
    simp only [encodeCache, List.find?_cons] at h
    simp only [decodeCache, List.find?_cons]
    by_cases hea : e.2 = a
    · simp [hea] at h
      simp [h, hea]
    · simp [hea] at h
      have h' : encodeCache es a = some k := by simpa [encodeCache] using h
      have hin : k ∈ es.map (·.1) := by
        simp only [encodeCache, Option.map_eq_some_iff] at h'
        obtain ⟨x, hx, rfl⟩ := h'
        exact List.mem_map.mpr ⟨x, List.mem_of_find?_eq_some hx, rfl⟩
      have hne : ¬ e.1 = k := by
        intro hc; rw [hc] at hk; exact hk.1 hin
      simp [hne]
      simpa [decodeCache] using ih hk.2 h'

end ErgoVerif.HsCache

import ErgoVerif.Lemmas.EdfTop
import ErgoVerif.Lemmas.EdfSafe
import ErgoVerif.Lemmas.EdfReenc2
import ErgoVerif.Lemmas.EdfDecGood3
import ErgoVerif.Lemmas.EdfFuel
import ErgoVerif.Model.EdfAlloc
import ErgoVerif.Props.C11
/-!
# C16 (EDF part) — hostile input safety of edf.Decode

The decoder model makes Go's partial operations explicit: `Res = ok | err | panic`, `panic` exactly at the
reflect panics a packet can trigger after the D4/D4b repairs (reflect.ArrayOf size overflow, reflect.MapOf on a
non-comparable key type, SetMapIndex with an unhashable dynamic key).  `decode = recover ∘ decodeRaw` is
edf.Decode with its deferred recover (lib.Recover() is true in the default build).

* termination: `decode` is a total function (Lean); `C16_fuel_stable`: the fuel only bounds the nesting depth — a value
  or panic answer never changes with more fuel; `C16_api_no_panic` / `C16_api_total`: at the API the outcome is a
  value or an error.
* `C16_no_panic_full` (the raw decoder never panics) is refuted by `C16_panic_arrayOf` / `C16_panic_unhashable_key`
  — both are recovered at the API; `C16_no_panic_partial`: panics are confined to interface-typed positions,
  `C16_panic_sources` locates them.
* allocation: `C16_alloc_full` (4 KiB per input byte + 64 KiB) is refuted by the 9-byte packet of D23
  (`C16_alloc_counterexample`, listed finding C16/edf-alloc-array); `C16_alloc_nested` is the quadratic nested-slice
  witness (D29, listed C16/edf-alloc-nested).  No linear bound is proved for the remaining inputs (the harness
  checks the bound on every packet of the malformed stream outside the listed regions).
* re-encoding: `C16_reencode_full` is refuted in the zero-width region (`C16_reencode_counterexample`, the same
  defect as C11/zero-width-elements); `C16_reencode_partial` holds outside it for EVERY decoded value (the
  canonical-form conditions are proved of decoded values: `dec_good`), `C16_reencode_of_good` is the version with
  `Good` as a hypothesis.
-/
namespace ErgoVerif.Props.C16
open ErgoVerif.Edf ErgoVerif.Generated.Edt ErgoVerif.Props.C11

/-- edf.Decode never lets a panic escape: its whole body runs under the deferred recover -/
theorem C16_api_no_panic (o : Opts) (fuel : Nat) (bs : Bytes) : decode o fuel bs ≠ .panic := by
  unfold decode recover
  split <;> simp_all

/-- … so for every byte string the outcome is a value (with the unread rest) or an error -/
theorem C16_api_total (o : Opts) (fuel : Nat) (bs : Bytes) :
    decode o fuel bs = .err ∨ ∃ x, decode o fuel bs = .ok x := by
  cases h : decode o fuel bs with
  | ok x => exact Or.inr ⟨x, rfl⟩
  | err => exact Or.inl rfl
  | panic => exact absurd h (C16_api_no_panic o fuel bs)

/-- Termination: the fuel of the model only bounds the nesting depth. Once the decoder has answered with a value or a
    panic, more fuel never changes the answer (only `err` can be an artefact of too little fuel; the driver runs with
    fuel = input length + registry depth, and the correspondence harness would see such an artefact as a disagreement). -/
theorem C16_fuel_stable (o : Opts) (f g : Nat) (h : f ≤ g) (bs : Bytes) :
    decodeRaw o f bs = .err ∨ decodeRaw o g bs = decodeRaw o f bs := by
  unfold decodeRaw
  cases hg : getDecoder o true bs with
  | err => left; rfl
  | panic => right; rfl
  | ok p =>
    obtain ⟨ot, r, dt⟩ := p
    cases ot with
    | none => right; rfl
    | some t =>
      simp only
      rcases dec_mono o f g h dt t r with h1 | h1
      · left; simp [h1]
      · right; rw [h1]

-- ------------------------------------------------------------------------------------------------
-- panics of the raw decoder
-- ------------------------------------------------------------------------------------------------

def C16_no_panic_full : Prop := ∀ (o : Opts) (fuel : Nat) (bs : Bytes), decodeRaw o fuel bs ≠ .panic

/-- edtType, fold = [2^32-1][2^32-1][2^32-1]uint8: reflect.ArrayOf panics ("array size would exceed virtual address space") -/
def pktArrayOf : Bytes := [130, 0, 16, 158, 255, 255, 255, 255, 158, 255, 255, 255, 255, 158, 255, 255, 255, 255, 151]

theorem C16_panic_arrayOf : decodeRaw o0 8 pktArrayOf = .panic ∧ decode o0 8 pktArrayOf = .err := by
  constructor <;> decide

/-- map[any]bool with one key holding a []uint8: SetMapIndex panics ("hash of unhashable type") -/
def pktUnhashable : Bytes := [130, 0, 3, 159, 132, 145, 159, 0, 0, 0, 1, 130, 0, 2, 157, 151, 255, 1]

theorem C16_panic_unhashable_key : decodeRaw o0 8 pktUnhashable = .panic ∧ decode o0 8 pktUnhashable = .err := by
  constructor <;> decide

theorem C16_no_panic_counterexample : ¬ C16_no_panic_full :=
  fun h => h o0 8 pktArrayOf C16_panic_arrayOf.1

/-- Panics are confined to interface-typed positions: on a statically panic-free type (`Ty.pf`: no `any`
    anywhere inside, every map key type free of interfaces) the raw decoder never panics, for any bytes, any fuel,
    any registry — no type descriptor is read and every decoded key is hashable. -/
theorem C16_no_panic_partial (o : Opts) (fuel : Nat) (dt : Bool) (t : Ty) (bs : Bytes) (h : t.pf = true) :
    dec o fuel dt t bs ≠ .panic :=
  (dec_pf o fuel dt t bs).1 h

/-- a panic of edf.Decode's body comes from unfolding the top-level descriptor (reflect.ArrayOf / reflect.MapOf)
    or from a top-level type that has an interface-typed position -/
theorem C16_panic_sources (o : Opts) (fuel : Nat) (bs : Bytes) (h : decodeRaw o fuel bs = .panic) :
    getDecoder o true bs = .panic ∨ ∃ t r dt, getDecoder o true bs = .ok (some t, r, dt) ∧ t.pf = false := by
  unfold decodeRaw at h
  split at h
  · simp at h
  · rename_i t r dt hg
    refine Or.inr ⟨t, r, dt, hg, ?_⟩
    cases hp : t.pf with
    | false => rfl
    | true =>
      have := C16_no_panic_partial o fuel dt t r hp
      split at h <;> simp_all
  · simp at h
  · exact Or.inl (by assumption)

/-- non-vacuity: the registered struct of `Props/C11` without its interface field is panic-free; with it, it is not -/
example : (Ty.struct pName (.cons .str (.cons (.slice (.num .i16)) .nil))).pf = true := by decide
example : pTy.pf = false := by decide
example : (Ty.map (.array 4 (.num .u8)) (.slice .str)).pf = true := by decide

-- ------------------------------------------------------------------------------------------------
-- allocation
-- ------------------------------------------------------------------------------------------------

/-- allocation proportional to the input: 4 KiB per input byte plus 64 KiB -/
def C16_alloc_full : Prop := ∀ (o : Opts) (fuel : Nat) (bs : Bytes), allocTop o fuel bs ≤ 4096 * bs.length + 65536

/-- D23: edtType, fold = [2^28]uint8 — nine bytes make reflect.New allocate 256 MiB (and the decode then fails with
    "end of data") -/
def pktD23 : Bytes := [130, 0, 6, 158, 16, 0, 0, 0, 151]

theorem C16_alloc_d23 : allocTop o0 8 pktD23 = 268435456 ∧ decode o0 8 pktD23 = .err := by
  constructor <;> decide

theorem C16_alloc_counterexample : ¬ C16_alloc_full := by
  intro h
  have := h o0 8 pktD23
  rw [C16_alloc_d23.1] at this
  simp [pktD23] at this

/-- D29: nested unnamed slices. The element-count check `n > len(packet)` bounds every level by the bytes that remain,
    so a descriptor `[][]…[]uint8` of depth d followed by d slice headers allocates about 60·d² bytes from 6·d
    bytes of input: depth 40 below (244 bytes → 93 624 bytes); the harness measures 65 MB for the 6 004-byte packet
    of depth 1000 (listed finding C16/edf-alloc-nested), which is beyond the bound of `C16_alloc_full`. -/
def pktNested40 : Bytes := [130, 0, 41, 157, 157, 157, 157, 157, 157, 157, 157, 157, 157, 157, 157, 157, 157, 157, 157, 157, 157, 157, 157, 157, 157, 157, 157, 157, 157, 157, 157, 157, 157, 157, 157, 157, 157, 157, 157, 157, 157, 157, 157, 151, 157, 0, 0, 0, 195, 157, 0, 0, 0, 190, 157, 0, 0, 0, 185, 157, 0, 0, 0, 180, 157, 0, 0, 0, 175, 157, 0, 0, 0, 170, 157, 0, 0, 0, 165, 157, 0, 0, 0, 160, 157, 0, 0, 0, 155, 157, 0, 0, 0, 150, 157, 0, 0, 0, 145, 157, 0, 0, 0, 140, 157, 0, 0, 0, 135, 157, 0, 0, 0, 130, 157, 0, 0, 0, 125, 157, 0, 0, 0, 120, 157, 0, 0, 0, 115, 157, 0, 0, 0, 110, 157, 0, 0, 0, 105, 157, 0, 0, 0, 100, 157, 0, 0, 0, 95, 157, 0, 0, 0, 90, 157, 0, 0, 0, 85, 157, 0, 0, 0, 80, 157, 0, 0, 0, 75, 157, 0, 0, 0, 70, 157, 0, 0, 0, 65, 157, 0, 0, 0, 60, 157, 0, 0, 0, 55, 157, 0, 0, 0, 50, 157, 0, 0, 0, 45, 157, 0, 0, 0, 40, 157, 0, 0, 0, 35, 157, 0, 0, 0, 30, 157, 0, 0, 0, 25, 157, 0, 0, 0, 20, 157, 0, 0, 0, 15, 157, 0, 0, 0, 10, 157, 0, 0, 0, 5, 157, 0, 0, 0, 1]

set_option maxRecDepth 100000 in
theorem C16_alloc_nested : allocTop o0 60 pktNested40 = 93624 ∧ pktNested40.length = 244 ∧ decode o0 60 pktNested40 = .err := by
  refine ⟨by decide, by decide, by decide⟩

-- ------------------------------------------------------------------------------------------------
-- a value that decodes re-encodes to bytes that decode to the same value
-- ------------------------------------------------------------------------------------------------

theorem o0_decside : DecSideOK o0 := by
  refine ⟨by simp [o0], by simp [o0], by simp [o0], ?_⟩
  intro nm t h
  simp only [o0] at h
  split at h
  · cases h; exact ⟨rfl, by simp [zsTy]⟩
  · split at h
    · cases h; exact ⟨rfl, by simp [pTy]⟩
    · simp at h

def C16_reencode_full : Prop :=
  ∀ (o : Opts) (fuel : Nat) (bs : Bytes) (t : Ty) (v : Val) (rest : Bytes), CachesConsistent o → DecSideOK o →
    bs.length < 4294967295 → decodeRaw o fuel bs = .ok (some (t, v), rest) →
    ∃ bs', encode o t v = some bs' ∧ decodeRaw o fuel bs' = .ok (some (t, v), [])

/-- `[1]ZS` followed by one more byte decodes (the packet is not empty when the array decoder starts); the value
    re-encodes to the descriptor alone, which no longer decodes (zero-width elements, the defect of C11/F2) -/
def pktZw : Bytes := [130, 0, 16, 158, 0, 0, 0, 1, 131, 0, 8, 0x23, 0x6d, 0x61, 0x69, 0x6e, 0x2f, 0x5a, 0x53, 0]

theorem C16_reencode_witness :
    decodeRaw o0 4 pktZw = .ok (some (.array 1 zsTy, .list (.cons (.list .nil) .nil)), [0]) ∧
    encode o0 (.array 1 zsTy) (.list (.cons (.list .nil) .nil)) = some (pktZw.take 19) ∧
    decodeRaw o0 4 (pktZw.take 19) = .err := by
  refine ⟨by decide, by decide, by decide⟩

theorem C16_reencode_counterexample : ¬ C16_reencode_full := by
  intro h
  obtain ⟨bs', h1, h2⟩ := h o0 4 pktZw _ _ _ o0_consistent o0_decside (by decide) C16_reencode_witness.1
  rw [C16_reencode_witness.2.1] at h1
  cases h1
  rw [C16_reencode_witness.2.2] at h2
  cases h2

/-- Outside the defect regions (`Good`, see `Props/C11`): whatever edf.Decode returns for a packet shorter than
    4 GiB can be encoded again, and those bytes decode to the same value of the same type with nothing left over. -/
theorem C16_reencode_of_good (o : Opts) (hc : CachesConsistent o) (hd : DecSideOK o) (fuel : Nat) (bs : Bytes)
    (t : Ty) (v : Val) (rest : Bytes) (hL : bs.length < 4294967295)
    (h : decodeRaw o fuel bs = .ok (some (t, v), rest))
    (hdesc : DescOK o t) (hl : (encTy o t).length < 65536) (hg : Good o t v) :
    ∃ bs', encode o t v = some bs' ∧ decodeRaw o fuel bs' = .ok (some (t, v), []) := by
  unfold decodeRaw at h
  split at h
  · simp at h
  · rename_i t0 r0 dt hgd
    obtain ⟨henc0, hlt⟩ := getDecoder_inv o hd true bs t0 r0 dt hgd
    split at h
    · rename_i v0 r1 hv
      simp at h
      obtain ⟨hn, rfl⟩ := h
      obtain ⟨hdep, _, he⟩ := dec_inv o hd fuel dt t0 r0 v0 r1 hv (by omega)
      -- (t, v) is the normalised top value; it is encodable, at a depth the fuel covers
      have key : (encode o t v).isSome = true ∧ v.depth ≤ fuel := by
        rcases topNorm_cases t0 v0 t v hn with ⟨rfl, rfl⟩ | ⟨h1, h2, rfl, rfl⟩
        · simp only [Val.depth] at hdep
          refine ⟨?_, by omega⟩
          have : encode o t v = encB o .any (.any t v) := by simp [encode, encB]
          rw [this]; exact he
        · refine ⟨?_, hdep⟩
          have h3 : (t == Ty.error && v == Val.nil) = false := by
            cases e1 : (t == Ty.error) <;> cases e2 : (v == Val.nil) <;> simp_all
          cases hb : encB o t v with
          | none => simp [hb] at he
          | some b => simp [encode, henc0, h1, h3, hb]
      obtain ⟨k1, k2⟩ := key
      cases hb : encode o t v with
      | none => simp [hb] at k1
      | some bs' =>
        refine ⟨bs', rfl, ?_⟩
        have := decodeRaw_encode o hc t v bs' [] fuel hb hdesc hl hg k2
        simpa using this
    · simp at h
    · simp at h
  · simp at h
  · simp at h

/-- non-vacuity of `C16_reencode_of_good`: the 26-byte encoding of `P{"hi", []int16{1,-1}, any([]string(nil))}` decodes,
    the decoded value satisfies the hypotheses, hence re-encodes and decodes again -/
example : ∃ bs', encode o0 pTy pVal = some bs' ∧ decodeRaw o0 5 bs' = .ok (some (pTy, pVal), []) :=
  C16_reencode_of_good o0 o0_consistent o0_decside 5
    [131, 0, 4, 0x23, 0x6d, 0x2f, 0x50, 0, 2, 0x68, 0x69, 157, 0, 0, 0, 2, 0, 1, 0xff, 0xff, 130, 0, 2, 157, 141, 255]
    pTy pVal [] (by decide) (by decide)
    (by simp [DescOK, pTy, RegOK, o0, pName, zsName]) (by decide)
    (by simp [pTy, pVal, Good, Goodf, Goods, LeafGood, DescOK, numCanon, lim32, Vals.length, Ty.nz, encTy])

/-- The strongest re-encoding statement for the current code, with no hypothesis about the decoded value other than
    the two decidable side conditions of `Side`: it lies outside the zero-width defect region, and the descriptors
    of its dynamic types fit the 16-bit length field when written again.  Everything else `Good` asks for is
    PROVED of every decoded value (`dec_good`): registered dynamic types, map keys distinct and hashable, lengths
    below 2^32, quiet float32 NaNs, atoms and sentinels the encoding side can express (`DecGoodOK`: the decode-side
    caches and mappings hand out only such atoms/errors — with identity mappings and caches built by the handshake
    this is the inverse direction of `CachesConsistent`). -/
theorem C16_reencode_partial (o : Opts) (hc : CachesConsistent o) (hd : DecSideOK o) (hg : DecGoodOK o) (fuel : Nat)
    (bs : Bytes) (t : Ty) (v : Val) (rest : Bytes) (hL : bs.length < 4294967295)
    (h : decodeRaw o fuel bs = .ok (some (t, v), rest))
    (hl : (encTy o t).length < 65536) (hs : Side o t v) :
    ∃ bs', encode o t v = some bs' ∧ decodeRaw o fuel bs' = .ok (some (t, v), []) := by
  have h' := h
  unfold decodeRaw at h'
  split at h'
  · simp at h'
  · rename_i t0 r0 dt hgd
    have hdesc0 := getDecoder_DescOK o hg true bs t0 r0 dt hgd
    split at h'
    · rename_i v0 r1 hv
      simp at h'
      obtain ⟨hn, _⟩ := h'
      rcases topNorm_cases t0 v0 t v hn with ⟨rfl, rfl⟩ | ⟨_, _, rfl, rfl⟩
      · have hgood := dec_good o hg fuel dt .any r0 (.any t v) r1 hv (by simp only [Side]; exact ⟨hl, hs⟩)
        simp only [Good] at hgood
        exact C16_reencode_of_good o hc hd fuel bs t v rest hL h hgood.1 hl hgood.2.2
      · have hgood := dec_good o hg fuel dt t r0 v r1 hv hs
        exact C16_reencode_of_good o hc hd fuel bs t v rest hL h hdesc0 hl hgood
    · simp at h'
    · simp at h'
  · simp at h'
  · simp at h'

theorem o0_decgood : DecGoodOK o0 := by
  refine ⟨?_, by simp [o0], by simp [o0], ?_⟩
  · intro a ha; simp [AtomOK, o0]; exact ha
  · intro nm t h
    simp only [o0] at h
    split at h
    · cases h; simp [DescOK, zsTy, RegOK, o0, Ty.closed, zsName]
    · split at h
      · cases h; simp [DescOK, pTy, RegOK, o0, Ty.closed, pName, zsName]
      · simp at h

/-- non-vacuity: the hypotheses hold for the packet of the previous example; `Side` is all that is asked of the value -/
example : Side o0 pTy pVal := by simp [pTy, pVal, Side, Sidef, Sides, Ty.nz, encTy, Vals.length]

end ErgoVerif.Props.C16

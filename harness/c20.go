package main

// C20 — cron. Shared pieces: the spec AST with its generator, printer and an independent
// denotational matcher (the property oracle, written against crontab rules on time.Time, not
// against masks), the civil-time generator (zones, month ends, leap days, DST days).
// K1 (this file): cronParseSpec / cronSpecMask.IsRunAt through the verif export against the
// model driver `cron`. K2 (c20_sched.go): the timer-less cron object against the driver `cronsched`.

import (
	"encoding/json"
	"fmt"
	"os"
	"sort"
	"strconv"
	"strings"
	"sync"
	"sync/atomic"
	"time"
	_ "time/tzdata"
	"unicode"

	"ergo.services/ergo/node"
)

func init() { props["C20"] = runC20 }

func runC20(c *Ctx) {
	c.R.Rule = "K1: (spec, instant) pairs — spec printed from a generated AST (lists 1..4, ranges/steps on the field bounds, L, wL, w#n, both/one/no day field restricted), " +
		"instant from 2024-2030 in 5 zones biased to month ends, leap days, DST transition days, with minute/hour/month drawn from the spec's own sets; " +
		"non-trivial = minute, hour and month match so that the day rule decides, distinct by (spec text, civil fields). " +
		"Parser stream: valid ASTs, ASTs invalid in exactly one place, character-level mutations, wrong field counts, macros. " +
		"K2: operation sequences on the real cron object (timer stopped, tick body run on demand); non-trivial = sequence in which at least one job was spooled"
	if c.Replay != "" {
		c20Replay(c)
		return
	}
	c20K1(c)
	for _, p := range c20parts {
		p(c)
	}
}

var c20parts []func(*Ctx)

// c20Replay re-executes a replay file written by ./check for a K1 case (spec [+ zone + time]); K2 replays carry
// the operation list for reading only, because the scenario is anchored on the wall clock it ran at
func c20Replay(c *Ctx) {
	r := c.R
	b, err := os.ReadFile(c.Replay)
	if err != nil {
		r.Disagree("replay", err.Error(), nil)
		return
	}
	var f struct {
		Signature string                 `json:"signature"`
		Replay    map[string]interface{} `json:"replay"`
	}
	if err := json.Unmarshal(b, &f); err != nil {
		r.Disagree("replay", err.Error(), nil)
		return
	}
	text, ok := f.Replay["spec"].(string)
	if !ok {
		r.Note("replay: no executable case in %s (K2 scenario or obligation); its operation list is in the file", c.Replay)
		fmt.Fprintln(os.Stderr, "replay: nothing executable in this file")
		return
	}
	impl, perr := c20parse(r, text)
	outs, err := Model("cron", []string{"parse " + c20text(text)})
	if err != nil {
		r.Disagree("cron.driver", err.Error(), nil)
		return
	}
	fmt.Fprintf(os.Stderr, "replay: spec %q: cronParseSpec error=%v, model: %s\n", text, perr, outs[0])
	if (perr != nil) != (outs[0] == "err") {
		r.Disagree("K1 compileText ~ cronParseSpec", fmt.Sprintf("text %q: model %q, implementation error %v", text, outs[0], perr), f.Replay)
	}
	zn, _ := f.Replay["zone"].(string)
	ts, _ := f.Replay["time"].(string)
	if perr != nil || ts == "" {
		return
	}
	loc := time.UTC
	if zn != "" {
		if l, err := time.LoadLocation(zn); err == nil {
			loc = l
		}
	}
	t, err := time.Parse(time.RFC3339, ts)
	if err != nil {
		r.Disagree("replay", err.Error(), nil)
		return
	}
	t = t.In(loc)
	got := impl.IsRunAt(t)
	mo, err := Model("cron", []string{fmt.Sprintf("at %s %s", c20text(text), c20civil(t))})
	if err != nil {
		r.Disagree("cron.driver", err.Error(), nil)
		return
	}
	fmt.Fprintf(os.Stderr, "replay: %q at %s: IsRunAt=%v, model <IsRunAt><denote>=%s\n", text, t.Format("2006-01-02 15:04 Mon MST"), got, mo[0])
	r.Case("replay", true)
	if len(mo[0]) == 2 {
		den := mo[0][1] == '1'
		if got != den {
			r.Violation(f.Signature, fmt.Sprintf("spec %q at %s: crontab rules (model denotation) say %v, IsRunAt says %v", text, t.Format(time.RFC3339), den, got), f.Replay)
		}
		if (mo[0][0] == '1') != got {
			r.Disagree("K1 specIsRunAt ~ cronSpecMask.IsRunAt", fmt.Sprintf("spec %q at %s: model %c, implementation %v", text, t.Format(time.RFC3339), mo[0][0], got), f.Replay)
		}
	}
}

// ---------------------------------------------------------------------------
// AST
// ---------------------------------------------------------------------------

const (
	c20itNum = iota
	c20itRange
	c20itRangeStep
	c20itStarStep
	c20itLast
	c20itLastW
	c20itNth
)

type c20Item struct {
	T       int
	A, B, S int
}

type c20Field struct {
	Star  bool
	Items []c20Item
}

type c20Spec struct{ F [5]c20Field } // minute hour day month weekday

var c20lo = [5]int{0, 0, 1, 1, 1}
var c20hi = [5]int{59, 23, 31, 12, 7}

func (it c20Item) String() string {
	switch it.T {
	case c20itNum:
		return strconv.Itoa(it.A)
	case c20itRange:
		return fmt.Sprintf("%d-%d", it.A, it.B)
	case c20itRangeStep:
		return fmt.Sprintf("%d-%d/%d", it.A, it.B, it.S)
	case c20itStarStep:
		return fmt.Sprintf("*/%d", it.S)
	case c20itLast:
		return "L"
	case c20itLastW:
		return fmt.Sprintf("%dL", it.A)
	default:
		return fmt.Sprintf("%d#%d", it.A, it.B)
	}
}

func (f c20Field) String() string {
	if f.Star {
		return "*"
	}
	var p []string
	for _, it := range f.Items {
		p = append(p, it.String())
	}
	return strings.Join(p, ",")
}

func (s c20Spec) String() string {
	var p []string
	for _, f := range s.F {
		p = append(p, f.String())
	}
	return strings.Join(p, " ")
}

// validity of the grammar, written from the documentation of the format (not from the model)
func (it c20Item) valid(k int) bool {
	lo, hi := c20lo[k], c20hi[k]
	in := func(v int) bool { return v >= lo && v <= hi }
	switch it.T {
	case c20itNum:
		return in(it.A)
	case c20itRange:
		return in(it.A) && in(it.B) && it.A <= it.B
	case c20itRangeStep:
		return k <= 2 && in(it.A) && in(it.B) && it.A <= it.B && it.S >= 1 && it.S <= hi
	case c20itStarStep:
		return k != 4 && it.S >= 1 && it.S <= hi
	case c20itLast:
		return k == 2
	case c20itLastW:
		return k == 4 && it.A >= 1 && it.A <= 7
	default:
		return k == 4 && it.A >= 1 && it.A <= 7 && it.B >= 1 && it.B <= 5
	}
}

func (s c20Spec) valid() bool {
	for k, f := range s.F {
		if f.Star {
			continue
		}
		if len(f.Items) == 0 {
			return false
		}
		for _, it := range f.Items {
			if !it.valid(k) {
				return false
			}
		}
	}
	return true
}

// boundary-biased value of field k
func c20val(r *Rng, k int) int {
	lo, hi := c20lo[k], c20hi[k]
	switch r.Intn(6) {
	case 0:
		return lo
	case 1:
		return hi
	case 2:
		return lo + 1
	case 3:
		return hi - 1
	default:
		return lo + r.Intn(hi-lo+1)
	}
}

func c20step(r *Rng, k int) int {
	hi := c20hi[k]
	switch r.Intn(6) {
	case 0:
		return 1
	case 1:
		return hi
	case 2:
		return 2
	default:
		return 1 + r.Intn(hi)
	}
}

func c20item(r *Rng, k int) c20Item {
	for {
		var it c20Item
		switch r.Intn(10) {
		case 0, 1, 2:
			it = c20Item{T: c20itNum, A: c20val(r, k)}
		case 3, 4:
			a, b := c20val(r, k), c20val(r, k)
			if a > b {
				a, b = b, a
			}
			it = c20Item{T: c20itRange, A: a, B: b}
		case 5:
			a, b := c20val(r, k), c20val(r, k)
			if a > b {
				a, b = b, a
			}
			it = c20Item{T: c20itRangeStep, A: a, B: b, S: c20step(r, k)}
		case 6:
			it = c20Item{T: c20itStarStep, S: c20step(r, k)}
		case 7:
			it = c20Item{T: c20itLast}
		case 8:
			it = c20Item{T: c20itLastW, A: 1 + r.Intn(7)}
		default:
			it = c20Item{T: c20itNth, A: 1 + r.Intn(7), B: 1 + r.Intn(5)}
		}
		if it.valid(k) {
			return it
		}
	}
}

func c20field(r *Rng, k int, starP int) c20Field {
	if r.Chance(starP, 100) {
		return c20Field{Star: true}
	}
	n := 1
	switch r.Intn(8) {
	case 0, 1, 2:
		n = 2
	case 3:
		n = 3
	case 4:
		n = 4
	}
	var f c20Field
	for i := 0; i < n; i++ {
		f.Items = append(f.Items, c20item(r, k))
	}
	return f
}

// a valid spec; the minute/hour/month fields are wildcards more often than the day fields so
// that the day rule is exercised
func c20spec(r *Rng) c20Spec {
	var s c20Spec
	s.F[0] = c20field(r, 0, 45)
	s.F[1] = c20field(r, 1, 45)
	s.F[3] = c20field(r, 3, 55)
	switch r.Intn(10) {
	case 0: // both wildcards
		s.F[2], s.F[4] = c20Field{Star: true}, c20Field{Star: true}
	case 1, 2, 3:
		s.F[2], s.F[4] = c20field(r, 2, 0), c20Field{Star: true}
	case 4, 5, 6:
		s.F[2], s.F[4] = c20Field{Star: true}, c20field(r, 4, 0)
	default:
		s.F[2], s.F[4] = c20field(r, 2, 0), c20field(r, 4, 0)
	}
	return s
}

// c20specAround adapts a generated spec so that its day fields sit on the boundaries around instant t:
// weekday items take t's weekday, w#n the occurrence of t's day (or a neighbour), day numbers t's day (or a neighbour)
func c20specAround(r *Rng, t time.Time) c20Spec {
	s := c20spec(r)
	wd := c20cronWd(t)
	occ := (t.Day()-1)/7 + 1
	clip := func(v, lo, hi int) int {
		if v < lo {
			return lo
		}
		if v > hi {
			return hi
		}
		return v
	}
	if !s.F[4].Star {
		for i := range s.F[4].Items {
			it := &s.F[4].Items[i]
			if r.Chance(2, 3) {
				switch it.T {
				case c20itNum, c20itLastW:
					it.A = wd
				case c20itNth:
					it.A = wd
					it.B = clip(occ+r.Intn(3)-1, 1, 5)
				}
			}
		}
	}
	if !s.F[2].Star {
		for i := range s.F[2].Items {
			it := &s.F[2].Items[i]
			if it.T == c20itNum && r.Chance(1, 2) {
				it.A = clip(t.Day()+r.Intn(3)-1, 1, 31)
			}
		}
	}
	return s
}

// c20force makes the weekday field (mode 0, 1) or the day field (mode 2) of s carry the special item that has its
// boundary at t: wL / w#n with t's weekday, L
func c20force(r *Rng, s c20Spec, t time.Time, mode int) c20Spec {
	wd := c20cronWd(t)
	put := func(f c20Field, it c20Item) c20Field {
		if f.Star || len(f.Items) == 0 {
			return c20Field{Items: []c20Item{it}}
		}
		items := append([]c20Item{}, f.Items...)
		items[r.Intn(len(items))] = it
		return c20Field{Items: items}
	}
	switch mode {
	case 0:
		s.F[4] = put(s.F[4], c20Item{T: c20itLastW, A: wd})
	case 1:
		occ := (t.Day()-1)/7 + 1 + r.Intn(3) - 1
		if occ < 1 {
			occ = 1
		}
		if occ > 5 {
			occ = 5
		}
		s.F[4] = put(s.F[4], c20Item{T: c20itNth, A: wd, B: occ})
	default:
		s.F[2] = put(s.F[2], c20Item{T: c20itLast})
	}
	if mode < 2 && r.Chance(1, 2) {
		s.F[2] = c20Field{Star: true} // the weekday field alone decides
	}
	return s
}

type c20anchor struct {
	zi   int
	t    time.Time
	kind string
}

// c20sweep enumerates the boundary instants the model's case splits point at: for every zone and every offset change
// 2024-2030 the nine days up to the change, in the first and the last hour of the day; for every month the days
// dim-7, dim-6, dim-1, dim and 1, in the first and the last hour of the day
func (z *c20zones) sweep(r *Rng) (dst []c20anchor, ends []c20anchor) {
	for zi, l := range z.loc {
		for _, tr := range z.dst[zi] {
			for k := 0; k <= 8; k++ {
				d := tr.In(l).AddDate(0, 0, -k)
				for _, h := range []int{0, 23} {
					dst = append(dst, c20anchor{zi, time.Date(d.Year(), d.Month(), d.Day(), h, r.Intn(60), 0, 0, l), "sweep-dst"})
				}
			}
		}
		for y := 2024; y <= 2030; y++ {
			for m := 1; m <= 12; m++ {
				dim := c20dim(time.Date(y, time.Month(m), 1, 0, 0, 0, 0, time.UTC))
				for _, d := range []int{dim - 7, dim - 6, dim - 1, dim, 1} {
					for _, h := range []int{0, 23} {
						ends = append(ends, c20anchor{zi, time.Date(y, time.Month(m), d, h, r.Intn(60), 0, 0, l), "sweep-month-end"})
					}
				}
			}
		}
	}
	return
}

// an AST invalid in exactly one place
func c20invalidSpec(r *Rng) (c20Spec, string) {
	for {
		s := c20spec(r)
		k := r.Intn(5)
		lo, hi := c20lo[k], c20hi[k]
		var it c20Item
		var why string
		switch r.Intn(11) {
		case 0:
			it, why = c20Item{T: c20itNum, A: hi + 1}, "value max+1"
		case 1:
			if lo == 0 {
				continue
			}
			it, why = c20Item{T: c20itNum, A: lo - 1}, "value min-1"
		case 2:
			a := lo + 1 + r.Intn(hi-lo)
			it, why = c20Item{T: c20itRange, A: a, B: a - 1}, "descending range"
		case 3:
			it, why = c20Item{T: c20itRange, A: c20val(r, k), B: hi + 1}, "range end max+1"
		case 4:
			it, why = c20Item{T: c20itStarStep, S: 0}, "step 0"
		case 5:
			it, why = c20Item{T: c20itStarStep, S: hi + 1}, "step max+1"
		case 6:
			it, why = c20Item{T: c20itRangeStep, A: lo, B: hi, S: []int{0, hi + 1}[r.Intn(2)]}, "range step out of bounds"
		case 7:
			it, why = c20Item{T: c20itLast}, "L outside the day field"
		case 8:
			it, why = c20Item{T: c20itLastW, A: []int{0, 8, 1 + r.Intn(7)}[r.Intn(3)]}, "wL outside the weekday field or w out of 1..7"
		case 9:
			it, why = c20Item{T: c20itNth, A: 1 + r.Intn(7), B: []int{0, 6, 1 + r.Intn(5)}[r.Intn(3)]}, "w#n outside the weekday field or n out of 1..5"
		default:
			it, why = c20Item{T: c20itRangeStep, A: lo, B: hi, S: 2}, "d-d/d in month or weekday"
		}
		if it.valid(k) {
			continue
		}
		f := s.F[k]
		if f.Star {
			f = c20Field{}
		}
		pos := r.Intn(len(f.Items) + 1)
		items := append([]c20Item{}, f.Items[:pos]...)
		items = append(items, it)
		items = append(items, f.Items[pos:]...)
		s.F[k] = c20Field{Items: items}
		return s, why
	}
}

// ---------------------------------------------------------------------------
// the property oracle: crontab rules on a time.Time (independent of masks and of the model)
// ---------------------------------------------------------------------------

func c20dim(t time.Time) int {
	y, m := t.Year(), t.Month()
	switch m {
	case time.February:
		if y%4 == 0 && (y%100 != 0 || y%400 == 0) {
			return 29
		}
		return 28
	case time.April, time.June, time.September, time.November:
		return 30
	}
	return 31
}

func c20cronWd(t time.Time) int {
	if t.Weekday() == time.Sunday {
		return 7
	}
	return int(t.Weekday())
}

func (it c20Item) matches(k int, t time.Time) bool {
	var v int
	switch k {
	case 0:
		v = t.Minute()
	case 1:
		v = t.Hour()
	case 2:
		v = t.Day()
	case 3:
		v = int(t.Month())
	default:
		v = c20cronWd(t)
	}
	switch it.T {
	case c20itNum:
		return v == it.A
	case c20itRange:
		return it.A <= v && v <= it.B
	case c20itRangeStep:
		return it.A <= v && v <= it.B && (v-it.A)%it.S == 0
	case c20itStarStep:
		return (v-c20lo[k])%it.S == 0
	case c20itLast:
		return t.Day() == c20dim(t)
	case c20itLastW:
		// the last weekday w of the month: no later day of this month has the same weekday
		return c20cronWd(t) == it.A && t.Day()+7 > c20dim(t)
	default:
		// the n-th weekday w of the month: n-1 earlier days of this month have the same weekday
		cnt := 0
		for d := t.Day() - 7; d >= 1; d -= 7 {
			cnt++
		}
		return c20cronWd(t) == it.A && cnt+1 == it.B
	}
}

func (f c20Field) matches(k int, t time.Time) bool {
	if f.Star {
		return true
	}
	for _, it := range f.Items {
		if it.matches(k, t) {
			return true
		}
	}
	return false
}

func (s c20Spec) matches(t time.Time) bool {
	if !s.F[0].matches(0, t) || !s.F[1].matches(1, t) || !s.F[3].matches(3, t) {
		return false
	}
	switch {
	case s.F[2].Star && s.F[4].Star:
		return true
	case s.F[2].Star:
		return s.F[4].matches(4, t)
	case s.F[4].Star:
		return s.F[2].matches(2, t)
	}
	return s.F[2].matches(2, t) || s.F[4].matches(4, t)
}

// values 0..hi the field accepts (for drawing matching instants)
func (f c20Field) values(k int) []int {
	var vs []int
	for v := c20lo[k]; v <= c20hi[k]; v++ {
		if f.Star {
			vs = append(vs, v)
			continue
		}
		for _, it := range f.Items {
			ok := false
			switch it.T {
			case c20itNum:
				ok = v == it.A
			case c20itRange:
				ok = it.A <= v && v <= it.B
			case c20itRangeStep:
				ok = it.A <= v && v <= it.B && (v-it.A)%it.S == 0
			case c20itStarStep:
				ok = (v-c20lo[k])%it.S == 0
			}
			if ok {
				vs = append(vs, v)
				break
			}
		}
	}
	return vs
}

// ---------------------------------------------------------------------------
// instants
// ---------------------------------------------------------------------------

var c20zoneNames = []string{"UTC", "Europe/Berlin", "America/New_York", "Australia/Lord_Howe", "Asia/Kolkata"}

type c20zones struct {
	loc []*time.Location
	dst [][]time.Time // per zone: instants (UTC) of offset changes 2024..2030
}

func c20loadZones() (*c20zones, error) {
	z := &c20zones{}
	for _, n := range c20zoneNames {
		l, err := time.LoadLocation(n)
		if err != nil {
			return nil, err
		}
		z.loc = append(z.loc, l)
		var tr []time.Time
		t := time.Date(2024, 1, 1, 0, 0, 0, 0, time.UTC)
		end := time.Date(2031, 1, 1, 0, 0, 0, 0, time.UTC)
		_, off := t.In(l).Zone()
		for t.Before(end) {
			n := t.Add(time.Hour)
			_, o2 := n.In(l).Zone()
			if o2 != off {
				// refine to the minute
				lo, hi := t, n
				for hi.Sub(lo) > time.Minute {
					mid := lo.Add(hi.Sub(lo) / 2).Truncate(time.Minute)
					_, om := mid.In(l).Zone()
					if om == off {
						lo = mid
					} else {
						hi = mid
					}
				}
				tr = append(tr, hi)
				off = o2
			}
			t = n
		}
		z.dst = append(z.dst, tr)
	}
	return z, nil
}

// instant picks a zone index and an instant (whole minute) with the stated bias
func (z *c20zones) instant(r *Rng) (int, time.Time, string) {
	zi := r.Intn(len(z.loc))
	l := z.loc[zi]
	y := 2024 + r.Intn(7)
	switch r.Intn(10) {
	case 0, 1, 2: // month end / start
		m := 1 + r.Intn(12)
		d := time.Date(y, time.Month(m)+1, 0, 0, 0, 0, 0, l).Day() // last day
		day := d - r.Intn(9)
		if r.Chance(1, 5) {
			day = 1 + r.Intn(2)
		}
		return zi, time.Date(y, time.Month(m), day, r.Intn(24), r.Intn(60), 0, 0, l), "month-end"
	case 3: // leap day region
		ly := []int{2024, 2028}[r.Intn(2)]
		if r.Chance(1, 3) {
			ly = y
		}
		return zi, time.Date(ly, 2, 22+r.Intn(9), r.Intn(24), r.Intn(60), 0, 0, l), "leap-day-region"
	case 4, 5, 6: // around a DST change of the zone: same day, the week before, the hour of the change
		if len(z.dst[zi]) == 0 {
			break
		}
		tr := z.dst[zi][r.Intn(len(z.dst[zi]))]
		switch r.Intn(6) {
		case 4, 5:
			// a day of the week before (or the day of) the change, in the first or last hour of the day
			d := tr.In(l).AddDate(0, 0, -r.Intn(9))
			return zi, time.Date(d.Year(), d.Month(), d.Day(), []int{0, 23}[r.Intn(2)], r.Intn(60), 0, 0, l), "dst-week-before-midnight"
		case 0:
			return zi, tr.Add(time.Duration(r.Intn(181)-90) * time.Minute).In(l), "dst-hour"
		case 1:
			return zi, tr.Add(-time.Duration(r.Intn(8*24*60)) * time.Minute).In(l), "dst-week-before"
		case 2:
			return zi, tr.Add(time.Duration(r.Intn(24*60)) * time.Minute).In(l), "dst-day-after"
		default:
			return zi, tr.Add(time.Duration(r.Intn(2*24*60)-24*60) * time.Minute).In(l), "dst-day"
		}
	}
	t := time.Date(y, time.Month(1+r.Intn(12)), 1+r.Intn(28), r.Intn(24), r.Intn(60), 0, 0, l)
	return zi, t, "uniform"
}

// steer moves the instant's minute/hour/month into the sets of the spec (keeping the day when possible)
func c20steer(r *Rng, s c20Spec, t time.Time) time.Time {
	l := t.Location()
	y, mo, d, h, mi := t.Year(), int(t.Month()), t.Day(), t.Hour(), t.Minute()
	has := func(vs []int, v int) bool {
		for _, x := range vs {
			if x == v {
				return true
			}
		}
		return false
	}
	if vs := s.F[0].values(0); len(vs) > 0 && !has(vs, mi) {
		mi = vs[r.Intn(len(vs))]
	}
	if vs := s.F[1].values(1); len(vs) > 0 && !has(vs, h) {
		h = vs[r.Intn(len(vs))]
	}
	if vs := s.F[3].values(3); len(vs) > 0 && !has(vs, mo) && r.Chance(2, 3) {
		// keep the position relative to the month end
		fromEnd := c20dim(t) - d
		mo = vs[r.Intn(len(vs))]
		nd := c20dim(time.Date(y, time.Month(mo), 1, 0, 0, 0, 0, time.UTC)) - fromEnd
		if nd >= 1 {
			d = nd
		}
	}
	return time.Date(y, time.Month(mo), d, h, mi, 0, 0, l)
}

func c20civil(t time.Time) string {
	return fmt.Sprintf("%d.%d.%d.%d.%d.%d", t.Year(), int(t.Month()), t.Day(), t.Hour(), t.Minute(), int(t.Weekday()))
}

func c20text(s string) string {
	rs := []rune(s)
	if len(rs) == 0 {
		return "-"
	}
	var sb strings.Builder
	for i, c := range rs {
		if i > 0 {
			sb.WriteByte(',')
		}
		sb.WriteString(strconv.Itoa(int(c)))
	}
	return sb.String()
}

func c20masks(xs []uint64) string {
	if len(xs) == 0 {
		return "-"
	}
	var p []string
	for _, x := range xs {
		p = append(p, strconv.FormatUint(x, 10))
	}
	return strings.Join(p, ",")
}

// ---------------------------------------------------------------------------
// K1
// ---------------------------------------------------------------------------

// c20parse calls cronParseSpec through the export; a panic inside it is reported, not propagated
func c20parse(r *Result, text string) (spec node.VerifCronSpec, err error) {
	defer func() {
		if p := recover(); p != nil {
			r.Violation("C20/parser-panic", fmt.Sprintf("cronParseSpec panicked on %q: %v", text, p), map[string]interface{}{"spec": text})
			err = fmt.Errorf("panic: %v", p)
		}
	}()
	return node.VerifCronParseSpec(text)
}

type c20k1case struct {
	spec  c20Spec
	text  string
	impl  node.VerifCronSpec
	zi    []int
	times []time.Time
}

func c20K1(c *Ctx) {
	r := c.R
	z, err := c20loadZones()
	if err != nil {
		r.Disagree("C20 zones", "time zone data unavailable: "+err.Error(), nil)
		return
	}
	for i, n := range c20zoneNames {
		r.CountN("zones.transitions."+n, len(z.dst[i]))
	}
	// ---- matcher: IsRunAt vs model vs oracle ---------------------------------
	nspec := c.N(1500, 120000)
	per := c.N(40, 64)
	var cases []c20k1case
	var lines []string
	// the boundary sweep: all offset-change anchors, and a sample (quick) or all (thorough) of the month-end anchors
	swDst, swEnds := z.sweep(c.Rng)
	sweep := swDst
	if c.Thorough() {
		sweep = append(sweep, swEnds...)
	} else {
		for i := 0; i < 1200; i++ {
			sweep = append(sweep, swEnds[c.Rng.Intn(len(swEnds))])
		}
	}
	r.CountN("k1.sweep-anchors", len(sweep))
	for i := 0; i < nspec+len(sweep); i++ {
		s := c20spec(c.Rng)
		var anchor time.Time
		anchorZi := -1
		per := per
		if i < len(sweep) {
			anchorZi, anchor = sweep[i].zi, sweep[i].t
			s = c20force(c.Rng, c20specAround(c.Rng, anchor), anchor, i%3)
			per = 4
		} else if i%2 == 0 {
			anchorZi, anchor, _ = z.instant(c.Rng)
			s = c20specAround(c.Rng, anchor)
			if c.Rng.Chance(1, 2) {
				s = c20force(c.Rng, s, anchor, c.Rng.Intn(3))
			}
		}
		text := s.String()
		impl, err := c20parse(r, text)
		if err != nil {
			r.Violation("C20/valid-spec-rejected", fmt.Sprintf("spec %q is inside the grammar but cronParseSpec returned %v", text, err), map[string]interface{}{"spec": text})
			continue
		}
		cs := c20k1case{spec: s, text: text, impl: impl}
		var civ []string
		for j := 0; j < per; j++ {
			zi, t, kind := z.instant(c.Rng)
			if anchorZi >= 0 && j < 12 {
				// the anchor, the same time of day a week / a day around it
				zi, kind = anchorZi, "anchored"
				t = anchor.AddDate(0, 0, []int{0, 0, 7, -7, 1, -1, 14, -14, 6, -6, 8, -8}[j])
			}
			if c.Rng.Chance(3, 4) || (anchorZi >= 0 && j < 4) {
				t = c20steer(c.Rng, s, t)
			}
			r.Count("instant." + kind)
			cs.zi = append(cs.zi, zi)
			cs.times = append(cs.times, t)
			civ = append(civ, c20civil(t))
		}
		cases = append(cases, cs)
		lines = append(lines, fmt.Sprintf("at %s %s", c20text(text), strings.Join(civ, ";")))
		if i%1999 == 0 {
			r.Sample(map[string]interface{}{"kind": "K1", "spec": text, "instants": []string{cs.times[0].Format(time.RFC3339), cs.times[1].Format(time.RFC3339)}})
		}
	}
	outs, err := ModelParallel("cron", lines, 8)
	if err != nil {
		r.Disagree("cron.driver", err.Error(), nil)
		return
	}
	for i, cs := range cases {
		got := strings.Fields(outs[i])
		if outs[i] == "err" || len(got) != len(cs.times) {
			r.Disagree("K1 parseSpec ~ cronParseSpec", fmt.Sprintf("spec %q: accepted by the implementation, model says %q", cs.text, outs[i]), map[string]interface{}{"spec": cs.text})
			continue
		}
		for j, t := range cs.times {
			implRun := cs.impl.IsRunAt(t)
			want := cs.spec.matches(t)
			mhm := cs.spec.F[0].matches(0, t) && cs.spec.F[1].matches(1, t) && cs.spec.F[3].matches(3, t)
			r.Case(cs.text+"@"+c20civil(t), mhm)
			if mhm {
				r.Count("k1.day-rule-decides")
			}
			if want {
				r.Count("k1.matches")
			}
			if implRun != want {
				r.Violation(c20sigIsRunAt(cs.spec, t), fmt.Sprintf("spec %q at %s (%s): crontab rules say %v, IsRunAt says %v", cs.text, t.Format("2006-01-02 15:04 Mon"), c20zoneNames[cs.zi[j]], want, implRun),
					map[string]interface{}{"spec": cs.text, "zone": c20zoneNames[cs.zi[j]], "time": t.Format(time.RFC3339)})
			}
			mrun, mden := got[j][0] == '1', got[j][1] == '1'
			if mrun != implRun {
				r.Disagree("K1 specIsRunAt ~ cronSpecMask.IsRunAt", fmt.Sprintf("spec %q at %s (%s): model %v, implementation %v", cs.text, t.Format(time.RFC3339), c20zoneNames[cs.zi[j]], mrun, implRun),
					map[string]interface{}{"spec": cs.text, "zone": c20zoneNames[cs.zi[j]], "time": t.Format(time.RFC3339), "civil": c20civil(t)})
			}
			if mden != want {
				r.Disagree("K1 Spec.denote ~ harness oracle", fmt.Sprintf("spec %q at %s: model denotation %v, oracle %v", cs.text, t.Format(time.RFC3339), mden, want),
					map[string]interface{}{"spec": cs.text, "civil": c20civil(t)})
			}
		}
	}
	c20K1Parser(c)
	c20K1Exhaustive(c, z)
}

// c20K1Exhaustive walks every minute of a span (quick: one year, one zone per spec; thorough: 2024-2030 in all five
// zones) for a few fixed and generated specs and compares IsRunAt with the AST oracle (the model is not in this
// loop; a disagreement here would also show as an oracle violation in the sampled part)
func c20K1Exhaustive(c *Ctx, z *c20zones) {
	r := c.R
	fixed := []string{"* * L * *", "0 0 * * 7L", "30 2 * * *", "15 9 * * 1#5,5#1", "0 12 29 2 *", "*/7 */5 1-31/3 */2 1-5", "59 23 31 12 7", "0 0 13 * 5"}
	var specs []c20Spec
	for _, t := range fixed {
		sp, ok := c20parseText(t)
		if ok {
			specs = append(specs, sp)
		}
	}
	for i := 0; i < c.N(2, 12); i++ {
		specs = append(specs, c20force(c.Rng, c20spec(c.Rng), time.Date(2026, 3, 31, 0, 0, 0, 0, time.UTC), i%3))
	}
	from, to := time.Date(2024, 1, 1, 0, 0, 0, 0, time.UTC), time.Date(2031, 1, 1, 0, 0, 0, 0, time.UTC)
	var total, matches int64
	var wg sync.WaitGroup
	sem := make(chan struct{}, 8)
	for si, sp := range specs {
		text := sp.String()
		impl, err := c20parse(r, text)
		if err != nil {
			r.Violation("C20/valid-spec-rejected", fmt.Sprintf("spec %q is inside the grammar but cronParseSpec returned %v", text, err), map[string]interface{}{"spec": text})
			continue
		}
		for zi, l := range z.loc {
			from, to := from, to
			if !c.Thorough() {
				// one zone and one year per spec
				if zi != si%len(z.loc) {
					continue
				}
				y := 2024 + (si*3)%7
				from, to = time.Date(y, 1, 1, 0, 0, 0, 0, time.UTC), time.Date(y+1, 1, 1, 0, 0, 0, 0, time.UTC)
			}
			wg.Add(1)
			sem <- struct{}{}
			go func(sp c20Spec, text string, zi int, l *time.Location, from, to time.Time) {
				defer wg.Done()
				defer func() { <-sem }()
				bad := 0
				var n, m int64
				for t := from; t.Before(to); t = t.Add(time.Minute) {
					tl := t.In(l)
					got, want := impl.IsRunAt(tl), sp.matches(tl)
					n++
					if want {
						m++
					}
					if got != want && bad < 3 {
						bad++
						r.Violation(c20sigIsRunAt(sp, tl), fmt.Sprintf("spec %q at %s (%s): crontab rules say %v, IsRunAt says %v", text, tl.Format("2006-01-02 15:04 Mon"), c20zoneNames[zi], want, got),
							map[string]interface{}{"spec": text, "zone": c20zoneNames[zi], "time": tl.Format(time.RFC3339)})
					}
				}
				atomic.AddInt64(&total, n)
				atomic.AddInt64(&matches, m)
			}(sp, text, zi, l, from, to)
		}
	}
	wg.Wait()
	r.CountN("k1.exhaustive.minutes", int(total))
	r.CountN("k1.exhaustive.matches", int(matches))
	r.mu.Lock()
	r.Evaluations += int(total)
	r.mu.Unlock()
}

// c20parseText reads the canonical text of a spec back into the harness AST (fixed specs of the exhaustive walk)
func c20parseText(text string) (c20Spec, bool) {
	var s c20Spec
	fs := strings.Fields(text)
	if len(fs) != 5 {
		return s, false
	}
	for k, f := range fs {
		if f == "*" {
			s.F[k] = c20Field{Star: true}
			continue
		}
		for _, o := range strings.Split(f, ",") {
			var it c20Item
			var a, b, st int
			switch {
			case o == "L":
				it = c20Item{T: c20itLast}
			case strings.HasSuffix(o, "L"):
				fmt.Sscanf(o, "%dL", &a)
				it = c20Item{T: c20itLastW, A: a}
			case strings.Contains(o, "#"):
				fmt.Sscanf(o, "%d#%d", &a, &b)
				it = c20Item{T: c20itNth, A: a, B: b}
			case strings.HasPrefix(o, "*/"):
				fmt.Sscanf(o, "*/%d", &st)
				it = c20Item{T: c20itStarStep, S: st}
			case strings.Contains(o, "/"):
				fmt.Sscanf(o, "%d-%d/%d", &a, &b, &st)
				it = c20Item{T: c20itRangeStep, A: a, B: b, S: st}
			case strings.Contains(o, "-"):
				fmt.Sscanf(o, "%d-%d", &a, &b)
				it = c20Item{T: c20itRange, A: a, B: b}
			default:
				fmt.Sscanf(o, "%d", &a)
				it = c20Item{T: c20itNum, A: a}
			}
			s.F[k].Items = append(s.F[k].Items, it)
		}
	}
	return s, s.valid() && s.String() == text
}

// c20sigIsRunAt classifies a matcher violation (signatures of listed findings would be matched here)
func c20sigIsRunAt(s c20Spec, t time.Time) string {
	return "C20/isrunat"
}

// ---- parser stream ------------------------------------------------------------

// c20inGrammar is a recognizer written from the description of the format (independent of the code's regexps and of the
// model): five white-space separated fields, each `*` or a comma list of d | d-d | d-d/d | */d | L | wL | w#n with the
// bounds of the field; the four macros stand for fixed specs
func c20inGrammar(text string) bool {
	switch text {
	case "@hourly", "@daily", "@monthly", "@weekly":
		return true
	}
	var fs []string
	cur := ""
	for _, c := range text {
		if unicode.IsSpace(c) {
			if cur != "" {
				fs = append(fs, cur)
				cur = ""
			}
			continue
		}
		cur += string(c)
	}
	if cur != "" {
		fs = append(fs, cur)
	}
	if len(fs) != 5 {
		return false
	}
	num := func(s string, lo, hi int) bool {
		if s == "" {
			return false
		}
		v := 0
		for _, c := range s {
			if c < '0' || c > '9' {
				return false
			}
			if v <= 1000 {
				v = v*10 + int(c-'0')
			}
		}
		return v >= lo && v <= hi
	}
	val := func(s string) int {
		v := 0
		for _, c := range s {
			if v <= 1000 {
				v = v*10 + int(c-'0')
			}
		}
		return v
	}
	for k, f := range fs {
		if f == "*" {
			continue
		}
		lo, hi := c20lo[k], c20hi[k]
		for _, o := range strings.Split(f, ",") {
			ok := false
			switch {
			case num(o, lo, hi):
				ok = true
			case o == "L":
				ok = k == 2
			case strings.HasPrefix(o, "*/"):
				ok = k != 4 && num(o[2:], 1, hi)
			case k == 4 && len(o) == 2 && o[1] == 'L':
				ok = o[0] >= '1' && o[0] <= '7'
			case k == 4 && len(o) == 3 && o[1] == '#':
				ok = o[0] >= '1' && o[0] <= '7' && o[2] >= '1' && o[2] <= '5'
			default:
				p := strings.SplitN(o, "-", 2)
				if len(p) != 2 || !num(p[0], lo, hi) {
					break
				}
				q := strings.SplitN(p[1], "/", 2)
				if !num(q[0], lo, hi) || val(p[0]) > val(q[0]) {
					break
				}
				ok = len(q) == 1 || (k <= 2 && num(q[1], 1, hi))
			}
			if !ok {
				return false
			}
		}
	}
	return true
}

func c20K1Parser(c *Ctx) {
	r := c.R
	type pcase struct {
		text  string
		valid int // 1 valid AST, 0 invalid AST, -1 unknown (mutation)
		why   string
	}
	var pc []pcase
	n := c.N(1500, 150000)
	for i := 0; i < n; i++ {
		s := c20spec(c.Rng)
		pc = append(pc, pcase{s.String(), 1, "valid"})
	}
	for i := 0; i < n; i++ {
		s, why := c20invalidSpec(c.Rng)
		pc = append(pc, pcase{s.String(), 0, why})
	}
	// non-canonical but valid text: leading zeros, several blanks, tabs, surrounding blanks
	for i := 0; i < n/4; i++ {
		s := c20spec(c.Rng)
		var p []string
		for _, f := range s.F {
			ft := f.String()
			if c.Rng.Chance(1, 3) && len(ft) > 0 && ft[0] >= '0' && ft[0] <= '9' {
				ft = strings.Repeat("0", 1+c.Rng.Intn(3)) + ft
			}
			p = append(p, ft)
		}
		seps := []string{" ", "  ", "\t", " \t ", "\n", " ", " "}
		var sb strings.Builder
		if c.Rng.Chance(1, 3) {
			sb.WriteString(seps[c.Rng.Intn(len(seps))])
		}
		for k, f := range p {
			if k > 0 {
				sb.WriteString(seps[c.Rng.Intn(len(seps))])
			}
			sb.WriteString(f)
		}
		if c.Rng.Chance(1, 3) {
			sb.WriteString(seps[c.Rng.Intn(len(seps))])
		}
		// a leading zero on a one-character weekday item (`01L`) leaves the grammar: weekday field untouched above only if digit-initial
		txt := sb.String()
		pc = append(pc, pcase{txt, -1, "noncanonical"})
	}
	// character-level mutations of valid text
	alphabet := []rune("*/-,#L0123456789 \t@lx+.")
	for i := 0; i < n; i++ {
		rs := []rune(c20spec(c.Rng).String())
		for k := 1 + c.Rng.Intn(2); k > 0 && len(rs) > 0; k-- {
			p := c.Rng.Intn(len(rs))
			switch c.Rng.Intn(3) {
			case 0:
				rs[p] = alphabet[c.Rng.Intn(len(alphabet))]
			case 1:
				rs = append(rs[:p], rs[p+1:]...)
			default:
				rs = append(rs[:p], append([]rune{alphabet[c.Rng.Intn(len(alphabet))]}, rs[p:]...)...)
			}
		}
		pc = append(pc, pcase{string(rs), -1, "mutation"})
	}
	// field counts, macros, long numbers
	fixed := []string{"", " ", "*", "* * * *", "* * * * * *", "@hourly", "@daily", "@monthly", "@weekly", "@yearly", "@daily ", " @daily", "@Daily",
		"@daily * * * *", "* * * * @daily", "1 1 1 1 1", "0 0 1 1 7", "59 23 31 12 7", "60 * * * *", "* 24 * * *", "* * 32 * *", "* * 0 * *", "* * * 13 *", "* * * 0 *",
		"* * * * 0", "* * * * 8", "*/60 * * * *", "*/59 * * * *", "* * * * */2", "* * * 1-6/2 *", "* * * * 1-5/2", "* * L * *", "* * 1L * *", "L * * * *", "* * * * L",
		"* * * * 7L", "* * * * 0L", "* * * * 8L", "* * * * 1#5", "* * * * 1#6", "* * * * 1#0", "* * * * 8#1", "*,1 * * * *", "1,* * * * *", "*,* * * * *", "1,,2 * * * *",
		",1 * * * *", "1, * * * *", "00000000000000000000000000000000001 * * * *", "99999999999999999999999999 * * * *", "18446744073709551616 * * * *",
		"1-18446744073709551617 * * * *", "+1 * * * *", "-1 * * * *", "1-2-3 * * * *", "1/2 * * * *", "1-2/3/4 * * * *", "*/ * * * *", "/5 * * * *", "*/*/5 * * * *",
		"5-5 * * * *", "5-4 * * * *", "0-59/59 * * * *", "0-59/60 * * * *", "0-59/0 * * * *", "* * 1-31/31 * *", "* * */31 * *", "* * */32 * *", "* * * */12 *", "* * * */13 *",
		"1 1 1 1 1#1,7L", "* * L,1 * *", "* * L,L * *", "* * * * 1L,2L,3#3", "٣ * * * *", "1 * * * *", "* * * * 1l", "* * l * *"}
	for _, f := range fixed {
		pc = append(pc, pcase{f, -1, "fixed"})
	}
	var lines []string
	for _, p := range pc {
		lines = append(lines, "parse "+c20text(p.text))
	}
	outs, err := ModelParallel("cron", lines, 8)
	if err != nil {
		r.Disagree("cron.driver", err.Error(), nil)
		return
	}
	for i, p := range pc {
		impl, ierr := c20parse(r, p.text)
		r.Case("parse:"+p.text, p.valid != 1)
		r.Count("parser." + p.why)
		if ierr == nil {
			r.Count("parser.accepted")
		} else {
			r.Count("parser.rejected")
		}
		if p.valid == 1 && ierr != nil {
			r.Violation("C20/valid-spec-rejected", fmt.Sprintf("spec %q is inside the grammar but cronParseSpec returned %v", p.text, ierr), map[string]interface{}{"spec": p.text})
		}
		if p.valid == 0 && ierr == nil {
			r.Violation("C20/malformed-spec-accepted", fmt.Sprintf("spec %q (%s) is outside the grammar but cronParseSpec accepted it", p.text, p.why), map[string]interface{}{"spec": p.text})
		}
		// every text, whatever stream it came from: the recognizer written from the format description
		if g := c20inGrammar(p.text); g != (ierr == nil) {
			if g {
				r.Violation("C20/valid-spec-rejected", fmt.Sprintf("text %q (%s) is inside the grammar but cronParseSpec returned %v", p.text, p.why, ierr), map[string]interface{}{"spec": p.text})
			} else {
				r.Violation("C20/malformed-spec-accepted", fmt.Sprintf("text %q (%s) is outside the grammar but cronParseSpec accepted it", p.text, p.why), map[string]interface{}{"spec": p.text})
			}
		} else if p.valid == -1 {
			if g {
				r.Count("parser.unlabelled-in-grammar")
			} else {
				r.Count("parser.unlabelled-outside-grammar")
			}
		}
		var want string
		if ierr != nil {
			want = "err"
		} else {
			m := impl.Masks()
			want = fmt.Sprintf("ok %s %s %s", c20masks(m.MinHourMonth), c20masks(m.Day), c20masks(m.WeekDay))
		}
		got := outs[i]
		if strings.HasPrefix(got, "ok ") {
			f := strings.Fields(got)
			if len(f) == 6 {
				got = strings.Join(f[:4], " ")
				if f[5] != "1" {
					r.Disagree("K1 parseSpec yields a valid AST", fmt.Sprintf("text %q: the model parser produced an AST outside Spec.valid", p.text), map[string]interface{}{"spec": p.text})
				}
			}
		}
		if got != want {
			r.Disagree("K1 compileText ~ cronParseSpec", fmt.Sprintf("text %q (%s): model %q, implementation %q", p.text, p.why, got, want), map[string]interface{}{"spec": p.text})
		}
		if i%997 == 0 {
			r.Sample(map[string]interface{}{"kind": "K1-parse", "text": p.text, "impl": want})
		}
	}
	_ = sort.Strings
}

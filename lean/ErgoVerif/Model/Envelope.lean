/-
Model of the last stage of every send and of the compressed receive case:

  net/proto/connection.go  (c *connection) send()          — compression threshold, envelope, size check
                                                               before the write, write of the whole frame
  lib/compress.go          CompressGZIP/ZLIB/LZW            — `preallocate` header bytes, 4-byte unpacked length, data
  net/proto/connection.go  handleRecvQueue, case protoMessageZ — `skipBytes`, compression id at B[8]
  lib/compress.go          DecompressGZIP/ZLIB/LZW, decompress — declared length, mismatch detection

The compressors themselves are abstract: `comp`/`decomp` are parameters, and the only thing the
theorems assume about them is the round-trip hypothesis `decomp t (comp t b) = some b`.
Constants (9 header bytes, type byte 200, strictness of the comparisons) come from Generated/Proto.lean.
Core Lean only; no proofs here.
-/
import ErgoVerif.Model.Frame
namespace ErgoVerif.Envelope
open ErgoVerif.Generated.Proto ErgoVerif.Frame

/-- gen.Compression as far as send() looks at it (`ctype` = CompressionType.ID() after defaulting to gzip) -/
structure Comp where
  enable    : Bool
  threshold : Int     -- Go `int`; negative values are legal and mean "always"
  ctype     : Nat
deriving Repr

/-- abstract compressor / decompressor, indexed by the compression id -/
structure Codec where
  comp   : Nat → Bytes → Bytes
  decomp : Nat → Bytes → Option Bytes

/-- `compression.Enable && buf.Len() > compression.Threshold` (strictness as extracted) -/
def wantsZ (c : Comp) (frame : Bytes) : Bool :=
  c.enable && (if zStrictThreshold then decide ((frame.length : Int) > c.threshold)
               else decide ((frame.length : Int) ≥ c.threshold))

/-- the envelope send() builds around a compressed frame:
    magic, version, total length, the ORIGINAL order byte, type Z, compression id, unpacked length, data -/
def envelope (cd : Codec) (t : Nat) (frame : Bytes) : Bytes :=
  let z := cd.comp t frame
  let total := zPreallocate + 4 + z.length
  beBytes 1 protoMagic ++ beBytes 1 protoVersion ++ beBytes 4 total ++
    [frame.getD 6 0] ++ beBytes 1 zTypeByte ++ beBytes 1 t ++ beBytes 4 frame.length ++ z

/-- what send() puts on the wire for a frame: `none` = ErrTooLarge, nothing written -/
def send (cd : Codec) (peerMax : Nat) (c : Comp) (frame : Bytes) : Option Bytes :=
  let out := if wantsZ c frame then envelope cd c.ctype frame else frame
  if sendChecksMax && decide (peerMax > 0 ∧ out.length > peerMax) then none else some out

/-- the writers that compare with peer_maxmessagesize before building the header (Kind.earlyMax) refuse
    on the PLAIN length, the others only in send() on the wire length -/
def sendKind (cd : Codec) (k : Kind) (peerMax : Nat) (c : Comp) (m : Msg) : Option Bytes :=
  let frame := encode k m
  if k.earlyMax && decide (peerMax > 0 ∧ frame.length > peerMax) then none
  else send cd peerMax (if k.compress then c else ⟨false, 0, 0⟩) frame

/-- receive case protoMessageZ: `none` = logged and ignored -/
def openEnvelope (cd : Codec) (f : Bytes) : Option Bytes :=
  if f.length < 10 then none
  else if f.length < zSkipBytes + 4 then none           -- Decompress*: "too short source buffer"
  else
    let t := (f.getD 8 0).toNat
    let declared := beVal ((f.drop zSkipBytes).take 4)
    match cd.decomp t (f.drop (zSkipBytes + 4)) with
    | none => none
    | some b => if b.length = declared then some b else none   -- "unpacked size mismatch"

/-- allocation measure of the compressed receive case: Decompress* does `dst.Allocate(lenUnpacked)` with the
    DECLARED length before a single byte is unpacked (for LZW before anything else is looked at) -/
def openAlloc (f : Bytes) : Nat :=
  if f.length < 10 then 0
  else if f.length < zSkipBytes + 4 then 0
  else beVal ((f.drop zSkipBytes).take 4)

/-- the proportionality budget used by the harness monitor: 16 bytes per input byte plus 32 MiB -/
def allocBudget (inputLen : Nat) : Nat := 16 * inputLen + 32 * 2 ^ 20

end ErgoVerif.Envelope

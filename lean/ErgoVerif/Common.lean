/-
Shared definitions for all models: the fold of a partial step function over a
list of labels, reachability, and a few list helpers.  Core Lean only.
-/
namespace ErgoVerif

/-- run a partial step function over a list of labels -/
def run {σ : Type} {l : Type} (step : σ → l → Option σ) : σ → List l → Option σ
  | s, [] => some s
  | s, a :: as => match step s a with
    | none => none
    | some s' => run step s' as

theorem run_append {σ l : Type} (step : σ → l → Option σ) (s : σ) (xs ys : List l) :
    run step s (xs ++ ys) = (run step s xs).bind (fun s' => run step s' ys) := by
  induction xs generalizing s with
  | nil => simp [run]
  | cons a as ih =>
    simp only [List.cons_append, run]
    cases step s a with
    | none => simp
    | some s' => simpa using ih s'

/-- an invariant preserved by every enabled step holds after every run -/
theorem run_inv {σ l : Type} {step : σ → l → Option σ} {Inv : σ → Prop}
    (hstep : ∀ s a s', Inv s → step s a = some s' → Inv s')
    {s : σ} (h0 : Inv s) {ls : List l} {s' : σ} (hr : run step s ls = some s') : Inv s' := by
  induction ls generalizing s with
  | nil => simp [run] at hr; subst hr; exact h0
  | cons a as ih =>
    simp only [run] at hr
    cases hs : step s a with
    | none => simp [hs] at hr
    | some s1 =>
      simp [hs] at hr
      exact ih (hstep s a s1 h0 hs) hr

/-- total step functions: fold with outputs -/
def runOut {σ ι ο : Type} (step : σ → ι → σ × ο) : σ → List ι → σ × List ο
  | s, [] => (s, [])
  | s, a :: as =>
    let r := step s a
    let rest := runOut step r.1 as
    (rest.1, r.2 :: rest.2)

end ErgoVerif

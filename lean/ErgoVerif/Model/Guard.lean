import ErgoVerif.Generated.Guard
/-!
Model of the head of every exported `*connection` method (net/proto/connection.go): the statements in
front of the incarnation guard and the guard itself.  `call` returns the verdict and the number of
statements that were executed before it (each of them could take a buffer or write a byte; the
generated table says there are none: `guardIndex = 0`).
-/
namespace ErgoVerif.GuardModel
open ErgoVerif.Gen.Guard

inductive Res | errIncarnation | proceeds deriving DecidableEq, Repr

/-- `identCreation` is the Creation field of the addressed identifier, `peerCreation` = c.peer_creation,
    `localCreation` = c.core.Creation() -/
def call (r : Row) (identCreation peerCreation localCreation : Nat) : Res × Nat :=
  if r.guard = 1 then
    (if identCreation ≠ peerCreation then .errIncarnation else .proceeds, r.guardIndex)
  else if r.guard = 2 then
    (if identCreation ≠ localCreation then .errIncarnation else .proceeds, r.guardIndex)
  else (.proceeds, r.guardIndex)

/-- what the property demands of a row: a method that addresses an identifier with a creation stamp
    checks it first of all — against the peer's incarnation when the identifier lives on the peer,
    against the own incarnation for the Terminate* frames (their subject lives on the sending node) -/
def WellGuarded (r : Row) : Bool :=
  r.ptype == "" || (r.guardIndex == 0 && (if r.localSubject then r.guard == 2 else r.guard == 1))

end ErgoVerif.GuardModel

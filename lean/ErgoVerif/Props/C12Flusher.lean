import ErgoVerif.Model.Flusher
import ErgoVerif.Generated.Flusher
/-!
# C12 / C13 — the byte stream of a connection is the frames in the order they were written

Every frame of the inter-node protocol is handed to `lib.flusher.Write` in one call. The stream theorems say what the
socket gets, for every sequence of writes, timer runs and late timer runs, any buffer size and any frame sizes:

* `flusher_stream`      — bytes given to the socket ++ bytes still buffered = the accepted writes (and keep-alives),
                          concatenated in the order they were accepted: nothing lost, duplicated, reordered or split by
                          another frame
* `flusher_no_stranded` — whenever bytes are buffered a flush is pending and a timer run is scheduled
* `flusher_fire_flushes`— the scheduled run leaves the buffer empty
* `flusher_keepalive_at_boundary` — a keep-alive is only written when the buffer is empty, i.e. never inside a frame
* `bufWrite_bound`      — the buffer never holds more than its size
-/
namespace ErgoVerif.Props.C12Flusher
open ErgoVerif.Flusher

theorem bufWrite_stream (cap : Nat) (buf : List Nat) (out : List (List Nat)) (p : List Nat) :
    (bufWrite cap buf out p).2.flatten ++ (bufWrite cap buf out p).1 = out.flatten ++ buf ++ p := by
  unfold bufWrite
  split
  · simp
  · split
    · next h => subst h; simp
    · simp only
      split
      · simp [List.append_assoc]
      · simp [List.append_assoc]

theorem bufFlush_stream (buf : List Nat) (out : List (List Nat)) :
    (bufFlush buf out).2.flatten ++ (bufFlush buf out).1 = out.flatten ++ buf := by
  unfold bufFlush
  split
  · next h => subst h; simp
  · simp

theorem bufFlush_empty (buf : List Nat) (out : List (List Nat)) : (bufFlush buf out).1 = [] := by
  unfold bufFlush; split <;> rfl

theorem bufWrite_bound (cap : Nat) (buf : List Nat) (out : List (List Nat)) (p : List Nat)
    (h : buf.length ≤ cap) : (bufWrite cap buf out p).1.length ≤ cap := by
  unfold bufWrite
  split
  · next h1 => simp; omega
  · split
    · simp
    · simp only
      split
      · next h3 => exact h3
      · simp

structure Inv (s : St) : Prop where
  stream : s.sent ++ s.buf = s.log.flatten
  pend : s.buf ≠ [] → s.pending = true
  arm : s.pending = true → s.armed = true

theorem inv_init : Inv init := ⟨by simp [init, St.sent], by simp [init], by simp [init]⟩

theorem callback_inv (cap : Nat) (ka : Option (List Nat)) (s : St)
    (hs : s.sent ++ s.buf = s.log.flatten) (hp : s.buf ≠ [] → s.pending = true) : Inv (callback cap ka s) := by
  unfold callback
  split
  · refine ⟨?_, ?_, ?_⟩
    · simp only [St.sent]; rw [bufFlush_stream]; exact hs
    · intro h; exact absurd (bufFlush_empty _ _) h
    · intro h; simp at h
  · next hpn =>
    cases ka with
    | none => exact ⟨hs, hp, fun h => absurd h hpn⟩
    | some k =>
      refine ⟨?_, ?_, ?_⟩
      · simp only [St.sent]; rw [bufFlush_stream, bufWrite_stream]
        simp only [St.sent] at hs
        simp [← hs, List.append_assoc]
      · intro h; exact absurd (bufFlush_empty _ _) h
      · intro _; rfl

theorem step_inv (cap : Nat) (ka : Option (List Nat)) (s : St) (e : Ev) (h : Inv s) : Inv (step cap ka s e) := by
  cases e with
  | write p =>
    refine ⟨?_, fun _ => rfl, ?_⟩
    · simp only [step, St.sent]; rw [bufWrite_stream]
      have := h.stream; simp only [St.sent] at this
      simp [← this, List.append_assoc]
    · intro _
      simp only [step]
      cases hp : s.pending
      · simp
      · simp [h.arm hp]
  | fire =>
    simp only [step]
    split
    · exact callback_inv cap ka _ h.stream h.pend
    · exact h
  | stale => exact callback_inv cap ka s h.stream h.pend

theorem run_inv (cap : Nat) (ka : Option (List Nat)) (s : St) (tr : List Ev) (h : Inv s) : Inv (run cap ka s tr) := by
  induction tr generalizing s with
  | nil => exact h
  | cons e es ih => exact ih _ (step_inv cap ka s e h)

/-- what the socket got, followed by what is still buffered, is exactly the accepted writes (and keep-alives) in order -/
theorem flusher_stream (cap : Nat) (ka : Option (List Nat)) (tr : List Ev) :
    (run cap ka init tr).sent ++ (run cap ka init tr).buf = (run cap ka init tr).log.flatten :=
  (run_inv cap ka init tr inv_init).stream

/-- buffered bytes are never stranded: a flush is pending and a run of the timer callback is scheduled -/
theorem flusher_no_stranded (cap : Nat) (ka : Option (List Nat)) (tr : List Ev)
    (h : (run cap ka init tr).buf ≠ []) :
    (run cap ka init tr).pending = true ∧ (run cap ka init tr).armed = true :=
  have i := run_inv cap ka init tr inv_init
  ⟨i.pend h, i.arm (i.pend h)⟩

/-- and that run empties the buffer: after it, everything accepted so far has been given to the socket -/
theorem flusher_fire_flushes (cap : Nat) (ka : Option (List Nat)) (tr : List Ev)
    (h : (run cap ka init tr).buf ≠ []) :
    (step cap ka (run cap ka init tr) .fire).buf = [] ∧
    (step cap ka (run cap ka init tr) .fire).sent = (run cap ka init tr).log.flatten := by
  have i := run_inv cap ka init tr inv_init
  have hp := i.pend h
  have ha := i.arm hp
  have hb : (step cap ka (run cap ka init tr) .fire).buf = [] := by
    simp only [step, ha, if_true, callback, hp]; exact bufFlush_empty _ _
  refine ⟨hb, ?_⟩
  have j := (step_inv cap ka _ .fire i).stream
  rw [hb, List.append_nil] at j
  rw [j]
  simp only [step, ha, if_true, callback, hp]

/-- a keep-alive is written only when nothing is buffered: it never lands inside a frame, whatever the buffer size -/
theorem flusher_keepalive_at_boundary (cap : Nat) (k : List Nat) (tr : List Ev) (e : Ev)
    (he : e = .fire ∨ e = .stale)
    (hk : (step cap (some k) (run cap (some k) init tr) e).log ≠ (run cap (some k) init tr).log) :
    (run cap (some k) init tr).buf = [] := by
  have i := run_inv cap (some k) init tr inv_init
  cases hb : (run cap (some k) init tr).buf with
  | nil => rfl
  | cons x xs =>
    exfalso
    have hp := i.pend (by rw [hb]; simp)
    apply hk
    rcases he with he | he <;> subst he
    · simp only [step]
      split
      · simp [callback, hp]
      · rfl
    · simp [step, callback, hp]

/-- the buffer never exceeds its size -/
theorem flusher_buf_bound (cap : Nat) (ka : Option (List Nat)) (tr : List Ev) :
    (run cap ka init tr).buf.length ≤ cap := by
  suffices h : ∀ s : St, s.buf.length ≤ cap → (run cap ka s tr).buf.length ≤ cap from h init (by simp [init])
  induction tr with
  | nil => intro s h; exact h
  | cons e es ih =>
    intro s h
    apply ih
    cases e with
    | write p => exact bufWrite_bound cap _ _ _ h
    | fire =>
      simp only [step]
      split
      · unfold callback; split
        · simp [bufFlush_empty]
        · cases ka <;> simp [bufFlush_empty, h]
      · exact h
    | stale =>
      simp only [step]; unfold callback; split
      · simp [bufFlush_empty]
      · cases ka <;> simp [bufFlush_empty, h]

/-- the code as it is: `Write` writes only into the bufio writer, marks pending and arms the timer; both timer callbacks
    flush, clear pending and re-arm (regenerated facts) -/
theorem flusher_code_shape :
    ErgoVerif.Gen.Flusher.writeTargets = ["f.writer"] ∧ ErgoVerif.Gen.Flusher.writeArmsTimer = true ∧
    ErgoVerif.Gen.Flusher.callbacksFlushAndRearm = 2 ∧ ErgoVerif.Gen.Flusher.callbacks = 2 ∧
    ErgoVerif.Gen.Flusher.underLock = true := by
  decide

def expectedWriteShape : String :=
  "f.Lock(); defer f.Unlock(); l:=len(); for {n,e:=f.writer.Write(); if e != nil {return}; l-=n; if l > 0 {continue}; break}; if f.pending {return}; f.pending=true; f.timer.Reset(); return"
def expectedKeepAliveCallback : String :=
  "NewFlusherWithKeepAlive: f.Lock(); defer f.Unlock(); if f.pending == false {f.writer.Write(); if err:=f.writer.Flush(); err != nil {return}; f.timer.Reset(); return}; f.writer.Flush(); f.pending=false; f.timer.Reset()"
def expectedCallback : String :=
  "NewFlusher: f.Lock(); defer f.Unlock(); if f.pending == false {return}; f.writer.Flush(); f.pending=false; f.timer.Reset()"

/-- the statement skeletons of `Write` and of the two callbacks are the ones `step` and `callback` transcribe -/
theorem flusher_code_skeleton :
    ErgoVerif.Gen.Flusher.writeShape = expectedWriteShape ∧
    ErgoVerif.Gen.Flusher.callbackShapes = [expectedKeepAliveCallback, expectedCallback] :=
  ⟨rfl, rfl⟩

/-! non-vacuity: a frame larger than the buffer behind a small buffered one -/
example : (run 4 none init [.write [1, 2], .write [3, 4, 5, 6, 7, 8, 9], .fire]).out = [[1, 2, 3, 4], [5, 6, 7, 8, 9]] := by decide
example : (run 4 (some [0]) init [.fire, .write [1], .stale]).out = [[0], [1]] := by decide

end ErgoVerif.Props.C12Flusher
